#!/usr/bin/env python3
"""Orchestrator: ./check.py <Cxx> --tier quick|thorough [--replay file]
exit 0 = property held on everything explored; exit 1 + `VIOLATION property=<id> replay=<path>`."""
import argparse, importlib, os, sys, time, traceback
sys.path.insert(0, os.path.dirname(os.path.abspath(__file__)))
from vlib import core


class Ctx:
    def __init__(self, pid, tier, seed, replay):
        self.pid, self.tier, self.seed, self.replay = pid, tier, seed, replay
        self.known = core.known_findings(pid)
        self.known_hit = []

    def finding(self, key, text, replay_obj):
        """A property failure on a concrete input. Listed in known_findings.txt => report and go on;
        otherwise it is a violation."""
        for k, t in self.known:
            if k == key:
                if key not in self.known_hit:
                    self.known_hit.append(key)
                    print("KNOWN-FINDING: property=%s %s" % (self.pid, t))
                return
        rp = core.write_replay(self.pid, "violation-" + key, replay_obj)
        raise core.Violation(text, rp)


def main():
    ap = argparse.ArgumentParser()
    ap.add_argument("pid")
    ap.add_argument("--tier", default=os.environ.get("VERIF_TIER", "quick"), choices=["quick", "thorough"])
    ap.add_argument("--replay", default=None)
    a = ap.parse_args()
    os.environ["VERIF_TIER"] = a.tier
    seed = int(os.environ.get("VERIF_SEED", "1"))
    pid = a.pid.upper()
    mod = importlib.import_module("checks." + pid.lower())
    ctx = Ctx(pid, a.tier, seed, a.replay)
    t0 = time.time()
    level = getattr(mod, "LEVEL", "proof")
    cov = {}
    try:
        cov = mod.run(ctx)
        core.write_evidence(pid, a.tier, seed, level, cov, time.time() - t0, 0, getattr(mod, "ASSUMPTIONS", None))
        print("OK property=%s tier=%s seed=%d wall=%.1fs" % (pid, a.tier, seed, time.time() - t0))
        return 0
    except core.Violation as v:
        cov = getattr(v, "coverage", None) or cov or {"obligations": 1, "discharged": 0, "checker_cmd": "lake build", "trusted_base": core.TRUSTED_BASE,
                                                      "evaluations": 1, "distinct_nontrivial": 0, "explanation": v.msg}
        core.write_evidence(pid, a.tier, seed, level, cov, time.time() - t0, 1)
        print(v.msg)
        print("VIOLATION property=%s replay=%s%s" % (pid, v.replay, " no-failing-input-found" if v.no_input else ""))
        return 1
    except __import__("subprocess").TimeoutExpired as t:
        # a harness that did not finish: the real code (or the model) loops on some generated case
        rp = core.write_replay(pid, "timeout", {"broken": "a harness did not terminate within its time limit", "cmd": [str(x) for x in (t.cmd if isinstance(t.cmd, (list, tuple)) else [t.cmd])],
                                                "limit_s": t.timeout, "seed": seed, "tier": a.tier, "stdout_tail": (t.stdout or b"")[-2000:].decode("utf-8", "replace") if isinstance(t.stdout, bytes) else str(t.stdout or "")[-2000:]})
        core.write_evidence(pid, a.tier, seed, level, {"obligations": 1, "discharged": 0, "checker_cmd": "harness", "trusted_base": core.TRUSTED_BASE,
                                                      "evaluations": 1, "distinct_nontrivial": 0, "explanation": "timeout: %s" % str(t)[:500]}, time.time() - t0, 1)
        print("a harness did not terminate within %s s: %s" % (t.timeout, str(t.cmd)[:300]))
        print("VIOLATION property=%s replay=%s" % (pid, rp))
        return 1
    except core.BuildBroken as b:
        rp = core.write_replay(pid, "tie-broken-build", {"broken": "the correspondence harness no longer builds against /repo", "detail": str(b)})
        core.write_evidence(pid, a.tier, seed, level, {"obligations": 1, "discharged": 0, "checker_cmd": "build", "trusted_base": core.TRUSTED_BASE,
                                                      "evaluations": 1, "distinct_nontrivial": 0, "explanation": str(b)[:2000]}, time.time() - t0, 1)
        print(str(b)[-3000:])
        print("VIOLATION property=%s replay=%s no-failing-input-found" % (pid, rp))
        return 1


if __name__ == "__main__":
    sys.exit(main())
