"""Shared by checks/c07.py and checks/c08.py: run an export harness (harness/progs.h programs),
give the verdict of the verified `mesh checkmerge` checker on every real export, report the
property-oracle failures (all of them, known findings first), then the model correspondence."""
import os, re
from . import core, cases, libs

SECTIONS = ["runIndex", "runOriginalID", "runFlags", "runTransform", "faceID", "triVerts", "vertPos", "vertProp", "mergeFrom", "mergeTo", "tangent"]


def build_and_run(ctx, name, n):
    """Build libmanifold + the harness from the current tree and run it.  With `--replay file` the seed and
    program count recorded in the replay are used and only the recorded case is kept."""
    only = None
    if ctx.replay:
        import json
        d = json.load(open(ctx.replay))
        ctx.seed = int(d.get("seed", ctx.seed))
        m = re.search(r" (\d+)\s+# case", d.get("replay_cmd", ""))
        if m:
            n = int(m.group(1))
        only = str(d.get("case", "")).split()[0] if d.get("case") else None
    libs.build("ser")
    exe = core.compile_harness(name, [os.path.join(core.ROOT, "harness", name + ".cpp")],
                               libs.cxx_flags("ser") + ["-Wno-deprecated-declarations"], libs=libs.link_flags("ser"))
    cs, stats = cases.run_case_harness(ctx, exe, [n])
    if only is not None:
        cs = [c for c in cs if c["tag"].split()[0] == only]
    for c in cs:
        c["harness"] = name
        c["replay_cmd"] = "VERIF_SEED=%d %s %d   # case %s" % (ctx.seed, exe, n, c["tag"].split()[0])
    return cs, stats


def kind(c):
    w = c["tag"].split()
    return w[1] if len(w) > 1 else "case"


def finding_key(c):
    """stable key of a property-oracle failure: the words before the first ':' when the oracle gave one
    (e.g. `nonfinite-tangents`), else the first words of the message with the numbers removed"""
    msg = c["prop"].split(" ", 1)[-1]
    m = re.match(r"([a-z][a-z0-9-]+):", msg)
    if m:
        return m.group(1)
    words = [w for w in re.sub(r"[0-9.eE+-]{3,}|\d+", "", msg).split() if w.isalpha()][:6]
    return "-".join(words).lower()[:60] or "oracle"


def diff_sections(model, impl):
    a, b = model.split(" | "), impl.split(" | ")
    if len(a) != len(b):
        return ["section-count"]
    return [SECTIONS[i] if i < len(SECTIONS) else str(i) for i, (x, y) in enumerate(zip(a, b)) if x.strip() != y.strip()]


def report_findings(ctx, cs, what, priority=()):
    """Property-oracle failures on the real code.  Known findings are printed and skipped; every other
    failure gets a replay file; the check then stops with the highest-priority one."""
    unknown = []
    for c in cs:
        if c["prop"].startswith("ok"):
            continue
        key = finding_key(c)
        text = "property oracle failed on %s: %s" % (core.clip(c["tag"], 240), c["prop"])
        known = [t for k, t in ctx.known if k == key]
        if known:
            if key not in ctx.known_hit:
                ctx.known_hit.append(key)
                print("KNOWN-FINDING: property=%s %s" % (ctx.pid, known[0]))
            c["known"] = key
            c["prop"] = "ok (known finding %s: %s)" % (key, c["prop"])
            continue
        unknown.append((key, text, c))
    if not unknown:
        return
    def rank(u):
        for i, p in enumerate(priority):
            if p in u[1]:
                return i
        return len(priority)
    unknown.sort(key=rank)
    seen, first = set(), None
    for key, text, c in unknown:
        if key in seen:
            continue
        seen.add(key)
        rp = core.write_replay(ctx.pid, "violation-" + key, {
            "what": what, "case": c["tag"], "oracle": c["prop"], "seed": ctx.seed, "tier": ctx.tier, "harness": c["harness"],
            "replay_cmd": c["replay_cmd"], "program": c["tag"].split("::", 1)[-1].strip(),
            "request": c["req"], "implementation": c["exp"],
            "same_failure_on": [u[2]["tag"].split()[0] for u in unknown if u[0] == key][:40]})
        print("FINDING key=%s replay=%s %s" % (key, rp, text))
        if first is None:
            first = (text, rp)
    raise core.Violation(first[0], first[1])


def checkmerge(ctx, cs):
    """(a) of the C07/C08 oracles: the verified checker's verdict on the real exported triangles read
    through the real merge vectors must be `ok`, with the genus and edge count the library reports."""
    cm = [c for c in cs if kind(c) == "checkmerge"]
    ans = core.driver_run([c["req"] for c in cm])
    bad = [(c, a) for c, a in zip(cm, ans) if a.strip() != c["exp"].strip()]
    for c, a in bad[:1]:
        rp = core.write_replay(ctx.pid, "violation-checkmerge", {
            "what": "mesh checkmerge (MV.C01a.checkMeshEx_iff) on the real GetMeshGL64 triangles and merge vectors", "case": c["tag"],
            "checker_says": a, "library_says": c["exp"], "seed": ctx.seed, "replay_cmd": c["replay_cmd"], "request": c["req"],
            "failing_cases": [x[0]["tag"] for x in bad][:40]})
        raise core.Violation("exported mesh read through its merge vectors is not the closed 2-manifold the library reports: checker `%s`, library `%s` (%s)"
                             % (a, c["exp"], c["tag"]), rp)
    return len(cm)


def pinned_search(ctx, c):
    """On a model/implementation disagreement: if the implementation agrees with the PINNED tangent model
    (tangents in internal order) the disagreement is the known defect, and the case is a failing input."""
    if not c["req"].startswith("export all "):
        return None
    a = core.driver_run([c["req"].replace("export all ", "export allpinned ", 1)])[0]
    if a.strip() == c["exp"].strip():
        return {"what": "GetMeshGLImpl exports halfedgeTangent in INTERNAL triangle order while triVerts/faceID are sorted into runs "
                        "(matches model `exportTangentsPinned`, violates theorem MV.C08.tangent_follows_triangle)",
                "case": c["tag"], "seed": ctx.seed, "replay_cmd": c.get("replay_cmd"), "request": c["req"], "implementation": c["exp"], "model_fixed": c["model"]}
    return None
