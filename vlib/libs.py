"""Library build variants, all compiled from /repo's CURRENT working tree with -DMANIFOLD_VERIF
into persistent ninja directories under /verif/build/<variant> (incremental)."""
import os
from . import core

VT = os.path.join(core.ROOT, "harness", "vtbb")
VARIANTS = {
    # name: (cmake flags, cxx flags)
    "ser": (["-DMANIFOLD_PAR=OFF"], ["-DMANIFOLD_VERIF", "-O2", "-g1"]),
    "par": (["-DMANIFOLD_PAR=ON"], ["-DMANIFOLD_VERIF", "-O2", "-g1"]),
    "vtbb": (["-DMANIFOLD_PAR=ON"], ["-DMANIFOLD_VERIF", "-DMANIFOLD_VTBB", "-O1", "-g1", "-I" + VT]),
    "san": (["-DMANIFOLD_PAR=OFF"], ["-DMANIFOLD_VERIF", "-O1", "-g", "-fsanitize=address,undefined", "-fno-sanitize-recover=all", "-fno-omit-frame-pointer"]),
    "tsan": (["-DMANIFOLD_PAR=ON"], ["-DMANIFOLD_VERIF", "-O1", "-g", "-fsanitize=thread"]),
}


def build(variant):
    cm, cx = VARIANTS[variant]
    return core.cmake_variant(variant, cm + ["-DMANIFOLD_CBIND=ON", "-DMANIFOLD_CROSS_SECTION=ON"], cx)


def link_flags(variant, cbind=False):
    b = os.path.join(core.BUILD, variant)
    fl = []
    if cbind:
        fl += [os.path.join(b, "bindings", "c", "libmanifoldc.a")]
    fl += [os.path.join(b, "src", "libmanifold.a")]
    if variant in ("par", "tsan", "vtbb"):
        fl += ["-ltbb"]
    fl += ["-pthread"]
    return fl


def cxx_flags(variant):
    return list(VARIANTS[variant][1]) + (["-DMANIFOLD_PAR=1"] if variant in ("par", "tsan", "vtbb") else ["-DMANIFOLD_PAR=-1"])


def source_fingerprint():
    """Hash of the library sources (paths, sizes, mtimes): lets a check that needs several variants
    make sure they were all built from the same state of /repo."""
    import hashlib
    h = hashlib.sha1()
    for top in ("src", "include", "bindings/c"):
        for dp, _, fs in sorted(os.walk(os.path.join(core.REPO, top))):
            for f in sorted(fs):
                st = os.stat(os.path.join(dp, f))
                h.update(("%s/%s:%d:%d;" % (dp, f, st.st_size, st.st_mtime_ns)).encode())
    return h.hexdigest()


def build_consistent(variants, tries=3):
    for _ in range(tries):
        fp = source_fingerprint()
        for v in variants:
            build(v)
        if source_fingerprint() == fp:
            return fp
    raise core.BuildBroken("the sources under %s kept changing while the variants %s were being built" % (core.REPO, variants))
