"""Library build variants, all compiled from /repo's CURRENT working tree with -DMANIFOLD_VERIF
into persistent ninja directories under /verif/build/<variant> (incremental)."""
import os
from . import core

VT = os.path.join(core.ROOT, "harness", "vtbb")
VARIANTS = {
    # name: (cmake flags, cxx flags)
    "ser": (["-DMANIFOLD_PAR=OFF"], ["-DMANIFOLD_VERIF", "-O2", "-g1"]),
    "par": (["-DMANIFOLD_PAR=ON"], ["-DMANIFOLD_VERIF", "-O2", "-g1"]),
    "vtbb": (["-DMANIFOLD_PAR=ON"], ["-DMANIFOLD_VERIF", "-DMANIFOLD_VTBB", "-O1", "-g1", "-I" + VT]),
    "san": (["-DMANIFOLD_PAR=OFF"], ["-DMANIFOLD_VERIF", "-O1", "-g", "-fsanitize=address,undefined", "-fno-sanitize-recover=all", "-fno-omit-frame-pointer"]),
    "tsan": (["-DMANIFOLD_PAR=ON"], ["-DMANIFOLD_VERIF", "-O1", "-g", "-fsanitize=thread"]),
}


def build(variant):
    cm, cx = VARIANTS[variant]
    return core.cmake_variant(variant, cm + ["-DMANIFOLD_CBIND=ON", "-DMANIFOLD_CROSS_SECTION=ON"], cx)


def link_flags(variant, cbind=False):
    b = os.path.join(core.BUILD, variant)
    fl = []
    if cbind:
        fl += [os.path.join(b, "bindings", "c", "libmanifoldc.a")]
    fl += [os.path.join(b, "src", "libmanifold.a")]
    if variant in ("par", "tsan", "vtbb"):
        fl += ["-ltbb"]
    fl += ["-pthread"]
    return fl


def cxx_flags(variant):
    return list(VARIANTS[variant][1]) + (["-DMANIFOLD_PAR=1"] if variant in ("par", "tsan", "vtbb") else ["-DMANIFOLD_PAR=-1"])
