"""Generic 'run harness -> pipe REQ lines to the Lean driver -> diff -> property verdicts' gate."""
import collections, os, time
from . import core


def run_case_harness(ctx, exe, args, env=None, timeout=3600):
    e = {"VERIF_SEED": str(ctx.seed), "VERIF_TIER": ctx.tier}
    if env:
        e.update(env)
    p = core.sh([exe] + [str(a) for a in args], env=e, timeout=timeout)
    if p.returncode != 0:
        rp = core.write_replay(ctx.pid, "harness-crash", {"cmd": [exe] + [str(a) for a in args], "env": e, "rc": p.returncode,
                                                         "stderr_tail": p.stderr[-4000:], "stdout_tail": p.stdout[-2000:]})
        raise core.Violation("harness %s crashed (rc=%d): a sanitizer abort or crash of the real code is a result" % (os.path.basename(exe), p.returncode), rp)
    return core.parse_cases(p.stdout)


def correspond(ctx, cases, what, search=None, kind_of=lambda c: c["tag"].split()[1] if len(c["tag"].split()) > 1 else "case", normalize=None):
    """Gate 2 (model == implementation) and gate 3 (property oracle on the implementation's output)."""
    reqs = [c for c in cases if c["req"]]
    t0 = time.time()
    ans = core.driver_run([c["req"] for c in reqs])
    mism = []
    for c, a in zip(reqs, ans):
        c["model"] = a
        if normalize:
            a = normalize(a, c)
        if a.strip() != c["exp"].strip():
            mism.append(c)
    propfail = [c for c in cases if not c["prop"].startswith("ok")]
    hist = collections.Counter(kind_of(c) for c in cases)
    distinct = len({core.digest(c["req"]) for c in reqs})
    cov = {"evaluations": len(cases), "model_vs_impl_compared": len(reqs), "distinct_nontrivial": distinct,
           "kinds": dict(hist), "mismatches": len(mism), "property_failures": len(propfail),
           "driver_wall_s": round(time.time() - t0, 1)}
    for c in propfail:
        key = (kind_of(c) + "-" + c["prop"].split(" ", 1)[-1]).replace(" ", "_")[:80]
        ctx.finding(key, "property oracle failed on %s: %s" % (c["tag"], c["prop"]),
                    {"what": what, "case": c["tag"], "request": c["req"], "implementation": c["exp"], "model": c.get("model"), "oracle": c["prop"]})
    if mism:
        c = min(mism, key=lambda c: len(c["req"]))
        found = search(ctx, c) if search else None
        if found:
            rp = core.write_replay(ctx.pid, "violation-" + kind_of(c), found)
            raise core.Violation("correspondence broke and the focused search found a failing input", rp)
        rp = core.write_replay(ctx.pid, "correspondence-" + kind_of(c),
                               {"broken_correspondence": what, "case": c["tag"], "request": c["req"], "model": c["model"], "implementation": c["exp"],
                                "mismatching_cases": [m["tag"] for m in mism][:50],
                                "note": "the implementation's own output passed the property oracle on every explored case"})
        v = core.Violation("model and implementation disagree on %d case(s) of %s, e.g. %s" % (len(mism), what, c["tag"]), rp, no_input=True)
        raise v
    return cov
