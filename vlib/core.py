"""Shared machinery for every property check (see DESIGN.md sections 2.5 and 3)."""
import hashlib, json, os, re, subprocess, sys, time, shutil

ROOT = os.path.dirname(os.path.dirname(os.path.abspath(__file__)))
REPO = os.environ.get("VERIF_REPO", "/repo")
LEAN = os.path.join(ROOT, "lean")
BUILD = os.path.join(ROOT, "build")
OUT = os.path.join(ROOT, "out")
DRIVER = os.path.join(LEAN, ".lake", "build", "bin", "mvdriver")
NPROC = os.cpu_count() or 4
ACCEPTED_AXIOMS = {"propext", "Classical.choice", "Quot.sound"}
FORBIDDEN = ["sorry", "admit", "native_decide", "bv_decide", "implemented_by", "unsafe ", "maxHeartbeats 0"]
TRUSTED_BASE = [
    "Lean 4.33.0 kernel; axioms propext, Classical.choice, Quot.sound only (audited by #print axioms on every run)",
    "Lean compiler/runtime executing the model definitions inside mvdriver (incl. @[csimp] replacements proved equal)",
    "the correspondence harness (C++), the canonicalising diff (python), g++ 12 / libstdc++",
]


class Violation(Exception):
    def __init__(self, msg, replay=None, no_input=False):
        super().__init__(msg)
        self.msg, self.replay, self.no_input = msg, replay, no_input


def sh(cmd, cwd=None, timeout=None, env=None, inp=None, check=False):
    e = dict(os.environ)
    if env:
        e.update(env)
    p = subprocess.run(cmd, cwd=cwd, shell=isinstance(cmd, str), capture_output=True, text=True,
                       timeout=timeout, env=e, input=inp)
    if check and p.returncode != 0:
        raise RuntimeError("command failed (%d): %s\n%s\n%s" % (p.returncode, cmd, p.stdout[-4000:], p.stderr[-4000:]))
    return p


# ----------------------------------------------------------------------------- Lean side
def lean_build():
    """lake build of the whole library and the driver (incremental). Returns (ok, log)."""
    os.makedirs(OUT, exist_ok=True)
    p = sh(["lake", "build", "MV", "mvdriver"], cwd=LEAN, timeout=3600)
    return p.returncode == 0, (p.stdout + p.stderr)


def strip_comments(src):
    # remove /- ... -/ (nested) and -- ... comments
    out, i, depth, n = [], 0, 0, len(src)
    while i < n:
        if src.startswith("/-", i):
            depth += 1; i += 2; continue
        if depth and src.startswith("-/", i):
            depth -= 1; i += 2; continue
        if depth:
            i += 1; continue
        if src.startswith("--", i):
            j = src.find("\n", i)
            i = n if j < 0 else j
            continue
        out.append(src[i]); i += 1
    return "".join(out)


def lean_grep_forbidden():
    hits = []
    for d in ("MV", "Driver"):
        for dp, _, fs in os.walk(os.path.join(LEAN, d)):
            for f in fs:
                if not f.endswith(".lean"):
                    continue
                p = os.path.join(dp, f)
                code = strip_comments(open(p).read())
                for tok in FORBIDDEN:
                    if tok in code:
                        hits.append("%s: %s" % (os.path.relpath(p, LEAN), tok.strip()))
                if re.search(r"^\s*axiom\s", code, re.M):
                    hits.append("%s: axiom" % os.path.relpath(p, LEAN))
                if d == "MV" and re.search(r"^\s*partial\s+def", code, re.M):
                    hits.append("%s: partial def" % os.path.relpath(p, LEAN))
    return hits


def theorem_names(relpath):
    """Fully qualified names of the theorems declared in a Props file."""
    src = strip_comments(open(os.path.join(LEAN, relpath)).read())
    ns, names = [], []
    for line in src.split("\n"):
        m = re.match(r"^\s*namespace\s+(\S+)", line)
        if m:
            ns.append(m.group(1)); continue
        m = re.match(r"^\s*end\s+(\S+)\s*$", line)
        if m and ns and ns[-1] == m.group(1):
            ns.pop(); continue
        m = re.match(r"^\s*(?:@\[[^\]]*\]\s*)*(?:private\s+|protected\s+)?theorem\s+([^\s:({\[]+)", line)
        if m:
            names.append(".".join(ns + [m.group(1)]))
    return names


def lean_axioms(props_files):
    """#print axioms for every theorem of the given Props files. Returns {name: [axioms]}."""
    mods = [p[:-5].replace("/", ".") for p in props_files]
    names = []
    for p in props_files:
        names += theorem_names(p)
    scratch = os.path.join(OUT, "axioms_%d.lean" % os.getpid())
    os.makedirs(OUT, exist_ok=True)
    with open(scratch, "w") as f:
        for m in mods:
            f.write("import %s\n" % m)
        for n in names:
            f.write("#print axioms %s\n" % n)
    p = sh(["lake", "env", "lean", scratch], cwd=LEAN, timeout=1800)
    os.remove(scratch)
    txt = p.stdout + p.stderr
    res = {}
    # "'X' depends on axioms: [a, b]"  or "'X' does not depend on any axioms"
    for m in re.finditer(r"'([^']+)' depends on axioms: \[([^\]]*)\]", txt, re.S):
        res[m.group(1)] = [a.strip() for a in m.group(2).replace("\n", " ").split(",") if a.strip()]
    for m in re.finditer(r"'([^']+)' does not depend on any axioms", txt):
        res[m.group(1)] = []
    missing = [n for n in names if n not in res]
    return names, res, missing, txt


def proof_gate(pid, props_files, leanchecker_modules=None):
    """Gate 1 of DESIGN.md section 3. Returns a dict for the evidence; raises Violation."""
    t0 = time.time()
    ok, log = lean_build()
    if not ok:
        rp = write_replay(pid, "proof-gate-build", {"broken": "lake build MV mvdriver failed", "log_tail": log[-6000:]})
        raise Violation("Lean build failed (a proof obligation or a regenerated table no longer checks)", rp, no_input=True)
    hits = lean_grep_forbidden()
    if hits:
        rp = write_replay(pid, "proof-gate-forbidden", {"broken": "forbidden token in Lean sources", "hits": hits})
        raise Violation("forbidden token in Lean sources: %s" % hits, rp, no_input=True)
    names, ax, missing, txt = lean_axioms(props_files)
    bad = {n: a for n, a in ax.items() if not set(a) <= ACCEPTED_AXIOMS}
    if missing or bad:
        rp = write_replay(pid, "proof-gate-axioms", {"broken": "axiom audit", "missing": missing, "unaccepted": bad, "output_tail": txt[-4000:]})
        raise Violation("axiom audit failed: missing=%s unaccepted=%s" % (missing, bad), rp, no_input=True)
    checked = []
    if leanchecker_modules:
        for m in leanchecker_modules:
            p = sh(["lake", "env", "leanchecker", m], cwd=LEAN, timeout=3600)
            if p.returncode != 0:
                rp = write_replay(pid, "proof-gate-leanchecker", {"broken": "leanchecker " + m, "log_tail": (p.stdout + p.stderr)[-4000:]})
                raise Violation("leanchecker rejected module %s" % m, rp, no_input=True)
            checked.append(m)
    return {"obligations": len(names), "discharged": len(names) - len(bad) - len(missing), "theorems": names,
            "axioms_used": sorted({a for v in ax.values() for a in v}), "leanchecker_modules": checked,
            "lean_wall_s": round(time.time() - t0, 1)}


def driver_run(lines, timeout=3600):
    """Pipe request lines through the compiled Lean driver; one answer per line."""
    if not lines:
        return []
    p = subprocess.run([DRIVER], input="\n".join(lines) + "\n", capture_output=True, text=True, timeout=timeout)
    out = p.stdout.split("\n")
    if out and out[-1] == "":
        out.pop()
    if p.returncode != 0 or len(out) != len(lines):
        raise RuntimeError("mvdriver failed: rc=%s answers=%d requests=%d stderr=%s" % (p.returncode, len(out), len(lines), p.stderr[-2000:]))
    return out


# ----------------------------------------------------------------------------- C++ side
CXX = os.environ.get("CXX", "g++")


def compile_harness(name, srcs, flags, out_name=None, timeout=1800, libs=None):
    """Compile a small harness from /verif/harness against /repo's current tree (always rebuilt)."""
    os.makedirs(os.path.join(BUILD, "h"), exist_ok=True)
    exe = os.path.join(BUILD, "h", out_name or name)
    cmd = [CXX, "-std=c++17"] + flags + ["-I" + os.path.join(ROOT, "harness"), "-I" + os.path.join(REPO, "src"),
                                        "-I" + os.path.join(REPO, "include")] + srcs + ["-o", exe] + (libs or [])
    p = sh(cmd, timeout=timeout)
    if p.returncode != 0:
        raise BuildBroken("harness %s does not compile against the current tree:\n%s" % (name, p.stderr[-3000:]))
    return exe


class BuildBroken(Exception):
    pass


def cmake_variant(variant, cmake_flags, cxx_flags, timeout=7200):
    """Configure (once) and build (incrementally) libmanifold from /repo's working tree."""
    bdir = os.path.join(BUILD, variant)
    os.makedirs(bdir, exist_ok=True)
    stamp = os.path.join(bdir, "build.ninja")
    if not os.path.exists(stamp):
        cmd = ["cmake", "-G", "Ninja", "-S", REPO, "-B", bdir, "-DMANIFOLD_TEST=OFF", "-DMANIFOLD_DOWNLOADS=OFF",
               "-DMANIFOLD_PYBIND=OFF", "-DMANIFOLD_JSBIND=OFF", "-DBUILD_SHARED_LIBS=OFF",
               "-DCMAKE_BUILD_TYPE=Release", "-DCMAKE_CXX_FLAGS=" + " ".join(cxx_flags)] + cmake_flags
        p = sh(cmd, timeout=timeout)
        if p.returncode != 0:
            raise BuildBroken("cmake configure failed for %s:\n%s" % (variant, (p.stdout + p.stderr)[-3000:]))
    p = sh(["cmake", "--build", bdir, "-j", str(NPROC)], timeout=timeout)
    if p.returncode != 0:
        raise BuildBroken("library build failed for %s:\n%s" % (variant, (p.stdout + p.stderr)[-4000:]))
    return bdir


# ----------------------------------------------------------------------------- verdicts
def write_replay(pid, name, obj):
    d = os.path.join(OUT, "replay", pid)
    os.makedirs(d, exist_ok=True)
    name = re.sub(r"[^A-Za-z0-9_.()#+=,-]", "_", name)[:150]      # keys are built from oracle messages: keep them file-name safe
    path = os.path.join(d, "%s.json" % name)
    with open(path, "w") as f:
        json.dump(obj, f, indent=1)
    return path


def known_findings(pid):
    """Entries of known_findings.txt for this property: list of (key, text)."""
    path = os.path.join(ROOT, "known_findings.txt")
    res = []
    if os.path.exists(path):
        for line in open(path):
            line = line.strip()
            m = re.match(r"known:\s+property=(\S+)\s+key=(\S+)\s+(.*)$", line)
            if m and m.group(1) == pid:
                res.append((m.group(2), m.group(3)))
    return res


def write_evidence(pid, tier, seed, level, coverage, wall_s, violations=0, assumptions=None):
    os.makedirs(os.path.join(ROOT, "evidence"), exist_ok=True)
    if not isinstance(coverage.get("exhaustive", False), bool):     # EVIDENCE.schema.json: boolean; keep the description next to it
        coverage = dict(coverage); coverage["exhaustive_parts"] = coverage["exhaustive"]; coverage["exhaustive"] = False
    ev = {"property_id": pid, "tier": tier, "seed": int(seed), "level": level, "coverage": coverage,
          "wall_s": round(wall_s, 2), "violations": violations}
    if assumptions:
        ev["assumptions"] = assumptions
    tmp = os.path.join(ROOT, "evidence", pid + ".json.tmp")
    with open(tmp, "w") as f:
        json.dump(ev, f, indent=1)
    os.replace(tmp, os.path.join(ROOT, "evidence", pid + ".json"))


def parse_cases(text):
    """CASE/REQ/EXP/PROP blocks printed by the harnesses."""
    cases, cur, stats = [], None, {}
    for l in text.split("\n"):
        if l.startswith("CASE "):
            cur = {"tag": l[5:], "req": "", "exp": "", "prop": "ok"}; cases.append(cur)
        elif l.startswith("REQ ") and cur is not None:
            cur["req"] = l[4:]
        elif l.startswith("EXP ") and cur is not None:
            cur["exp"] = l[4:]
        elif l.startswith("PROP ") and cur is not None:
            cur["prop"] = l[5:]
        elif l.startswith("STATS "):
            for kv in l[6:].split():
                k, _, v = kv.partition("=")
                stats[k] = v
    return cases, stats


def digest(s):
    return hashlib.sha1(s.encode()).hexdigest()[:16]


def clip(s, n=300):
    return s if len(s) <= n else s[:n] + " …(%d chars)" % len(s)
