"""Delta-debugging of API programs (text steps of harness/apiprog.h)."""
import os, re, subprocess
from . import core


def replay(exe, steps, workdir, timeout=40):
    os.makedirs(workdir, exist_ok=True)
    path = os.path.join(workdir, "prog_%d.txt" % os.getpid())
    with open(path, "w") as f:
        f.write("\n".join(steps) + "\n")
    try:
        p = core.sh([exe, "0", "0", path], timeout=timeout)
    except subprocess.TimeoutExpired:      # a hang of the real library on this program is a failing outcome like a crash
        return -14, [], []
    made = [int(m.group(2)) for m in re.finditer(r"^STEP (\d+) made (\d+)", p.stdout, re.M)]
    cs, _ = core.parse_cases(p.stdout)
    return p.returncode, cs, made


def shrink(exe, steps, fails, workdir, passes=2):
    """`fails(rc, cases)` -> bool. Replace steps by `tets k` (same number of results) while it still fails."""
    rc, cs, made = replay(exe, steps, workdir)
    if not fails(rc, cs):
        return steps
    cur = list(steps)
    for _ in range(passes):
        changed = False
        for j in range(len(cur) - 2, -1, -1):
            if cur[j].startswith("tets "):
                continue
            k = made[j] if j < len(made) else 1
            trial = cur[:j] + ["tets 0 1 %d" % k] + cur[j + 1:]
            rc2, cs2, made2 = replay(exe, trial, workdir)
            if fails(rc2, cs2):
                cur, made, changed = trial, made2, True
        if not changed:
            break
    return cur
