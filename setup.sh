#!/bin/sh
# Run once after a fresh restore, offline: build the Lean library + driver; the C++ harnesses
# and library variants are (re)built by each check from /repo's current working tree.
set -e
cd "$(dirname "$0")"
# regenerated sources (MV/Gen/*.lean); every check regenerates its own again on each run
for t in tools/extract_*.py; do python3 "$t" >/dev/null 2>&1 || true; done
(cd lean && lake build MV mvdriver)
mkdir -p build/h out evidence
# warm the shared library variants so the first quick check is incremental (failures here are
# reported by the checks themselves, not by setup)
python3 - <<'PY' || true
import sys, os
sys.path.insert(0, os.getcwd())
from concurrent.futures import ThreadPoolExecutor
from vlib import libs, core
def one(v):
    try:
        if v == "tsanser":
            cm, cx = libs.VARIANTS["tsan"]
            core.cmake_variant("tsanser", ["-DMANIFOLD_PAR=OFF", "-DMANIFOLD_CBIND=ON", "-DMANIFOLD_CROSS_SECTION=ON"], cx)
        else:
            libs.build(v)
        return "%s ok" % v
    except Exception as e:
        return "setup: variant %s not prebuilt: %s" % (v, str(e)[:500])
# two at a time: each ninja build already uses every core
with ThreadPoolExecutor(max_workers=2) as ex:
    for r in ex.map(one, ("ser", "san", "par", "vtbb", "tsanser")):
        print(r)
PY
echo setup-done
