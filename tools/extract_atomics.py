#!/usr/bin/env python3
"""Translator for property C04: inventory of every schedule-sensitive site of the library.

Reads src/*.cpp and src/*.h of the CURRENT working tree and regenerates lean/MV/Gen/Atomics.lean:
one `Site` per occurrence of
    AtomicAdd(target, addend)          (utils.h: CAS loop for floating types, fetch_add for int)
    X.fetch_add(...)                   (std::atomic / AtomicRef)
    X.compare_exchange_{weak,strong}   (lock-free containers and claim-by-CAS loops)
    tbb::combinable<T> name            (per-worker storage, combined afterwards)
    concurrent_map<...> name           (declaration of a concurrently filled map, not parameters)
    tbb::task_group name               (tasks run in any order)
with, for each site: file, enclosing top-level scope (function or struct), kind, the normalised
operand text, the element type of an AtomicAdd target as far as the declaration can be found in the
scope (`int` / `double` / `unknown`), and the execution policies of the parallel loops that run
the scope (for functor structs: every `for_each*(policy, …, Scope…)` call in the file; for sites
inside a lambda passed to a loop: that loop's policy).

MV/Model/DetermSites.lean holds the REVIEWED classification of these sites and the side condition
of each class (e.g. a floating-point accumulation is schedule-free only when every loop that
runs it is ExecutionPolicy::Seq); MV/Props/C04.lean proves `all_sites_classified` by `decide` over
the generated table.  A new, moved or re-parallelised site breaks that proof: the check then
searches for a differing schedule with the whole-program harness.

usage: extract_atomics.py [repo] [out.lean]      exit 2 + message when nothing can be read
"""
import os, re, sys

SKIP_FILES = {"verif_hooks.h", "atomic_compat.h", "boolean2_diagnostics.h"}   # hook table / the AtomicRef shim itself / timing counters compiled out of exports
KINDS = [
    ("atomicAdd", re.compile(r"\bAtomicAdd\s*\(")),
    ("fetchAdd", re.compile(r"([\w\.\->\[\]\(\):]+?)\s*(?:\.|->)\s*fetch_add\s*\(")),
    ("cas", re.compile(r"([\w\.\->\[\]\(\):]+?)\s*(?:\.|->)\s*compare_exchange_(?:weak|strong)\s*\(")),
    ("combinable", re.compile(r"\btbb::combinable<(.+?)>\s+(\w+)")),
    ("concurrentMap", re.compile(r"^\s*concurrent_map<(.+?)>\s+([\w, ]+);", re.M)),
    ("taskGroup", re.compile(r"\btbb::task_group\s+(\w+)")),
]
LOOP = re.compile(r"\b(for_each_n|for_each|transform|copy_if|remove_if|sequence|gather|scatter|fill|exclusive_scan|inclusive_scan|reduce|transform_reduce|stable_sort|count_if|all_of)\s*\(")


def strip_comments(src):
    out, i, n = [], 0, len(src)
    while i < n:
        if src.startswith("//", i):
            j = src.find("\n", i)
            j = n if j < 0 else j
            i = j
            continue
        if src.startswith("/*", i):
            j = src.find("*/", i + 2)
            j = n if j < 0 else j + 2
            out.append("\n" * src.count("\n", i, j))
            i = j
            continue
        if src[i] == '"':
            j = i + 1
            while j < n and src[j] != '"':
                j += 2 if src[j] == "\\" else 1
            out.append('""')
            i = j + 1
            continue
        out.append(src[i])
        i += 1
    txt = "".join(out)
    # preprocessor lines (with continuations) carry no braces we care about
    txt = re.sub(r"^[ \t]*#(?:[^\n\\]|\\.|\\\n)*", lambda m: "\n" * m.group(0).count("\n"), txt, flags=re.M)
    return txt


def matching(src, i, open_c="(", close_c=")"):
    """index just after the bracket matching src[i]"""
    depth = 0
    for j in range(i, len(src)):
        if src[j] == open_c:
            depth += 1
        elif src[j] == close_c:
            depth -= 1
            if depth == 0:
                return j + 1
    return len(src)


def split_args(s):
    args, depth, cur = [], 0, []
    for ch in s:
        if ch in "([{<" and not (ch == "<" and False):
            depth += ch in "([{"
        if ch in ")]}":
            depth -= 1
        if ch == "," and depth == 0:
            args.append("".join(cur)); cur = []
        else:
            cur.append(ch)
    if cur:
        args.append("".join(cur))
    return [re.sub(r"\s+", " ", a).strip() for a in args]


HEAD_STRUCT = re.compile(r"^(?:template\s*<[^>]*>\s*)?(?:struct|class)\s+(\w+)")
HEAD_FUNC = re.compile(r"([\w:~<>]+)\s*\([^;{}]*\)\s*(?:const\s*)?(?:noexcept\s*)?(?:->\s*[\w:<>\s\*&]+)?\s*(?::[^{;]*)?\{\s*$", re.S)


def scopes_of(src):
    """list of (start, end, name) of top-level (namespace-depth) struct / function bodies"""
    res = []
    depth = 0
    i, n = 0, len(src)
    stack = []          # (kind, name, start) ; kind 'ns' for namespace/extern blocks (transparent)
    last_stmt = 0
    while i < n:
        c = src[i]
        if c == "{":
            head = src[last_stmt:i + 1]
            hs = head.strip()
            name, kind = None, "blk"
            if re.match(r"^(?:inline\s+)?namespace\b[^{;]*\{$", hs, re.S) or re.match(r'^extern\s+""\s*\{$', hs):
                kind = "ns"
            elif all(k == "ns" for k, _, _ in stack):
                m = HEAD_STRUCT.match(re.sub(r"\s+", " ", hs))
                if m:
                    name = "struct " + m.group(1)
                else:
                    m = HEAD_FUNC.search(hs)
                    if m:
                        name = m.group(1)
                kind = "top"
            stack.append((kind, name, i))
            last_stmt = i + 1
        elif c == "}":
            if stack:
                kind, name, st = stack.pop()
                if kind == "top" and name:
                    res.append((st, i + 1, name))
            last_stmt = i + 1
        elif c == ";":
            last_stmt = i + 1
        i += 1
    return res


def elem_type(scope_src, target):
    base = re.match(r"[A-Za-z_]\w*", target.strip().lstrip("&*("))
    if not base:
        return "unknown"
    nm = base.group(0)
    pats = [
        r"(?:VecView|Vec|std::vector)\s*<\s*(?:const\s+)?([\w:]+)\s*>\s*&?\s*(?:\w+\s*,\s*)*%s\b" % nm,
        r"\b(int|double|float|size_t|uint32_t|uint64_t|long)\s*&?\s+(?:\w+\s*(?:=[^,;]*)?,\s*)*%s\b" % nm,
        r"std::atomic\s*<\s*([\w:]+)\s*>\s*%s\b" % nm,
    ]
    for p in pats:
        m = re.search(p, scope_src)
        if m:
            t = m.group(1)
            return "double" if t in ("double", "float") else "int" if t in ("int", "size_t", "uint32_t", "uint64_t", "long") else t
    return "unknown"


def loops_in(src):
    """(start, end, policy-text) of every parallel-primitive call whose first argument is a policy"""
    res = []
    for m in LOOP.finditer(src):
        if m.start() > 0 and (src[m.start() - 1].isalnum() or src[m.start() - 1] in "_:."):
            continue
        e = matching(src, m.end() - 1)
        args = split_args(src[m.end():e - 1])
        if not args:
            continue
        a0 = args[0]
        if a0.startswith("autoPolicy") or a0.startswith("ExecutionPolicy::") or a0 == "policy" or a0.endswith("Policy") or a0.endswith("policy"):
            res.append((m.start(), e, a0))
    return res


def norm_policy(p):
    if p.startswith("ExecutionPolicy::"):
        return p[len("ExecutionPolicy::"):]
    return "auto"          # autoPolicy(...) or a variable holding one: may be Par


def extract(repo):
    sites = []
    d = os.path.join(repo, "src")
    files = sorted(f for f in os.listdir(d) if f.endswith((".cpp", ".h")) and f not in SKIP_FILES)
    if not files:
        raise RuntimeError("no sources under %s" % d)
    for f in files:
        src = strip_comments(open(os.path.join(d, f)).read())
        scs = scopes_of(src)
        lps = loops_in(src)
        for kind, rx in KINDS:
            for ln_src in [src]:
                for m in rx.finditer(src):
                    pos = m.start()
                    line = src.count("\n", 0, pos) + 1
                    sc = [s for s in scs if s[0] <= pos < s[1]]
                    is_struct = bool(sc) and sc[-1][2].startswith("struct ")
                    scope = (sc[-1][2][7:] if is_struct else sc[-1][2]) if sc else "<file>"
                    scope_src = src[sc[-1][0]:sc[-1][1]] if sc else src
                    if kind == "atomicAdd":
                        if re.search(r"\b(?:T|int)\s+$", src[max(0, pos - 12):pos]):      # the two definitions in utils.h
                            continue
                        e = matching(src, m.end() - 1)
                        args = split_args(src[m.end():e - 1])
                        operand = " , ".join(args)
                        ety = elem_type(scope_src, args[0]) if args else "unknown"
                    elif kind in ("fetchAdd", "cas"):
                        operand = re.sub(r"\s+", "", m.group(1))
                        ety = elem_type(scope_src, operand)
                    elif kind == "combinable":
                        operand = re.sub(r"\s+", " ", m.group(1)) + " " + m.group(2)
                        ety = "n/a"
                    elif kind == "concurrentMap":
                        operand = re.sub(r"\s+", " ", m.group(1)) + " " + re.sub(r"\s+", " ", m.group(2))
                        ety = "n/a"
                    else:
                        operand = m.group(1)
                        ety = "n/a"
                    # policies: enclosing loop call, else (functor struct) every loop in the file that names the scope
                    pol = [norm_policy(p) for (a, b, p) in lps if a <= pos < b]
                    if not pol and is_struct:
                        pol = [norm_policy(p) for (a, b, p) in lps if re.search(r"\b%s\b" % re.escape(scope), src[a:b])]
                    sites.append({"file": f, "scope": scope, "kind": kind, "operand": operand, "elem": ety,
                                  "policies": sorted(set(pol)), "line": line})
    if not any(s["kind"] == "atomicAdd" for s in sites):
        raise RuntimeError("no AtomicAdd site found: the pattern the inventory relies on is gone")
    sites.sort(key=lambda s: (s["file"], s["line"]))
    return sites


def lean_str(s):
    return '"' + s.replace("\\", "\\\\").replace('"', '\\"') + '"'


def render(sites):
    L = ["/-! GENERATED by tools/extract_atomics.py from src/*.cpp, src/*.h: every schedule-sensitive site",
         "(AtomicAdd, fetch_add, compare_exchange, tbb::combinable, concurrent_map, tbb::task_group).",
         "Do not edit by hand; regenerated on every run of checks/c04.py. -/",
         "namespace MV.Gen.Atomics", "",
         "structure Site where",
         "  file : String", "  scope : String", "  kind : String", "  operand : String", "  elem : String",
         "  policies : List String",
         "  deriving DecidableEq, Repr", "",
         "def sites : List Site := ["]
    rows = []
    for s in sites:
        rows.append("  ⟨%s, %s, %s, %s, %s, [%s]⟩  -- line %d" % (lean_str(s["file"]), lean_str(s["scope"]), lean_str(s["kind"]), lean_str(s["operand"]),
                                                                    lean_str(s["elem"]), ", ".join(lean_str(p) for p in s["policies"]), s["line"]))
    # commas must precede the trailing comment
    for k, r in enumerate(rows):
        body, _, com = r.partition("  -- ")
        L.append(body + ("," if k + 1 < len(rows) else "") + "  -- " + com)
    L += ["]", "", "end MV.Gen.Atomics", ""]
    return "\n".join(L)


def main():
    repo = sys.argv[1] if len(sys.argv) > 1 else os.environ.get("VERIF_REPO", "/repo")
    out = sys.argv[2] if len(sys.argv) > 2 else os.path.join(os.path.dirname(os.path.dirname(os.path.abspath(__file__))), "lean", "MV", "Gen", "Atomics.lean")
    try:
        sites = extract(repo)
    except Exception as e:
        sys.stderr.write("extract_atomics: %s\n" % e)
        return 2
    txt = render(sites)
    old = open(out).read() if os.path.exists(out) else None
    if old != txt:
        with open(out, "w") as f:
            f.write(txt)
    print("sites=%d %s" % (len(sites), " ".join("%s=%d" % (k, sum(1 for s in sites if s["kind"] == k)) for k, _ in KINDS)))
    return 0


if __name__ == "__main__":
    sys.exit(main())
