#!/usr/bin/env python3
"""Translator for property C11: regenerates lean/MV/Gen/WindRule.lean from the C++ source.

Reads (from $VERIF_REPO or /repo)
  src/boolean2.h          enum class WindRule { ... }           -> constructor list
  src/boolean2_sweep.cpp  bool IsInside(WindRule rule, int64_t w) { switch ... }   -> Gen.isInside
  src/boolean2.cpp        Boolean2D: `const int bSign = <cond> ? a : b;`, `const WindRule rule = <cond> ? X : Y;`
                                                                -> Gen.bSign, Gen.ruleOf
  src/boolean2_sweep.cpp  the multiplicity expression of EmitBoundary's final PolySetAdd -> Gen.emitRaw
The C++ expressions are parsed (tiny recursive-descent parser: integer literals, identifiers,
`> >= < <= == != % + - * && || ! ?:` and parentheses) and re-printed as Lean terms over `Int`
with C semantics (`%` -> `cmod` = truncated remainder).  Anything outside this grammar is an
error (exit 2): the check then reports a broken tie, it never guesses.

usage: extract_windrule.py [out.lean]
"""
import os, re, sys

REPO = os.environ.get("VERIF_REPO", "/repo")


class TranslateError(Exception):
    pass


# ----------------------------------------------------------------------------- C++ expression parser
TOK = re.compile(r"\s*(?:(\d+)|([A-Za-z_][A-Za-z_0-9]*(?:::[A-Za-z_][A-Za-z_0-9]*)*)|(>=|<=|==|!=|&&|\|\||[-+*%<>!?:(),]))")


def tokenize(s):
    out, i = [], 0
    s = s.strip()
    while i < len(s):
        m = TOK.match(s, i)
        if not m:
            raise TranslateError("cannot tokenize %r at %r" % (s, s[i:i + 20]))
        if m.group(1) is not None:
            out.append(("num", int(m.group(1))))
        elif m.group(2) is not None:
            out.append(("id", m.group(2)))
        else:
            out.append(("op", m.group(3)))
        i = m.end()
    return out


class P:
    def __init__(self, toks):
        self.t, self.i = toks, 0

    def peek(self):
        return self.t[self.i] if self.i < len(self.t) else ("eof", None)

    def eat(self, kind=None, val=None):
        k, v = self.peek()
        if (kind and k != kind) or (val is not None and v != val):
            raise TranslateError("expected %s %s, got %s %s" % (kind, val, k, v))
        self.i += 1
        return v

    def isop(self, *vals):
        k, v = self.peek()
        return k == "op" and v in vals

    def expr(self):
        c = self.lor()
        if self.isop("?"):
            self.eat()
            a = self.expr()
            self.eat("op", ":")
            b = self.expr()
            return ("ite", c, a, b)
        return c

    def lor(self):
        a = self.land()
        while self.isop("||"):
            self.eat(); a = ("or", a, self.land())
        return a

    def land(self):
        a = self.eq()
        while self.isop("&&"):
            self.eat(); a = ("and", a, self.eq())
        return a

    def eq(self):
        a = self.rel()
        while self.isop("==", "!="):
            o = self.eat(); a = (o, a, self.rel())
        return a

    def rel(self):
        a = self.add()
        while self.isop("<", ">", "<=", ">="):
            o = self.eat(); a = (o, a, self.add())
        return a

    def add(self):
        a = self.mul()
        while self.isop("+", "-"):
            o = self.eat(); a = (o, a, self.mul())
        return a

    def mul(self):
        a = self.un()
        while self.isop("*", "%"):
            o = self.eat(); a = (o, a, self.un())
        return a

    def un(self):
        if self.isop("!"):
            self.eat(); return ("not", self.un())
        if self.isop("-"):
            self.eat(); return ("neg", self.un())
        if self.isop("("):
            self.eat(); e = self.expr(); self.eat("op", ")"); return e
        k, v = self.peek()
        if k == "num":
            self.eat(); return ("num", v)
        if k == "id":
            self.eat()
            if self.isop("("):  # function call
                self.eat(); args = []
                if not self.isop(")"):
                    args.append(self.expr())
                    while self.isop(","):
                        self.eat(); args.append(self.expr())
                self.eat("op", ")")
                return ("call", v, args)
            return ("id", v)
        raise TranslateError("unexpected token %s %s" % (k, v))


def parse(s):
    p = P(tokenize(s))
    e = p.expr()
    if p.peek()[0] != "eof":
        raise TranslateError("trailing tokens in %r" % s)
    return e


# ----------------------------------------------------------------------------- Lean printer
def ctor(name, enum):
    """WindRule::EvenOdd -> .evenOdd"""
    pre = enum + "::"
    if not name.startswith(pre):
        raise TranslateError("expected an enumerator of %s, got %s" % (enum, name))
    n = name[len(pre):]
    return n[0].lower() + n[1:]


def typ(e, env):
    """'int' | 'bool' | ('enum', E)"""
    k = e[0]
    if k == "num":
        return "int"
    if k == "id":
        if e[1] in env:
            return env[e[1]][1]
        for E in ("WindRule", "OpType"):
            if e[1].startswith(E + "::"):
                return ("enum", E)
        raise TranslateError("unknown identifier %s" % e[1])
    if k in ("+", "-", "*", "%", "neg"):
        return "int"
    if k in ("<", ">", "<=", ">=", "==", "!=", "and", "or", "not"):
        return "bool"
    if k == "ite":
        return typ(e[2], env)
    if k == "call":
        if e[1] in env and env[e[1]][1] == "boolfun":
            return "bool"
        raise TranslateError("unknown function %s" % e[1])
    raise TranslateError("cannot type %r" % (e,))


def lean(e, env):
    """env: C++ identifier -> (lean term, type)"""
    k = e[0]
    if k == "num":
        return "(%d : Int)" % e[1]
    if k == "id":
        if e[1] in env:
            return env[e[1]][0]
        t = typ(e, env)
        return "(%s.%s)" % (t[1], ctor(e[1], t[1]))
    if k == "neg":
        return "(-%s)" % lean(e[1], env)
    if k in ("+", "-", "*"):
        return "(%s %s %s)" % (lean(e[1], env), k, lean(e[2], env))
    if k == "%":
        return "(cmod %s %s)" % (lean(e[1], env), lean(e[2], env))
    if k in ("<", ">", "<=", ">="):
        o = {"<": "<", ">": ">", "<=": "≤", ">=": "≥"}[k]
        return "(decide (%s %s %s))" % (lean(e[1], env), o, lean(e[2], env))
    if k in ("==", "!="):
        ta, tb = typ(e[1], env), typ(e[2], env)
        if ta != tb:
            raise TranslateError("comparison of different types in %r" % (e,))
        o = "==" if k == "==" else "!="
        return "(%s %s %s)" % (lean(e[1], env), o, lean(e[2], env))
    if k == "and":
        return "(%s && %s)" % (lean(e[1], env), lean(e[2], env))
    if k == "or":
        return "(%s || %s)" % (lean(e[1], env), lean(e[2], env))
    if k == "not":
        return "(!%s)" % lean(e[1], env)
    if k == "ite":
        if typ(e[1], env) != "bool":
            raise TranslateError("non-boolean condition in %r" % (e,))
        return "(if %s = true then %s else %s)" % (lean(e[1], env), lean(e[2], env), lean(e[3], env))
    if k == "call":
        if e[1] in env and env[e[1]][1] == "boolfun":
            return "(%s)" % env[e[1]][0]
        raise TranslateError("unknown function %s" % e[1])
    raise TranslateError("cannot print %r" % (e,))


# ----------------------------------------------------------------------------- source slicing
def strip_comments(s):
    s = re.sub(r"/\*.*?\*/", " ", s, flags=re.S)
    return re.sub(r"//[^\n]*", "", s)


def body_of(src, header_re):
    """text between the braces that follow the first match of header_re"""
    m = re.search(header_re, src)
    if not m:
        raise TranslateError("cannot find %s" % header_re)
    i = src.index("{", m.end() - 1)
    depth, j = 0, i
    while j < len(src):
        if src[j] == "{":
            depth += 1
        elif src[j] == "}":
            depth -= 1
            if depth == 0:
                return src[i + 1:j]
        j += 1
    raise TranslateError("unbalanced braces after %s" % header_re)


def generate():
    h = strip_comments(open(os.path.join(REPO, "src", "boolean2.h")).read())
    sw = strip_comments(open(os.path.join(REPO, "src", "boolean2_sweep.cpp")).read())
    b2 = strip_comments(open(os.path.join(REPO, "src", "boolean2.cpp")).read())

    # enum class WindRule { Add, Intersect, EvenOdd, };
    m = re.search(r"enum\s+class\s+WindRule\s*\{([^}]*)\}", h)
    if not m:
        raise TranslateError("enum class WindRule not found in boolean2.h")
    enumerators = [x.strip() for x in m.group(1).split(",") if x.strip()]
    if any(not re.fullmatch(r"[A-Za-z_]\w*", x) for x in enumerators):
        raise TranslateError("WindRule enumerators with initialisers are not supported: %s" % enumerators)

    # bool IsInside(WindRule rule, int64_t w) { switch (rule) { case WindRule::X: return E; ... } return false; }
    body = body_of(sw, r"bool\s+IsInside\s*\(\s*WindRule\s+rule\s*,\s*int64_t\s+w\s*\)\s*\{")
    sm = re.search(r"switch\s*\(\s*rule\s*\)\s*\{", body)
    if not sm:
        raise TranslateError("IsInside: no switch(rule)")
    swbody = body_of(body, r"switch\s*\(\s*rule\s*\)\s*\{")
    cases = re.findall(r"case\s+(WindRule::\w+)\s*:\s*return\s+([^;]+);", swbody)
    leftover = re.sub(r"case\s+WindRule::\w+\s*:\s*return\s+[^;]+;", "", swbody).strip()
    if leftover:
        raise TranslateError("IsInside: switch contains more than `case X: return E;` arms: %r" % leftover)
    tail = body[body.index(swbody) + len(swbody) + 1:].strip()
    dm = re.fullmatch(r"return\s+(true|false)\s*;", tail)
    if not dm:
        raise TranslateError("IsInside: unexpected code after the switch: %r" % tail)
    env_w = {"w": ("w", "int"), "true": ("true", "bool"), "false": ("false", "bool")}
    arms = {}
    for name, ex in cases:
        c = ctor(name, "WindRule")
        if c in arms:
            raise TranslateError("IsInside: duplicate case %s" % name)
        e = parse(ex)
        if typ(e, env_w) != "bool":
            raise TranslateError("IsInside: case %s does not return a comparison" % name)
        arms[c] = (lean(e, env_w), ex.strip())
    lines = []
    for en in enumerators:
        c = en[0].lower() + en[1:]
        if c in arms:
            lines.append("  | .%s, w => %s   -- %s" % (c, arms[c][0], arms[c][1]))
        else:
            lines.append("  | .%s, _ => %s   -- falls out of the switch" % (c, dm.group(1)))
    for c in arms:
        if c[0].upper() + c[1:] not in enumerators:
            raise TranslateError("IsInside: case %s is not an enumerator" % c)

    # Boolean2D
    bd = body_of(b2, r"Polygons\s+Boolean2D\s*\([^)]*\)\s*\{")
    m1 = re.search(r"const\s+int\s+bSign\s*=\s*([^;]+);", bd)
    m2 = re.search(r"const\s+WindRule\s+rule\s*=\s*([^;]+);", bd)
    m3 = re.search(r"return\s+ApplyFillRule\s*\(\s*a\s*,\s*b\s*,\s*bSign\s*,\s*rule\s*,\s*eps\s*\)\s*;", bd)
    if not (m1 and m2 and m3):
        raise TranslateError("Boolean2D: expected `const int bSign = …; const WindRule rule = …; return ApplyFillRule(a, b, bSign, rule, eps);`")
    env_op = {"op": ("op", ("enum", "OpType"))}
    e1, e2 = parse(m1.group(1)), parse(m2.group(1))
    if typ(e1, env_op) != "int" or typ(e2, env_op) != ("enum", "WindRule"):
        raise TranslateError("Boolean2D: bSign/rule have unexpected types")
    # AppendInput(a, 1, …); AppendInput(b, bSign, …) inside the 5-argument ApplyFillRule
    af = body_of(b2, r"Polygons\s+ApplyFillRule\s*\(\s*const\s+Polygons&\s+a\s*,\s*const\s+Polygons&\s+b\s*,\s*int\s+bSign\s*,[^)]*\)\s*\{")
    ai = re.findall(r"AppendInput\s*\(\s*(\w+)\s*,\s*([^,]+),\s*verts\s*,\s*edges\s*\)\s*;", af)
    if [x[0] for x in ai] != ["a", "b"]:
        raise TranslateError("ApplyFillRule: expected AppendInput(a, …) then AppendInput(b, …), got %s" % ai)
    env_s = {"bSign": ("sgn", "int")}
    ea, eb = parse(ai[0][1]), parse(ai[1][1])

    # EmitBoundary: the multiplicity expression of the winding-mode PolySetAdd
    eb_body = body_of(sw, r"void\s+EmitBoundary\s*\([^)]*\)\s*\{")
    mm = re.search(r"const\s+bool\s+insB\s*=\s*IsInside\s*\(\s*rule_\s*,\s*below\s*\)\s*;\s*"
                   r"const\s+bool\s+insA\s*=\s*IsInside\s*\(\s*rule_\s*,\s*above\s*\)\s*;\s*"
                   r"if\s*\(\s*insB\s*==\s*insA\s*\)\s*return\s*;\s*"
                   r"PolySetAdd\s*\(\s*out_\s*,\s*from\s*,\s*to\s*,\s*(.*?)\)\s*;\s*$", eb_body.strip(), re.S)
    if not mm:
        raise TranslateError("EmitBoundary: winding-mode tail has an unexpected shape")
    env_e = {"insA": ("insA", "bool"), "insB": ("insB", "bool"), "kLexLess": ("fwd", "boolfun")}
    em = parse(" ".join(mm.group(1).split()))
    for sub in re.findall(r"kLexLess\s*\(([^)]*)\)", mm.group(1)):
        if "".join(sub.split()) != "from,to":
            raise TranslateError("EmitBoundary: kLexLess called on %r, expected (from, to)" % sub)
    if typ(em, env_e) != "int":
        raise TranslateError("EmitBoundary: multiplicity expression is not an integer")

    out = []
    out.append("/- GENERATED by tools/extract_windrule.py from src/boolean2.h, src/boolean2_sweep.cpp, src/boolean2.cpp.")
    out.append("   Do not edit: regenerated on every run of checks/c11.py. -/")
    out.append("import MV.Model.Sweep2")
    out.append("namespace MV.Gen.WindRule")
    out.append("open MV.Sweep2")
    out.append("set_option linter.unusedVariables false")
    out.append("")
    out.append("/-- enumerators of `enum class WindRule`, in declaration order -/")
    out.append("def enumerators : List String := [%s]" % ", ".join('"%s"' % x for x in enumerators))
    out.append("")
    out.append("/-- `bool IsInside(WindRule rule, int64_t w)` -/")
    out.append("def isInside : WindRule → Int → Bool")
    out += lines
    out.append("")
    out.append("/-- `const int bSign = %s;` -/" % " ".join(m1.group(1).split()))
    out.append("def bSign (op : OpType) : Int := %s" % lean(e1, env_op))
    out.append("")
    out.append("/-- `const WindRule rule = %s;` -/" % " ".join(m2.group(1).split()))
    out.append("def ruleOf (op : OpType) : WindRule := %s" % lean(e2, env_op))
    out.append("")
    out.append("/-- multiplicities given to the two operands: `AppendInput(a, %s, …); AppendInput(b, %s, …)` -/" % (ai[0][1].strip(), ai[1][1].strip()))
    out.append("def multA (sgn : Int) : Int := %s" % lean(ea, env_s))
    out.append("def multB (sgn : Int) : Int := %s" % lean(eb, env_s))
    out.append("")
    out.append("/-- winding-mode tail of `EmitBoundary`: `%s` -/" % " ".join(mm.group(1).split()))
    out.append("def emitRaw (rule : WindRule) (fwd : Bool) (below above : Int) : Option Int :=")
    out.append("  let insB := isInside rule below")
    out.append("  let insA := isInside rule above")
    out.append("  if insB == insA then none else some %s" % lean(em, env_e))
    out.append("")
    out.append("end MV.Gen.WindRule")
    return "\n".join(out) + "\n"


def main():
    dst = sys.argv[1] if len(sys.argv) > 1 else os.path.join(os.path.dirname(os.path.dirname(os.path.abspath(__file__))), "lean", "MV", "Gen", "WindRule.lean")
    try:
        txt = generate()
    except TranslateError as e:
        sys.stderr.write("extract_windrule: %s\n" % e)
        return 2
    os.makedirs(os.path.dirname(dst), exist_ok=True)
    old = open(dst).read() if os.path.exists(dst) else None
    if old != txt:  # keep the mtime when nothing changed: lake then skips the rebuild
        with open(dst, "w") as f:
            f.write(txt)
    print("wrote %s%s" % (dst, "" if old != txt else " (unchanged)"))
    return 0


if __name__ == "__main__":
    sys.exit(main())
