#!/usr/bin/env python3
"""usage: manifest_add.py <PID> <category> <json-file with keys text, level_note, technique>   (adds/replaces the check, drops it from not_applicable)"""
import json, sys, os
root = os.path.dirname(os.path.dirname(os.path.abspath(__file__)))
pid, cat, src = sys.argv[1], sys.argv[2], json.load(open(sys.argv[3]))
p = os.path.join(root, "MANIFEST.json"); m = json.load(open(p))
entry = {"property_id": pid, "quick_cmd": "./check.py %s --tier quick" % pid, "thorough_cmd": "./check.py %s --tier thorough" % pid,
         "evidence_file": "evidence/%s.json" % pid, "replay_cmd_template": "./check.py %s --replay {path}" % pid, "engine": "lean-mv",
         "level_claimed": {"category": cat, "text": src["text"], "design_ref": "DESIGN.md 6/%s and 12" % pid},
         "level_note": src["level_note"], "technique": src["technique"]}
m["checks"] = [c for c in m["checks"] if c["property_id"] != pid] + [entry]
m["checks"].sort(key=lambda c: c["property_id"])
m["not_applicable"] = [n for n in m.get("not_applicable", []) if n["property_id"] != pid]
for e in m["engines"]:
    if e["name"] == "lean-mv" and pid not in e["serves_properties"]:
        e["serves_properties"] = sorted(e["serves_properties"] + [pid])
json.dump(m, open(p, "w"), indent=1)
print("claimed:", [c["property_id"] for c in m["checks"]], "n/a:", [n["property_id"] for n in m["not_applicable"]])
