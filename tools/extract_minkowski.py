#!/usr/bin/env python3
"""Translator for property C16: the branch structure of `Manifold::Impl::Minkowski`
(/repo/src/minkowski.cpp) -> lean/MV/Gen/Minkowski.lean, regenerated on every run.

What is extracted (comments stripped, brace matching, no C++ parser):

  swap        the condition of the `if (...) { std::swap(aImpl, bImpl); std::swap(aConvex, bConvex); }`
  early exits the conditions of the `if (...)` statements whose body returns a copy of `*aImpl` /
              `*bImpl` (`std::make_shared<Impl>(*aImpl)`), in source order
  base        what is pushed first into `composedHulls`: either an unconditional
              `composedHulls.push_back(a);` or an if/else-if chain whose leaves push `a` or
              `a.Translate(c)` (c = vertex mean of bImpl), with the origin test
              `originInB` recognised as "every `dot(bImpl->faceNormal_[tri], v) < 0` clears it"
  pieces      the `if (C1) {..} else if (C2) {..} else if (C3) {..}` chain whose blocks build the
              hulls; each block is classified by what it constructs
                hullAll    loop over aImpl->vertPos_ adding all of bImpl's vertices, ONE Hull(simpleHull)
                perFace    loop `for (int i : {0, 1, 2})` over halfedge_.Start(edge), Hull(simpleHull) per triangle
                facePairs  Hull({a1 + b1, ..., a3 + b3}) per pair of triangles; `b.Translate(v)` over
                           aImpl->vertPos_ (copiesOfB) and `a.Translate(w)` over bImpl->vertPos_
                           (copiesOfA) with the guards in front of them
  final op    `inset ? manifold::OpType::Subtract : manifold::OpType::Add`

Every condition must be a Boolean expression over the vocabulary
  inset aConvex bConvex originInB aImpl->IsEmpty() bImpl->IsEmpty()
The control flow is then EVALUATED for all 2^7 assignments of
  (inset, aConvex, bConvex, aEmpty, bEmpty, originInA, originInB)
(named as the caller passes the operands; the swap exchanges the a/b facts) and the resulting
plan table is written as a Lean list.  `MV.C16.dispatch_matches_source` proves (by `decide`) that
the hand-written model `MV.Minkowski.dispatch` has exactly this table, so an edit of any
condition, of the swap, of a base entry or of what a branch builds breaks the proof gate.
Anything not recognised fails loudly (exit 2).

usage: extract_minkowski.py [--repo /repo] [--out <lean dir>]
"""
import argparse, itertools, os, re, sys


class Fail(Exception):
    pass


def strip_comments(s):
    s = re.sub(r"/\*.*?\*/", " ", s, flags=re.S)
    return re.sub(r"//[^\n]*", " ", s)


def match_close(s, i, op="{", cl="}"):
    """index just after the bracket closing the one at s[i]"""
    assert s[i] == op
    d = 0
    for j in range(i, len(s)):
        if s[j] == op:
            d += 1
        elif s[j] == cl:
            d -= 1
            if d == 0:
                return j + 1
    raise Fail("unbalanced %s at offset %d" % (op, i))


def norm(s):
    return re.sub(r"\s+", " ", s).strip()


VOCAB = {"inset": "inset", "aConvex": "aC", "bConvex": "bC", "originInB": "o2",
         "aImpl->IsEmpty()": "aE", "bImpl->IsEmpty()": "bE"}


def cond_to_py(c, what):
    """C++ Boolean expression over the vocabulary -> python expression over aC bC aE bE o2 inset"""
    t = norm(c)
    out, i = [], 0
    while i < len(t):
        if t[i].isspace():
            i += 1; continue
        for k, v in sorted(VOCAB.items(), key=lambda kv: -len(kv[0])):
            if t.startswith(k, i) and not (t[i + len(k):i + len(k) + 1].isalnum() or t[i + len(k):i + len(k) + 1] == "_"):
                out.append(v); i += len(k); break
        else:
            if t.startswith("&&", i):
                out.append("and"); i += 2
            elif t.startswith("||", i):
                out.append("or"); i += 2
            elif t[i] == "!" and not t.startswith("!=", i):
                out.append("not"); i += 1
            elif t[i] in "()":
                out.append(t[i]); i += 1
            else:
                raise Fail("%s: condition `%s` uses something outside the vocabulary at `%s`" % (what, t, t[i:i + 20]))
    return " ".join(out)


def parse_if_chain(body, start):
    """`if (c1) {b1} else if (c2) {b2} ... [else {bn}]` starting at body[start:] (which begins with `if`).
    returns ([(cond or None, block)], end offset)"""
    res, i = [], start
    while True:
        m = re.match(r"\s*if\s*\(", body[i:])
        if not m:
            raise Fail("if-chain: expected `if (` at `%s`" % norm(body[i:i + 40]))
        p = i + m.end() - 1
        q = match_close(body, p, "(", ")")
        cond = body[p + 1:q - 1]
        m2 = re.match(r"\s*\{", body[q:])
        if not m2:
            raise Fail("if-chain: `if (%s)` is not followed by a block" % norm(cond))
        b0 = q + m2.end() - 1
        b1 = match_close(body, b0)
        res.append((cond, body[b0 + 1:b1 - 1]))
        i = b1
        m3 = re.match(r"\s*else\s*", body[i:])
        if not m3:
            return res, i
        i += m3.end()
        if body[i] == "{":
            b1 = match_close(body, i)
            res.append((None, body[i + 1:b1 - 1]))
            return res, b1


def classify_pieces(block):
    b = norm(block)
    has_hull_simple = "Manifold::Hull(simpleHull)" in b
    nine = re.search(r"Manifold::Hull\(\s*\{\s*a1 \+ b1, a1 \+ b2, a1 \+ b3, a2 \+ b1, a2 \+ b2, a2 \+ b3, a3 \+ b1, a3 \+ b2, a3 \+ b3\s*\}\s*\)", b)
    per_face = "for (int i : {0, 1, 2})" in b and re.search(r"aImpl->vertPos_\[\s*aImpl->halfedge_\.Start\(edge\)\s*\]", b)
    all_verts = re.search(r"for \(const vec3& vertex : aImpl->vertPos_\)", b)
    adds_b_verts = re.search(r"verts = bImpl->vertPos_", b) and "TransformIterator(verts.begin(), t)" in b and "return v + vertex" in b
    kinds = []
    if has_hull_simple and all_verts and adds_b_verts and not per_face and not nine:
        kinds.append(("hullAll", None, None))
    if has_hull_simple and per_face and adds_b_verts and not all_verts and not nine:
        if not re.search(r"offset < numTri", b) or "numTri = aImpl->NumTri()" not in b:
            raise Fail("perFace block: the loop over all triangles of aImpl was not recognised")
        kinds.append(("perFace", None, None))
    if nine and not has_hull_simple:
        for need in ["aFace < numTriA", "numTriA = aImpl->NumTri()", "numTriB = bImpl->NumTri()", "countAt(0), numTriB",
                     "aImpl->vertPos_[aImpl->halfedge_.Start((aFace * 3) + 0)]", "bImpl->vertPos_[bImpl->halfedge_.Start((bFace * 3) + 2)]"]:
            if need not in b:
                raise Fail("facePairs block: `%s` not found" % need)
        cb = ca = "False"
        # copies of b at the vertices of a / of a at the vertices of b, each with the innermost guard in front of it
        m = re.search(r"for \(const vec3& v : aImpl->vertPos_\) copies\.push_back\(b\.Translate\(v\)\);", b)
        if m:
            if "Manifold b(std::make_shared<Impl>(*bImpl));" not in b:
                raise Fail("facePairs block: `b` is not a copy of *bImpl")
            g = re.search(r"if \(([^{};]*)\) \{ for \(const vec3& v : aImpl->vertPos_\) copies", b)
            cb = cond_to_py(g.group(1), "copiesOfB guard") if g else "True"
        m = re.search(r"for \(const vec3& w : bImpl->vertPos_\) copies\.push_back\(a\.Translate\(w\)\);", b)
        if m:
            g = re.search(r"if \(([^{};]*)\) \{ for \(const vec3& w : bImpl->vertPos_\) copies", b)
            ca = cond_to_py(g.group(1), "copiesOfA guard") if g else "True"
        if ("copies.push_back" in b) != (cb != "False" or ca != "False"):
            raise Fail("facePairs block: a `copies.push_back` was not recognised")
        if "copies" in b and "composedHulls.push_back(evalBatch(std::move(copies), OpType::Add))" not in b:
            raise Fail("facePairs block: the copies are not united into composedHulls")
        kinds.append(("facePairs", cb, ca))
    if len(kinds) != 1:
        raise Fail("pieces: block `%s…` matches %d constructions" % (b[:70], len(kinds)))
    return kinds[0]


def extract(repo):
    path = os.path.join(repo, "src", "minkowski.cpp")
    src = strip_comments(open(path).read())
    m = re.search(r"Manifold\s+Manifold::Impl::Minkowski\s*\(\s*const\s+Impl&\s+other\s*,\s*bool\s+inset\s*,[^)]*\)\s*const\s*\{", src)
    if not m:
        raise Fail("minkowski.cpp: Manifold::Impl::Minkowski(const Impl& other, bool inset, ...) const not found")
    b0 = m.end() - 1
    body = src[b0 + 1:match_close(src, b0) - 1]
    nb = norm(body)
    for need in ["const Impl* aImpl = this;", "const Impl* bImpl = &other;", "bool aConvex = aImpl->IsConvex();", "bool bConvex = bImpl->IsConvex();"]:
        if need not in nb:
            raise Fail("minkowski.cpp: `%s` not found" % need)
    # ---- swap
    sw = [mm for mm in re.finditer(r"if\s*\(", body)]
    swap_cond = None
    exits = []
    for mm in sw:
        p = mm.end() - 1
        q = match_close(body, p, "(", ")")
        m2 = re.match(r"\s*\{", body[q:])
        if not m2:
            continue
        blk = norm(body[q + m2.end():match_close(body, q + m2.end() - 1) - 1])
        if blk == "std::swap(aImpl, bImpl); std::swap(aConvex, bConvex);":
            if swap_cond is not None:
                raise Fail("two operand swaps")
            swap_cond = (mm.start(), body[p + 1:q - 1])
        r = re.fullmatch(r"std::shared_ptr<Impl> result = std::make_shared<Impl>\(\*(aImpl|bImpl)\); return Manifold\(result\);", blk)
        if r:
            exits.append((mm.start(), body[p + 1:q - 1], "copyFirst" if r.group(1) == "aImpl" else "copySecond"))
    if swap_cond is None:
        raise Fail("minkowski.cpp: the operand swap was not found")
    if not exits:
        raise Fail("minkowski.cpp: no early exit found")
    if any(e[0] < swap_cond[0] for e in exits):
        raise Fail("minkowski.cpp: an early exit precedes the swap (the model has them after it)")
    # ---- the copy `a` and the base
    ia = nb.find("std::shared_ptr<Impl> aImplCopy = std::make_shared<Impl>(*aImpl); Manifold a(aImplCopy);")
    if ia < 0:
        raise Fail("minkowski.cpp: `Manifold a(aImplCopy)` (copy of *aImpl) not found")
    pushes = [mm.start() for mm in re.finditer(r"composedHulls\.push_back\(\s*a(\.Translate\(c\))?\s*\)", body)]
    if not pushes:
        raise Fail("minkowski.cpp: nothing pushes the base into composedHulls")
    first = pushes[0]
    # find the outermost `if` chain (at function top level) that contains the first push, if any
    base = None
    depth_if = None
    # top-level statement starts: scan for `if (` at brace depth 0 of `body`
    depth, i, tops = 0, 0, []
    while i < len(body):
        c = body[i]
        if c == "{":
            depth += 1
        elif c == "}":
            depth -= 1
        elif depth == 0 and re.match(r"if\s*\(", body[i:]) and (i == 0 or not (body[i - 1].isalnum() or body[i - 1] == "_")):
            prev = body[:i].rstrip()
            mp = re.match(r"if\s*\(", body[i:])
            q = match_close(body, i + mp.end() - 1, "(", ")")
            if not prev.endswith("else") and re.match(r"\s*\{", body[q:]):   # `if (c) stmt;` (cancellation checks) has no block
                chain, end = parse_if_chain(body, i)
                tops.append((i, end, chain))
                i = end
                continue
        i += 1
    for s, e, chain in tops:
        if s <= first < e:
            depth_if = (s, e, chain)
    def leaf(block, what):
        b = norm(block)
        if re.fullmatch(r"composedHulls\.push_back\(a\);", b):
            return ("a",)
        raise Fail("base: leaf `%s…` of %s not recognised" % (b[:60], what))
    if depth_if is None:
        stmt = norm(body[first:body.find(";", first) + 1])
        if stmt != "composedHulls.push_back(a);":
            raise Fail("base: unconditional push is `%s`" % stmt)
        base = [("True", ("a",))]
    else:
        base = []
        for cond, blk in depth_if[2]:
            cpy = cond_to_py(cond, "base") if cond is not None else "True"
            b = norm(blk)
            if "originInB" in b:
                # `bool originInB = true; for (tri…) { v = bImpl->vertPos_[bImpl->halfedge_.Start(3 * tri)]; if (dot(bImpl->faceNormal_[tri], v) < 0) originInB = false; }`
                for need in ["bool originInB = true;", "tri < bImpl->NumTri()", "bImpl->vertPos_[bImpl->halfedge_.Start(3 * tri)]",
                             "if (linalg::dot(bImpl->faceNormal_[tri], v) < 0) originInB = false;"]:
                    if need not in b:
                        raise Fail("base: origin test: `%s` not found" % need)
                j = blk.find("if", blk.find("originInB = false"))
                j = blk.find("if (originInB)")
                if j < 0:
                    raise Fail("base: `if (originInB)` not found")
                inner, _ = parse_if_chain(blk, j)
                if len(inner) != 2 or inner[1][0] is not None:
                    raise Fail("base: `if (originInB) … else …` expected")
                eb = norm(inner[1][1])
                for need in ["vec3 c(0.0);", "for (const vec3& v : bImpl->vertPos_) c += v;", "c /= static_cast<double>(bImpl->NumVert());",
                             "composedHulls.push_back(a.Translate(c));"]:
                    if need not in eb:
                        raise Fail("base: translated copy: `%s` not found" % need)
                base.append((cpy + " and o2", leaf(inner[0][1], "`if (originInB)`")))
                base.append((cpy + " and not o2", ("aAtPointOfB",)))
            else:
                base.append((cpy, leaf(blk, "`if (%s)`" % norm(cond or "else"))))
        base.append(("True", ("none",)))
    # ---- pieces chain: the top-level chain whose first block builds hulls
    pieces = None
    for s, e, chain in tops:
        if any("Manifold::Hull(" in blk for _, blk in chain) and s > first:
            if pieces is not None:
                raise Fail("two hull-building if-chains")
            pieces = chain
    if pieces is None:
        raise Fail("minkowski.cpp: the if-chain building the hulls was not found")
    pchain = []
    for cond, blk in pieces:
        if cond is None:
            raise Fail("pieces: unexpected bare `else`")
        pchain.append((cond_to_py(cond, "pieces"), classify_pieces(blk)))
    # ---- final op
    if "return evalBatch(std::move(composedHulls), inset ? manifold::OpType::Subtract : manifold::OpType::Add) .AsOriginal();" not in nb \
            and "return evalBatch(std::move(composedHulls), inset ? manifold::OpType::Subtract : manifold::OpType::Add).AsOriginal();" not in nb:
        raise Fail("minkowski.cpp: final `evalBatch(composedHulls, inset ? Subtract : Add).AsOriginal()` not found")
    if "Manifold tree = Manifold::BatchBoolean(items, op);" not in nb:
        raise Fail("minkowski.cpp: evalBatch is not BatchBoolean(items, op)")
    return {"swap": cond_to_py(swap_cond[1], "swap"), "exits": [(cond_to_py(c, "early exit"), k) for _, c, k in sorted(exits)],
            "base": base, "pieces": pchain}


EARLY = {"none": 0, "copyFirst": 1, "copySecond": 2}
BASE = {"none": 0, "a": 1, "aAtPointOfB": 2}


def evaluate(x):
    rows = []
    for bits in itertools.product([False, True], repeat=7):
        inset, aConvex, bConvex, aEmpty, bEmpty, oA, oB = bits
        env = {"inset": inset, "aC": aConvex, "bC": bConvex, "aE": aEmpty, "bE": bEmpty, "o2": oB}
        swapped = bool(eval(x["swap"], {}, env))
        if swapped:
            env.update({"aC": bConvex, "bC": aConvex, "aE": bEmpty, "bE": aEmpty, "o2": oA})
        early = "none"
        for c, k in x["exits"]:
            if eval(c, {}, env):
                early = k
                break
        if early != "none":
            rows.append((bits, [int(swapped), EARLY[early], 0, 0, int(inset)]))
            continue
        base = next(l[0] for c, l in x["base"] if eval(c, {}, env))
        pc = 0
        for c, (kind, cb, ca) in x["pieces"]:
            if eval(c, {}, env):
                if kind == "hullAll":
                    pc = 1
                elif kind == "perFace":
                    pc = 2
                else:
                    pc = 3 + int(bool(eval(cb, {}, env))) + 2 * int(bool(eval(ca, {}, env)))
                break
        rows.append((bits, [int(swapped), 0, BASE[base], pc, int(inset)]))
    return rows


def gen(repo):
    x = extract(repo)
    rows = evaluate(x)
    lb = lambda b: "true" if b else "false"
    o = ["/- GENERATED by tools/extract_minkowski.py from src/minkowski.cpp — do not edit.",
         "   swap:   %s" % x["swap"],
         "   exits:  %s" % "; ".join("%s -> %s" % e for e in x["exits"]),
         "   base:   %s" % "; ".join("%s -> %s" % (c, l[0]) for c, l in x["base"]),
         "   pieces: %s" % "; ".join("%s -> %s%s" % (c, k[0], "" if k[1] is None else "(copiesOfB: %s, copiesOfA: %s)" % (k[1], k[2])) for c, k in x["pieces"]),
         "   (aC bC aE bE o2 are the facts about the operands AFTER the swap)  -/",
         "namespace MV.Gen.Minkowski", "",
         "/-- `([inset, aConvex, bConvex, aEmpty, bEmpty, originInA, originInB], [swapped, early, base, pieces, subtract])`",
         "for all 128 assignments, obtained by evaluating the extracted control flow -/",
         "def table : List (List Bool × List Nat) := ["]
    o.append(",\n".join("  ([%s], [%s])" % (", ".join(lb(b) for b in bits), ", ".join(str(v) for v in code)) for bits, code in rows))
    o += ["]", "", "end MV.Gen.Minkowski"]
    return "\n".join(o) + "\n"


def write_if_changed(path, text):
    old = open(path).read() if os.path.exists(path) else None
    if old == text:
        return False
    os.makedirs(os.path.dirname(path), exist_ok=True)
    with open(path + ".tmp", "w") as f:
        f.write(text)
    os.replace(path + ".tmp", path)
    return True


def main():
    here = os.path.dirname(os.path.dirname(os.path.abspath(__file__)))
    ap = argparse.ArgumentParser()
    ap.add_argument("--repo", default=os.environ.get("VERIF_REPO", "/repo"))
    ap.add_argument("--out", default=os.path.join(here, "lean"))
    a = ap.parse_args()
    try:
        files = {os.path.join(a.out, "MV", "Gen", "Minkowski.lean"): gen(a.repo)}
    except (Fail, OSError) as e:
        print("extract_minkowski: FAILED: %s" % e)
        return 2
    for p, t in files.items():
        print("%s %s" % ("changed" if write_if_changed(p, t) else "unchanged", p))
    return 0


if __name__ == "__main__":
    sys.exit(main())
