#!/bin/bash
# Confirm a seeded change independently, without touching /repo or /verif/build:
#  - scratch worktree of /repo with seeded/<id>/patch.diff applied: pinned suite (serial) built and run;
#  - a scratch copy of /verif (no build dirs) runs the property's quick check with VERIF_REPO=<worktree>.
# usage: tools/confirm_seeded.sh <id> [nosuite]       (e.g. C03_1)
set -u
id=$1; here=$(cd "$(dirname "$0")/.." && pwd); d=$here/seeded/$id; pid=${id%_*}
w=/tmp/confirm_$id; v=/tmp/confirm_verif_$id
git -C /repo worktree remove --force $w 2>/dev/null; rm -rf $w $v
git -C /repo worktree add --detach $w HEAD >/dev/null 2>&1 || exit 2
git -C $w apply $d/patch.diff || { echo "patch does not apply"; git -C /repo worktree remove --force $w; exit 2; }
built=skipped; suite="not run"
if [ "${2:-}" != "nosuite" ]; then
  cmake -G Ninja -S $w -B $w/_cbuild -DMANIFOLD_TEST=ON -DMANIFOLD_PAR=OFF -DMANIFOLD_DOWNLOADS=OFF -DCMAKE_BUILD_TYPE=RelWithDebInfo >/dev/null 2>&1
  cmake --build $w/_cbuild -j16 >/dev/null 2>&1 && built=true || built=false
  if [ $built = true ]; then suite=$(ctest --test-dir $w/_cbuild -j8 --timeout 3000 2>&1 | grep "tests passed" | tail -1); fi
  rm -rf $w/_cbuild
fi
mkdir -p $v && rsync -a --exclude /build --exclude /out --exclude /.git $here/ $v/
chk=$(cd $v && VERIF_REPO=$w ./check.py $pid --tier quick 2>&1 | grep -E "^(VIOLATION|OK|KNOWN)" | tail -2 | tr '\n' ' ')
rm -rf $v
git -C /repo worktree remove --force $w
python3 - "$d/meta.json" "$built" "$suite" "$chk" <<'PY'
import json,sys
p,built,suite,chk=sys.argv[1:5]
m=json.load(open(p))
m['confirmed']={'compiles_and_suite_built':built,'pinned_suite':suite,'check_result':chk.strip(),'caught':'VIOLATION' in chk}
json.dump(m,open(p,'w'),indent=1)
print(json.dumps(m['confirmed']))
PY
