#!/usr/bin/env python3
"""Decode a `sync` request line of harness/c06_threads.cpp: print events around an index and, for an
access, the earlier conflicting accesses of other threads to the same variable.
usage: c06_trace.py <file with REQ/sync lines> <line no (0-based)> <event index> [context]"""
import sys
FIELD = {0: "-", 1: "pNode_", 2: "ctx_", 3: "leaf.pImpl_", 4: "leaf.transform_", 5: "op.*impl_", 6: "op.cache_", 7: "cs.paths_", 8: "cs.transform_", 9: "cs.tolerance_"}
CLS = {0: "token", 1: "pNodeMutex_", 3: "leaf.mutex_", 5: "op.guard", 7: "pathsMutex_"}


def parse(line):
    t = line.split()
    if t[0] == "REQ":
        t = t[1:]
    assert t[0] == "sync"
    n, cnt = int(t[1]), int(t[2])
    nums = list(map(int, t[3:]))
    ev = [tuple(nums[i:i + 4]) for i in range(0, len(nums), 4)]
    assert len(ev) == cnt
    return n, ev


def show(e):
    k, t, a, b = e
    if k == 0:
        return "T%d acq  %s#%d mode=%d" % (t, CLS.get(a % 16, "?"), a // 16, b)
    if k == 1:
        return "T%d rel  %s#%d" % (t, CLS.get(a % 16, "?"), a // 16)
    if k in (2, 3):
        g = "unguarded" if b == 0 else "under %s#%d" % (CLS.get((b - 1) % 16, "?"), (b - 1) // 16)
        return "T%d %s   %s#%d %s" % (t, "rd" if k == 2 else "wr", FIELD.get(a % 16, "?"), a // 16, g)
    return "T%d fetch_add old=%d n=%d" % (t, a, b)


def describe(ev, idx, ctx=6):
    out = []
    for i in range(max(0, idx - ctx), min(len(ev), idx + 3)):
        out.append("%s%6d  %s" % (">>" if i == idx else "  ", i, show(ev[i])))
    k, t, a, b = ev[idx]
    if k in (2, 3):
        out.append("   earlier accesses to the same variable by other threads:")
        for i in range(idx):
            k2, t2, a2, b2 = ev[i]
            if k2 in (2, 3) and a2 == a and t2 != t and (k == 3 or k2 == 3):
                out.append("  %6d  %s" % (i, show(ev[i])))
    if k in (0, 1):
        held = {}
        for i in range(idx):
            k2, t2, a2, b2 = ev[i]
            if t2 != t:
                continue
            if k2 == 0 and b2 != 3:
                held[a2] = held.get(a2, 0) + 1
            if k2 == 1 and a2 in held:
                held[a2] -= 1
                if held[a2] == 0:
                    del held[a2]
        out.append("   locks held by T%d at that point: %s" % (t, ", ".join("%s#%d" % (CLS.get(l % 16, "?"), l // 16) for l in held) or "none"))
    return "\n".join(out)


if __name__ == "__main__":
    lines = [l for l in open(sys.argv[1]) if l.startswith("sync") or l.startswith("REQ sync")]
    n, ev = parse(lines[int(sys.argv[2])])
    print(describe(ev, int(sys.argv[3]), int(sys.argv[4]) if len(sys.argv) > 4 else 6))
