#!/usr/bin/env python3
"""Translator for property C15 (cancellation half): the cancellation discipline of every function of
src/ that runs work under an ExecutionContext, read from the CURRENT working tree.

For every top-level function whose body mentions `ctx` / `ctx_` the body is flattened into the
sequence of its statements (nested blocks in source order), each classified as

    loop          a parallel primitive (for_each, for_each_n, transform, ...) that is handed the context:
                  it checks the flag per chunk and skips the rest of its range when cancelled
    call <callee> a call of another function that is handed the context
    check         `if (IsCancelled(ctx)) ...return...`, ADVANCE_PHASE_OR_RETURN(...), `phase(__LINE__)` tests
    work          anything else

and written to lean/MV/Gen/CancelSites.lean as `fns : List Fn`.  MV/Model/CancelSites.lean holds the
decidable discipline and the REVIEWED exceptions; MV/Props/C15.lean proves `cancel_sites_guarded` by kernel
evaluation over the generated table and derives the hypothesis `guarded` of `cancel_all_or_nothing` for the
generated programs.  A new context-aware loop or call that is not followed by a check before the
function returns (the shape of the repaired Refine defect) breaks that proof; the check then searches by
fault enumeration.

usage: extract_cancel.py [repo] [out.lean]        exit 2 + message when nothing can be read
"""
import os, re, sys
sys.path.insert(0, os.path.dirname(os.path.abspath(__file__)))
import extract_atomics as ea

PRIM = r"(?:for_each_n|for_each|transform|copy_if|remove_if|sequence|gather|scatter|fill|exclusive_scan|inclusive_scan|reduce|transform_reduce|stable_sort|count_if|all_of|copy|sort)"
CTXARG = r"[,(]\s*ctx_?\s*[,)]"
SKIP_FILES = {"verif_hooks.h", "parallel.h", "execution_impl.h", "execution_impl.cpp"}   # the hook table / the primitives and IsCancelled themselves


def statements(body):
    """top-level statements of a block body, nested blocks flattened in source order"""
    out, cur, i, n = [], [], 0, len(body)
    while i < n:
        c = body[i]
        if c == "(":
            j = ea.matching(body, i); cur.append(body[i:j]); i = j; continue
        if c == "{":
            j = ea.matching(body, i, "{", "}")
            head = "".join(cur).strip(); cur = []
            if head:
                out.append(("head", head))
            out += statements(body[i + 1:j - 1])
            i = j; continue
        if c == ";":
            s = "".join(cur).strip(); cur = []
            if s:
                out.append(("stmt", s))
            i += 1; continue
        cur.append(c); i += 1
    s = "".join(cur).strip()
    if s:
        out.append(("stmt", s))
    return out


def classify(kind, s):
    t = re.sub(r"\s+", " ", s)
    if re.search(r"\bIsCancelled\s*\(", t) or re.search(r"\bADVANCE_PHASE_OR_RETURN\b", t) or re.search(r"\bphase\(__LINE__\)", t):
        return ("check", "")
    if kind == "head":
        # block heads (if / for / while / else / lambda heads at statement level) carry no work of their own,
        # except a call with the context in the condition
        if not re.search(CTXARG, t):
            return None
    if re.search(CTXARG, t):
        if re.search(r"\b" + PRIM + r"\s*\(", t):
            return ("loop", "")
        callee = None
        for mm in re.finditer(r"([A-Za-z_][\w:\.\->]*?)(?:<[^;(){}]*>)?\s*\(", t):
            name = mm.group(1).split("::")[-1].split(".")[-1].split("->")[-1]
            if name in ("if", "for", "while", "return", "switch", "sizeof", "static_cast", "move", "make_shared", "make_pair", "max", "min", "size", "get"):
                continue
            e = ea.matching(t, mm.end() - 1)
            if re.search(CTXARG, t[mm.end() - 1:e]):
                callee = name
        if callee and callee not in ("IsCancelled", "Sync", "SyncG"):
            return ("call", callee)
        if callee in ("Sync", "SyncG"):
            return ("work", "")
        return ("work", "")
    return ("work", "")


def extract(repo):
    d = os.path.join(repo, "src")
    fns = []
    for f in sorted(os.listdir(d)):
        if not f.endswith((".cpp", ".h")) or f in SKIP_FILES:
            continue
        src = ea.strip_comments(open(os.path.join(d, f)).read())
        for (a, b, name) in ea.scopes_of(src):
            if name.startswith("struct "):
                continue
            body = src[a:b]
            if not re.search(r"\bctx_?\b", body):
                continue
            seq = []
            for k, s in statements(body[1:-1]):
                c = classify(k, s)
                if c:
                    seq.append(c)
            if not any(c[0] in ("loop", "call", "check") for c in seq):
                continue
            # collapse runs of work: only their presence between context-aware operations matters
            items = []
            for c in seq:
                if c[0] == "work" and items and items[-1][0] == "work":
                    continue
                items.append(c)
            fns.append({"file": f, "name": name.split("::")[-1], "qual": name, "items": items, "line": src.count("\n", 0, a) + 1})
    if not any(i[0] == "loop" for fn in fns for i in fn["items"]) or not any(fn["name"] == "SortGeometry" for fn in fns):
        raise RuntimeError("no context-aware loop / SortGeometry not found: the patterns the inventory relies on are gone")
    return fns


def lean_str(s):
    return '"' + s.replace("\\", "\\\\").replace('"', '\\"') + '"'


def render(fns):
    L = ["/-! GENERATED by tools/extract_cancel.py from src/*.cpp, src/*.h: the cancellation discipline of every",
         "function that runs work under an ExecutionContext.  Do not edit by hand; regenerated by checks/c15.py. -/",
         "namespace MV.Gen.CancelSites", "",
         "inductive Item where", "  | loop", "  | call (callee : String)", "  | check", "  | work", "  deriving DecidableEq, Repr", "",
         "structure Fn where", "  file : String", "  name : String", "  body : List Item", "  deriving DecidableEq, Repr", "",
         "open Item in", "def fns : List Fn := ["]
    rows = []
    for fn in fns:
        its = ", ".join(".loop" if k == "loop" else ".check" if k == "check" else ".work" if k == "work" else ".call %s" % lean_str(v) for k, v in fn["items"])
        rows.append("  ⟨%s, %s, [%s]⟩" % (lean_str(fn["file"]), lean_str(fn["name"]), its))
    L.append(",\n".join(rows))
    L += ["]", "", "end MV.Gen.CancelSites", ""]
    return "\n".join(L)


def main():
    repo = sys.argv[1] if len(sys.argv) > 1 else os.environ.get("VERIF_REPO", "/repo")
    out = sys.argv[2] if len(sys.argv) > 2 else os.path.join(os.path.dirname(os.path.dirname(os.path.abspath(__file__))), "lean", "MV", "Gen", "CancelSites.lean")
    try:
        fns = extract(repo)
    except Exception as e:
        sys.stderr.write("extract_cancel: %s\n" % e)
        return 2
    txt = render(fns)
    old = open(out).read() if os.path.exists(out) else None
    if old != txt:
        with open(out, "w") as f:
            f.write(txt)
    n = lambda k: sum(1 for fn in fns for i in fn["items"] if i[0] == k)
    print("functions=%d loops=%d calls=%d checks=%d" % (len(fns), n("loop"), n("call"), n("check")))
    return 0


if __name__ == "__main__":
    sys.exit(main())
