#!/usr/bin/env python3
"""Translator for property C15: regenerates lean/MV/Gen/Phases.lean from the WORKING TREE of the repo.

Extracted (every item fails loudly - exit 2 with the missing pattern - when it is no longer found):
  * the constants kPhasesPerBoolean / kPhasesPerFromMesh / kPhasesPerSmooth / kPhasesPerLevelSet (src/execution_impl.h)
  * the COUNT of `phase(__LINE__)` sites in Boolean3::Result (src/boolean_result.cpp)
  * the COUNT of ADVANCE_PHASE_OR_RETURN sites in Manifold::Impl::Impl(MeshGLP, ctx) (src/impl.h),
    Manifold::Impl::CreateTangents(sharpenedEdges, ctx) (src/smoothing.cpp), Manifold::Impl::CreateLevelSet (src/sdf.cpp)
  * the ORDER of the four counter stores in Manifold::GetCsgLeafNode (src/manifold.cpp) and in
    ResetForStaticFactory (src/execution_impl.cpp)
  * inside the ADVANCE_PHASE_OR_RETURN macro: cancel test before the credit?  inside the `phase` lambda of
    Boolean3::Result: credit before the cancel test?  PhaseBalance tops up to kPhasesPerBoolean?

usage: extract_phases.py [--repo DIR] [--out FILE] [--check]     (--check: exit 1 if FILE differs from what would be written)
"""
import argparse, os, re, sys


class Missing(Exception):
    pass


def strip_comments(src):
    """remove // and /* */ comments, keep strings (none of the patterns live in strings)."""
    out, i, n = [], 0, len(src)
    while i < n:
        if src.startswith("//", i):
            j = src.find("\n", i)
            i = n if j < 0 else j
        elif src.startswith("/*", i):
            j = src.find("*/", i + 2)
            i = n if j < 0 else j + 2
        elif src[i] == '"':
            j = i + 1
            while j < n and src[j] != '"':
                j += 2 if src[j] == "\\" else 1
            out.append(src[i:j + 1]); i = j + 1
        else:
            out.append(src[i]); i += 1
    return "".join(out)


def read(repo, rel):
    p = os.path.join(repo, rel)
    if not os.path.exists(p):
        raise Missing("file %s" % rel)
    return strip_comments(open(p).read())


def body_after(src, header_re, what):
    """text of the brace-balanced block that follows the first match of header_re."""
    m = re.search(header_re, src, re.S)
    if not m:
        raise Missing("function header of %s (%s)" % (what, header_re))
    i = src.find("{", m.end() - 1)
    if i < 0:
        raise Missing("opening brace of %s" % what)
    depth, j = 0, i
    while j < len(src):
        if src[j] == "{":
            depth += 1
        elif src[j] == "}":
            depth -= 1
            if depth == 0:
                return src[i:j + 1]
        j += 1
    raise Missing("closing brace of %s" % what)


def constants(repo):
    src = read(repo, "src/execution_impl.h")
    vals = {}
    for name in ("kPhasesPerBoolean", "kPhasesPerFromMesh", "kPhasesPerSmooth", "kPhasesPerLevelSet"):
        m = re.search(r"constexpr\s+int\s+%s\s*=\s*([^;]+);" % name, src)
        if not m:
            raise Missing("constexpr int %s in src/execution_impl.h" % name)
        expr = m.group(1).strip()
        for k, v in vals.items():
            expr = re.sub(r"\b%s\b" % k, str(v), expr)
        if not re.fullmatch(r"[0-9+\-*() \t\n]+", expr):
            raise Missing("an integer expression for %s (got `%s`)" % (name, m.group(1).strip()))
        vals[name] = int(eval(expr, {"__builtins__": {}}))
    return vals, src


def count_sites(body, pat, what, allow_zero=False):
    n = len(re.findall(pat, body))
    if n == 0 and not allow_zero:
        raise Missing("any `%s` site in %s" % (pat, what))
    return n


def store_order(body, what):
    names = re.findall(r"ctx->\s*(doneBooleans|donePhases|totalBooleans|totalPhases)\s*\.\s*store\s*\(", body)
    if sorted(names) != sorted(["doneBooleans", "donePhases", "totalBooleans", "totalPhases"]):
        raise Missing("exactly one store to each of the four counters in %s (found %s)" % (what, names))
    return names


def extract(repo):
    k, hdr = constants(repo)
    res = dict(k)
    result = body_after(read(repo, "src/boolean_result.cpp"), r"Manifold::Impl\s+Boolean3::Result\s*\(\s*OpType\s+op\s*\)\s*const\s*\{", "Boolean3::Result")
    res["resultPhaseSites"] = count_sites(result, r"\bphase\s*\(\s*__LINE__\s*\)", "Boolean3::Result")
    lam = body_after(result, r"auto\s+phase\s*=\s*\[&\]\s*\(\s*int\s+line\s*\)[^{]*\{", "the phase lambda of Boolean3::Result")
    ic, fa = lam.find("IsCancelled("), lam.find("donePhases.fetch_add(")
    if ic < 0 or fa < 0:
        raise Missing("IsCancelled(...) and donePhases.fetch_add(...) inside the phase lambda")
    res["phaseCreditsBeforeCheck"] = fa < ic
    bal = body_after(result, r"struct\s+PhaseBalance\s*\{", "struct PhaseBalance")
    m = re.search(r"fetch_add\s*\(\s*kPhasesPerBoolean\s*-\s*published", bal)
    res["balanceTopsUpToK"] = bool(m) and "IsCancelled(ctx)" in bal
    if not res["balanceTopsUpToK"]:
        raise Missing("PhaseBalance: `if (IsCancelled(ctx)) return;` and `fetch_add(kPhasesPerBoolean - published`")
    ctor = body_after(read(repo, "src/impl.h"), r"Manifold::Impl::Impl\s*\(\s*const\s+MeshGLP\s*<\s*Precision\s*,\s*I\s*>\s*&\s*meshGL\s*,\s*ExecutionContext::Impl\s*\*\s*ctx\s*\)\s*\{", "Manifold::Impl::Impl(MeshGLP, ctx)")
    res["meshCtorAdvanceSites"] = count_sites(ctor, r"\bADVANCE_PHASE_OR_RETURN\s*\(", "the MeshGL constructor")
    tang = body_after(read(repo, "src/smoothing.cpp"), r"void\s+Manifold::Impl::CreateTangents\s*\(\s*std::vector\s*<\s*Smoothness\s*>\s*sharpenedEdges\s*,\s*ExecutionContext::Impl\s*\*\s*ctx\s*\)\s*\{", "CreateTangents(sharpenedEdges, ctx)")
    res["createTangentsAdvanceSites"] = count_sites(tang, r"\bADVANCE_PHASE_OR_RETURN\s*\(", "CreateTangents")
    ls = body_after(read(repo, "src/sdf.cpp"), r"void\s+Manifold::Impl::CreateLevelSet\s*\([^{;]*?ExecutionContext::Impl\s*\*\s*ctx\s*\)\s*\{", "CreateLevelSet")
    res["createLevelSetAdvanceSites"] = count_sites(ls, r"\bADVANCE_PHASE_OR_RETURN\s*\(", "CreateLevelSet")
    # the macro itself
    m = re.search(r"#define\s+ADVANCE_PHASE_OR_RETURN\s*\(\s*ctx\s*\)((?:[^\n]*\\\n)*[^\n]*)", hdr)
    if not m:
        raise Missing("#define ADVANCE_PHASE_OR_RETURN(ctx)")
    mac = m.group(1)
    ic, fa = mac.find("IsCancelled("), mac.find("donePhases.fetch_add(")
    if ic < 0 or fa < 0 or "MakeEmpty(" not in mac:
        raise Missing("IsCancelled / MakeEmpty / donePhases.fetch_add inside ADVANCE_PHASE_OR_RETURN")
    res["advanceChecksBeforeCredit"] = ic < fa
    m2 = re.search(r"donePhases\.fetch_add\s*\(\s*(\d+)\s*,", mac)
    if not m2:
        raise Missing("the credit amount of ADVANCE_PHASE_OR_RETURN")
    res["advanceCredit"] = int(m2.group(1))
    # reset orders
    g = body_after(read(repo, "src/manifold.cpp"), r"CsgLeafNode\s*&\s*Manifold::GetCsgLeafNode\s*\(\s*ExecutionContext::Impl\s*\*\s*ctx\s*\)\s*const\s*\{", "Manifold::GetCsgLeafNode")
    # only the reset block: up to the ToLeafNode call (a later top-up of the numerators is not a reset)
    cut = g.find("ToLeafNode(")
    if cut < 0:
        raise Missing("ToLeafNode( call in GetCsgLeafNode")
    res["resetOrderCsg"] = store_order(g[:cut], "GetCsgLeafNode (before ToLeafNode)")
    if not re.search(r"totalPhases\s*\.\s*store\s*\(\s*booleans\s*\*\s*kPhasesPerBoolean", g[:cut]):
        raise Missing("totalPhases.store(booleans * kPhasesPerBoolean in GetCsgLeafNode")
    if not re.search(r"booleans\s*=\s*leaves\s*>\s*0\s*\?\s*static_cast<int>\s*\(\s*leaves\s*-\s*1\s*\)\s*:\s*0", g[:cut]):
        raise Missing("booleans = leaves > 0 ? leaves - 1 : 0 in GetCsgLeafNode")
    tail = g[cut:]
    res["csgTopsUpOnCompletion"] = bool(re.search(r"donePhases\s*\.\s*store\s*\(\s*ctx->totalPhases\s*\.\s*load", tail)) and \
        bool(re.search(r"doneBooleans\s*\.\s*store\s*\(\s*ctx->totalBooleans\s*\.\s*load", tail)) and "Cancelled" in tail
    r = body_after(read(repo, "src/execution_impl.cpp"), r"void\s+ResetForStaticFactory\s*\([^)]*\)\s*\{", "ResetForStaticFactory")
    res["resetOrderFactory"] = store_order(r, "ResetForStaticFactory")
    return res


def render(r):
    b = lambda x: "true" if x else "false"
    ls = lambda xs: "[" + ", ".join('"%s"' % x for x in xs) + "]"
    return """/-! GENERATED by tools/extract_phases.py from the repo's working tree - do not edit by hand.
Constants and site counts of the progress accounting (property C15). Theorems over this file are closed
by `decide` in MV/Props/C15.lean, so an edit to the C++ is re-proved against what the code says now. -/
namespace MV.Gen.Phases

/-- src/execution_impl.h -/
def kPhasesPerBoolean : Nat := %(kPhasesPerBoolean)d
def kPhasesPerFromMesh : Nat := %(kPhasesPerFromMesh)d
def kPhasesPerSmooth : Nat := %(kPhasesPerSmooth)d
def kPhasesPerLevelSet : Nat := %(kPhasesPerLevelSet)d

/-- number of `phase(__LINE__)` sites in `Boolean3::Result` (src/boolean_result.cpp) -/
def resultPhaseSites : Nat := %(resultPhaseSites)d
/-- number of `ADVANCE_PHASE_OR_RETURN` sites in `Manifold::Impl::Impl(MeshGLP, ctx)` (src/impl.h) -/
def meshCtorAdvanceSites : Nat := %(meshCtorAdvanceSites)d
/-- ... in `Manifold::Impl::CreateTangents(sharpenedEdges, ctx)` (src/smoothing.cpp) -/
def createTangentsAdvanceSites : Nat := %(createTangentsAdvanceSites)d
/-- ... in `Manifold::Impl::CreateLevelSet` (src/sdf.cpp) -/
def createLevelSetAdvanceSites : Nat := %(createLevelSetAdvanceSites)d

/-- `ADVANCE_PHASE_OR_RETURN`: the cancel test textually precedes the credit; amount credited -/
def advanceChecksBeforeCredit : Bool := %(acbc)s
def advanceCredit : Nat := %(advanceCredit)d
/-- the `phase` lambda of `Boolean3::Result`: `donePhases.fetch_add(1)` precedes `IsCancelled` -/
def phaseCreditsBeforeCheck : Bool := %(pcbc)s
/-- `PhaseBalance::~PhaseBalance`: returns on cancel, else `fetch_add(kPhasesPerBoolean - published)` -/
def balanceTopsUpToK : Bool := %(btk)s

/-- order of the four counter stores in `Manifold::GetCsgLeafNode` (before `ToLeafNode`) -/
def resetOrderCsg : List String := %(roc)s
/-- order of the four counter stores in `ResetForStaticFactory` (src/execution_impl.cpp) -/
def resetOrderFactory : List String := %(rof)s
/-- `GetCsgLeafNode` stores the totals into the numerators after an uncancelled `ToLeafNode` -/
def csgTopsUpOnCompletion : Bool := %(tu)s

end MV.Gen.Phases
""" % dict(r, acbc=b(r["advanceChecksBeforeCredit"]), pcbc=b(r["phaseCreditsBeforeCheck"]), btk=b(r["balanceTopsUpToK"]),
           roc=ls(r["resetOrderCsg"]), rof=ls(r["resetOrderFactory"]), tu=b(r["csgTopsUpOnCompletion"]))


def main():
    here = os.path.dirname(os.path.dirname(os.path.abspath(__file__)))
    ap = argparse.ArgumentParser()
    ap.add_argument("--repo", default=os.environ.get("VERIF_REPO", "/repo"))
    ap.add_argument("--out", default=os.path.join(here, "lean", "MV", "Gen", "Phases.lean"))
    ap.add_argument("--check", action="store_true")
    a = ap.parse_args()
    try:
        txt = render(extract(a.repo))
    except Missing as e:
        print("extract_phases: pattern no longer found: %s" % e, file=sys.stderr)
        return 2
    old = open(a.out).read() if os.path.exists(a.out) else None
    if a.check:
        return 0 if old == txt else 1
    if old != txt:
        os.makedirs(os.path.dirname(a.out), exist_ok=True)
        with open(a.out, "w") as f:
            f.write(txt)
        print("extract_phases: wrote %s" % a.out)
    else:
        print("extract_phases: %s unchanged" % a.out)
    return 0


if __name__ == "__main__":
    sys.exit(main())
