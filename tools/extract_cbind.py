#!/usr/bin/env python3
"""Translator for property C20: bindings/c/*.cpp + headers  ->  lean/MV/Gen/CBind.lean  (+ build/cbind_table.json)

Regenerated from the working tree (VERIF_REPO or /repo) on every run of checks/c20.py.  Source of truth is the
typed clang AST (`clang++-14 -Xclang -ast-dump=json -Xclang -ast-dump-filter=...`), never a regex over the text.

What is extracted
  (a) every enum switch table of conv.cpp (`to_c` / `from_c` overloads that switch on an enum): the pairs
      (source enumerator, target enumerator) incl. the default carried by the result variable's initialiser, and the
      full enumerator lists of both enums (types.h / the C++ headers);
      every pointer overload of to_c/from_c (reinterpret_cast between an opaque C type and a C++ type) and the
      by-value converters (component lists);
  (b) for every exported `manifold_*` function defined in manifoldc.cpp / cross.cpp / box.cpp / rect.cpp: C parameter
      list, header declaration, every C++ API call / field access it forwards to (resolved declaration, parameter names
      of the C++ declaration, defaults) and, per callee argument, the C parameters it is built from (in order) with the
      packing shape (vec/mat constructor nesting, pointer+length, enum conversion, callback binding);
  (c) `*_size` -> sizeof(T);  alloc_* -> alloc_raw<T>;  destruct_* -> ~T;  delete_* -> delete (T*);
  (d) placement-new sites (mem parameter, constructed type) and what the wrapper returns;
  (e) callback forwarding: std::bind(fun, _1.._k, ctx) / direct calls of a function-pointer parameter.
A pattern that is no longer found is a hard error (exit 2): the tie is broken and checks/c20.py reports it.
"""
import json, os, re, subprocess, sys, concurrent.futures, hashlib

REPO = os.environ.get("VERIF_REPO", "/repo")
ROOT = os.path.dirname(os.path.dirname(os.path.abspath(__file__)))
CLANG = os.environ.get("VERIF_CLANG", "clang++-14")
BIND = os.path.join(REPO, "bindings", "c")
WRAPPER_FILES = ["manifoldc.cpp", "cross.cpp", "box.cpp", "rect.cpp"]


class Broken(Exception):
    pass


def need(cond, msg):
    if not cond:
        raise Broken(msg)


# ----------------------------------------------------------------------------------------------- clang
def tree_key():
    h = hashlib.sha1()
    for d in (BIND, os.path.join(BIND, "include", "manifold"), os.path.join(REPO, "include", "manifold")):
        for f in sorted(os.listdir(d)):
            p = os.path.join(d, f)
            if os.path.isfile(p):
                h.update(f.encode()); h.update(open(p, "rb").read())
    return h.hexdigest()[:20]


def clang_dump(src, filt):
    """AST of one translation unit (cached under build/cbind_cache, keyed by the content of every binding and API header/source)"""
    cdir = os.path.join(ROOT, "build", "cbind_cache")
    os.makedirs(cdir, exist_ok=True)
    cpath = os.path.join(cdir, "%s-%s-%s.json" % (tree_key(), src, filt))
    if os.path.exists(cpath):
        txt = open(cpath).read()
    else:
        txt = run_clang(src, filt)
        for old in os.listdir(cdir):
            if old.endswith("-%s-%s.json" % (src, filt)):
                os.remove(os.path.join(cdir, old))
        with open(cpath + ".tmp", "w") as f:
            f.write(txt)
        os.replace(cpath + ".tmp", cpath)
    dec, i, objs = json.JSONDecoder(), 0, []
    n = len(txt)
    while True:
        while i < n and txt[i].isspace():
            i += 1
        if i >= n:
            break
        o, i = dec.raw_decode(txt, i)
        objs.append(o)
    need(objs, "clang produced no declarations for %s (filter %s)" % (src, filt))
    return objs


def run_clang(src, filt):
    cmd = [CLANG, "-std=gnu++17", "-Xclang", "-ast-dump=json", "-Xclang", "-ast-dump-filter=" + filt, "-fsyntax-only",
           "-I" + os.path.join(REPO, "include"), "-I" + os.path.join(BIND, "include"), "-I" + BIND, os.path.join(BIND, src)]
    p = subprocess.run(cmd, capture_output=True, text=True)
    if p.returncode != 0:
        raise Broken("clang failed on %s (filter %s): %s" % (src, filt, p.stderr[-2000:]))
    return p.stdout


def kids(n):
    return [c for c in (n.get("inner") or []) if isinstance(c, dict) and c]


def walk(n):
    yield n
    for c in kids(n):
        yield from walk(c)


def qt(n):
    t = n.get("type") or {}
    return t.get("qualType", "")


def canon_type(t):
    """canonical spelling of a clang type record"""
    s = t.get("desugaredQualType") or t.get("qualType") or ""
    return deep_canon(s)


SUGAR = {}   # spelled type -> one-step desugared type, collected from every type record of the dump


def collect_sugar(objs):
    stack = list(objs)
    while stack:
        n = stack.pop()
        for key in ("type", "argType"):
            t = n.get(key)
            if isinstance(t, dict) and "desugaredQualType" in t and t.get("qualType") != t["desugaredQualType"]:
                SUGAR.setdefault(normalize_type(t["qualType"]), normalize_type(t["desugaredQualType"]))
        inner = n.get("inner")
        if inner:
            stack.extend(c for c in inner if isinstance(c, dict))


def deep_canon(s, depth=0):
    """replace every spelled alias inside s (also inside template arguments) by its desugared form"""
    s = normalize_type(s)
    if depth > 8:
        return s

    def rep(m):
        t = m.group(0)
        for cand in (t, "manifold::" + t):
            if cand in SUGAR and SUGAR[cand] != t:
                return deep_canon(SUGAR[cand], depth + 1)
        return t
    out = re.sub(r"[A-Za-z_][A-Za-z_0-9]*(?:::[A-Za-z_][A-Za-z_0-9]*)*", rep, s)
    out = out.replace("> >", ">>")
    return out


ALIASES = [  # spelling aliases that clang leaves sugared inside template arguments
    ("manifold::vec2", "linalg::vec<double, 2>"), ("manifold::vec3", "linalg::vec<double, 3>"), ("manifold::vec4", "linalg::vec<double, 4>"),
    ("manifold::ivec3", "linalg::vec<int, 3>"), ("manifold::SimplePolygon", "std::vector<linalg::vec<double, 2>>"),
]


def normalize_type(s):
    s = re.sub(r"\bstruct\s+|\bclass\s+", "", s).strip()
    s = re.sub(r"^const\s+", "", s)
    s = re.sub(r",\s*std::allocator<.*>\s*>", ">", s) if "std::allocator" in s else s
    return s


# ----------------------------------------------------------------------------------------------- declaration index
class Decl:
    __slots__ = ("id", "kind", "name", "qual", "params", "type", "cls", "ndefault", "isstatic")

    def __init__(self, **kw):
        for k in self.__slots__:
            setattr(self, k, kw.get(k))


def index_decls(objs):
    """id -> Decl for every function/method/ctor/field reachable in the dumped namespaces and records"""
    idx = {}
    enums = {}   # qualified enum name -> [(enumerator, value)]
    records = {}  # C struct name -> [field names]

    def visit(n, scope):
        k = n.get("kind")
        name = n.get("name")
        if k == "NamespaceDecl":
            sc = scope + [name if name else "(anonymous)"]
            for c in kids(n):
                visit(c, sc)
            return
        if k in ("ClassTemplateDecl", "FunctionTemplateDecl", "LinkageSpecDecl"):
            for c in kids(n):
                visit(c, scope)
            return
        if k in ("CXXRecordDecl", "ClassTemplateSpecializationDecl", "ClassTemplatePartialSpecializationDecl"):
            if n.get("isImplicit"):
                return
            sc = scope + [name or "(anon)"]
            fields = []
            for c in kids(n):
                if c.get("kind") == "FieldDecl":
                    fields.append((c.get("name"), qt(c)))
                visit(c, sc)
            if fields:
                records.setdefault("::".join(sc), fields)
            return
        if k == "EnumDecl":
            q = "::".join(scope + [name or "(anon)"])
            vals, nxt = [], 0
            for c in kids(n):
                if c.get("kind") == "EnumConstantDecl":
                    v = None
                    for d in walk(c):
                        if d.get("kind") in ("ConstantExpr", "IntegerLiteral") and "value" in d:
                            v = int(d["value"]); break
                    if v is None:
                        v = nxt
                    nxt = v + 1
                    vals.append((c.get("name"), v))
                    if "id" in c:
                        idx[c["id"]] = Decl(id=c["id"], kind="EnumConstantDecl", name=c.get("name"), qual=q + "::" + c.get("name"), cls=q, type=qt(c), params=[])
            enums[q] = vals
            return
        if k in ("FunctionDecl", "CXXMethodDecl", "CXXConstructorDecl", "CXXDestructorDecl", "CXXConversionDecl"):
            ps = []
            for c in kids(n):
                if c.get("kind") == "ParmVarDecl":
                    ps.append((c.get("name") or "", qt(c), bool(c.get("init")) or any(True for _ in kids(c))))
            d = Decl(id=n.get("id"), kind=k, name=name, qual="::".join(scope + [name or ""]), params=ps, type=qt(n),
                     cls="::".join(scope), ndefault=sum(1 for p in ps if p[2]), isstatic=(n.get("storageClass") == "static"))
            if n.get("id"):
                idx[n["id"]] = d
            return
        if k == "FieldDecl":
            if n.get("id"):
                idx[n["id"]] = Decl(id=n["id"], kind="FieldDecl", name=name, qual="::".join(scope + [name or ""]), params=[], type=qt(n), cls="::".join(scope))
            return
        if k in ("VarDecl",):
            if n.get("id"):
                idx[n["id"]] = Decl(id=n["id"], kind="VarDecl", name=name, qual="::".join(scope + [name or ""]), params=[], type=qt(n), cls="::".join(scope))
            return

    for o in objs:
        visit(o, [])
    return idx, enums, records


# ----------------------------------------------------------------------------------------------- wrapper analysis
TRANSPARENT_FUNCS = {"to_c", "from_c"}
ARRAY_FUNCS = {"vector_of_array", "vector_of_vec_array"}
STRIP = {"ImplicitCastExpr", "ExprWithCleanups", "CXXBindTemporaryExpr", "MaterializeTemporaryExpr", "ParenExpr", "CXXFunctionalCastExpr",
         "CXXStaticCastExpr", "CXXReinterpretCastExpr", "ConstantExpr", "CStyleCastExpr", "CXXConstCastExpr"}


def strip(n):
    while n.get("kind") in STRIP and len(kids(n)) == 1:
        n = kids(n)[0]
    return n


def callee_ref(call):
    """(kind, refnode) for CallExpr / CXXMemberCallExpr / CXXOperatorCallExpr"""
    ks = kids(call)
    if not ks:
        return None
    c = strip(ks[0])
    return c


class Wrapper:
    pass


def is_copy_or_move_ctor(n):
    ct = (n.get("ctorType") or {}).get("qualType", "")
    ty = normalize_type((n.get("type") or {}).get("qualType", ""))
    m = re.match(r"void \((?:const )?(.+?) ?(&&|&)\)", ct)
    if not m:
        return False
    a = normalize_type(m.group(1))
    dty = canon_type(n.get("type") or {})
    return a == ty or a == dty or a.split("::")[-1] == ty.split("::")[-1]


class Analyzer:
    def __init__(self, fn, idx, helpers, fname, records=None):
        self.fn, self.idx, self.helpers, self.fname = fn, idx, helpers, fname
        self.records = records or {}
        self.env0 = {}
        self.name = fn["name"]
        self.params = [(c.get("name") or "", qt(c), c.get("id")) for c in kids(fn) if c.get("kind") == "ParmVarDecl"]
        self.pid = {p[2]: p[0] for p in self.params}
        self.body = [c for c in kids(fn) if c.get("kind") == "CompoundStmt"][0]
        self.env = {}       # local var id -> provenance (list of src strings, aux list, shape)
        self.varinit = {}   # local var id -> init node
        self.calls = []
        self.placements = []
        self.callbacks = []
        self.sizeofs = []
        self.deletes = []
        self.destructs = []
        self.allocs = []
        self.copyouts = []
        self.returns = []
        self.defaults_used = 0
        self.seen_call_nodes = set()

    # -- provenance --------------------------------------------------------------------------------
    def prov(self, n, lam_params=frozenset()):
        """ordered, de-duplicated list of C-side sources an expression is built from; aux = lengths/conditions"""
        srcs, aux = [], []

        def add(lst, s):
            if s not in lst:
                lst.append(s)

        def go(n, lst):
            k = n.get("kind")
            if k == "DeclRefExpr":
                rd = n.get("referencedDecl") or {}
                rid = rd.get("id")
                if rid in self.pid:
                    add(lst, self.pid[rid])
                elif rid in self.env:
                    s, a = self.env[rid]
                    for x in s:
                        add(lst, x)
                    for x in a:
                        add(aux, x)
                return
            if k == "MemberExpr":
                b = kids(n)
                mid = n.get("referencedMemberDecl")
                d = self.idx.get(mid)
                if b:
                    base = strip(b[0])
                    if d is not None and d.kind == "FieldDecl" and not d.qual.startswith("manifold::"):
                        # field of a C struct (types.h): keep the component
                        if base.get("kind") == "DeclRefExpr" and (base.get("referencedDecl") or {}).get("id") in self.pid:
                            add(lst, self.pid[base["referencedDecl"]["id"]] + "." + n.get("name", "?"))
                            return
                        if base.get("kind") == "ArraySubscriptExpr":
                            arr = strip(kids(base)[0])
                            if arr.get("kind") == "DeclRefExpr" and (arr.get("referencedDecl") or {}).get("id") in self.pid:
                                add(lst, self.pid[arr["referencedDecl"]["id"]] + "[]." + n.get("name", "?"))
                                for x in kids(base)[1:]:
                                    go(x, aux)
                                return
                    go(b[0], lst)
                return
            if k in ("CallExpr", "CXXMemberCallExpr", "CXXOperatorCallExpr"):
                ks = kids(n)
                cal = strip(ks[0]) if ks else {}
                nm = (cal.get("referencedDecl") or {}).get("name") if cal.get("kind") == "DeclRefExpr" else cal.get("name")
                if cal.get("kind") == "MemberExpr":
                    go(cal, lst)
                if nm in ARRAY_FUNCS and len(ks) >= 3:
                    go(ks[1], lst)
                    for x in ks[2:]:
                        go(x, aux)
                    return
                for x in ks[1:]:
                    go(x, lst)
                return
            if k == "ArraySubscriptExpr":
                ks = kids(n)
                go(ks[0], lst)
                for x in ks[1:]:
                    go(x, aux)
                return
            if k == "CXXDefaultArgExpr":
                return
            if k == "LambdaExpr":
                for c in kids(n):
                    if c.get("kind") == "CXXRecordDecl":
                        continue
                    go(c, lst)
                return
            if k == "UnaryExprOrTypeTraitExpr":
                return
            if k == "CXXNewExpr":
                ks = kids(n)
                if ks:
                    go(ks[-1], lst)
                    for c in ks[:-1]:
                        go(c, lst)
                return
            for c in kids(n):
                go(c, lst)

        go(n, srcs)
        aux = [a for a in aux if a not in srcs]
        return srcs, aux

    def shape(self, n):
        """packing shape of an argument expression: nesting of linalg constructors / init lists, e.g. [3] for vec3(x,y,z),
        [3,3,3,3] for mat3x4({..},{..},{..},{..}); [] for anything else"""
        n = strip(n)
        k = n.get("kind")
        if k == "DeclRefExpr":
            rid = (n.get("referencedDecl") or {}).get("id")
            if rid in self.varinit and self.varinit[rid] is not None:
                return self.shape(self.varinit[rid])
            return []
        if k in ("CXXTemporaryObjectExpr", "CXXConstructExpr", "InitListExpr"):
            ty = canon_type(n.get("type") or {})
            ks = [strip(c) for c in kids(n)]
            if k == "CXXConstructExpr" and len(ks) == 1 and is_copy_or_move_ctor(n):
                return self.shape(ks[0])
            if ty.startswith("linalg::vec<") or ty.startswith("linalg::mat<"):
                sub = [self.shape(c) for c in ks]
                if all(s == [] for s in sub):
                    return [len(ks)] if len(ks) > 1 else ([1] if ty.startswith("linalg::") else [])
                flat = []
                for s, c in zip(sub, ks):
                    flat += s if s else [1]
                return flat
        if k == "CXXStdInitializerListExpr":
            return self.shape(kids(n)[0]) if kids(n) else []
        return []

    def form(self, n):
        """how the argument is produced from its sources"""
        n0 = strip(n)
        k = n0.get("kind")
        if k == "UnaryOperator" and n0.get("opcode") == "*":
            return "deref:" + self.form(kids(n0)[0])
        if k == "UnaryOperator" and n0.get("opcode") == "!":
            return "not:" + self.form(kids(n0)[0])
        if k == "DeclRefExpr":
            rd = n0.get("referencedDecl") or {}
            rid = rd.get("id")
            if rid in self.pid:
                return "param"
            if rid in self.varinit:
                return self.form(self.varinit[rid]) if self.varinit[rid] is not None else "local"
            return "ref"
        if k == "CallExpr":
            cal = callee_ref(n0)
            nm = (cal.get("referencedDecl") or {}).get("name") if cal.get("kind") == "DeclRefExpr" else None
            if nm == "from_c":
                a = kids(n0)[1:]
                t = normalize_type(qt(n0))
                return "from_c:" + (self.form(a[0]) if a else "?")
            if nm == "to_c":
                a = kids(n0)[1:]
                return "to_c:" + (self.form(a[0]) if a else "?")
            if nm in ARRAY_FUNCS:
                return "array"
            return "call:" + str(nm)
        if k in ("CXXTemporaryObjectExpr", "CXXConstructExpr", "InitListExpr", "CXXStdInitializerListExpr"):
            ks = kids(n0)
            if k == "CXXConstructExpr" and len(ks) == 1 and is_copy_or_move_ctor(n0):
                return self.form(ks[0])
            ty = canon_type(n0.get("type") or {})
            if ty.startswith("linalg::vec<"):
                return "vec"
            if ty.startswith("linalg::mat<"):
                return "mat"
            if ty.startswith("std::function"):
                return "callback"
            if ty.startswith("std::vector"):
                return "vector"
            if len(ks) == 1:
                return self.form(ks[0])
            return "pack"
        if k == "LambdaExpr":
            return "callback"
        if k == "MemberExpr":
            return "field"
        if k in ("CXXMemberCallExpr", "CXXOperatorCallExpr"):
            return "call"
        if k in ("IntegerLiteral", "CXXBoolLiteralExpr", "FloatingLiteral", "CXXNullPtrLiteralExpr"):
            return "const"
        if k == "BinaryOperator":
            return "expr"
        return k or "?"

    # -- statements ----------------------------------------------------------------------------------
    def run(self):
        self.scan_stmts(kids(self.body))
        return self

    def scan_stmts(self, stmts):
        for st in stmts:
            self.scan_stmt(st)

    def scan_stmt(self, st):
        k = st.get("kind")
        if k == "DeclStmt":
            for v in kids(st):
                if v.get("kind") == "VarDecl":
                    init = kids(v)[0] if kids(v) else None
                    if init is not None:
                        self.scan_expr(init)
                        ps, pa = self.prov(init)
                        if canon_type(v.get("type") or {}).startswith("std::vector<") and strip(init).get("kind") == "CXXConstructExpr" \
                                and not is_copy_or_move_ctor(strip(init)):
                            ps, pa = [], pa + [x for x in ps if x not in pa]   # size argument of a vector built by a loop
                        self.env[v["id"]] = (ps, pa)
                    else:
                        self.env[v["id"]] = ([], [])
                    self.env0[v["id"]] = self.env[v["id"]]
                    self.varinit[v["id"]] = init
                elif v.get("kind") == "UsingDirectiveDecl":
                    pass
            return
        if k == "ForStmt":
            ks = st.get("inner") or []
            # init, condvar, cond, inc, body
            dicts = [c for c in ks if isinstance(c, dict) and c]
            body = dicts[-1]
            cond_srcs = []
            for c in dicts[:-1]:
                if c.get("kind") == "DeclStmt":
                    for v in kids(c):
                        if v.get("kind") == "VarDecl":
                            self.env[v["id"]] = ([], [])
                            self.varinit[v["id"]] = None
                else:
                    s, a = self.prov(c)
                    cond_srcs += [x for x in s + a if x not in cond_srcs]
            # loop body mutates locals: attribute body sources to every local written in it
            self.loop_mutations(body, cond_srcs)
            return
        if k == "IfStmt":
            ks = kids(st)
            cond = ks[0]
            cs, ca = self.prov(cond)
            for b in ks[1:]:
                if b.get("kind") == "CompoundStmt":
                    self.scan_stmts(kids(b))
                else:
                    self.scan_stmt(b)
            return
        if k == "ReturnStmt":
            for e in kids(st):
                self.scan_expr(e)
                self.analyze_return(e)
            return
        if k == "CompoundStmt":
            self.scan_stmts(kids(st))
            return
        if k == "NullStmt":
            return
        # expression statement
        self.scan_expr(st)
        self.note_mutation(st)

    def local_target(self, n):
        """local variable id that expression n designates (through ->, *, [], member access)"""
        n = strip(n)
        k = n.get("kind")
        if k == "DeclRefExpr":
            rid = (n.get("referencedDecl") or {}).get("id")
            return rid if rid in self.env else None
        if k in ("MemberExpr", "ArraySubscriptExpr", "UnaryOperator"):
            ks = kids(n)
            return self.local_target(ks[0]) if ks else None
        if k == "CXXOperatorCallExpr":
            ks = kids(n)
            return self.local_target(ks[1]) if len(ks) > 1 else None
        return None

    def note_mutation(self, st, extra_aux=()):
        """statement of the form  local.f = e / local->f = e / local[i] = e / local.push_back(e) / local->Method()"""
        n = strip(st)
        k = n.get("kind")
        tgt, rhs = None, []
        if k == "BinaryOperator" and n.get("opcode") == "=":
            ks = kids(n)
            tgt, rhs = self.local_target(ks[0]), ks[1:]
        elif k == "CXXOperatorCallExpr":
            ks = kids(n)
            cal = strip(ks[0])
            if (cal.get("referencedDecl") or {}).get("name") == "operator=":
                tgt, rhs = self.local_target(ks[1]), ks[2:]
        elif k == "CXXMemberCallExpr":
            ks = kids(n)
            cal = strip(ks[0])
            if cal.get("kind") == "MemberExpr":
                tgt, rhs = self.local_target(cal), ks[1:]
        if tgt is not None:
            s0, a0 = self.env[tgt]
            s, a = list(s0), list(a0)
            for e in rhs:
                s1, a1 = self.prov(e)
                for x in s1:
                    if x not in s:
                        s.append(x)
                for x in a1:
                    if x not in a:
                        a.append(x)
            for x in extra_aux:
                if x not in a and x not in s:
                    a.append(x)
            self.env[tgt] = (s, a)

    def loop_mutations(self, body, cond_srcs):
        stmts = kids(body) if body.get("kind") == "CompoundStmt" else [body]
        for st in stmts:
            self.scan_expr(st)
            self.note_mutation(st, extra_aux=cond_srcs)

    # -- expressions: collect the interesting calls ------------------------------------------------------
    def api_decl(self, did):
        d = self.idx.get(did)
        if d is not None and d.qual.startswith("manifold::"):
            return d
        return None

    def record_call(self, kind, d, qual, recv, args, node, cpp_params=None, ndefault=0, used_defaults=0, recv0=False):
        argrecs = []
        for a in args:
            s, aux = self.prov(a)
            fm = self.form(a)
            if fm == "callback" and len(s) > 1:
                # the user context is bound into the callable; positionally only the function pointer is passed
                s, aux = s[:1], aux + [x for x in s[1:] if x not in aux]
            argrecs.append({"srcs": s, "aux": aux, "shape": self.shape(a), "form": fm})
        rs, raux = ([], [])
        if recv is not None:
            rs, raux = self.prov(recv)
            if recv0:
                t = self.local_target(recv)
                if t is not None and t in self.env0:
                    rs, raux = self.env0[t]
        self.calls.append({"kind": kind, "callee": qual, "recv": rs, "args": argrecs,
                           "cppParams": [p[0] for p in (cpp_params or [])], "cppParamTypes": [normalize_type(p[1]) for p in (cpp_params or [])],
                           "cppDefaults": [bool(p[2]) for p in (cpp_params or [])], "defaultsUsed": used_defaults,
                           "sig": d.type if d is not None else ""})

    def scan_expr(self, n):
        """post-order so that inner API calls are listed before the calls that consume them"""
        k = n.get("kind")
        if k in ("CXXRecordDecl",):
            return
        if k == "LambdaExpr":
            # the closure body calls the bound callback; scan it for callback invocations only
            for c in kids(n):
                if c.get("kind") == "CompoundStmt":
                    self.scan_lambda_body(c)
            return
        if k in ("BinaryOperator", "CXXOperatorCallExpr"):
            fs = self.field_assignment(n)
            if fs is not None:
                lhs, rhs, d = fs
                self.scan_expr(rhs)
                base = kids(lhs)[0] if kids(lhs) else None
                self.record_call("fieldset", d, d.qual, base, [rhs], n, [(d.name, d.type, False)], recv0=True)
                return
        if k == "InitListExpr":
            ty = canon_type(n.get("type") or {})
            if ty.startswith("manifold::") and ty in self.records:
                for c in kids(n):
                    self.scan_expr(c)
                fl = self.records[ty]
                self.record_call("aggregate", None, ty, None, kids(n), n, [(f[0], f[1], False) for f in fl])
                return
        for c in kids(n):
            self.scan_expr(c)
        if k == "CXXMemberCallExpr":
            ks = kids(n)
            me = strip(ks[0])
            if me.get("kind") == "MemberExpr":
                d = self.api_decl(me.get("referencedMemberDecl"))
                args = ks[1:]
                real = [a for a in args if strip(a).get("kind") != "CXXDefaultArgExpr"]
                if me.get("name", "").startswith("~"):
                    obj = kids(me)[0] if kids(me) else {}
                    while obj.get("kind") in ("ImplicitCastExpr", "ParenExpr") and len(kids(obj)) == 1:
                        obj = kids(obj)[0]                      # keep explicit casts: the destroyed type is the cast's type
                    t = re.sub(r"\s*\*$", "", canon_type_ptr(obj))
                    self.destructs.append({"arg": self.prov(obj)[0], "type": t, "dtor": me.get("name")})
                    return
                if d is not None:
                    self.record_call("method", d, d.qual, kids(me)[0] if kids(me) else None, real, n, d.params, d.ndefault, len(args) - len(real))
                else:
                    base_t = canon_type((strip(kids(me)[0]).get("type") or {})) if kids(me) else ""
                    dd = self.idx.get(me.get("referencedMemberDecl"))
                    if me.get("name", "").startswith("~"):
                        obj = strip(kids(me)[0]) if kids(me) else {}
                        t = re.sub(r"\s*\*$", "", canon_type_ptr(obj))
                        self.destructs.append({"arg": self.prov(obj)[0], "type": t, "dtor": me.get("name")})
                        return
                    self.record_call("std", None, "std::" + me.get("name", "?"), kids(me)[0] if kids(me) else None, real, n)
            return
        if k == "CXXOperatorCallExpr":
            ks = kids(n)
            cal = strip(ks[0])
            rd = cal.get("referencedDecl") or {}
            d = self.api_decl(rd.get("id"))
            args = ks[1:]
            if d is not None:
                if d.kind == "CXXMethodDecl":
                    self.record_call("operator", d, d.qual, args[0], args[1:], n, d.params)
                else:
                    self.record_call("operator", d, d.qual, None, args, n, d.params)
            else:
                nm = rd.get("name", "?")
                if nm == "operator()":
                    self.note_callback_invoke(n, args)
                    return
                if nm in ("operator=",):
                    # assignment into a C++ object (vector element, field): record as std
                    self.record_call("std", None, "std::" + nm, args[0], args[1:], n)
                    return
                self.record_call("std", None, "std::" + nm, args[0] if args else None, args[1:], n)
            return
        if k == "CallExpr":
            ks = kids(n)
            cal = strip(ks[0])
            rd = cal.get("referencedDecl") or {}
            nm = rd.get("name")
            args = ks[1:]
            real = [a for a in args if strip(a).get("kind") != "CXXDefaultArgExpr"]
            if cal.get("kind") == "DeclRefExpr" and rd.get("id") in self.pid:
                # direct call of a function-pointer parameter
                self.callbacks.append({"fn": self.pid[rd["id"]], "via": "direct", "args": [self.cb_arg(a) for a in args]})
                return
            d = self.api_decl(rd.get("id"))
            if d is not None:
                self.record_call("static" if d.kind == "CXXMethodDecl" else "function", d, d.qual, None, real, n, d.params, d.ndefault, len(args) - len(real))
                return
            if nm in TRANSPARENT_FUNCS or nm in ARRAY_FUNCS:
                return
            if nm == "copy_data":
                s0, _ = self.prov(args[0])
                s1, _ = self.prov(args[1])
                et = re.sub(r"\s*\*$", "", normalize_type(qt(n)))
                self.copyouts.append({"mem": s0, "from": s1, "elem": et})
                return
            if nm == "alloc_raw":
                t = re.sub(r"\s*\*$", "", canon_type_ptr(n))
                self.allocs.append(t)
                return
            if nm == "bind":
                self.note_bind(n, args)
                return
            if nm in self.helpers:
                self.inline_helper(nm, args)
                return
            if nm in ("move", "forward"):
                return
            raise Broken("%s: call to unknown function %r" % (self.name, nm))
        if k in ("CXXConstructExpr", "CXXTemporaryObjectExpr"):
            ty = canon_type(n.get("type") or {})
            if ty.startswith("manifold::") and not is_copy_or_move_ctor(n):
                ks = kids(n)
                real = [a for a in ks if strip(a).get("kind") != "CXXDefaultArgExpr"]
                d = self.find_ctor(ty, (n.get("ctorType") or {}).get("qualType", ""))
                self.record_call("ctor", d, ty + "::" + re.sub(r"<.*$", "", ty.split("::")[-1]), None, real, n, d.params if d else None, d.ndefault if d else 0, len(ks) - len(real))
            return
        if k == "MemberExpr":
            d = self.api_decl(n.get("referencedMemberDecl"))
            if d is not None and d.kind == "FieldDecl":
                self.record_call("field", d, d.qual, kids(n)[0] if kids(n) else None, [], n)
            return
        if k == "CXXNewExpr":
            ks = kids(n)
            need(n.get("isPlacement"), "%s: non-placement new" % self.name)
            place = ks[-1]
            s, _ = self.prov(place)
            direct = strip(place).get("kind") == "DeclRefExpr" and (strip(place).get("referencedDecl") or {}).get("id") in self.pid
            t = re.sub(r"\s*\*$", "", canon_type_ptr(n))
            init = ks[0] if len(ks) > 1 else None
            if init is not None and strip(init).get("kind") in ("CXXConstructExpr", "CXXTemporaryObjectExpr"):
                t = canon_type(strip(init).get("type") or {})
            isrc = self.prov(init)[0] if init is not None else []
            pl = strip(place)
            self.placements.append({"mem": s, "direct": direct, "type": t, "init": isrc,
                                    "placeid": (pl.get("referencedDecl") or {}).get("id") if pl.get("kind") == "DeclRefExpr" else None})
            return
        if k == "CXXDeleteExpr":
            ks = kids(n)
            s, _ = self.prov(ks[0])
            t = re.sub(r"\s*\*$", "", canon_type_ptr(strip(ks[0])))
            self.deletes.append({"arg": s, "type": t, "array": bool(n.get("isArray"))})
            return
        if k == "UnaryExprOrTypeTraitExpr" and n.get("name") == "sizeof":
            self.sizeofs.append(canon_type(n.get("argType") or {}))
            return

    def field_assignment(self, n):
        """(lhs MemberExpr, rhs, field decl) when n assigns to a field of a C++ API object"""
        k = n.get("kind")
        ks = kids(n)
        if k == "BinaryOperator" and n.get("opcode") == "=" and len(ks) == 2:
            lhs, rhs = strip(ks[0]), ks[1]
        elif k == "CXXOperatorCallExpr" and len(ks) == 3 and (strip(ks[0]).get("referencedDecl") or {}).get("name") == "operator=":
            lhs, rhs = strip(ks[1]), ks[2]
        else:
            return None
        if lhs.get("kind") != "MemberExpr":
            return None
        d = self.api_decl(lhs.get("referencedMemberDecl"))
        if d is None or d.kind != "FieldDecl":
            return None
        return lhs, rhs, d

    def find_ctor(self, ty, ctor_type):
        short = ty.split("::")[-1]
        cands = [d for d in self.idx.values() if d.kind == "CXXConstructorDecl" and d.name == short and d.cls == ty and d.type == ctor_type]
        if not cands:
            cands = [d for d in self.idx.values() if d.kind == "CXXConstructorDecl" and d.name == short and d.type == ctor_type]
        return cands[0] if cands else None

    # -- callbacks -----------------------------------------------------------------------------------------
    def cb_arg(self, a):
        a0 = strip(a)
        if a0.get("kind") == "DeclRefExpr":
            rd = a0.get("referencedDecl") or {}
            if rd.get("id") in self.pid:
                return "param:" + self.pid[rd["id"]]
            if rd.get("name", "").startswith("_") and rd.get("name", "")[1:].isdigit():
                return "placeholder:" + rd["name"][1:]
        return "expr"

    def note_bind(self, n, args):
        recs = [self.cb_arg(a) for a in args]
        need(recs and recs[0].startswith("param:"), "%s: std::bind whose first argument is not the function-pointer parameter" % self.name)
        self.callbacks.append({"fn": recs[0][6:], "via": "bind", "args": recs[1:]})

    def note_callback_invoke(self, n, args):
        pass

    def scan_lambda_body(self, body):
        pass

    # -- helper inlining (one level: the anonymous-namespace level_set) -----------------------------------
    def inline_helper(self, nm, args):
        h = self.helpers[nm]
        hp = [c for c in kids(h) if c.get("kind") == "ParmVarDecl"]
        sub = Analyzer(h, self.idx, {}, self.fname, self.records)
        sub.name = self.name + ">" + nm
        # bind helper parameters to the provenance of the actual arguments
        for i, p in enumerate(hp):
            if i < len(args) and strip(args[i]).get("kind") != "CXXDefaultArgExpr":
                s, a = self.prov(args[i])
                lit = strip(args[i])
                sub.env[p["id"]] = (s, a)
                sub.varinit[p["id"]] = args[i]
            else:
                sub.env[p["id"]] = ([], [])
                sub.varinit[p["id"]] = None
        sub.pid = {}
        # make wrapper params visible by name inside helper provenance strings: they are already strings
        sub.outer = self
        sub.form = lambda n, _f=sub.form, _o=self: _helper_form(sub, _o, n, _f)
        sub.cb_arg = lambda a, _o=self, _s=sub: _helper_cb_arg(_s, _o, a)
        sub.scan_stmts(kids(sub.body))
        for c in sub.calls:
            c["via"] = nm
            self.calls.append(c)
        for p in sub.placements:
            p["via"] = nm
            # direct iff the helper placement-news into its own parameter and the wrapper passes its own parameter there
            hid = p.pop("placeid", None)
            if hid in sub.varinit and sub.varinit[hid] is not None:
                a0 = strip(sub.varinit[hid])
                p["direct"] = a0.get("kind") == "DeclRefExpr" and (a0.get("referencedDecl") or {}).get("id") in self.pid
            self.placements.append(p)
        self.callbacks += sub.callbacks
        self.helper_returns = sub.returns
        self.inlined = nm

    # -- return ----------------------------------------------------------------------------------------------
    def analyze_return(self, e):
        e0 = strip(e)
        rec = {"kind": "value", "mem": [], "fields": []}

        def mem_of(x):
            x = strip(x)
            if x.get("kind") == "CallExpr":
                cal = callee_ref(x)
                nm = (cal.get("referencedDecl") or {}).get("name")
                if nm in ("to_c",) and len(kids(x)) == 2:
                    return mem_of(kids(x)[1])
                if nm == "copy_data":
                    return ("copy_data", self.prov(kids(x)[1])[0])
                if nm in self.helpers and getattr(self, "helper_returns", None):
                    return ("helper", self.helper_returns[0]["mem"])
            if x.get("kind") == "CXXNewExpr":
                return ("new", self.prov(kids(x)[-1])[0])
            if x.get("kind") == "DeclRefExpr":
                rid = (x.get("referencedDecl") or {}).get("id")
                if rid in self.varinit and self.varinit[rid] is not None:
                    return mem_of(self.varinit[rid])
            return None

        m = mem_of(e0)
        if m:
            rec = {"kind": m[0], "mem": m[1], "fields": []}
        elif e0.get("kind") == "InitListExpr" or (e0.get("kind") == "CXXConstructExpr" and len(kids(e0)) > 1):
            ty = normalize_type(qt(e0))
            items = []
            for c in kids(e0):
                mm = mem_of(c)
                if mm:
                    items.append({"mem": mm[1], "field": ""})
                else:
                    items.append({"mem": [], "field": self.field_name(c)})
            rec = {"kind": "struct", "struct": ty, "mem": [x for it in items for x in it["mem"]], "fields": [it["field"] for it in items]}
        self.returns.append(rec)

    def field_name(self, c):
        c = strip(c)
        if c.get("kind") == "CallExpr":
            cal = callee_ref(c)
            if (cal.get("referencedDecl") or {}).get("name") in TRANSPARENT_FUNCS:
                return self.field_name(kids(c)[1])
        if c.get("kind") == "MemberExpr":
            return c.get("name", "")
        if c.get("kind") == "CXXConstructExpr" and len(kids(c)) == 1:
            return self.field_name(kids(c)[0])
        return ""


def _helper_form(sub, outer, n, orig):
    n0 = strip(n)
    if n0.get("kind") == "DeclRefExpr":
        rid = (n0.get("referencedDecl") or {}).get("id")
        if rid in sub.varinit and rid in sub.env and sub.varinit[rid] is not None and any(rid == p.get("id") for p in kids(sub.fn) if p.get("kind") == "ParmVarDecl"):
            return outer.form(sub.varinit[rid])
    return orig(n)


def _helper_cb_arg(sub, outer, a):
    a0 = strip(a)
    if a0.get("kind") == "DeclRefExpr":
        rd = a0.get("referencedDecl") or {}
        rid = rd.get("id")
        if rid in sub.varinit and sub.varinit[rid] is not None and any(rid == p.get("id") for p in kids(sub.fn) if p.get("kind") == "ParmVarDecl"):
            return outer.cb_arg(sub.varinit[rid])
        if rd.get("name", "").startswith("_") and rd.get("name", "")[1:].isdigit():
            return "placeholder:" + rd["name"][1:]
    return "expr"


def canon_type_ptr(n):
    return canon_type(n.get("type") or {})


# ----------------------------------------------------------------------------------------------- conv.cpp
def enum_const(n):
    n = strip(n)
    if n.get("kind") == "DeclRefExpr":
        rd = n.get("referencedDecl") or {}
        if rd.get("kind") == "EnumConstantDecl":
            return rd.get("name"), normalize_type((rd.get("type") or {}).get("qualType", ""))
    return None


def analyze_conv():
    """conv.cpp: enum switch tables, opaque-pointer casts, by-value converters"""
    objs = []
    with concurrent.futures.ThreadPoolExecutor(3) as ex:
        for r in ex.map(lambda f: clang_dump("conv.cpp", f), ["to_c", "from_c", "vector_of_vec"]):
            objs += r
    collect_sugar(objs)
    enum_maps, ptr_convs, val_convs, arr_convs = [], [], [], []
    seen = set()
    for o in objs:
        if o.get("kind") != "FunctionDecl" or o.get("name") not in ("to_c", "from_c", "vector_of_vec_array"):
            continue
        body = [c for c in kids(o) if c.get("kind") == "CompoundStmt"]
        if not body:
            continue
        key = (o["name"], qt(o))
        if key in seen:
            continue
        seen.add(key)
        ps = [c for c in kids(o) if c.get("kind") == "ParmVarDecl"]
        fn, sig = o["name"], qt(o)
        ret_t = deep_canon(sig.split("(")[0].strip())
        stmts = kids(body[0])
        sw = [x for x in stmts if x.get("kind") == "SwitchStmt"]
        if sw:
            need(len(ps) == 1 and len(sw) == 1, "conv.cpp %s %s: unexpected shape of an enum switch" % (fn, sig))
            var, init = None, None
            for st in stmts:
                if st.get("kind") == "DeclStmt":
                    for v in kids(st):
                        if v.get("kind") == "VarDecl":
                            need(var is None, "conv.cpp %s: more than one local in an enum switch" % sig)
                            var = v
                            init = enum_const(kids(v)[0]) if kids(v) else None
            need(var is not None and init is not None, "conv.cpp %s: result variable of the enum switch has no enumerator initialiser" % sig)
            rets = [x for x in stmts if x.get("kind") == "ReturnStmt"]
            need(len(rets) == 1 and strip(kids(rets[0])[0]).get("kind") == "DeclRefExpr" and
                 (strip(kids(rets[0])[0]).get("referencedDecl") or {}).get("id") == var.get("id"), "conv.cpp %s: switch function does not return its result variable" % sig)
            swk = kids(sw[0])
            cond = strip(swk[0])
            need(cond.get("kind") == "DeclRefExpr" and (cond.get("referencedDecl") or {}).get("id") == ps[0].get("id"),
                 "conv.cpp %s: switch is not on the parameter" % sig)
            blk = [x for x in swk if x.get("kind") == "CompoundStmt"]
            need(len(blk) == 1, "conv.cpp %s: switch body" % sig)
            flat = []   # ("label", name) | ("assign", name) | ("break",) | ("default",)

            def flatten(st):
                k = st.get("kind")
                if k == "CaseStmt":
                    ks = kids(st)
                    ec = enum_const(ks[0])
                    need(ec is not None, "conv.cpp %s: case label is not an enumerator" % sig)
                    flat.append(("label", ec[0], ec[1]))
                    for x in ks[1:]:
                        flatten(x)
                elif k == "DefaultStmt":
                    flat.append(("default",))
                    for x in kids(st):
                        flatten(x)
                elif k == "BreakStmt":
                    flat.append(("break",))
                elif k == "BinaryOperator" and st.get("opcode") == "=":
                    ks = kids(st)
                    l = strip(ks[0])
                    ec = enum_const(ks[1])
                    need(l.get("kind") == "DeclRefExpr" and (l.get("referencedDecl") or {}).get("id") == var.get("id") and ec is not None,
                         "conv.cpp %s: statement in switch is not `result = ENUMERATOR`" % sig)
                    flat.append(("assign", ec[0], ec[1]))
                elif k == "NullStmt":
                    pass
                else:
                    raise Broken("conv.cpp %s: unexpected statement %s inside the enum switch" % (sig, k))
            for st in kids(blk[0]):
                flatten(st)
            pairs = []
            for i, it in enumerate(flat):
                if it[0] != "label":
                    continue
                val = init[0]
                for jt in flat[i + 1:]:
                    if jt[0] == "break":
                        break
                    if jt[0] == "assign":
                        val = jt[1]
                pairs.append((it[1], val))
            src_ts = {x[2] for x in flat if x[0] == "label"}
            dst_ts = {x[2] for x in flat if x[0] == "assign"} | {init[1]}
            need(len(src_ts) == 1 and len(dst_ts) == 1, "conv.cpp %s: enumerators of more than one enum in a switch" % sig)
            src_t, dst_t = src_ts.pop(), dst_ts.pop()
            enum_maps.append({"fn": fn, "src": src_t, "dst": dst_t, "pairs": pairs, "dflt": init[0], "hasDefaultLabel": any(x[0] == "default" for x in flat)})
            continue
        rets = [x for x in stmts if x.get("kind") == "ReturnStmt"]
        if fn in ("to_c", "from_c") and len(stmts) == 1 and rets:
            e = strip_keep_cast(kids(rets[0])[0])
            if e.get("kind") == "CXXReinterpretCastExpr":
                inner = strip(kids(e)[0])
                need(inner.get("kind") == "DeclRefExpr" and (inner.get("referencedDecl") or {}).get("id") == ps[0].get("id"),
                     "conv.cpp %s: reinterpret_cast of something other than the parameter" % sig)
                a = re.sub(r"\s*\*$", "", deep_canon(qt(ps[0])))
                b = re.sub(r"\s*\*$", "", ret_t)
                need(deep_canon(qt(ps[0])).endswith("*") and ret_t.endswith("*"), "conv.cpp %s: pointer cast between non-pointers" % sig)
                c_t, cpp_t = (b, a) if fn == "to_c" else (a, b)
                ptr_convs.append({"fn": fn, "cType": c_t, "cppType": cpp_t})
                continue
            # by-value conversion: components of the parameter in order
            comps = []
            for x in walk(e):
                if x.get("kind") == "MemberExpr":
                    b0 = strip(kids(x)[0]) if kids(x) else {}
                    if b0.get("kind") == "DeclRefExpr" and (b0.get("referencedDecl") or {}).get("id") == ps[0].get("id"):
                        comps.append(x.get("name"))
            need(comps, "conv.cpp %s: unrecognised converter body" % sig)
            val_convs.append({"fn": fn, "from": deep_canon(qt(ps[0])), "to": ret_t, "comps": comps})
            continue
        if fn == "vector_of_vec_array":
            # loop pushing from_c(vs[i]) for i < length
            calls = [x for x in walk(body[0]) if x.get("kind") == "CallExpr" and (strip(kids(x)[0]).get("referencedDecl") or {}).get("name") == "from_c"]
            fors = [x for x in walk(body[0]) if x.get("kind") == "ForStmt"]
            need(len(calls) == 1 and len(fors) == 1 and len(ps) == 2, "conv.cpp %s: unrecognised array converter" % sig)
            arr_convs.append({"fn": fn, "elem": re.sub(r"\s*\*$", "", deep_canon(qt(ps[0]))), "to": ret_t})
            continue
        raise Broken("conv.cpp: unrecognised converter %s %s" % (fn, sig))
    need(enum_maps, "conv.cpp: no enum switch table found")
    need(ptr_convs, "conv.cpp: no opaque pointer casts found")
    return enum_maps, ptr_convs, val_convs, arr_convs


def strip_keep_cast(n):
    while n.get("kind") in (STRIP - {"CXXReinterpretCastExpr"}) and len(kids(n)) == 1:
        n = kids(n)[0]
    return n


# ----------------------------------------------------------------------------------------------- driver
def analyze_file(fname, filt):
    objs = clang_dump(fname, filt)
    collect_sugar(objs)
    idx, enums, records = index_decls(objs)
    helpers = {}
    for o in objs:
        if o.get("kind") == "NamespaceDecl" and not o.get("name"):
            for c in walk(o):
                if c.get("kind") == "FunctionDecl" and any(x.get("kind") == "CompoundStmt" for x in kids(c)) and c.get("name") not in ("alloc_raw",):
                    helpers[c["name"]] = c
    defs, decls = [], {}
    for o in objs:
        if o.get("kind") == "FunctionDecl" and (o.get("name") or "").startswith("manifold_"):
            ps = [(c.get("name") or "", qt(c)) for c in kids(o) if c.get("kind") == "ParmVarDecl"]
            if any(c.get("kind") == "CompoundStmt" for c in kids(o)):
                need(o.get("mangledName") == o.get("name"), "%s is defined without C linkage" % o.get("name"))
                defs.append(o)
            else:
                decls[o["name"]] = {"params": ps, "ret": qt(o).split("(")[0].strip()}
    out = []
    for fn in defs:
        a = Analyzer(fn, idx, helpers, fname, records).run()
        out.append(a)
    return out, decls, enums, records


def fnptr_info(t):
    """(arity, last parameter is void*) of a function-pointer type spelling"""
    m = re.match(r"^(.*?)\(\*\)\((.*)\)$", t.strip())
    if not m:
        return None
    ps = [x.strip() for x in split_top(m.group(2))]
    return len(ps), (ps[-1] == "void *" if ps else False)


def split_top(s):
    out, depth, cur = [], 0, ""
    for ch in s:
        if ch in "(<":
            depth += 1
        elif ch in ")>":
            depth -= 1
        if ch == "," and depth == 0:
            out.append(cur); cur = ""
        else:
            cur += ch
    if cur.strip():
        out.append(cur)
    return out


def base_of(src):
    return re.split(r"[.\[]", src, 1)[0]


def build_table():
    files = [("manifoldc.cpp", "an"), ("cross.cpp", "anifold"), ("box.cpp", "anifold"), ("rect.cpp", "anifold")]
    with concurrent.futures.ThreadPoolExecutor(5) as ex:
        fut_conv = ex.submit(analyze_conv)
        futs = [ex.submit(clang_dump, f, flt) for f, flt in files]   # warm the cache in parallel
        for f in futs:
            f.result()
        enum_maps, ptr_convs, val_convs, arr_convs = fut_conv.result()
    wrappers, header, enums, records = [], {}, {}, {}
    for f, flt in files:
        res, decls, en, rec = analyze_file(f, flt)
        if f == "manifoldc.cpp":
            header = decls
        for k, v in en.items():
            enums.setdefault(k, v)
        for k, v in rec.items():
            records.setdefault(k, v)
        for a in res:
            wrappers.append((f, a))
    need(len(wrappers) >= 250, "only %d exported manifold_* definitions found (expected about 298)" % len(wrappers))
    need(header, "no declarations from manifoldc.h seen")
    tab = {"wrappers": [], "enumMaps": [], "ptrConvs": ptr_convs, "valConvs": val_convs, "arrConvs": arr_convs, "cStructs": [], "headerDecls": []}
    # enums: attach the full enumerator lists
    def find_enum(t):
        t = t.replace("enum ", "")
        c = [k for k in enums if k == t or k.endswith("::" + t) or t.endswith("::" + k)]
        need(len(c) >= 1, "enum %s not found in the dumped declarations" % t)
        return sorted(c, key=len)[-1]
    for m in enum_maps:
        s, d = find_enum(m["src"]), find_enum(m["dst"])
        m = dict(m, src=s, dst=d, srcAll=[x[0] for x in enums[s]], dstAll=[x[0] for x in enums[d]], srcVals=[x[1] for x in enums[s]], dstVals=[x[1] for x in enums[d]])
        tab["enumMaps"].append(m)
    for k, v in sorted(records.items()):
        if k.startswith("Manifold") and "::" not in k:
            tab["cStructs"].append({"name": k, "fields": [f[0] for f in v]})
    seen = set()
    for f, a in wrappers:
        need(a.name not in seen, "%s defined twice" % a.name)
        seen.add(a.name)
        hd = header.get(a.name)
        ret = qt(a.fn).split("(")[0].strip()
        used = []

        def use(lst):
            for x in lst:
                b = base_of(x)
                if b not in used:
                    used.append(b)
        for c in a.calls:
            use(c["recv"])
            for g in c["args"]:
                use(g["srcs"]); use(g["aux"])
        for pl in a.placements:
            use(pl["mem"]); use(pl["init"])
        for cb in a.callbacks:
            use([cb["fn"]] + [x[6:] for x in cb["args"] if x.startswith("param:")])
        for d in a.deletes + a.destructs:
            use(d["arg"])
        for c in a.copyouts:
            use(c["mem"]); use(c["from"])
        for v in a.env.values():
            use(v[0]); use(v[1])
        for r in a.returns:
            use(r.get("mem", []))
        cbs = []
        for cb in a.callbacks:
            pt = [p[1] for p in a.params if p[0] == cb["fn"]]
            need(pt, "%s: callback through %s which is not a parameter" % (a.name, cb["fn"]))
            info = fnptr_info(pt[0])
            need(info is not None, "%s: %s is called but is not a function pointer (%s)" % (a.name, cb["fn"], pt[0]))
            cbs.append({"fn": cb["fn"], "via": cb["via"], "args": cb["args"], "arity": info[0], "lastVoidPtr": info[1]})
        rets = a.returns
        need(len(rets) <= 1, "%s: more than one return statement" % a.name)
        r = rets[0] if rets else {"kind": "void", "mem": [], "fields": []}
        w = {"name": a.name, "file": f, "ret": ret, "params": [{"name": p[0], "ty": p[1]} for p in a.params],
             "declared": hd is not None, "hdrParams": [{"name": p[0], "ty": p[1]} for p in (hd["params"] if hd else [])], "hdrRet": hd["ret"] if hd else "",
             "calls": [dict(c, via=c.get("via", "")) for c in a.calls],
             "placements": [{"mem": (pl["mem"] + [""])[0], "nmem": len(pl["mem"]), "direct": bool(pl["direct"]), "ty": pl["type"], "via": pl.get("via", "")} for pl in a.placements],
             "callbacks": cbs, "sizeofs": a.sizeofs, "allocs": a.allocs,
             "deletes": [{"arg": (d["arg"] + [""])[0], "ty": d["type"], "array": d["array"]} for d in a.deletes],
             "destructs": [{"arg": (d["arg"] + [""])[0], "ty": d["type"], "dtor": d["dtor"]} for d in a.destructs],
             "copyouts": [{"mem": (c["mem"] + [""])[0], "src": (c["from"] + [""])[0], "elem": c["elem"]} for c in a.copyouts],
             "retKind": r["kind"], "retMem": r.get("mem", []), "retFields": r.get("fields", []), "retStruct": r.get("struct", ""),
             "used": used}
        tab["wrappers"].append(w)
    missing = sorted(h for h in header if h not in seen)
    tab["declaredNotDefined"] = missing
    tab["headerDecls"] = [w["name"] for w in tab["wrappers"] if w["declared"]] + missing
    return tab


# ----------------------------------------------------------------------------------------------- Lean rendering
def lid(s):
    s = s or ""
    need(all(32 <= ord(ch) < 127 for ch in s), "non-ASCII identifier %r" % s)
    return 'c!"%s"' % s.replace("\\", "\\\\").replace('"', '\\"')


def llist(xs, f=lid):
    return "[" + ", ".join(f(x) for x in xs) + "]"


def lbool(b):
    return "true" if b else "false"


def lparam(p):
    return "⟨%s, %s⟩" % (lid(p["name"]), lid(p["ty"]))


def larg(a):
    return "⟨%s, %s, %s, %s⟩" % (llist(a["srcs"]), llist(a["aux"]), llist(a["shape"], str), lid(a["form"]))


def lcall(c):
    return ("{ kind := %s, callee := %s, recv := %s, args := %s, cppParams := %s, cppDefaults := %s, defaultsUsed := %d, via := %s }" %
            (lid(c["kind"]), lid(c["callee"]), llist(c["recv"]), llist(c["args"], larg), llist(c["cppParams"]), llist(c["cppDefaults"], lbool), c["defaultsUsed"], lid(c["via"])))


CHUNK = 40


def render(tab):
    o = []
    o.append("/- GENERATED by tools/extract_cbind.py from bindings/c/{manifoldc,cross,box,rect,conv}.cpp, conv.h, include/manifold/{manifoldc,types}.h\n"
             "   and include/manifold/*.h (clang AST).  Do not edit: checks/c20.py regenerates and compares this file on every run. -/")
    o.append("import MV.Model.CBind\n\nnamespace MV.Gen.CBind\nopen MV.CBind\n")
    o.append("def enumMaps : List EnumMap := [")
    rows = []
    for m in tab["enumMaps"]:
        rows.append("  { fn := %s, src := %s, dst := %s,\n    srcAll := %s,\n    dstAll := %s,\n    srcVals := %s, dstVals := %s,\n    pairs := %s,\n    dflt := %s, hasDefaultLabel := %s }" % (
            lid(m["fn"]), lid(m["src"]), lid(m["dst"]), llist(m["srcAll"]), llist(m["dstAll"]), llist(m["srcVals"], str), llist(m["dstVals"], str),
            llist(m["pairs"], lambda p: "(%s, %s)" % (lid(p[0]), lid(p[1]))), lid(m["dflt"]), lbool(m["hasDefaultLabel"])))
    o.append(",\n".join(rows) + "]\n")
    o.append("def ptrConvs : List PtrConv := [\n" + ",\n".join("  ⟨%s, %s, %s⟩" % (lid(c["fn"]), lid(c["cType"]), lid(c["cppType"])) for c in tab["ptrConvs"]) + "]\n")
    o.append("def valConvs : List ValConv := [\n" + ",\n".join("  ⟨%s, %s, %s, %s⟩" % (lid(c["fn"]), lid(c["from"]), lid(c["to"]), llist(c["comps"])) for c in tab["valConvs"]) + "]\n")
    o.append("def cStructs : List CStruct := [\n" + ",\n".join("  ⟨%s, %s⟩" % (lid(c["name"]), llist(c["fields"])) for c in tab["cStructs"]) + "]\n")
    o.append("def headerDecls : List Ident := [\n" + ",\n".join("  " + lid(h) for h in tab["headerDecls"]) + "]\n")
    names = []
    for i, w in enumerate(tab["wrappers"]):
        nm = "w%03d" % i
        names.append(nm)
        o.append("/-- %s (%s) -/" % (w["name"], w["file"]))
        o.append("def %s : Wrapper :=\n  { name := %s, file := %s, ret := %s,\n    params := %s,\n    declared := %s, hdrRet := %s,\n    hdrParams := %s,\n    calls := [%s],\n"
                 "    placements := %s,\n    callbacks := %s,\n    sizeofs := %s, allocs := %s, deletes := %s, destructs := %s,\n    copyouts := %s,\n"
                 "    retKind := %s, retMem := %s, retFields := %s, retStruct := %s,\n    used := %s }\n" % (
                     nm, lid(w["name"]), lid(w["file"]), lid(w["ret"]), llist(w["params"], lparam), lbool(w["declared"]), lid(w["hdrRet"]), llist(w["hdrParams"], lparam),
                     ("\n      " + ",\n      ".join(lcall(c) for c in w["calls"])) if w["calls"] else "",
                     llist(w["placements"], lambda p: "⟨%s, %d, %s, %s, %s⟩" % (lid(p["mem"]), p["nmem"], lbool(p["direct"]), lid(p["ty"]), lid(p["via"]))),
                     llist(w["callbacks"], lambda c: "⟨%s, %s, %s, %d, %s⟩" % (lid(c["fn"]), lid(c["via"]), llist(c["args"]), c["arity"], lbool(c["lastVoidPtr"]))),
                     llist(w["sizeofs"]), llist(w["allocs"]),
                     llist(w["deletes"], lambda d: "⟨%s, %s⟩" % (lid(d["arg"]), lid(d["ty"]))), llist(w["destructs"], lambda d: "⟨%s, %s⟩" % (lid(d["arg"]), lid(d["ty"]))),
                     llist(w["copyouts"], lambda c: "⟨%s, %s, %s⟩" % (lid(c["mem"]), lid(c["src"]), lid(c["elem"]))),
                     lid(w["retKind"]), llist(w["retMem"]), llist(w["retFields"]), lid(w["retStruct"]), llist(w["used"])))
    chunks = [names[i:i + CHUNK] for i in range(0, len(names), CHUNK)]
    for i, ch in enumerate(chunks):
        o.append("def chunk%d : List Wrapper := [%s]" % (i, ", ".join(ch)))
    o.append("\n/-- number of chunks the wrapper table is split into (for `decide`) -/\ndef nChunks : Nat := %d" % len(chunks))
    o.append("def chunks : List (List Wrapper) := [%s]" % ", ".join("chunk%d" % i for i in range(len(chunks))))
    o.append("/-- every exported `manifold_*` function defined in bindings/c (%d) -/\ndef wrappers : List Wrapper := %s\n" % (len(names), " ++ ".join("chunk%d" % i for i in range(len(chunks)))))
    o.append("/-- the `manifold_X_size` functions: (X normalised, type whose sizeof is returned); `MV.Props.C20.sizes_eq` proves this is `sizeTable wrappers` -/")
    szs = [(re.sub(r"^manifold_|_size$", "", w["name"]).replace("_", "").lower(), w["sizeofs"][0]) for w in tab["wrappers"] if w["sizeofs"]]
    o.append("def sizes : List (Ident × Ident) := [\n" + ",\n".join("  (%s, %s)" % (lid(a), lid(b)) for a, b in szs) + "]\n")
    o.append("end MV.Gen.CBind\n")
    return "\n".join(o)


def finalize(tab):
    for c in tab["ptrConvs"]:
        c["cppType"] = deep_canon(c["cppType"])
    for c in tab["valConvs"]:
        c["from"], c["to"] = deep_canon(c["from"]), deep_canon(c["to"])
    for c in tab["arrConvs"]:
        c["to"] = deep_canon(c["to"])
    for w in tab["wrappers"]:
        for p in w["params"] + w["hdrParams"]:
            p["ty"] = deep_canon(p["ty"])
        w["ret"], w["hdrRet"] = deep_canon(w["ret"]), deep_canon(w["hdrRet"])
        for pl in w["placements"]:
            pl["ty"] = deep_canon(pl["ty"])
        for d in w["deletes"] + w["destructs"]:
            d["ty"] = deep_canon(d["ty"])
        w["sizeofs"] = [deep_canon(x) for x in w["sizeofs"]]
        w["allocs"] = [deep_canon(x) for x in w["allocs"]]
        for cb in w["callbacks"]:
            pass
    return tab


def main_debug():
    res, decls, enums, records = analyze_file(sys.argv[2], sys.argv[3] if len(sys.argv) > 3 else "anifold")
    for a in res:
        print("==", a.name, [(p[0], p[1]) for p in a.params])
        for c in a.calls:
            print("   ", c["kind"], c["callee"], "recv", c["recv"], "args", [(x["srcs"], x["aux"], x["shape"], x["form"]) for x in c["args"]], "cpp", c["cppParams"], "dflt", c["defaultsUsed"], c.get("via", ""))
        for k in ("placements", "callbacks", "sizeofs", "deletes", "destructs", "allocs", "copyouts", "returns"):
            v = getattr(a, k)
            if v:
                print("    %s: %s" % (k, v))


def main():
    import argparse
    ap = argparse.ArgumentParser()
    ap.add_argument("--out", default=os.path.join(ROOT, "lean", "MV", "Gen", "CBind.lean"))
    ap.add_argument("--json", default=os.path.join(ROOT, "build", "cbind_table.json"))
    ap.add_argument("--stdout", action="store_true")
    a = ap.parse_args()
    try:
        tab = finalize(build_table())
        txt = render(tab)
    except Broken as b:
        print("extract_cbind: PATTERN NOT FOUND: %s" % b, file=sys.stderr)
        return 2
    os.makedirs(os.path.dirname(a.json), exist_ok=True)
    with open(a.json, "w") as f:
        json.dump(tab, f, indent=1)
    if a.stdout:
        sys.stdout.write(txt)
    else:
        os.makedirs(os.path.dirname(a.out), exist_ok=True)
        with open(a.out + ".tmp", "w") as f:
            f.write(txt)
        os.replace(a.out + ".tmp", a.out)
    print("extract_cbind: %d wrappers, %d calls, %d enum tables, %d pointer conversions -> %s" % (
        len(tab["wrappers"]), sum(len(w["calls"]) for w in tab["wrappers"]), len(tab["enumMaps"]), len(tab["ptrConvs"]), a.out), file=sys.stderr)
    return 0


if __name__ == "__main__":
    if len(sys.argv) > 1 and sys.argv[1] == "--debug":
        main_debug()
    else:
        sys.exit(main())
