#!/bin/bash
# Run one property's quick check against /repo + a patch, without touching /repo or /verif/build.
# usage: tools/check_on_patch.sh <patch.diff> <PID> [tier]      prints the check's verdict lines
set -u
patch=$(readlink -f "$1"); pid=$2; tier=${3:-quick}; here=$(cd "$(dirname "$0")/.." && pwd)
tag=$(basename "$(dirname "$patch")")_${pid}_$$
w=/tmp/cop_wt_$tag; v=/tmp/cop_verif_$tag
git -C /repo worktree remove --force $w 2>/dev/null; rm -rf $w $v
git -C /repo worktree add --detach $w HEAD >/dev/null 2>&1 || exit 2
git -C $w apply "$patch" || { echo "patch does not apply"; git -C /repo worktree remove --force $w; exit 2; }
mkdir -p $v && rsync -a --exclude /build --exclude /out --exclude /.git $here/ $v/
(cd $v && VERIF_REPO=$w ./check.py $pid --tier $tier 2>&1 | grep -E "^(VIOLATION|OK|KNOWN)" | cut -c1-300 | tail -3)
[ -n "${KEEP:-}" ] || rm -rf $v
git -C /repo worktree remove --force $w
