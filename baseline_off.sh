#!/bin/sh
# The repository's pinned suite with the MANIFOLD_VERIF guard OFF (no hook is compiled in).
set -e
if [ ! -f /repo/_build/build.ninja ]; then
  cmake -G Ninja -S /repo -B /repo/_build -DMANIFOLD_TEST=ON -DMANIFOLD_PAR=OFF -DMANIFOLD_DOWNLOADS=OFF -DCMAKE_BUILD_TYPE=Release
fi
cmake --build /repo/_build -j16
ctest --test-dir /repo/_build -j8 --timeout 900
