#!/bin/sh
# The repository's pinned suite with the MANIFOLD_VERIF guard OFF (no hook is compiled in).
# Built outside /repo (its _build directory is tracked by the snapshot commit and must stay untouched).
set -e
B="$(cd "$(dirname "$0")" && pwd)/build/baseline_off"
mkdir -p "$B"
if [ ! -f "$B/build.ninja" ]; then
  cmake -G Ninja -S /repo -B "$B" -DMANIFOLD_TEST=ON -DMANIFOLD_PAR=OFF -DMANIFOLD_DOWNLOADS=OFF -DCMAKE_BUILD_TYPE=Release
fi
cmake --build "$B" -j16
ctest --test-dir "$B" -j8 --timeout 900
