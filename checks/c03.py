"""C03 - a CSG expression denotes one solid however it is built, shared or evaluated."""
import os, re
from concurrent.futures import ThreadPoolExecutor
from vlib import core, cases, libs

LEVEL = "proof"
PROPS = ["MV/Props/C03.lean", "MV/Props/C03Batch.lean"]
ASSUMPTIONS = [
    "theorems (toLeaf_denotes, history_independent, program_independent for EVERY store, collapse oracle and forcing history; sub_sub, nested_eq_flat, transform_chain, batch_eq_fold) are about MV/Model/Csg.lean "
    "with solids in an arbitrary Boolean algebra with a transform action; in that model BatchUnion/BatchBoolean/SimpleBoolean return a fresh leaf whose value is postulated (Respects) to be the n-ary operation",
    "that postulate is PROVED for BatchUnion/BatchBoolean in MV/Props/C03Batch.lean about MV/Model/CsgBatch.lean (line-by-line: start/chunk, greedy partition, singleton vs Compose, erase/push_back/swap, MeshCompare heap, "
    "groups of four) for every chunk size K>=2, every overlap oracle and every NumVert oracle: termination with fuel children.size(), no out-of-range index, every child used exactly once (multiset of original operands), "
    "result = union of the children in every SolidAlg given SimpleBoolean=union, Compose=union on pairwise disjoint parts, box-disjoint => disjoint; sets of the partition pairwise non-overlapping; pop = greatest (NumVert, serial), "
    "heap arrangement irrelevant. Correctness of ONE SimpleBoolean / Compose is C02's business; std::make_heap/pop_heap/push_heap are trusted to implement a heap for the comparator",
    "tie: the real evaluator's use-count bits and finalize events (MANIFOLD_VERIF hooks) on seeded API programs; the model run with those bits must emit identical events (same leaves, same integer transform matrices, same order)",
    "tie (batch): kMaxUnionSize and the pop-group width are read from src/csg_tree.cpp on every run; per BatchUnion call the hooks onBatchUnionRound/onBatchBoolean/onBatchBooleanPop/onBatchBooleanPush report children, start, "
    "sets, impls, pops and pushes by leaf identity; the model, given the children's real bounding boxes and the NumVert of every created leaf, must reproduce all of it (the box of a created leaf is modelled as the join of its parts' boxes)",
    "the action laws hold in exact arithmetic and for injective transforms; rounding of m*Mat4(n) products and bounding-box-disjoint => disjoint are geometric hypotheses",
    "IsCancelled / progress counters inside BatchUnion/BatchBoolean are not modelled here (C15); the MANIFOLD_PAR task-group path is not run here (same pops, serials and push order by construction; C04/C06 cover schedules)",
]

CSG = os.path.join(core.REPO, "src", "csg_tree.cpp")


def batch_constants():
    """kMaxUnionSize and the pop-group width, read from the source (the model takes them as parameters)."""
    src = re.sub(r"//[^\n]*|/\*.*?\*/", "", open(CSG).read(), flags=re.S)
    mk = re.search(r"constexpr\s+size_t\s+kMaxUnionSize\s*=\s*(\d+)\s*;", src)
    mg = re.search(r"for\s*\(\s*size_t\s+i\s*=\s*0\s*;\s*i\s*<\s*(\d+)\s*&&\s*heapNodes\.size\(\)\s*>\s*1\s*;\s*i\+\+\s*\)", src)
    if not mk or not mg:
        rp = core.write_replay("C03", "batch-constants", {"broken": "cannot find kMaxUnionSize / the pop-group loop in src/csg_tree.cpp", "kMaxUnionSize": bool(mk), "group_loop": bool(mg)})
        raise core.Violation("BatchUnion/BatchBoolean no longer have the shape the model transliterates (constants not found)", rp, no_input=True)
    K, grp = int(mk.group(1)), int(mg.group(1))
    if K < 2 or grp < 1:
        rp = core.write_replay("C03", "violation-batch-nontermination", {"kMaxUnionSize": K, "group": grp,
                               "input": "Manifold::BatchBoolean({a, b}, OpType::Add).Status() for any two leaves a, b",
                               "why": "batchUnion_terminates needs K >= 2 and grp >= 1: with K < 2 a round removes min(size,K) <= 1 children and adds one, so `while (children.size() > 1)` never ends"})
        raise core.Violation("kMaxUnionSize=%d / group=%d: BatchUnion / BatchBoolean do not terminate" % (K, grp), rp)
    return K, grp


def run(ctx):
    K, grp = batch_constants()
    libs.build("ser")
    with ThreadPoolExecutor(max_workers=2) as ex:
        f1 = ex.submit(core.compile_harness, "c03_csg", [os.path.join(core.ROOT, "harness", "c03_csg.cpp")], libs.cxx_flags("ser"), None, 1800, libs.link_flags("ser"))
        f2 = ex.submit(core.compile_harness, "c03_batch", [os.path.join(core.ROOT, "harness", "c03_batch.cpp")], libs.cxx_flags("ser"), None, 1800, libs.link_flags("ser"))
        cov = core.proof_gate(ctx.pid, PROPS, ["MV.Props.C03", "MV.Props.C03Batch"] if ctx.tier == "thorough" else None)
        exe, exeb = f1.result(), f2.result()
    cov["checker_cmd"] = "cd lean && lake build MV mvdriver && lake env lean <#print axioms for every theorem of MV/Props/C03.lean and MV/Props/C03Batch.lean>"
    cov["trusted_base"] = core.TRUSTED_BASE + ["MANIFOLD_VERIF hooks onCsgVisit/onCsgFinalize/onCsgFinalized, onBatchUnionRound/onBatchBoolean/onBatchBooleanPop/onBatchBooleanPush and VerifForce/VerifRoot accessors",
                                               "libstdc++ std::make_heap/pop_heap/push_heap (the model keeps the heap as a list and pops the greatest entry; batchBoolean_heap_arrangement_irrelevant)"]
    n, m = (400, 150) if ctx.tier == "quick" else (6000, 1500)
    cs, _ = cases.run_case_harness(ctx, exe, [n, m])
    c2 = cases.correspond(ctx, cs, "CsgOpNode::ToLeafNode events vs MV.Csg model run with the logged oracle bits")
    csb, stats = cases.run_case_harness(ctx, exeb, [K, grp])

    def search(ctx, c):
        # model != implementation on a BatchUnion/BatchBoolean call: look for an input on which the REAL result is wrong
        for seed in (ctx.seed + 101, ctx.seed + 202, ctx.seed + 303):
            more, _ = cases.run_case_harness(ctx, exeb, [K, grp], env={"VERIF_SEED": str(seed), "VERIF_TIER": "thorough" if K <= 50 else ctx.tier})
            for x in more:
                if not x["prop"].startswith("ok"):
                    return {"found_by": "focused search after a correspondence mismatch", "seed": seed, "case": x["tag"], "oracle": x["prop"],
                            "mismatching_case": c["tag"], "model": core.clip(c.get("model", ""), 2000), "implementation": core.clip(c["exp"], 2000)}
        return None

    c3 = cases.correspond(ctx, csb, "BatchUnion rounds / BatchBoolean heap steps (hooks) vs MV.CsgBatch model on the real bounding boxes and NumVert", search=search)
    cov.update(c2)
    for k in ("evaluations", "model_vs_impl_compared", "distinct_nontrivial", "mismatches", "property_failures"):
        cov[k] = c2[k] + c3[k]
    cov["driver_wall_s"] = round(c2["driver_wall_s"] + c3["driver_wall_s"], 1)
    kinds = dict(c2["kinds"])
    for k, v in c3["kinds"].items():
        kinds[k] = kinds.get(k, 0) + v
    cov["kinds"] = kinds
    cov["parts"] = {"evaluator": c2, "batch": c3}
    cov["batch_stats"] = stats
    cov["batch_constants"] = {"kMaxUnionSize": K, "group": grp}
    cov["exhaustive"] = False
    cov["rule"] = ("evaluator programs: 2-6 leaves, 3-60 commands among bool(add/sub/int)/batch(0-4 operands)/xf(7 integer matrices)/drop/force with handle rebinding; "
                   "history programs: lattice boxes in [0,4]^3 under Booleans, integer translations and axis flips, evaluated lazily, eagerly, under a random forcing history and shared-subexpression-first; "
                   "all four must classify 729 voxel centres identically with equal Status and volume; "
                   "batch: N in {0..6, 8, 10, 13, 25, 5..20 all-cluster, K-2..K+3, 1.1K, 2K+1} operands (K = kMaxUnionSize read from the source) laid out as disjoint pegs + plates crossing every peg + clusters of "
                   "mutually overlapping boxes on a quarter lattice, shuffled, through Manifold::BatchBoolean(Add), += chains, balanced trees of temporaries, -= chains and BatchBoolean(Subtract) (negative side), and "
                   "BatchBoolean(Intersect) of 0..20 nested boxes; every BatchUnion/BatchBoolean call replayed on the model; real result checked for exact volume, runOriginalID = operands, point membership; "
                   "distinct = distinct request lines")
    cov["samples"] = [{"case": c["tag"], "request": core.clip(c["req"], 240), "answer": core.clip(c["exp"], 240)} for c in (cs[:2] + [x for x in csb if x["req"]][:2])]
    return cov
