"""C03 - a CSG expression denotes one solid however it is built, shared or evaluated."""
import os
from vlib import core, cases, libs

LEVEL = "proof"
PROPS = ["MV/Props/C03.lean"]
ASSUMPTIONS = [
    "theorems (toLeaf_denotes, history_independent, program_independent for EVERY store, collapse oracle and forcing history; sub_sub, nested_eq_flat, transform_chain, batch_eq_fold) are about MV/Model/Csg.lean "
    "with solids in an arbitrary Boolean algebra with a transform action; BatchUnion/BatchBoolean/SimpleBoolean are abstracted to the fold they are proved equal to, i.e. correctness of one Boolean is C02's business",
    "tie: the real evaluator's use-count bits and finalize events (MANIFOLD_VERIF hooks) on seeded API programs; the model run with those bits must emit identical events (same leaves, same integer transform matrices, same order)",
    "the action laws hold in exact arithmetic and for injective transforms; rounding of m*Mat4(n) products and bounding-box-disjoint => disjoint are geometric hypotheses",
]


def run(ctx):
    cov = core.proof_gate(ctx.pid, PROPS, ["MV.Props.C03"] if ctx.tier == "thorough" else None)
    cov["checker_cmd"] = "cd lean && lake build MV mvdriver && lake env lean <#print axioms for every theorem of MV/Props/C03.lean>"
    cov["trusted_base"] = core.TRUSTED_BASE + ["MANIFOLD_VERIF hooks onCsgVisit/onCsgFinalize/onCsgFinalized and VerifForce/VerifRoot accessors"]
    libs.build("ser")
    exe = core.compile_harness("c03_csg", [os.path.join(core.ROOT, "harness", "c03_csg.cpp")], libs.cxx_flags("ser"), libs=libs.link_flags("ser"))
    n, m = (400, 150) if ctx.tier == "quick" else (6000, 1500)
    cs, _ = cases.run_case_harness(ctx, exe, [n, m])
    c2 = cases.correspond(ctx, cs, "CsgOpNode::ToLeafNode events vs MV.Csg model run with the logged oracle bits")
    cov.update(c2)
    cov["rule"] = ("evaluator programs: 2-6 leaves, 3-60 commands among bool(add/sub/int)/batch(0-4 operands)/xf(7 integer matrices)/drop/force with handle rebinding; "
                   "history programs: lattice boxes in [0,4]^3 under Booleans, integer translations and axis flips, evaluated lazily, eagerly, under a random forcing history and shared-subexpression-first; "
                   "all four must classify 729 voxel centres identically with equal Status and volume; distinct = distinct request lines")
    cov["samples"] = [{"case": c["tag"], "request": core.clip(c["req"], 240), "answer": core.clip(c["exp"], 240)} for c in cs[:3]]
    return cov
