"""C02 - Booleans compute the regularised set operation on the operand solids."""
import collections, json, os, re, sys
from vlib import core, cases, libs

LEVEL = "proof"
PROPS = ["MV/Props/C02.lean", "MV/Props/C02b.lean"]
ASSUMPTIONS = [
    "PARTIAL: the theorems (inclusion_is_setop, inclusion_coboundary incl. uniqueness, ray_winding, inclusion_exclusion, volume_inclusion_exclusion, add/intersect_comm_solid, "
    "split_partition, split_disjoint, keepNew_is_jump, shadows_antisymm, abssum_law, abssum_scan_any_schedule) are about MV/Model/Bool3.lean: the inclusion arithmetic with the "
    "constants c1,c2,c3 REGENERATED from Boolean3::Result on every run, an abstract arrangement (cells with integer windings, pieces across which only the owner's winding changes), "
    "and Shadows at an ordered field. They show: IF Intersect12/Winding03 deliver the true crossing numbers x12 and winding numbers w03 of the (perturbed) operands THEN the kept surface "
    "winds incl(wP,wQ) times in every cell. Global correctness of Intersect12/Winding03/the collider (that the kernel cascade, flood fill and broad phase together deliver those numbers), "
    "the assembly of the output mesh (PairUp, Face2Tri, SimplifyTopology) and all rounding are NOT proved: they are oracle-checked only (harness/c02_bool.cpp parts b and c)",
    "tie: Shadows/Interpolate/Intersect/Shadow01/Kernel02/Kernel11/Kernel12 are transliterated once over the Scalar interface and run at Float by mvdriver; the harness #includes "
    "boolean3.cpp, calls the real kernels on candidate (vertex,edge)/(vertex,face)/(edge,edge)/(edge,face) pairs of seeded operand pairs and the outputs must agree bit for bit "
    "(harness compiled with -ffp-contract=off; a self-test vector guards the arithmetic)",
    "oracles: lattice programs against an 8^3 voxel semantics (WindingNumber at voxel centres, a long-double ray-parity oracle on the exported mesh, Volume == voxel count within 1e-9); "
    "general position: points farther than 10 x max(tolerance, epsilon) from both input surfaces (long-double point-triangle distance) classified by WindingNumber and by a long-double "
    "solid-angle winding number of the exported result, against the set formula on the solid-angle classification of the exported operands; volumes within 1e-7 relative",
    "known-finding policy: a failing lattice program is minimised to a canonical expression; that expression is the key. Listed expressions are replayed on every run. "
    "An unlisted minimal expression that executes >= 2 Booleans (so the failing Boolean consumed the result of an earlier coplanar Boolean) is reported under the class key "
    "'lattice-derived-operand' IF that key is listed, and recorded in the evidence; an unlisted single-Boolean failure, any general-position failure, or a failure rate of random "
    "lattice programs above 10x the recorded baseline is a violation. Deleting the class line from known_findings.txt gives the strict per-instance behaviour.",
]
ASSUMPTIONS += [
    "assembly (C02b): MV/Model/BoolAssembly.lean transliterates PairUp (incl. libstdc++'s std::__partition and the two stable_sorts), AddNewEdgeVerts, the per-edge bodies of "
    "AppendPartialEdges/AppendNewEdges, DuplicateHalfedges, SizeOutput's counts and scans, the AbsSum vertex layout and Winding03_ (unite calls, flood fill). PROVED for all inputs "
    "(MV/Props/C02b.lean): pairUp_pairs_all (for every std::partition meeting the standard's contract; stdPartition_meets_contract for the libstdc++ one), partialEdge_balance "
    "(from the jump law keepNew_is_jump: IF w03 at the end vertex = w03 at the start vertex minus the crossing numbers THEN #starts = #ends), sizeOutput_matches_emitted and "
    "emitted_any_schedule (cursors started at the exclusive scan of the per-face fetch counts: under EVERY order of the AtomicAdd fetches each fetch lands in its face's range, no slot "
    "twice, none missing, cursors end at the next face), winding03_component_constant / winding03_true / whole_edge_same_inclusion (flood fill in any order). DECIDED PER RUN, not "
    "proved: that SizeOutput's counts equal the number of fetches per face (the replay compares faceEdge/facePtrR face by face), that every vector is balanced on the real w03/x12 "
    "(checked on every vector), that every face boundary is closed (checked per face), and the union-find's answers (checked by rootsOk against the model's own components; the "
    "concurrent DisjointSets itself is C13's theorem)",
    "assembly tie: the MANIFOLD_VERIF hook onBoolAsm (verif_hooks.h; boolean3.cpp Winding03_, boolean_result.cpp Result/AppendPartialEdges/AppendNewEdges/DuplicateHalfedges) dumps "
    "the inputs and every intermediate; harness/c02_assembly.cpp replays each Boolean with <= 400 halfedges per operand through the Lean driver (engine boolasm): identical unite "
    "calls, w03, faceEdge, facePQ2R, every vector<EdgePos> before PairUp, final facePtrR and faceHalfedges; edgePos doubles enter the model only as an order-preserving integer "
    "(oracle); the real PairUp template is also called directly on seeded vectors with ties and duplicated vertices; serial library only (the parallel schedules of "
    "DuplicateHalfedges are covered by the theorem, not by the replay)",
]
CLASS_KEY = "lattice-derived-operand"
HA = os.path.join(core.ROOT, "harness", "c02_assembly.cpp")


def assembly_part(ctx, quick, search=None):
    """C02b: replay of the Boolean assembly (PairUp / Append* / SizeOutput / Winding03) + structural oracle + verified mesh checker"""
    hooks = open(os.path.join(core.REPO, "src", "verif_hooks.h")).read()
    if "onBoolAsm" not in hooks:
        raise core.BuildBroken("src/verif_hooks.h has no onBoolAsm hook: apply patches/01-verif-hook-boolasm.diff (C02b) to the tree under test")
    exe = core.compile_harness("c02_assembly", [HA], libs.cxx_flags("ser") + ["-ffp-contract=off"], libs=libs.link_flags("ser"))
    cov = {}
    cs1, st1 = cases.run_case_harness(ctx, exe, ["pairup", 1500 if quick else 20000])
    c1 = cases.correspond(ctx, cs1, "PairUp (real template, libstdc++ partition + stable_sort) vs MV.BoolAsm.pairUp", search=search)
    cs2, st2 = cases.run_case_harness(ctx, exe, ["bool", 140 if quick else 1500])
    c2 = cases.correspond(ctx, cs2, "Boolean assembly (Winding03 unite calls and flood fill, SizeOutput, AddNewEdgeVerts, AppendPartialEdges, AppendNewEdges, AppendWholeEdges) vs "
                          "MV.BoolAsm.assemble / winding03 / unitedEdges, and the result through the verified mesh checker", search=search)
    kinds = collections.Counter(c["tag"].split()[1] for c in cs2 if len(c["tag"].split()) > 1)
    fams = collections.Counter(c["tag"].split()[3].split(":")[0] for c in cs2 if len(c["tag"].split()) > 3 and c["tag"].split()[1] == "asm")
    cov["assembly_evaluations"] = c1["evaluations"] + c2["evaluations"]
    cov["assembly_distinct_nontrivial"] = int(st1.get("pairup_with_ties", 0)) + int(st2.get("booleans_with_intersections", 0))
    cov["assembly_case_kinds"] = dict(kinds); cov["assembly_operand_families"] = dict(fams)
    cov["assembly_stats"] = {k: int(v) for k, v in list(st1.items()) + list(st2.items()) if str(v).lstrip("-").isdigit()}
    cov["assembly_samples"] = [{"case": core.clip(c["tag"], 160), "request": core.clip(c["req"], 200), "answer": core.clip(c["exp"], 200)} for c in cs2 if " asm " in c["tag"]][:2]
    cov["assembly_rule"] = ("pairup: seeded vectors of <= 28 EdgePos with 1-3 distinct positions / 2-100 collision ids, duplicated-vertex groups, INT_MAX ids, +-0, shuffled, ~10% unbalanced or odd; "
                            "nontrivial = has a tie in (edgePos, collisionId). bool: 40% general-position pairs of 6 families, 40% lattice boxes / lattice Boolean results in [0,3]^3, "
                            "10% one self-overlapping two-component mesh (winding 2, multiplicity-2 vertices) against a small solid, 10% shifted copies; x 3 OpTypes; nontrivial = n12 + n21 > 0")
    return cov, c1["evaluations"] + c2["evaluations"], cov["assembly_distinct_nontrivial"]

H = os.path.join(core.ROOT, "harness", "c02_bool.cpp")
GEN = os.path.join(core.LEAN, "MV", "Gen", "Inclusion.lean")


def translate(ctx):
    p = core.sh([sys.executable, os.path.join(core.ROOT, "tools", "extract_inclusion.py"), core.REPO, GEN])
    if p.returncode != 0:
        rp = core.write_replay(ctx.pid, "translator", {"broken": "tools/extract_inclusion.py could not find the inclusion arithmetic of Boolean3::Result", "stderr": p.stderr[-2000:]})
        raise core.Violation("translator failed: %s" % p.stderr.strip()[-300:], rp, no_input=True)
    return p.stdout.strip()


class Lattice:
    """collects verdicts of lattice programs; applies the known-finding policy"""

    def __init__(self, ctx):
        self.ctx, self.fail, self.n, self.random_n, self.random_fail = ctx, [], 0, 0, 0
        self.listed = {k for k, _ in ctx.known}

    def take(self, cs, random_programs=False, source="search"):
        for c in cs:
            kind = c["tag"].split()[1] if len(c["tag"].split()) > 1 else ""
            if kind.endswith("-summary"):
                continue
            self.n += 1
            self.random_n += 1 if random_programs else 0
            if c["prop"].startswith("ok"):
                continue
            m = re.match(r"FAIL MIN (\S+) OPS (\d+) :: (.*)$", c["prop"])
            if not m:
                self.ctx.finding("lattice-" + kind, "lattice oracle failed on %s: %s" % (c["tag"], c["prop"]), {"case": c["tag"], "oracle": c["prop"]})
                continue
            expr, ops, msg = m.group(1), int(m.group(2)), m.group(3)
            self.random_fail += 1 if random_programs else 0
            key = expr if expr in self.listed else (CLASS_KEY if ops >= 2 and CLASS_KEY in self.listed else expr)
            self.fail.append({"source": source, "minimal_expression": expr, "booleans": ops, "reported_as": key, "what": msg[:300], "found_in": core.clip(c["tag"], 300)})
            if key == CLASS_KEY:
                core.write_replay(self.ctx.pid, "known-class-instance-%s" % core.digest(expr), {"class": CLASS_KEY, "minimal_expression": expr, "what": msg, "replay": "build/h/c02_bool replay '%s'" % expr})
            self.ctx.finding(key, "lattice program %s does not give the voxel-set result: %s" % (expr, msg),
                             {"what": "lattice CSG program vs voxel semantics", "minimal_expression": expr, "booleans": ops, "oracle": msg, "found_in": c["tag"],
                              "replay": "build/h/c02_bool replay '%s'" % expr})


def property_parts(ctx, exe, sizes, lat=None):
    """parts (b) and (c); returns coverage. Raises Violation through ctx.finding."""
    lat = lat or Lattice(ctx)
    cov = {}
    # listed known instances are replayed on every run
    stale = []
    for k in sorted(lat.listed):
        if "(" not in k:
            continue
        cs, _ = cases.run_case_harness(ctx, exe, ["replay", k])
        if all(c["prop"].startswith("ok") for c in cs):
            stale.append(k)
        lat.take(cs, source="replay-of-listed-instance")
    cov["known_instances_replayed"] = len([k for k in lat.listed if "(" in k])
    cov["known_instances_not_reproduced"] = stale
    cs, st = cases.run_case_harness(ctx, exe, ["pairs", sizes["pairs"]])
    lat.take(cs)
    cov["boxpairs_evaluated"] = int(st.get("boxpairs", 0)); cov["boxpair_failures"] = int(st.get("boxpair_failures", 0))
    cov["exhaustive"] = False
    if st.get("boxpairs_exhaustive") == "1":
        cov["exhaustive_parts"] = "all %d (ordered pair of boxes with integer corners in [0,3]^3) x 3 OpTypes" % cov["boxpairs_evaluated"]
    if sizes.get("triples") is not None:
        cs, st = cases.run_case_harness(ctx, exe, ["triples", sizes["triples"]])
        lat.take(cs)
        cov["triples_evaluated"] = int(st.get("triples", 0)); cov["triple_failures"] = int(st.get("triple_failures", 0)); cov["triples_exhaustive"] = st.get("triples_exhaustive") == "1"
    cs, _ = cases.run_case_harness(ctx, exe, ["lattice", sizes["lattice"]])
    lat.take(cs, random_programs=True)
    cov["lattice_programs"] = lat.random_n; cov["lattice_program_failures"] = lat.random_fail
    cov["known_instances_reproduced"] = len([f for f in lat.fail if f["source"] != "search"])
    cov["lattice_failures"] = [f for f in lat.fail if f["source"] == "search"][:40]
    lens = sorted(len(c["tag"]) for c in cs)
    cov["lattice_program_text_length"] = {"min": lens[0], "median": lens[len(lens) // 2], "max": lens[-1]} if lens else {}
    limit = max(3, lat.random_n // 1000)     # recorded baseline: 0.5 - 1.2 failures per 10000 random programs (40 in 720000 over 28 seeds)
    if lat.random_fail > limit:
        rp = core.write_replay(ctx.pid, "violation-lattice-rate", {"what": "failure rate of random lattice programs far above the recorded baseline", "failures": lat.fail[:60], "programs": lat.random_n})
        raise core.Violation("%d of %d random lattice programs fail (baseline about 1.2e-4): not the known defect alone" % (lat.random_fail, lat.random_n), rp)
    # (c) general position
    cs, _ = cases.run_case_harness(ctx, exe, ["general", sizes["general"]])
    kinds = collections.Counter()
    nontriv = 0
    for c in cs:
        t = c["tag"].split()
        kinds[t[2] if len(t) > 2 else "?"] += 1
        m = re.search(r"inAB=(\d+)", c["tag"])
        nontriv += 1 if (m and int(m.group(1)) > 0) else 0
        if not c["prop"].startswith("ok"):
            what = c["prop"].split(" ", 1)[-1]
            key = "general-" + re.sub(r"[^A-Za-z0-9^+.-]+", "_", what.split(":")[0])[:60]
            ctx.finding(key, "general-position oracle failed on %s: %s" % (c["tag"], what), {"what": "general position pair", "case": c["tag"], "oracle": what, "seed": ctx.seed,
                                                                                              "replay": "VERIF_SEED=%d build/h/c02_bool general %s  (case %s)" % (ctx.seed, sizes["general"], t[0])})
    # (d) unions of more than 1000 operands (chunked BatchUnion / Compose of disjoint operands), exact volume known
    csb, _ = cases.run_case_harness(ctx, exe, ["bigbatch", 0 if ctx.tier == "quick" else 1])
    for c in csb:
        if not c["prop"].startswith("ok"):
            t = c["tag"].split()
            ctx.finding("bigbatch-" + "-".join(x for x in t[2:6]), "many-operand union oracle failed on %s: %s" % (c["tag"], c["prop"]),
                        {"what": "union of N disjoint pegs and plates crossing all of them, exact volume by inclusion-exclusion", "case": c["tag"], "oracle": c["prop"], "seed": ctx.seed,
                         "replay": "VERIF_SEED=%d build/h/c02_bool bigbatch %s" % (ctx.seed, " ".join(x.split("=")[1] for x in t[2:6]))})
    cov["bigbatch_cases"] = len(csb)
    cov["general_pairs"] = len(cs); cov["general_pairs_with_sample_points_in_both"] = nontriv; cov["general_operand_kinds"] = dict(kinds.most_common(12))
    cov["general_samples"] = [core.clip(c["tag"], 200) for c in cs[:3]]
    return cov, lat


def replay(ctx):
    """./check.py C02 --replay <file>: re-run the lattice program of a replay file written by this check"""
    obj = json.load(open(ctx.replay))
    expr = obj.get("minimal_expression")
    if not expr:
        raise core.Violation("replay file %s carries no lattice program (general-position and kernel cases are replayed by seed: see its 'replay' field)" % ctx.replay, ctx.replay, no_input=True)
    libs.build("ser")
    exe = core.compile_harness("c02_bool", [H], libs.cxx_flags("ser") + ["-ffp-contract=off"], libs=libs.link_flags("ser"))
    cs, _ = cases.run_case_harness(ctx, exe, ["replay", expr])
    lat = Lattice(ctx)
    lat.take(cs, source="replay-file")      # raises Violation unless the expression is a listed known finding
    return {"obligations": 0, "discharged": 0, "checker_cmd": "build/h/c02_bool replay '%s'" % expr, "trusted_base": core.TRUSTED_BASE, "evaluations": 1,
            "distinct_nontrivial": 1, "replayed": expr, "reproduced": bool(lat.fail), "lattice_failures": lat.fail}


def run(ctx):
    if ctx.replay:
        return replay(ctx)
    pending, consts, cov = None, "", {}
    try:
        consts = translate(ctx)
        cov = core.proof_gate(ctx.pid, PROPS, ["MV.Props.C02", "MV.Props.C02b"] if ctx.tier == "thorough" else None)
    except core.Violation as v:
        pending = v          # gate 1 broke: look for a concrete failing input before reporting (DESIGN section 3, "Search")
    cov["translator"] = "tools/extract_inclusion.py -> lean/MV/Gen/Inclusion.lean : " + consts
    cov["checker_cmd"] = "python3 tools/extract_inclusion.py && cd lean && lake build MV mvdriver && lake env lean <#print axioms for every theorem of MV/Props/C02.lean and MV/Props/C02b.lean>"
    cov["trusted_base"] = core.TRUSTED_BASE + ["tools/extract_inclusion.py (regex reading of the three constants and the four inclusion formulas)",
                                               "the long-double oracles of harness/c02_bool.cpp (solid-angle winding, ray parity, point-triangle distance)"]
    libs.build("ser")
    exe = core.compile_harness("c02_bool", [H], libs.cxx_flags("ser") + ["-ffp-contract=off"], libs=libs.link_flags("ser"))
    quick = ctx.tier == "quick"
    sizes = {"kern": 40, "pairs": 0, "lattice": 6000, "general": 60, "triples": None} if quick else \
            {"kern": 400, "pairs": 0, "lattice": 60000, "general": 800, "triples": 0}

    def search(ctx2, mismatch_case):
        """correspondence broke: look for a concrete input on which the PROPERTY fails"""
        try:
            property_parts(ctx2, exe, {"pairs": 3000, "lattice": 1500, "general": 40, "triples": None})
        except core.Violation as v:
            return {"broken_correspondence": mismatch_case["tag"], "property_violation": v.msg, "replay_of_input": v.replay}
        return None

    if pending is not None:
        found = search(ctx, {"tag": "proof gate"})
        if found:
            found["broken_gate"] = pending.msg
            found["broken_gate_replay"] = pending.replay
            raise core.Violation("%s; and the focused search found an input on which the property fails: %s" % (pending.msg, found["property_violation"]), found["replay_of_input"])
        raise pending
    # (a) kernel tie
    cs, st = cases.run_case_harness(ctx, exe, ["kern", sizes["kern"]])
    c2 = cases.correspond(ctx, cs, "Shadows/Interpolate/Intersect/Shadow01/Kernel02/Kernel11/Kernel12 (C++ double) vs MV.Bool3 at Float, bit for bit", search=search)
    cov.update(c2)
    cov["kernel_queries"] = int(st.get("kernel_queries", 0)); cov["kernel_operand_pairs"] = int(st.get("kernel_cases", 0)); cov["kernel12_nonzero_x12"] = int(st.get("x12_nonzero", 0))
    cov["samples"] = [{"case": core.clip(c["tag"], 120), "request": core.clip(c["req"], 200), "answer": core.clip(c["exp"], 160)} for c in cs if c["tag"].split()[1] in ("kernel", "intersect")][:3]
    # (e) assembly of the result (C02b)
    ca, n_asm, nt_asm = assembly_part(ctx, quick, search=search)
    cov.update(ca)
    # (b), (c)
    c3, lat = property_parts(ctx, exe, sizes)
    cov.update(c3)
    cov["evaluations"] = cov["evaluations"] + lat.n + cov["general_pairs"] + n_asm
    cov["distinct_nontrivial"] = cov["distinct_nontrivial"] + lat.n + cov["general_pairs_with_sample_points_in_both"] + nt_asm
    cov["rule"] = ("kernel tie: scalar vectors incl. ties, +-0, denormals, 1e+-300 (non-finite lambda) and operand pairs {lattice boxes touching/overlapping/identical, lattice Boolean results, "
                   "tetrahedra, spheres, generic rotated/scaled primitives, hulls, a drilled cube} x expandP in {0,1}: every candidate pair when the space is <= 1400, else box-overlapping pairs "
                   "sampled at 60% and others at 2%; distinct = distinct request lines. Lattice: every ordered pair of the 216 boxes of [0,3]^3 x 3 ops (both tiers), "
                   "thorough adds all 354294 three-box programs over [0,2]^3, random programs of depth <= 6 over boxes of [0,4]^3 with add/sub/int, Split (both halves), "
                   "BatchBoolean (2-4 operands), integer translations, axis flips and re-used sub-expressions; nontrivial = inside the 8^3 window. General: 6 operand families under "
                   "rotate-scale(0.7..1.3)-rotate-translate; 260 sample points per pair (union box, intersection of the boxes, near B's vertices); nontrivial = some sample point inside both")
    return cov
