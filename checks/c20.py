"""C20 - the C binding is a faithful, memory-safe image of the C++ API."""
import json, os, subprocess, sys, time
from vlib import core, cases, libs

# LEVEL: "translation_validation", not "proof".  Justification: the Lean theorems of MV/Props/C20.lean are (1) decide-closed
# facts about tables that an UNVERIFIED translator (tools/extract_cbind.py) extracts from the clang AST of bindings/c/*.cpp on
# every run - argument order, packing, names, defaults, enum bijections/round trips, placement-new into `mem`, *_size = sizeof,
# alloc/destruct/delete agreement, callback context forwarding - and (2) a general, inductive theorem about the lifecycle
# automaton.  There is no Lean semantics of C++, so "returns the value that the C++ call returns" is not a theorem: it is
# validated per wrapper by the table theorems (structure of the forwarding) plus paired C / C++ execution (values), re-done on
# every run against the code as it is now.  Only the lifecycle clause is carried by a proof in the strict sense.
LEVEL = "translation_validation"
PROPS = ["MV/Props/C20.lean"]
ASSUMPTIONS = [
    "table theorems (enum_tables, enum_roundtrip, conversions_inverse, args_in_order, header_matches, placement_in_mem, sizes_eq, size_table, "
    "lifecycle_table, callbacks_ctx, returned_structs, callee_named) are about MV/Gen/CBind.lean, regenerated from the clang-14 AST of bindings/c/*.cpp, "
    "conv.h, manifoldc.h, types.h and include/manifold/*.h by tools/extract_cbind.py on every run; the translator (python) and clang's AST are trusted; "
    "a wrapper body the translator cannot classify is a hard error, not a skipped wrapper",
    "args_in_order compares names with the C++ declaration's parameter names as spelled in include/manifold/*.h; parameters the header leaves unnamed "
    "(Translate(vec3), Refine(int), operators, ...) are checked for order, arity and packing only; opaque-object and callback arguments are exempt from the "
    "name rule (the compiler type-checks them); reviewed exceptions: MV/Model/CBindExceptions.lean (5 parameter-name pairs, 1 enumerator pair, 36 callee aliases)",
    "lifecycle_safe is a general theorem (induction over operation lists) about the protocol automaton vs a concrete memory model written in Lean; the tie to "
    "the code is lifecycle_table (each opaque type has size/alloc/destruct/delete on one and the same C++ type) and the harness run under ASan+LSan whose "
    "logged alloc/construct/destruct/delete sequence is replayed on both Lean machines",
    "value equality C vs C++ is tested, not proved: paired calls with seeded asymmetric arguments, results read back through the C accessors and compared "
    "bitwise (manifolds: every MeshGL64 field except runOriginalID values, which come from a global counter; cross-sections: polygon coordinates; scalars: bit patterns)",
    "FillRule is not exposed by the C binding at this commit (only OpType, Error, JoinType are converted); units/defaults: C has no default arguments, the only "
    "defaults taken are those the table lists (GetMeshGL(normalIdx=-1), Triangulate(allowConvex=true))",
]


def run_translator(ctx):
    gen = os.path.join(core.LEAN, "MV", "Gen", "CBind.lean")
    tool = os.path.join(core.ROOT, "tools", "extract_cbind.py")
    os.makedirs(core.OUT, exist_ok=True)
    new = os.path.join(core.OUT, "CBind.lean.new")
    tabj = os.path.join(core.BUILD, "cbind_table.json")
    t0 = time.time()
    p = core.sh([sys.executable, tool, "--out", new, "--json", tabj], timeout=1800)
    if p.returncode != 0:
        rp = core.write_replay(ctx.pid, "translator-pattern-missing", {"broken": "tools/extract_cbind.py could not classify the binding source (tie broken)",
                                                                       "stderr_tail": p.stderr[-4000:]})
        raise core.Violation("translator failed on the current tree: %s" % p.stderr.strip()[-600:], rp, no_input=True)
    old = open(gen).read() if os.path.exists(gen) else ""
    txt = open(new).read()
    changed = txt != old
    if changed:
        # the committed table no longer describes the code: rewrite it, the proof gate rebuilds and re-proves
        with open(gen, "w") as f:
            f.write(txt)
    os.remove(new)
    return json.load(open(tabj)), changed, round(time.time() - t0, 1)


def run(ctx):
    tab, changed, t_tr = run_translator(ctx)
    gate = None
    try:
        cov = core.proof_gate(ctx.pid, PROPS, ["MV.Props.C20"] if ctx.tier == "thorough" else None)
    except core.Violation as v:
        # a table theorem no longer holds for the regenerated table (e.g. a C parameter that is no longer forwarded): before
        # reporting it without an input, let the paired C / C++ calls look for a concrete disagreement (needs the driver only)
        gate = v
        cov = {"obligations": 1, "discharged": 0, "proof_gate": "BROKEN: " + v.msg}
        if core.sh(["lake", "build", "mvdriver"], cwd=core.LEAN, timeout=3600).returncode != 0:
            raise
    cov["checker_cmd"] = ("python3 tools/extract_cbind.py && cd lean && lake build MV mvdriver && lake env lean <#print axioms for every theorem of MV/Props/C20.lean>; "
                          "g++ -fsanitize=address,undefined harness/c20_cbind.cpp libmanifoldc.a libmanifold.a && ASAN_OPTIONS=detect_leaks=1 ./c20_cbind")
    cov["trusted_base"] = core.TRUSTED_BASE + ["tools/extract_cbind.py and the clang-14 JSON AST it reads", "AddressSanitizer / LeakSanitizer / UBSan runtime"]
    cov["generated_table"] = {"wrappers": len(tab["wrappers"]), "forwarded_calls": sum(len(w["calls"]) for w in tab["wrappers"]),
                              "enum_tables": len(tab["enumMaps"]), "pointer_conversions": len(tab["ptrConvs"]),
                              "placement_sites": sum(len(w["placements"]) for w in tab["wrappers"]),
                              "callbacks": sum(len(w["callbacks"]) for w in tab["wrappers"]),
                              "cpp_params_unnamed_in_header": sum(1 for w in tab["wrappers"] for c in w["calls"] for p in c["cppParams"] if p == ""),
                              "regenerated_differs_from_committed": changed, "translator_wall_s": t_tr}
    libs.build("san")
    exe = core.compile_harness("c20_cbind", [os.path.join(core.ROOT, "harness", "c20_cbind.cpp")],
                               libs.cxx_flags("san") + ["-I" + os.path.join(core.REPO, "bindings", "c", "include")], libs=libs.link_flags("san", cbind=True))
    env = {"ASAN_OPTIONS": "detect_leaks=1:abort_on_error=0", "UBSAN_OPTIONS": "print_stacktrace=1"}
    e = {"VERIF_SEED": str(ctx.seed), "VERIF_TIER": ctx.tier}
    e.update(env)
    p = core.sh([exe], env=e, timeout=3600)
    if p.returncode != 0:
        rp = core.write_replay(ctx.pid, "harness-sanitizer", {"cmd": [exe], "env": e, "rc": p.returncode, "stderr_tail": p.stderr[-6000:],
                                                             "last_cases": [l for l in p.stdout.split("\n") if l.startswith("CASE ")][-3:]})
        raise core.Violation("c20_cbind aborted (rc=%d): sanitizer report or crash while mirroring C and C++ calls:\n%s" % (p.returncode, p.stderr[-1500:]), rp)
    cs, stats = core.parse_cases(p.stdout)
    covered = []
    for l in p.stdout.split("\n"):
        if l.startswith("COVERED"):
            covered = l.split()[1:]
    c2 = cases.correspond(ctx, cs, "paired C / C++ calls (PROP) and lifecycle log replayed on the Lean automaton + memory model (REQ/EXP)")
    cov.update(c2)
    if gate is not None:
        gate.coverage = dict(cov, trusted_base=core.TRUSTED_BASE, search="the paired C / C++ calls found no disagreement")
        raise gate
    names = [w["name"] for w in tab["wrappers"]]
    missing = sorted(set(names) - set(covered))
    unknown = sorted(set(covered) - set(names))
    if unknown:
        rp = core.write_replay(ctx.pid, "coverage-unknown", {"broken": "harness calls functions that are not in the generated table", "names": unknown})
        raise core.Violation("harness exercised %d functions missing from the generated table: %s" % (len(unknown), unknown[:5]), rp, no_input=True)
    cov["programs"] = len(cs)
    cov["disagreements_checked"] = int(stats.get("checks", 0))
    cov["objects_lifecycled"] = int(stats.get("objects", 0))
    cov["lifecycle_ops_replayed"] = int(stats.get("lifeops", 0))
    cov["wrappers_in_table"] = len(names)
    cov["wrappers_exercised"] = len(set(covered) & set(names))
    cov["wrappers_not_exercised"] = missing
    cov["distinct_nontrivial"] = len(set(covered) & set(names))
    cov["rule"] = ("one program = one CASE block of mirrored C / C++ calls with seeded asymmetric arguments; distinct_nontrivial = number of distinct exported "
                   "wrappers called at least once (vacuity guards inside the cases: callbacks ran, rays hit, merges merged, errors were errors, join types differ)")
    # known UB: copy_data(mem, empty vector) -> memcpy(mem, nullptr, 0)
    pp = core.sh([exe, "probe-empty-copy"], env=e, timeout=600)
    cov["probe_empty_copy"] = "survived" if pp.returncode == 0 else "aborted"
    if pp.returncode != 0 and "null pointer passed as argument 2" in pp.stderr:
        ctx.finding("copy_data-empty-memcpy-null",
                    "array accessor on an empty array calls memcpy(mem, nullptr, 0) (UBSan nonnull, bindings/c/conv.h copy_data)",
                    {"input": "manifold_meshgl64_halfedge_tangent(mem, manifold_get_meshgl64(mem2, manifold_cube(mem3, 1, 2, 3, 0)))  (any *_length() == 0 array)",
                     "stderr_tail": pp.stderr[-2000:]})
    elif pp.returncode != 0:
        rp = core.write_replay(ctx.pid, "probe-crash", {"cmd": [exe, "probe-empty-copy"], "rc": pp.returncode, "stderr_tail": pp.stderr[-4000:]})
        raise core.Violation("probe-empty-copy crashed in an unexpected way", rp)
    cov["samples"] = [{"case": c["tag"], "verdict": c["prop"]} for c in cs[1:6]] + [{"case": c["tag"], "request": core.clip(c["req"], 160), "answer": c["exp"]} for c in cs if c["req"]][:1]
    cov["sample_mesh_hash_C/C++"] = stats.get("lasthash")
    return cov
