"""C16 - Hull is the convex hull; MinkowskiSum / MinkowskiDifference are dilation and erosion."""
import collections, os, re, sys, time
from concurrent.futures import ThreadPoolExecutor
from vlib import core, cases, libs

LEVEL = "proof"
PROPS = ["MV/Props/C16.lean", "MV/Props/C16b.lean"]
ASSUMPTIONS = [
    "Minkowski theorems (MV/Props/C16.lean, MV/Proof/Minkowski.lean) are set-level, in any real normed space: A + B = (c + A) u (frontier A + B) for closed A, convex B, c in B; "
    "A + B = (frontier A + B) u (A + frontier B) for closed A, B with B connected; the sweep of B over a triangulated surface = copies of B at the corners u sweep of B's surface; "
    "A \\ (frontier A + B) = {p | p - b in interior A for all b in B} for connected B containing 0.  dispatch_sum_covers / dispatch_diff_covers: for ALL values of the seven bits "
    "Minkowski() branches on, the point set the selected plan builds (planDen) is A + B, resp. the erosion.  Hypotheses (not proved, they tie flags to geometry): a solid is a closed set "
    "whose frontier is the union of its mesh triangles; IsConvex() = true means the solid is the convex hull of its vertices; the origin test being true means the origin is in the solid; "
    "a non-convex second operand is connected; both operands non-empty (the empty early exits are conventions, not instances); Hull and BatchBoolean return the hull / the union",
    "tie 1 (translator): tools/extract_minkowski.py re-extracts the swap condition, the early exits, the base entry and what each branch of Minkowski() constructs from src/minkowski.cpp "
    "on every run, evaluates the control flow for all 128 flag assignments and writes MV/Gen/Minkowski.lean; dispatch_matches_source (decide) compares it with the model row by row",
    "tie 2 (differential): for every generated operand pair the harness reads the seven bits from the real Impl, looks the plan up in the table printed by the MODEL (mvdriver `hull plan`), "
    "builds planDen from public Hull + BatchBoolean and compares the real MinkowskiSum/Difference with it by volume (1e-6 relative) and by winding-number classification of random points "
    "farther than the margin (1% of the smaller operand) from both surfaces",
    "property clauses on the real result (long double, points farther than 0.1*margin from the classified surface only): a+b inside the sum for interior a, b incl. b = 0; interior points of "
    "the sum no farther from A than max|vertex of B|; difference inside A; p-b inside A.  Independent two-sided reference using the library's own Boolean and MinGap (trusted here, properties "
    "C02/C18): x in A+B iff A meets x-B; p in the erosion iff p-B stays inside A",
    "Hull: QuickHull's control flow is NOT modelled.  The exact certificate checker MV.Hull.checkHull (Int arithmetic) is run on the real output for lattice clouds (coordinates integers in "
    "[-32,32] times 2^-k, so every plane distance is 0 or > 100x QuickHull's epsilon 1e-7*scale): hullCheck_sound = closed oriented 2-manifold, vertices are input points, no flat face, "
    "the intersection of the face half-spaces is convex and contains the convex hull of the input; affineRank_exact decides 'spans a volume' exactly.  Recorded gap (hullCheck_partial): that the "
    "solid bounded by such a mesh IS that intersection is not formalised; per run it is sampled (half-space test vs winding number on lattice points) and Genus() = 0 is required",
    "general floats / manifolds with irrational vertices: long-double oracle with the allowance 2e-7*scale (twice QuickHull's own epsilon, quickhull.cpp:30,238,817), vertices bit-identical to input points",
]

H = os.path.join(core.ROOT, "harness", "c16_hull.cpp")
TR = os.path.join(core.ROOT, "tools", "extract_minkowski.py")


def finding_key(c):
    msg = c["prop"].split(" ", 1)[-1]
    m = re.match(r"([a-z][a-z0-9+-]+):", msg)
    return m.group(1) if m else "oracle"


def build_harness():
    core.NPROC = min(core.NPROC, 8)
    libs.build("ser")
    flags = [f for f in libs.cxx_flags("ser") if f != "-O2"] + ["-O1", "-Wno-deprecated-declarations"]
    return core.compile_harness("c16_hull", [H], flags, libs=libs.link_flags("ser"))


def plan_table():
    """the MODEL's decision table, as printed by the compiled driver (128 rows)"""
    rows = []
    for i in range(128):
        rows.append([(i >> (6 - k)) & 1 for k in range(7)])
    ans = core.driver_run(["hull plan " + " ".join(map(str, r)) for r in rows])
    path = os.path.join(core.OUT, "c16_plans.txt")
    os.makedirs(core.OUT, exist_ok=True)
    with open(path, "w") as f:
        for r, a in zip(rows, ans):
            if not a.startswith("plan "):
                raise RuntimeError("mvdriver `hull plan` answered %r" % a)
            f.write("%s %s\n" % ("".join(map(str, r)), a[5:]))
    return path


def run_harness(ctx, exe, plans, nh, nm, only=None):
    env = {"VERIF_SEED": str(ctx.seed), "VERIF_TIER": ctx.tier, "C16_PLANS": plans}
    if only:
        env["C16_ONLY"] = only
    p = core.sh([exe, str(nh), str(nm)], env=env, timeout=3000)
    if p.returncode != 0:
        last = [l for l in p.stdout.split("\n") if l.startswith("CASE ")][-1:]
        rp = core.write_replay(ctx.pid, "harness-crash", {"cmd": [exe, nh, nm], "env": env, "rc": p.returncode, "last_case_finished": last, "stderr_tail": p.stderr[-3000:]})
        raise core.Violation("harness c16_hull crashed (rc=%d) after %s: a crash of the real Hull/Minkowski is a result" % (p.returncode, last), rp)
    cs, stats = core.parse_cases(p.stdout)
    for c in cs:
        c["replay_cmd"] = "VERIF_SEED=%d C16_PLANS=%s %s %d %d   # case %s" % (ctx.seed, plans, exe, nh, nm, c["tag"].split()[0])
    return cs, stats


def oracle_pass(ctx, cs):
    """property-oracle verdicts of the harness + exact verdicts of the Lean checkers on the real outputs.
    Known findings are printed and skipped; anything else is a violation with the concrete input."""
    kind_of = lambda c: c["tag"].split()[1] if len(c["tag"].split()) > 1 else "case"
    seen = collections.Counter()
    first = None
    for c in cs:
        if c["prop"].startswith("ok"):
            continue
        key = finding_key(c)
        seen[key] += 1
        known = [t for k, t in ctx.known if k == key]
        if known:
            if key not in ctx.known_hit:
                ctx.known_hit.append(key)
                print("KNOWN-FINDING: property=%s %s" % (ctx.pid, known[0]))
            c["prop"] = "ok (known finding %s)" % key
            continue
        if first is None:
            first = (key, c)
    if first:
        key, c = first
        ctx.finding(key, "property oracle failed on %s: %s" % (core.clip(c["tag"], 260), c["prop"]),
                    {"case": c["tag"], "oracle": c["prop"], "seed": ctx.seed, "tier": ctx.tier, "replay_cmd": c["replay_cmd"], "request": core.clip(c["req"], 4000)})
    # exact checkers: an answer `bad …` on a real output is a property failure with its input, not a mere mismatch
    reqs = [c for c in cs if c["req"]]
    ans = core.driver_run([c["req"] for c in reqs])
    for c, a in zip(reqs, ans):
        c["model"] = a
        if a.strip() == c["exp"].strip():
            continue
        k = kind_of(c)
        if k.startswith("hull-") and " | bad " in a:
            key = "hull-cert-" + a.split(" | bad ")[1].split()[0]
            ctx.finding(key, "the exact hull checker rejects the real Hull() output of %s: `%s`" % (core.clip(c["tag"], 200), a),
                        {"case": c["tag"], "checker": a, "expected": c["exp"], "seed": ctx.seed, "replay_cmd": c["replay_cmd"], "request": core.clip(c["req"], 20000)})
        if k.startswith("mesh-") and a.startswith("bad"):
            key = "mesh-" + a.split()[1]
            ctx.finding(key, "the result of %s is not a closed oriented 2-manifold: checker `%s`, library `%s`" % (core.clip(c["tag"], 200), a, c["exp"]),
                        {"case": c["tag"], "checker": a, "library": c["exp"], "seed": ctx.seed, "replay_cmd": c["replay_cmd"], "request": core.clip(c["req"], 20000)})
    return seen


def search_after_broken_gate(ctx, why):
    """DESIGN.md section 3: the proof gate or the translator broke.  Run the property oracles on the real code with the
    last driver that built (the model's table), and return a concrete failing input if there is one."""
    if not os.path.exists(core.DRIVER):
        return None
    try:
        exe = build_harness()
        plans = plan_table()
        cs, _ = run_harness(ctx, exe, plans, 30, 24)
    except (core.BuildBroken, core.Violation, RuntimeError, Exception):
        return None
    known = {k for k, _ in ctx.known}
    for c in cs:
        if not c["prop"].startswith("ok") and finding_key(c) not in known:
            return {"what": "%s: %s" % (c["tag"], c["prop"]), "case": c["tag"], "oracle": c["prop"], "seed": ctx.seed, "replay_cmd": c["replay_cmd"], "gate": why}
    return None


def run(ctx):
    t0 = time.time()
    core.NPROC = min(core.NPROC, 8)
    # ---- translator: branch structure of Minkowski() in the working tree -> MV/Gen/Minkowski.lean (fails loudly)
    tr = core.sh([sys.executable, TR, "--repo", core.REPO, "--out", core.LEAN])
    if tr.returncode != 0:
        why = "translator failed: %s" % (tr.stdout + tr.stderr).strip()[-600:]
        found = search_after_broken_gate(ctx, why)
        if found:
            rp = core.write_replay(ctx.pid, "violation-translator", found)
            raise core.Violation(why + "; the focused search found a failing input: " + found["what"], rp)
        rp = core.write_replay(ctx.pid, "translator", {"broken": "tools/extract_minkowski.py could not recognise the branch structure of Manifold::Impl::Minkowski", "output": (tr.stdout + tr.stderr)[-3000:]})
        raise core.Violation(why, rp, no_input=True)
    regenerated = [l.split()[1] for l in tr.stdout.split("\n") if l.startswith("changed ")]
    # ---- proof gate, harness build in parallel
    with ThreadPoolExecutor(max_workers=2) as ex:
        fh = ex.submit(build_harness)
        try:
            cov = core.proof_gate(ctx.pid, PROPS, ["MV.Props.C16", "MV.Props.C16b"] if ctx.tier == "thorough" else None)
        except core.Violation as v:
            try:
                fh.result()
            except Exception:
                pass
            if regenerated:
                v.msg += " [decision table regenerated from the working tree: the model MV.Minkowski.dispatch no longer matches src/minkowski.cpp]"
            found = search_after_broken_gate(ctx, v.msg)
            if found:
                rp = core.write_replay(ctx.pid, "violation-after-broken-gate", found)
                raise core.Violation(v.msg + "; the focused search found a failing input: " + found["what"], rp)
            raise
        exe = fh.result()
    cov["checker_cmd"] = ("tools/extract_minkowski.py && cd lean && lake build MV mvdriver && lake env lean <#print axioms for every theorem of MV/Props/C16.lean, MV/Props/C16b.lean>")
    cov["trusted_base"] = core.TRUSTED_BASE + [
        "tools/extract_minkowski.py (regex/brace-matching translator of Minkowski()'s branch structure; its output is what dispatch_matches_source is about)",
        "long-double oracles of harness/c16_hull.cpp (solid-angle winding number, point-triangle distance); `#define private public` access to Manifold::GetCsgLeafNode()",
        "the library's own Boolean (^, -) and MinGap as the independent membership reference for A+B and the erosion (properties C02, C18)",
    ]
    cov["table_regenerated"] = [os.path.relpath(r, core.ROOT) for r in regenerated]
    plans = plan_table()
    nh, nm = (84, 64) if ctx.tier == "quick" else (700, 400)
    cs, stats = run_harness(ctx, exe, plans, nh, nm)
    kind_of = lambda c: c["tag"].split()[1] if len(c["tag"].split()) > 1 else "case"
    seen = oracle_pass(ctx, cs)
    c2 = cases.correspond(ctx, cs, "exact hull certificate / mesh checker / decision table (engines hull, mesh) vs the real Hull, MinkowskiSum, MinkowskiDifference", kind_of=kind_of)
    cov.update(c2)
    cov["findings_seen"] = dict(seen)
    cov["harness_stats"] = stats
    cov["oracle_points_classified"] = sum(int(m.group(1)) for c in cs for m in [re.search(r"tested=(\d+)", c["tag"])] if m) + int(stats.get("hull_gap_points", 0))
    cov["inconclusive"] = {k: v for k, v in stats.items() if k.startswith("skipped") or k.startswith("mink_budget")}
    cov["exhaustive"] = False
    cov["exhaustive_parts"] = {"decision table": "all 2^7 = 128 flag assignments (dispatch_matches_source, decide +kernel; the table handed to the harness has 128 rows)"}
    cov["rule"] = ("Hull: 14 lattice families (dense lattice, random, coplanar, collinear, single, 0-4 points, clustered, cube surface with coplanar points on every face, slab of thickness 1, rounded sphere "
                   "+ interior, plane + 1 point, prism, octahedron + interior, tetrahedron + points on its faces) in [-32,32]^3, random duplicates, shuffled, optionally times 2^-k; Hull() of Compose of 1-4 lattice boxes/tetrahedra and "
                   "Hull(vector) of them; float families (random at scales 1e-3..1e3, on a sphere, clusters of width 1e-3, sphere+box manifold, several cylinders). "
                   "Minkowski: all eight (inset, A convex?, B convex?) classes in rotation; convex = box/low-poly sphere/tetrahedron/cylinder/hull of random points/thin slab, non-convex = L/U/notch/plus/frame(genus 1)/dent/tet-minus-tet; "
                   "random rotation (none, quarter turns, general), scales 0.2..4 (both size orders), B placed with the origin inside by a margin, A centred or anywhere in [-4,4]^3 (origin outside A); "
                   "plus seven fixed cases (the design-round pair L 0.2 + notched cube 4 in both orders, convex A away from the origin, three differences with known volume, empty A); "
                   "distinct = distinct request lines (hull certificates, result meshes, flag vectors)")
    pick = {}
    for c in cs:
        pick.setdefault(kind_of(c), c)
    cov["samples"] = [{"case": core.clip(c["tag"], 220), "request": core.clip(c["req"], 120), "answer": core.clip(c["exp"], 80)} for c in list(pick.values())[:10]]
    cov["harness_wall_s"] = round(time.time() - t0, 1)
    return cov
