"""C17 - constructors and transforms produce the solid their parameters define."""
import collections, os, re, sys, time
from vlib import core, cases, libs

LEVEL = "proof"
PROPS = ["MV/Props/C17.lean"]
ASSUMPTIONS = [
    "theorems (MV/Props/C17.lean) are about the index arithmetic of Extrude/Revolve (MV/Model/Extrude.lean, cap triangulation an arbitrary list with the C10 "
    "property net(top) = contours), the constant tables of impl.cpp / sdf.cpp regenerated into MV/Gen on every run, EncodeIndex/DecodeIndex, the sind/cosd "
    "quadrant logic at multiples of 90 degrees, GetCircularSegments, the constructors' guards, and affine algebra over a commutative ring",
    "tie: the model's triangle list is compared on every run with the real export as a triangle set after renaming the exported vertices by the bit pattern of "
    "their positions (positions computed by the harness with the documented formulas and the library's own sind/cosd/lerp, so a wrong position fails too); "
    "integer quarter-turn rotations, segment counts, guards and grid indices are compared value for value",
    "vertex positions, the faceting band, LevelSet root finding / snapping and float rounding of the transform matrices are NOT in the theorems: they are checked "
    "by long-double oracles (solid-angle winding number of the export against the defining inequality outside the band, volume = |det| V within 1e-9, "
    "signed volume positive, vertices on the sphere / within tolerance of the level set) on generated inputs only",
    "tet_table_consistent is the per-tetrahedron statement plus orientation uniformity of the six tetrahedra of BuildTris; that same-handed tetrahedra sharing a "
    "face induce opposite orientations on it (the tiling step) is standard and not formalised; every LevelSet result is put through the verified mesh checker",
]

# PROP failures that are the same defect reported on many argument combinations share one key
FINDING_KEYS = [
    (r"invalid-argument (Cube|Cylinder|Sphere) \S*x\S* accepted|invalid-argument Extrude polys=\d h=x|invalid-argument Revolve deg=x", "nan-argument-accepted"),
    (r"negative nDivisions|Extrude polys=\d h=\S nDiv=n", "extrude-negative-divisions"),
    (r"Revolve\(degrees=|invalid-argument Revolve deg=[nz]", "revolve-degenerate-angle"),
    (r"zero divisions", "revolve-zero-divisions"),
    (r"SetMinCircularAngle\(", "quality-tiny-angle"),
    (r"SetCircularSegments\(\d+\) then Sphere", "sphere-few-default-segments"),
]


def finding_key(kind, msg):
    for rx, key in FINDING_KEYS:
        if re.search(rx, msg):
            return key
    return (kind + "-" + re.sub(r"[-+]?\d[\d.e+-]*", "#", msg)).replace(" ", "_")[:90]


def build_harness():
    libs.build("ser")
    # -O1 for the harness itself (compile time); IEEE double arithmetic without FMA is the same at every -O level
    flags = [f for f in libs.cxx_flags("ser") if f != "-O2"] + ["-O1"]
    return core.compile_harness("c17_ctor", [os.path.join(core.ROOT, "harness", "c17_ctor.cpp")], flags, libs=libs.link_flags("ser"))


def parse_meshes(stdout):
    meshes = []
    for l in stdout.split("\n"):
        if l.startswith("MESH "):
            kind, body, genus = [x.strip() for x in l[5:].split("|")]
            meshes.append((kind, body, int(genus)))
    return meshes


def search_after_broken_gate(ctx, regenerated):
    """DESIGN.md section 3, search: a regenerated table no longer satisfies its theorem.  Run the property
    oracles on the constructors that consume the tables (primitives from Impl(Shape), LevelSet from the
    tetrahedra tables) with the last driver that built, and return a concrete failing input if there is one."""
    if not os.path.exists(core.DRIVER):
        return None
    try:
        exe = build_harness()
    except core.BuildBroken:
        return None
    p = core.sh([exe, "40"], env={"VERIF_SEED": str(ctx.seed), "VERIF_TIER": ctx.tier, "C17_ONLY": "primitives levelset transforms"}, timeout=1800)
    if p.returncode != 0:
        return {"kind": "crash", "what": "the constructors crash (rc=%d)" % p.returncode, "stderr_tail": p.stderr[-2000:], "seed": ctx.seed}
    cs, _ = core.parse_cases(p.stdout)
    for c in cs:
        if not c["prop"].startswith("ok"):
            return {"kind": "oracle", "what": "%s: %s" % (c["tag"], c["prop"]), "case": c["tag"], "seed": ctx.seed, "tables": regenerated}
    meshes = parse_meshes(p.stdout)
    try:
        ans = core.driver_run(["mesh check " + body for _, body, _ in meshes])
    except Exception:
        return None
    for (kind, body, genus), a in zip(meshes, ans):
        if not a.startswith("ok"):
            return {"kind": "mesh-" + kind, "what": "the exported mesh of a %s is not a closed oriented 2-manifold: `%s`" % (kind, a),
                    "mesh_check_request": "mesh check " + body, "checker": a, "seed": ctx.seed, "tables": regenerated}
    return None


def run(ctx):
    t0 = time.time()
    # ---- translator: constant tables of the working tree -> MV/Gen (fails loudly)
    tr = core.sh([sys.executable, os.path.join(core.ROOT, "tools", "extract_tables.py"), "--repo", core.REPO, "--out", core.LEAN])
    if tr.returncode != 0:
        rp = core.write_replay(ctx.pid, "translator", {"broken": "tools/extract_tables.py could not regenerate MV/Gen from the working tree", "output": (tr.stdout + tr.stderr)[-3000:]})
        raise core.Violation("translator failed: %s" % (tr.stdout + tr.stderr).strip()[-400:], rp, no_input=True)
    regenerated = [l.split()[1] for l in tr.stdout.split("\n") if l.startswith("changed ")]
    # ---- proof gate (lake build rebuilds whatever depends on a regenerated file)
    try:
        cov = core.proof_gate(ctx.pid, PROPS, ["MV.Props.C17"] if ctx.tier == "thorough" else None)
    except core.Violation as v:
        if regenerated:
            v.msg += " [tables regenerated from the working tree: %s]" % ", ".join(os.path.basename(r) for r in regenerated)
            found = search_after_broken_gate(ctx, regenerated)
            if found:
                rp = core.write_replay(ctx.pid, "violation-table-" + found["kind"], found)
                raise core.Violation(v.msg + "; the focused search found a failing input: " + found["what"], rp)
        raise
    cov["checker_cmd"] = "tools/extract_tables.py && cd lean && lake build MV mvdriver && lake env lean <#print axioms for every theorem of MV/Props/C17.lean>"
    cov["trusted_base"] = core.TRUSTED_BASE + ["tools/extract_tables.py (regex translator of the constant tables; its output is what the theorems are about)",
                                               "long-double oracles of harness/c17_ctor.cpp (winding number, point-in-polygon, volumes)"]
    cov["tables_regenerated"] = [os.path.relpath(r, core.ROOT) for r in regenerated]
    # ---- harness
    exe = build_harness()
    T = 120 if ctx.tier == "quick" else 1200
    env = {"VERIF_SEED": str(ctx.seed), "VERIF_TIER": ctx.tier}
    p = core.sh([exe, str(T)], env=env, timeout=3600)
    if p.returncode != 0:
        last = [l for l in p.stdout.split("\n") if l.startswith("CASE ")][-1:]
        rp = core.write_replay(ctx.pid, "harness-crash", {"cmd": [exe, str(T)], "env": env, "rc": p.returncode, "last_case_started": last, "stderr_tail": p.stderr[-3000:]})
        raise core.Violation("harness c17_ctor crashed (rc=%d) after %s: a crash of the real constructors is a result" % (p.returncode, last), rp)
    cs, stats = core.parse_cases(p.stdout)
    meshes = parse_meshes(p.stdout)
    kind_of = lambda c: c["tag"].split()[1] if len(c["tag"].split()) > 1 else "case"
    # ---- property oracle failures -> findings (known ones are reported and the run goes on)
    nfind = collections.Counter()
    for c in cs:
        if not c["prop"].startswith("ok"):
            msg = c["prop"].split(" ", 1)[-1]
            key = finding_key(kind_of(c), msg)
            nfind[key] += 1
            ctx.finding(key, "property oracle failed on %s: %s" % (c["tag"], msg), {"case": c["tag"], "request": c["req"], "implementation": c["exp"], "oracle": c["prop"], "seed": ctx.seed})
            c["prop"] = "ok (known finding %s)" % key

    def norm(a, c):
        return re.sub(r" \| mesh \S+", "", a)
    c2 = cases.correspond(ctx, cs, "constructor models (engine ctor) vs the real Extrude/Revolve exports, Rotate, Quality, guards, grid index", normalize=norm, kind_of=kind_of)
    cov.update(c2)
    # ---- every produced mesh through the verified checker
    ans = core.driver_run(["mesh check " + body for _, body, _ in meshes])
    mhist, bad = collections.Counter(), []
    for (kind, body, genus), a in zip(meshes, ans):
        mhist[kind] += 1
        nt = int(body.split()[1])
        want = "ok genus %d edges %d" % (genus, 3 * nt // 2)
        if not a.startswith(want + " verts "):
            bad.append((kind, body, genus, a))
    for kind, body, genus, a in bad:
        m = re.match(r"bad (\S+)", a)
        key = "mesh-%s-%s" % (kind, m.group(1) if m else "genus")
        nfind[key] += 1
        ctx.finding(key, "exported mesh of a %s case is not a closed oriented 2-manifold with the reported genus: checker says `%s`, Genus() = %d" % (kind, a, genus),
                    {"kind": kind, "mesh_check_request": "mesh check " + body, "checker": a, "library_genus": genus, "seed": ctx.seed})
    cov["meshes_checked"] = len(meshes)
    cov["mesh_kinds"] = dict(mhist)
    cov["findings_seen"] = dict(nfind)
    cov["oracle_points_classified"] = sum(int(m.group(1)) for c in cs for m in [re.search(r"tested=(\d+)", c["tag"])] if m)
    cov["exhaustive_parts"] = {"invalid_args_table": "all 4^3 class combinations for Cube and Cylinder, 4 for Sphere, 2x4x3 for Extrude, 5 polygon-side patterns x 4 angle classes for Revolve",
                         "tet tables": "all 16 sign patterns x 36 edge pairs; 6 tetrahedra x 6 edges (decide)"}
    cov["rule"] = ("Extrude: 1-3 star outers with 0-3 holes and random collinear points x nDivisions 0..3 x twist {0, random, multiples of 90} x scaleTop {cone, 1, uniform, non-uniform, negative}; "
                   "Revolve: off-axis, axis-crossing, two/one axis vertices, three consecutive axis vertices, axis vertex next to a clipped one x degrees {360, 270, 180, 90, 33.3, 400} x segments {default, 3..14}; "
                   "Cube/Tetrahedron/Sphere/Cylinder(frustum, cones, low apex) with random sizes and segment counts; LevelSet of union/intersection/difference of sphere and box SDFs at levels 0, +-0.07, with and without tolerance; "
                   "random affine maps with |det| in [0.1, 10] incl. reflections through Transform/Scale+Translate/Warp, Mirror over random planes, Rotate by random angles and by quarter turns of an integer solid; "
                   "Quality: random sequences of the three setters incl. ignored values; distinct = distinct request lines")
    pick = {}
    for c in cs:
        pick.setdefault(kind_of(c), c)
    cov["samples"] = [{"case": c["tag"], "request": core.clip(c["req"], 160), "answer": core.clip(c["exp"], 100)} for c in list(pick.values())[:8]]
    cov["harness_wall_s"] = round(time.time() - t0, 1)
    return cov
