"""C18 - measurements and queries agree with their brute-force definitions."""
import os, re, time
from concurrent.futures import ThreadPoolExecutor
from vlib import core, cases, libs

LEVEL = "proof"
PROPS = ["MV/Props/C18.lean"]
ASSUMPTIONS = [
    "theorems (MV/Props/C18.lean) are about MV/Model/Measure.lean: one Scalar-polymorphic transliteration of GetProperty (signed tetrahedra, triangle areas, Kahan loop), "
    "CalculateBBox (NaN-skipping min/max under ANY reduction bracketing incl. libstdc++'s 4-way std::reduce), Impl::MinGap over a candidate set with "
    "DistanceTriangleTriangleSquared/EdgeEdgeDist, RayCast and PointWinding on top of the C02 kernels (MV/Model/Bool3.lean), the Slice walk, the Decompose labelling on top of the "
    "DisjointSets model (MV/Model/Dsu.lean, C13c) and Genus; proved over a linearly ordered field (no rounding): rounding error is NOT in the theorems",
    "tie: the same definitions run at Float inside mvdriver on the INTERNAL arrays of the Impl the real query ran on (vertPos_, vertNormal_, faceNormal_, halfedge_ as bit patterns) and every "
    "output of the real Volume/SurfaceArea/BoundingBox/NumVert/NumEdge/NumTri/Genus/WindingNumber/RayCast/Slice/Impl::MinGap/DistanceTriangleTriangleSquared/Decompose is compared bit for bit; "
    "the model takes EVERY triangle (pair) as candidate, so equality also shows the collider lost no candidate (theorem mingap_candidates_complete + C14 say why it cannot)",
    "std::sort of RayCast and the unordered_set iteration of Slice leave the order of equal keys / the start triangle unspecified: ray hits with equal distance are compared after ordering by "
    "triangle, Slice loops after rotating each loop to its least rotation and sorting the loops (the sortedness of the real RayCast output is checked by the oracle)",
    "that the kernels Kernel12/Kernel02 report exactly the geometric crossings (RayCast = all crossings, WindingNumber = true winding, Slice = section, Project = shadow) is NOT proved; "
    "it is checked by independent long-double oracles (Moeller-Trumbore on all triangles, solid-angle winding, 2-D winding, union of projected triangles, all-pairs segment/point-triangle distance) "
    "only at arguments >= 10 x tolerance and >= 1e-6 x scale away from every surface/edge/vertex height; Volume/SurfaceArea/BoundingBox/counts/Decompose volumes are compared with the EXPORTED mesh",
    "DistanceTriangleTriangleSquared is oracle-checked only in general position: pairs that meet are classified only when an edge of one properly crosses the other (>= 1e-6 clearance); "
    "grazing contact (a vertex/edge exactly in the other triangle's plane) is an exact tie of the routine's separating-slab tests where rounding decides (observed: it can report touching lattice "
    "triangles as 0.447 apart; not reproducible through MinGap on 2e5 touching lattice solids) - those pairs are still compared bit for bit with the model",
    "decompose_is_partition assumes the single thread's unite program ran to completion within the model's fuel (the driver reports `fuel` otherwise; never observed); "
    "Project() has no model (oracle only); serial build only (the parallel reduce of CalculateBBox is covered by bbox_tight for every bracketing, MinGap's combinable min by commutativity of min)",
]

HARNESS = os.path.join(core.ROOT, "harness", "c18_measure.cpp")


def build_harness():
    libs.build("ser")
    flags = [f for f in libs.cxx_flags("ser") if f != "-O2"] + ["-O1"]
    return core.compile_harness("c18_measure", [HARNESS], flags, libs=libs.link_flags("ser"))


def canon_slice(part):
    """`ok n (len (x y)*)*`: rotate every loop to its lexicographically least rotation, sort the loops."""
    t = part.split()
    if len(t) < 2 or t[0] not in ("ok", "BAD"):
        return part
    try:
        n, i, loops = int(t[1]), 2, []
        for _ in range(n):
            k = int(t[i]); pts = [(t[i + 1 + 2 * j], t[i + 2 + 2 * j]) for j in range(k)]; i += 1 + 2 * k
            loops.append(min(pts[s:] + pts[:s] for s in range(max(k, 1))) if k else [])
        if i != len(t):
            return part
    except (ValueError, IndexError):
        return part
    loops.sort()
    return " ".join([t[0], str(n)] + [" ".join([str(len(l))] + [x + " " + y for x, y in l]) for l in loops])


def canon(answer, req):
    """canonical form of a `measure M … Q …` answer: Slice parts are order-normalised."""
    if " Q " not in req or "slice" not in req:
        return " ".join(answer.split())
    return " | ".join(canon_slice(p) if p.strip().startswith(("ok ", "BAD ")) else " ".join(p.split()) for p in answer.split(" | "))


def finding_key(c):
    kind = c["tag"].split()[1]
    msg = c["prop"].split(" ", 1)[-1]
    return (kind + "-" + re.sub(r"[-+]?\d[\d.e+-]*", "#", msg)).replace(" ", "_")[:90]


def search(exe):
    def go(ctx, c):
        """DESIGN.md section 3, search: the model and the implementation disagree.  Run the property oracles on a
        focused burst (more rounds, neighbouring seeds) and return a concrete failing input if there is one."""
        for s in (ctx.seed, ctx.seed + 1000, ctx.seed + 2000):
            p = core.sh([exe, "40"], env={"VERIF_SEED": str(s), "VERIF_TIER": ctx.tier}, timeout=1500)
            if p.returncode != 0:
                return {"kind": "crash", "what": "harness crashed rc=%d" % p.returncode, "seed": s, "stderr_tail": p.stderr[-2000:]}
            for k in core.parse_cases(p.stdout)[0]:
                if not k["prop"].startswith("ok"):
                    return {"kind": "oracle", "what": "%s: %s" % (k["tag"], k["prop"]), "case": k["tag"], "request": k["req"], "implementation": k["exp"], "seed": s,
                            "after": "model != implementation on " + c["tag"]}
        return None
    return go


def run(ctx):
    t0 = time.time()
    with ThreadPoolExecutor(max_workers=1) as ex:
        fh = ex.submit(build_harness)
        cov = core.proof_gate(ctx.pid, PROPS, ["MV.Props.C18"] if ctx.tier == "thorough" else None)
        exe = fh.result()
    cov["checker_cmd"] = "cd lean && lake build MV mvdriver && lake env lean <#print axioms for every theorem of MV/Props/C18.lean>"
    cov["trusted_base"] = core.TRUSTED_BASE + ["long-double oracles of harness/c18_measure.cpp (solid-angle winding, Moeller-Trumbore, segment/point-triangle distances, 2-D winding)"]
    N = 150 if ctx.tier == "quick" else 6000
    cs, stats = cases.run_case_harness(ctx, exe, [N])
    for c in cs:
        if c["req"]:
            c["exp"] = canon(c["exp"], c["req"])
    # property-oracle failures are findings (known ones are reported and the run goes on)
    for c in cs:
        if not c["prop"].startswith("ok"):
            key = finding_key(c)
            ctx.finding(key, "property oracle failed on %s: %s" % (c["tag"], c["prop"]),
                        {"case": c["tag"], "request": c["req"], "implementation": c["exp"], "oracle": c["prop"], "seed": ctx.seed})
            c["prop"] = "ok (known finding %s)" % key
    c2 = cases.correspond(ctx, cs, "Measure model at Float (engine measure) vs the real Volume/SurfaceArea/BoundingBox/counts/WindingNumber/RayCast/Slice/MinGap/tri-tri distance/Decompose",
                          search=search(exe), normalize=lambda a, c: canon(a, c["req"]))
    cov.update(c2)
    cov["harness_stats"] = {k: int(v) for k, v in stats.items()}
    cov["exhaustive"] = False
    cov["rule"] = ("solids: random API programs of harness/progs.h (primitives, user meshes, rotations/mirrors/scales/translations, Booleans x3, Split, SplitByPlane, BatchBoolean, Compose, Refine, AsOriginal), "
                   "revolved tori (genus 1), shells with a cavity, tori cut by a slab (several components / genus change), Compose of three far-apart parts; up to 420 (thorough 900) triangles; "
                   "per solid: Volume/SurfaceArea/BoundingBox/counts, 32 winding points (box interior, inflated box, above/below vertices and edge midpoints), 6 rays (inside-inside, outside-inside, outside-outside, "
                   "one axis-parallel), 2 slices (random height, sometimes exactly a vertex height), 30 sample points each for Slice and Project; Decompose on every other solid; "
                   "MinGap on pairs near / far (clamp) / touching faces / intersecting / inside a cavity / nested / mirrored / searchLength 0; "
                   "DistanceTriangleTriangleSquared on random, lattice, parallel, coplanar, shared-vertex, piercing, degenerate and vertex-over-face pairs; "
                   "degenerate arguments: empty manifold, zero-length ray, ray along a box edge / ending on a vertex, points outside the box, slices outside and at the faces of the box; "
                   "distinct = distinct request lines")
    pick = {}
    for c in cs:
        pick.setdefault(c["tag"].split()[1], c)
    cov["samples"] = [{"case": c["tag"], "request": core.clip(c["req"], 160), "answer": core.clip(c["exp"], 120)} for c in pick.values()]
    cov["harness_wall_s"] = round(time.time() - t0, 1)
    return cov
