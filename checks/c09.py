"""C09 - malformed input gives an error Status, never undefined behaviour."""
import collections, os, re, time
from vlib import core, cases, libs

LEVEL = "proof"
PROPS = ["MV/Props/C09.lean", "MV/Props/C09b.lean"]
ASSUMPTIONS = [
    "theorems (MV/Props/C09.lean) are about MV/Model/Ingest.lean: the validation ladder and loops of Manifold::Impl::Impl(const MeshGLP&) (src/impl.h) from entry to the call of "
    "CreateHalfedges, MeshGLP::NumVert/NumTri, the index discipline of MeshGL::Merge() (src/sort.cpp), the channel / LevelSet argument guards and the status algebra of deriving "
    "operations; in the model EVERY array access and division of that code is a checked primitive and ingest_total_safe / merge_total_safe say that for ALL inputs none fails",
    "the model mirrors the tree WITH the C09 repairs (Guards.fixed); Guards.pinned is the tree before them, for which MV/Props/C09.lean proves concrete counter-examples (pinned_*)",
    "tie: the same MeshShape is given to the Lean model and to the real constructor / Merge() under ASan+UBSan (no recovery) and the Status codes are compared on every case; the "
    "CreateHalfedges + IsManifold step of the prediction reuses the C01 model (MV/Model/Halfedge.lean)",
    "C09b (MV/Props/C09b.lean): for EVERY triangle list with an even number of triangles (what ingest_ok_inv guarantees, and more than is needed: neither the index bound nor "
    "non-degeneracy is used) the checked transliteration of CreateHalfedges (sorted-key path, serial loop) and of CheckHalfedges/IsManifold (MV/Model/HalfedgeGate.lean) returns without "
    "a fault and within the fuel of its loops, ids stays a permutation (every halfedge_ slot written once), IsManifold() == true <=> PairInv, and a passing structure keeps the input's "
    "directed edges on its kept halfedges (gate_sound); completeness is proved for closed 2-manifolds only (gate_complete_partial); the composition ingest -> gate is "
    "ingest_then_halfedges_safe.  NOT modelled: the bucketed path (vertCount >= 2^18) and the MANIFOLD_PAR ranges of the removal loop; IsManifold() has no duplicate-edge test "
    "(that is Is2Manifold(), not called by the constructor), so NoError does not give NoDupEdge at the gate: CleanupTopology() is what removes duplicate edges afterwards",
    "C09b tie: harness/c09b_soup.cpp runs the REAL Impl::CreateHalfedges + Impl::IsManifold under ASan+UBSan on 12 families of ladder-accepted non-manifold soups and compares the three "
    "arrays and the verdict with the model exactly; the real constructor on the same soup must report NoError iff that verdict is true (NotManifold otherwise) and every NoError export "
    "goes through the verified mesh checker",
    "NOT under a theorem, explored by the sanitizer run only: everything after IsManifold() in the constructor, the bodies of the deriving "
    "operations behind their argument guards, the OBJ parser, polygon / point-set constructors; sizes >= 2^29 (32-bit overflow of counts) are outside model and run",
    "status_sticky is about the status algebra (operand order, PropagateStatus at the top of each deriving method); that each C++ method implements its algebra line is checked by running "
    "generated programs over errored leaves, not proved",
    "time-outs and out-of-memory on absurd sizes (e.g. 2^31 property channels) are skipped by the generators, never reported",
]

SECTIONS_QUICK = [("ingest", 8000), ("merge", 5000), ("prog", 1200), ("args", 1), ("text", 4000)]
SECTIONS_THOROUGH = [("ingest", 60000), ("merge", 30000), ("prog", 8000), ("args", 1), ("text", 40000)]


def build_harness():
    libs.build("san")
    # the harness itself at -O0 (compile time); the library under test keeps the variant's flags
    flags = [f for f in libs.cxx_flags("san") if f not in ("-O1", "-O2")] + ["-O0", "-Wno-deprecated-declarations"]
    return core.compile_harness("c09_ingest", [os.path.join(core.ROOT, "harness", "c09_ingest.cpp")], flags, libs=libs.link_flags("san"))


def run_section(ctx, exe, section, budget):
    env = {"VERIF_SEED": str(ctx.seed), "VERIF_TIER": ctx.tier, "UBSAN_OPTIONS": "print_stacktrace=1", "ASAN_OPTIONS": "detect_leaks=0"}
    try:
        p = core.sh([exe, section, str(budget)], env=env, timeout=2400)
    except Exception as e:  # timeout: inconclusive for absurd sizes only; the generators avoid those, so a hang is a result
        rp = core.write_replay(ctx.pid, "harness-timeout-" + section, {"cmd": [exe, section, str(budget)], "env": env, "error": str(e)[-2000:]})
        raise core.Violation("harness c09_ingest section %s did not finish (a hang of the real code is a result)" % section, rp)
    if p.returncode != 0:
        lines = p.stdout.split("\n")
        last = [i for i, l in enumerate(lines) if l.startswith("CASE ")]
        tag = lines[last[-1]][5:] if last else ""
        req = lines[last[-1] + 1][4:] if last and last[-1] + 1 < len(lines) and lines[last[-1] + 1].startswith("REQ ") else ""
        frames = [l.strip() for l in p.stderr.split("\n") if re.search(r"ERROR|runtime error|#\d+ .*/src/|what\(\)", l)][:12]
        key = "crash-" + re.sub(r"[^A-Za-z0-9_.()=-]+", "_", " ".join(tag.split()[1:4]))[:70]
        ctx.finding(key, "the real code crashed (rc=%d) on %s: %s" % (p.returncode, core.clip(tag, 300), "; ".join(frames[:3])),
                    {"what": "sanitizer abort / crash / uncaught exception inside the library: undefined behaviour or a throw on malformed input",
                     "case": tag, "input_as_model_request": req, "replay_cmd": "VERIF_SEED=%d %s %s %d" % (ctx.seed, exe, section, budget),
                     "rc": p.returncode, "report": frames, "stderr_tail": p.stderr[-3000:]})
        # a listed known finding: nothing after the crash was explored in this section
        return core.parse_cases("\n".join(lines[:last[-1]] if last else [])) + ([],)
    cs, stats = core.parse_cases(p.stdout)
    meshes = []
    for l in p.stdout.split("\n"):
        if l.startswith("MESH "):
            kind, body, genus = [x.strip() for x in l[5:].split("|")]
            meshes.append((kind, body, int(genus)))
    return cs, stats, meshes


def build_soup_harness():
    flags = [f for f in libs.cxx_flags("san") if f not in ("-O1", "-O2")] + ["-O0", "-Wno-deprecated-declarations"]
    return core.compile_harness("c09b_soup", [os.path.join(core.ROOT, "harness", "c09b_soup.cpp")], flags, libs=libs.link_flags("san"))


def soup_family(ctx, exe):
    """C09b: CreateHalfedges + IsManifold + the constructor on ladder-accepted, mostly non-manifold soups."""
    n = 2400 if ctx.tier == "quick" else 48000
    env = {"VERIF_SEED": str(ctx.seed), "VERIF_TIER": ctx.tier, "UBSAN_OPTIONS": "print_stacktrace=1", "ASAN_OPTIONS": "detect_leaks=0"}
    try:
        p = core.sh([exe, str(n)], env=env, timeout=2400)
    except Exception as e:
        rp = core.write_replay(ctx.pid, "soup-timeout", {"cmd": [exe, str(n)], "env": env, "error": str(e)[-2000:]})
        raise core.Violation("harness c09b_soup did not finish: a loop of CreateHalfedges / the constructor does not terminate on a ladder-accepted soup", rp)
    cs, stats = core.parse_cases(p.stdout)
    if p.returncode != 0:
        if cs and not cs[-1]["exp"] and cs[-1]["req"]:
            cs.pop()
        lines = p.stdout.split("\n")
        last = [l for l in lines if l.startswith("REQ mesh soup")]
        frames = [l.strip() for l in p.stderr.split("\n") if re.search(r"ERROR|runtime error|#\d+ .*/src/|what\(\)", l)][:12]
        rp = core.write_replay(ctx.pid, "soup-crash", {"what": "sanitizer abort / crash of the real code on a triangle soup the validation ladder accepts",
                                                       "last_soup_before_the_crash (nV nT indices)": last[-1][14:] if last else None, "the crashing soup is the next one of": "VERIF_SEED=%d %s %d" % (ctx.seed, exe, n),
                                                       "rc": p.returncode, "report": frames, "stderr_tail": p.stderr[-3000:]})
        raise core.Violation("c09b_soup: the real CreateHalfedges / IsManifold / constructor crashed under ASan+UBSan (rc=%d) on a ladder-accepted soup: %s" % (p.returncode, "; ".join(frames[:2])), rp)

    def search(ctx, c):
        # model != implementation on the arrays / verdict: is there a soup on which the real gate lets a broken structure through?
        bad = [x for x in cs if not x["prop"].startswith("ok")]
        if bad:
            return {"what": bad[0]["prop"], "case": bad[0]["tag"], "soup": bad[0]["req"], "seed": ctx.seed}
        return None
    cov = cases.correspond(ctx, cs, "Impl::CreateHalfedges + Impl::IsManifold on ladder-accepted soups vs MV.Halfedge.createHalfedges/isManifold (arrays + verdict); constructor Status; NoError exports through the verified checker",
                           search=search)
    cov["stats"] = stats
    return cov


def normalize(a, c):
    req = c["req"]
    if req.startswith("ingest ctor"):
        return re.sub(r" kept \d+", "", a)
    if req.startswith("ingest merge"):
        if a == "rejected":
            return "ret 0 unchanged 1"
        if a == "run":  # the body ran: either it merged something (true) or found the mesh closed (false, untouched)
            return c["exp"] if c["exp"] in ("ret 1 unchanged 0", "ret 1 unchanged 1", "ret 0 unchanged 1") else "run, but the implementation says: " + c["exp"]
        return a
    if req.startswith("ingest prog"):
        return c["exp"] if c["exp"] in a.split() else "one of: " + a
    return a


def search_without_model(ctx):
    """Proof gate broken: look for a concrete failing input of the PROPERTY on the real code (crash or oracle)."""
    try:
        exe = build_harness()
    except core.BuildBroken:
        return None
    for section, budget in SECTIONS_QUICK:
        try:
            cs, _, _ = run_section(ctx, exe, section, budget)
        except core.Violation as v:
            return {"what": v.msg, "replay": v.replay}
        for c in cs:
            if not c["prop"].startswith("ok"):
                return {"what": "%s: %s" % (c["tag"], c["prop"]), "case": c["tag"], "request": c["req"], "seed": ctx.seed}
    return None


def run(ctx):
    t0 = time.time()
    try:
        cov = core.proof_gate(ctx.pid, PROPS, ["MV.Props.C09", "MV.Props.C09b"] if ctx.tier == "thorough" else None)
    except core.Violation as v:
        found = search_without_model(ctx)
        if found:
            rp = core.write_replay(ctx.pid, "violation-after-broken-proof", found)
            raise core.Violation(v.msg + "; the focused search found a failing input: " + found["what"], rp)
        raise
    cov["checker_cmd"] = "cd lean && lake build MV mvdriver && lake env lean <#print axioms for every theorem of MV/Props/C09.lean>; build/h/c09_ingest <section> <n> under ASan+UBSan | mvdriver (engine ingest)"
    cov["trusted_base"] = core.TRUSTED_BASE + ["AddressSanitizer / UndefinedBehaviorSanitizer of g++ 12 (what they do not instrument - e.g. reads inside a std::vector's spare capacity, "
                                               "float-to-int conversions - is invisible to the run; the model's checked primitives cover those for the modelled code)"]
    libs.build("san")
    import concurrent.futures
    with concurrent.futures.ThreadPoolExecutor(2) as pool:   # the two harnesses compile side by side
        f_soup = pool.submit(build_soup_harness)
        exe = build_harness()
        exe_soup = f_soup.result()
    all_cases, meshes, stats = [], [], {}
    sect_wall = {}
    for section, budget in (SECTIONS_QUICK if ctx.tier == "quick" else SECTIONS_THOROUGH):
        t1 = time.time()
        cs, st, ms = run_section(ctx, exe, section, budget)
        sect_wall[section] = round(time.time() - t1, 1)
        all_cases += cs
        meshes += ms
        stats.update(st)
    kind_of = lambda c: c["tag"].split()[1] if len(c["tag"].split()) > 1 else "case"
    cov.update(cases.correspond(ctx, all_cases, "ingest model (engine ingest: ladder, Merge guard, status algebra, channel and LevelSet guards) vs the real library under ASan+UBSan",
                                normalize=normalize, kind_of=kind_of))
    # C09b: the import gate on arbitrary soups
    t1 = time.time()
    soup = soup_family(ctx, exe_soup)
    sect_wall["soup"] = round(time.time() - t1, 1)
    cov["evaluations"] += soup["evaluations"]
    cov["distinct_nontrivial"] += soup["distinct_nontrivial"]
    cov["model_vs_impl_compared"] += soup["model_vs_impl_compared"]
    cov["kinds"].update(soup["kinds"])
    cov["soup_family"] = soup
    # every exported NoError result through the verified mesh checker
    ans = core.driver_run(["mesh checkmerge " + body for _, body, _ in meshes])
    for (kind, body, genus), a in zip(meshes, ans):
        if not a.startswith("ok"):
            ctx.finding("mesh-%s-%s" % (kind, (a.split() + ["?", "?"])[1]), "a NoError result of a %s case is not a closed oriented 2-manifold: checker says `%s`" % (kind, a),
                        {"kind": kind, "mesh_check_request": "mesh checkmerge " + body, "checker": a, "seed": ctx.seed})
    cov["meshes_checked"] = len(meshes)
    # how many of the explored inputs the model of the tree BEFORE the repairs flags as unsafe (the generator reaches them)
    ing = [c["req"] for c in all_cases if c["req"].startswith("ingest ctor fixed") or c["req"].startswith("ingest merge fixed")]
    pin = core.driver_run([r.replace(" fixed ", " pinned ", 1) for r in ing])
    cov["inputs_unsafe_on_pinned_model"] = dict(collections.Counter(" ".join(a.split()[:3]) for a in pin if a.startswith("fault")))
    model_status = collections.Counter(c.get("model", "").split(" kept")[0] for c in all_cases if c["req"].startswith("ingest ctor"))
    cov["status_histogram"] = dict(model_status)
    cov["harness_stats"] = stats
    cov["section_wall_s"] = sect_wall
    cov["exhaustive"] = {"mutation classes": "each of the 40 single-field mutation classes x 7 base meshes x both precisions x %d draws" % (3 if ctx.tier == "quick" else 12),
                         "argument sweep": "16 double values x every double parameter, 15 int values x every int parameter of the public Manifold / CrossSection / Quality / Triangulate API",
                         "pinned counter-examples": "7 theorems pinned_* closed by decide"}
    cov["rule"] = ("ingest/merge: 7 valid bases (tetrahedron; cube with normals + merge vectors; 2-run Boolean with transforms and faceIDs; smoothed tetrahedron and cube with tangents; 3-run Compose with "
                   "properties; octahedron) in MeshGL and MeshGL64, mutated by 1-3 of 40 structure-aware classes (lengths +-1/+-k/0, index boundary values incl. 2^31, 2^32-1, 2^32+k, flips, "
                   "degenerate / duplicate / dropped triangles, run-table shapes, NaN/inf/1e300 floats, random soups); soup (C09b): 12 families of ladder-accepted soups on 4-44 vertices (closed pieces "
                   "with opposed pairs, one / many triangles flipped, 3-6 triangles around an edge, all-ascending triangles, same- and opposite-orientation duplicates incl. several copies, two "
                   "tetrahedra sharing a vertex / edge / face, coned Moebius strips, random even soups, closed pieces with two triangles dropped), each run through CreateHalfedges+IsManifold and the constructor; prog: random terms of depth <= 4 over 14 leaf kinds (9 error codes, "
                   "SetProperties(-5), NaN transform, valid, empty) and 30 ops; args: see exhaustive; text: OBJ text edits (insert/delete/byte/truncate/line/copy), random polygon sets with "
                   "empty / 1-2 point / non-finite contours, random point sets with collinear / coplanar / identical / non-finite points; distinct = distinct request lines")
    pick = {}
    for c in all_cases:
        pick.setdefault(kind_of(c), c)
    cov["samples"] = [{"case": core.clip(c["tag"], 140), "request": core.clip(c["req"], 160), "answer": core.clip(c["exp"], 60)} for c in list(pick.values())[:10]]
    cov["harness_wall_s"] = round(time.time() - t0, 1)
    return cov
