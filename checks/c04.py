"""C04 - results are bit-identical across schedules, thread counts and backends."""
import os, re, collections
from vlib import core, libs

LEVEL = "proof"
PROPS = ["MV/Props/C04.lean"]
ASSUMPTIONS = [
    "proved (all inputs, all schedules): every normaliser the library relies on erases the schedule - stable sort with an injective key is canonical under permutation (Kernel12Recorder/EdgePos/AddNewEdgeVerts), "
    "FlagStore::run_par = ascending filter, integer atomic counters are order-free, reduction trees of an associative operation with identity agree, BatchBoolean's (size, serial) heap order is a function of the key multiset; "
    "plus every C13 primitive = its sequential spec for every schedule",
    "PARTIAL: that every schedule-dependent intermediate of the library is followed by one of these normalisers is not proved; it is decided per run by executing whole programs (meshes above the 1e4/1e5 thresholds) "
    "in the serial build, under virtual TBB with many adversarial schedules (random and maximal splitting, random chunk order, worker ids, task order) and under real TBB at 1..16 threads, and requiring equal hashes of every exported field",
    "translator tie: every AtomicAdd / fetch_add / compare_exchange / tbb::combinable / concurrent_map / tbb::task_group site of src/ is regenerated into MV/Gen/Atomics.lean on every run and must be in the reviewed table "
    "MV/Model/DetermSites.lean with its class's side condition (integral counters/cursors; floating accumulations and cursors without a normaliser only in ExecutionPolicy::Seq loops): all_sites_classified, reviewed_sites_live by kernel decide",
    "virtual TBB explores ordering nondeterminism only (one OS thread); real hardware interleavings are sampled",
]


def hashes(exe, prog, seed, mode, threads, timeout=3600):
    p = core.sh([exe, str(prog), str(seed), str(mode), str(threads)], timeout=timeout)
    if p.returncode != 0:
        return None, p.stderr[-2000:]
    return re.findall(r"^HASH (\d+) (\S+) ([0-9a-f]+) size=(\d+)", p.stdout, re.M), ""


GEN = os.path.join(core.LEAN, "MV", "Gen", "Atomics.lean")


def run(ctx):
    # translator: inventory of every schedule-sensitive site of the current tree -> MV/Gen/Atomics.lean,
    # re-proved against the reviewed classification (all_sites_classified, reviewed_sites_live)
    import sys
    p = core.sh([sys.executable, os.path.join(core.ROOT, "tools", "extract_atomics.py"), core.REPO, GEN])
    if p.returncode != 0:
        rp = core.write_replay(ctx.pid, "translator", {"broken": "tools/extract_atomics.py could not read the schedule-sensitive sites of src/", "stderr": p.stderr[-2000:]})
        raise core.Violation("translator failed: " + p.stderr.strip()[-300:], rp, no_input=True)
    inventory = p.stdout.strip()
    broken = None
    try:
        cov = core.proof_gate(ctx.pid, PROPS, ["MV.Props.C04"] if ctx.tier == "thorough" else None)
    except core.Violation as v:
        # a proof obligation no longer checks (typically: a new / re-parallelised atomic site). Search for a
        # concrete (program, schedule) pair with differing exports before reporting it without one.
        broken = v
        cov = {"obligations": 1, "discharged": 0, "explanation": v.msg}
    cov["translator"] = "tools/extract_atomics.py -> lean/MV/Gen/Atomics.lean : " + inventory
    cov["checker_cmd"] = "python3 tools/extract_atomics.py && cd lean && lake build MV mvdriver && lake env lean <#print axioms for every theorem of MV/Props/C04.lean>"
    cov["trusted_base"] = core.TRUSTED_BASE + ["tools/extract_atomics.py (regex inventory of AtomicAdd/fetch_add/compare_exchange/combinable/concurrent_map/task_group sites, their scopes, element types and loop policies)", "the reviewed classification MV/Model/DetermSites.lean (which normaliser follows which site is asserted there, not derived)", "virtual TBB shim (harness/vtbb)", "oneTBB 2021.8 runtime for the sampled real schedules"]
    src = [os.path.join(core.ROOT, "harness", "c04_determ.cpp")]
    exes = {}
    libs.build_consistent(("ser", "vtbb", "par"))
    for v in ("ser", "vtbb", "par"):
        exes[v] = core.compile_harness("c04_" + v, src, libs.cxx_flags(v) + (["-I" + libs.VT] if v == "vtbb" else []), out_name="c04_" + v, libs=libs.link_flags(v))
    progs = list(range(0, 9)) + ([9, 10] if ctx.tier == "quick" else list(range(9, 30)))
    nsched = 3 if ctx.tier == "quick" else 10
    threads = [1, 3, 16] if ctx.tier == "quick" else [1, 2, 3, 8, 16, 16, 16]
    evals = 0; objs = 0; sizes = []; samples = []
    for pr in progs:
        ref, err = hashes(exes["ser"], pr, 0, 0, 0)
        if ref is None:
            rp = core.write_replay(ctx.pid, "crash-ser-%d" % pr, {"program": pr, "stderr": err})
            raise core.Violation("serial run of program %d crashed" % pr, rp)
        objs += len(ref); sizes += [int(x[3]) for x in ref]
        runs = [("vtbb", ctx.seed * 100 + k, (0, 2, 0)[k % 3], 0) for k in range(nsched)] + [("par", 0, 0, t) for t in threads]
        for (v, s, mode, t) in runs:
            got, err = hashes(exes[v], pr, s, mode, t)
            evals += 1
            if got is None:
                rp = core.write_replay(ctx.pid, "crash-%s-%d" % (v, pr), {"program": pr, "variant": v, "schedule_seed": s, "mode": mode, "threads": t, "stderr": err})
                raise core.Violation("program %d crashed in variant %s" % (pr, v), rp)
            if got != ref:
                diff = [(a, b) for a, b in zip(ref, got) if a != b][:5]
                what = diff[0][0][1] if diff else "count"
                ctx.finding("prog%d-%s" % (pr, what), "export of program %d (%s) differs between the serial build and %s (schedule seed %s, mode %s, threads %s)" % (pr, what, v, s, mode, t),
                            {"program": pr, "object": what, "variant": v, "schedule_seed": s, "mode": mode, "threads": t, "serial": ref, "other": got,
                             "replay_cmd": "build/h/c04_%s %d %s %s %s  vs  build/h/c04_ser %d" % (v, pr, s, mode, t, pr)})
        if len(samples) < 4:
            samples.append({"program": pr, "objects": [(x[1], x[2], int(x[3])) for x in ref[:4]]})
    if broken is not None:
        broken.coverage = dict(cov, evaluations=evals, distinct_nontrivial=len(progs) * (nsched + len(threads)), trusted_base=core.TRUSTED_BASE,
                               checker_cmd="lake build", search="no differing export found over %d (program, schedule) runs" % evals)
        raise broken
    cov.update({"evaluations": evals, "distinct_nontrivial": len(progs) * (nsched + len(threads)), "programs": len(progs), "objects_hashed_per_run": objs,
                "schedules_per_program": nsched, "real_tbb_thread_counts": threads, "max_triangles": max(sizes) if sizes else 0,
                "rule": "9 fixed programs above the parallel thresholds (Booleans of 73k-triangle spheres, normals/curvature/properties, Refine+Warp+Simplify, 60-way BatchBoolean+Decompose, smoothing+hull+import, LevelSet, CrossSection Booleans/offset with >1024 edges, 40k-vertex triangulation, CSG+Minkowski) "
                        "plus seeded API programs; each compared: serial vs virtual-TBB schedules (random / max-split modes) vs real TBB thread counts; non-trivial = a (program, schedule) pair that ran parallel code paths",
                "samples": samples})
    return cov
