"""C01 - every returned Manifold is a closed oriented 2-manifold or an empty error."""
import os, re, collections
from vlib import core, cases, libs, shrink

LEVEL = "proof"
PROPS = ["MV/Props/C01a.lean", "MV/Props/C01b.lean"]
ASSUMPTIONS = [
    "proved (all meshes): checkMesh = ok <=> Closed2Manifold (sound and complete oracle), invariance of Closed2Manifold under triangle permutation/rotation, injective vertex relabelling and compaction, Euler arithmetic; "
    "CreateHalfedges yields PairInv/NoDupEdge for every closed 2-manifold input and removes exactly opposed triangle pairs (duplicate-free case; the general duplicated-edge case is stated, kept as partial, and covered by exact differential runs)",
    "proved (all halfedge states, all array sizes, under explicit decidable local preconditions): PairUp, CollapseTri, RemoveIfFolded keep CheckHalfedges (`PairInv`, in the frame form `PairInvExcept` for the states inside an operation), UpdateVert relabels exactly the walked fan, the executable `checkPairInv` decides `PairInv`; see MV/Props/C01b.lean for FormLoop / CollapseEdge (stated in full, proved for the cases named there)",
    "the edge-operation model (MV/Model/EdgeOp.lean: PairUp, UpdateVert, CollapseTri, RemoveIfFolded, FormLoop, CollapseEdge/CollapseEdge2, SwapEdge, DedupeEdge, SplitPinchedVerts serial) is tied to src/edge_op.cpp by op-level replay through the MANIFOLD_VERIF hook onTopoOp: entry state + arguments + geometric decisions in, exit arrays compared exactly, on meshes of <= 400 halfedges; larger meshes and the parallel SplitPinchedVerts branch are not replayed",
    "PARTIAL: FormLoop inside CollapseEdge/SwapEdge, SwapEdge, DedupeEdge, SplitPinchedVerts, face assembly and subdivision have no all-states invariant proof; for them the property is decided per run: `checkPairInv` on every replayed top-level exit state, and EVERY object returned by seeded API programs goes through the verified mesh checker",
    "the halfedge model is tied to src/impl.cpp by calling the real Impl::CreateHalfedges on seeded triangle soups (balanced, with duplicated edges and opposed pairs) and comparing the three arrays exactly",
]


def topo_replay(ctx, exe_api):
    """Family (c): every call of an edge_op.cpp primitive on a small mesh, replayed by the Lean model."""
    try:
        exe_t = core.compile_harness("c01_topo", [os.path.join(core.ROOT, "harness", "c01_topo.cpp")], libs.cxx_flags("ser"), libs=libs.link_flags("ser"))
    except core.BuildBroken as e:
        raise core.BuildBroken("c01_topo needs the MANIFOLD_VERIF hook `onTopoOp` (patch 01-topo-op-hook.diff) in src/verif_hooks.h and src/edge_op.cpp\n" + str(e))
    P = 160 if ctx.tier == "quick" else 2500
    p = core.sh([exe_t, str(P)], env={"VERIF_SEED": str(ctx.seed), "VERIF_TIER": ctx.tier}, timeout=3600)
    cs, stats = core.parse_cases(p.stdout)
    if p.returncode != 0 and cs and not cs[-1]["exp"]:
        cs.pop()   # block cut short by the crash
    prog = collections.defaultdict(list)
    for m in re.finditer(r"^PROG (\d+)\.(\d+) (.*)$", p.stdout, re.M):
        prog[int(m.group(1))].append(m.group(3))

    def search(ctx, c):
        # model != implementation on one operation: look for a failing input of the PROPERTY in the program it came from
        pi = int(re.match(r"t(\d+)\.", c["tag"]).group(1))
        steps = prog[pi]
        top = [x for x in cs if x["tag"].startswith("t%d." % pi) and not x["prop"].startswith("ok")]
        if top:
            return {"what": "top-level operation left a non-manifold halfedge structure", "program": steps, "case": top[0]["tag"], "oracle": top[0]["prop"],
                    "request": top[0]["req"], "replay_cmd": "build/h/c01_topo 0 <file with the program lines>"}
        rc, cs2, _ = shrink.replay(exe_api, steps, os.path.join(core.OUT, "shrink"))
        rq = [x for x in cs2 if x["req"]]
        an = core.driver_run([x["req"] for x in rq]) if rq else []
        badm = [(x, a) for x, a in zip(rq, an) if a.strip() != x["exp"].strip()]
        badp = [x for x in cs2 if not x["prop"].startswith("ok")]
        if rc != 0 or badm or badp:
            return {"what": "the program containing the mismatching operation returns an object that fails C01", "program": steps, "rc": rc,
                    "verified_checker": [(x["tag"], a) for x, a in badm][:5], "oracle": [x["tag"] + " " + x["prop"] for x in badp][:5],
                    "replay_cmd": "build/h/c01_api 0 0 <file with the program lines>"}
        return None
    ct = cases.correspond(ctx, cs, "edge_op.cpp primitives vs MV.EdgeOp model (start/paired/prop arrays after each operation, CheckHalfedges verdict)", search=search)
    if p.returncode != 0:
        # every operation before the crash replayed exactly and passed the gate: report the crash itself, with the program
        progs = sorted(prog)
        last = [x[2] for x in re.findall(r"^PROG (\d+)\.(\d+) (.*)$", p.stdout, re.M) if int(x[0]) == (progs[-1] if progs else -1)]
        rp = core.write_replay(ctx.pid, "harness-crash", {"cmd": [exe_t, str(P)], "env": {"VERIF_SEED": ctx.seed}, "rc": p.returncode, "signal": p.returncode - 128 if p.returncode > 128 else -p.returncode,
                                                         "last_case_before_crash": cs[-1]["tag"] if cs else None, "last_api_program": last, "stderr_tail": p.stderr[-3000:]})
        raise core.Violation("c01_topo: the real library crashed or hung (rc=%d; 142 = a loop around a vertex never closed) while editing a small mesh, after %d operations that replayed exactly" % (p.returncode, len(cs)), rp)
    eff = collections.Counter(); top = collections.Counter(); sizes = []
    for c in cs:
        t = c["tag"].split(); k = t[1]
        rq = c["req"].split(); na = int(rq[2]); pre = rq[3 + na:]; post = c["exp"].replace("|", "").split()
        if pre[3:] != post[5:-4] or pre[:3] != post[2:5]:
            eff[k] += 1
        if t[2] == "d0":
            top[k] += 1
        sizes.append(int(pre[2]))
    ct.update({"programs": P, "ops_changing_state": dict(eff), "toplevel_ops": dict(top), "max_halfedges": max(sizes) if sizes else 0,
               "median_halfedges": sorted(sizes)[len(sizes) // 2] if sizes else 0, "stats": stats,
               "toplevel_exit_states_passing_checkPairInv": sum(top.values()),
               "rule": "one case per call of a modelled primitive on a mesh of <= 400 halfedges during Booleans of lattice boxes / low-poly spheres, imports of non-2-manifold soups, Simplify/SetTolerance, SmoothOut+Refine; identical (op, pre-state) requests are emitted once"})
    return ct


def run(ctx):
    cov = core.proof_gate(ctx.pid, PROPS, ["MV.Props.C01a", "MV.Props.C01b"] if ctx.tier == "thorough" else None)
    cov["checker_cmd"] = "cd lean && lake build MV mvdriver && lake env lean <#print axioms for every theorem of MV/Props/C01a.lean, MV/Props/C01b.lean>"
    cov["trusted_base"] = core.TRUSTED_BASE
    libs.build("ser")
    # (a) CreateHalfedges: model vs real code, exact
    exe_h = core.compile_harness("c01_halfedge", [os.path.join(core.ROOT, "harness", "c01_halfedge.cpp")], libs.cxx_flags("ser"), libs=libs.link_flags("ser"))
    cs_h, _ = cases.run_case_harness(ctx, exe_h, [400 if ctx.tier == "quick" else 6000])
    ch = cases.correspond(ctx, cs_h, "Impl::CreateHalfedges vs MV.Halfedge model (start/paired/prop arrays)")
    # (b) API programs through the verified checker
    exe = core.compile_harness("c01_api", [os.path.join(core.ROOT, "harness", "c01_api.cpp")], libs.cxx_flags("ser"), libs=libs.link_flags("ser"))
    # (c) op-level replay of the topological editing primitives (hook onTopoOp) against MV.EdgeOp
    ct = topo_replay(ctx, exe)
    # corpus of minimised past failures runs first
    corpus_dir = os.path.join(core.ROOT, "corpus", "C01")
    ncorpus = 0
    for f in sorted(os.listdir(corpus_dir)) if os.path.isdir(corpus_dir) else []:
        steps = [l.strip() for l in open(os.path.join(corpus_dir, f)) if l.strip()]
        rc, cs0, _ = shrink.replay(exe, steps, os.path.join(core.OUT, "shrink"))
        rq = [x for x in cs0 if x["req"]]
        an = core.driver_run([x["req"] for x in rq]) if rq else []
        badc = rc != 0 or any(a.strip() != x["exp"].strip() for x, a in zip(rq, an)) or any(not x["prop"].startswith("ok") for x in cs0)
        ncorpus += 1
        if badc:
            ctx.finding("corpus-" + f, "corpus program %s fails again" % f, {"program": steps, "rc": rc,
                        "failing": [x["tag"] + " " + x["prop"] for x in cs0 if not x["prop"].startswith("ok")][:10]})
    P, L = (60, 30) if ctx.tier == "quick" else (600, 40)
    p = core.sh([exe, str(P), str(L)], env={"VERIF_SEED": str(ctx.seed)}, timeout=7200)
    if p.returncode != 0:
        rp = core.write_replay(ctx.pid, "harness-crash", {"rc": p.returncode, "stderr_tail": p.stderr[-3000:]})
        raise core.Violation("c01_api itself failed (rc=%d)" % p.returncode, rp)
    crashes = re.findall(r"^CRASH (\d+) (-?\d+)", p.stdout, re.M)
    allprogs = re.findall(r"^PROG (\d+)\.(\d+) (.*)$", p.stdout, re.M)
    for cp, sig in crashes:
        steps = [x[2] for x in allprogs if x[0] == cp]
        small = shrink.shrink(exe, steps, lambda rc, cs2: rc != 0 or any(x["tag"].startswith("CRASH") for x in cs2), os.path.join(core.OUT, "shrink"))
        live = [s for s in small if not s.startswith("tets ")]
        ctx.finding("crash-" + live[-1].split()[0], "the real library crashed (signal %s) on an in-domain API program ending in `%s`" % (sig, live[-1]),
                    {"what": "API program crashed the library", "signal": sig, "program": small, "essential_steps": live})
    cs, _ = core.parse_cases(p.stdout)
    prog = collections.defaultdict(dict)
    for m in re.finditer(r"^PROG (\d+)\.(\d+) (.*)$", p.stdout, re.M):
        prog[int(m.group(1))][int(m.group(2))] = m.group(3)
    reqs = [c for c in cs if c["req"]]
    ans = core.driver_run([c["req"] for c in reqs])
    bad = []
    for c, a in zip(reqs, ans):
        c["model"] = a
        if a.strip() != c["exp"].strip():
            bad.append((c, "verified checker says `%s`, library claims `%s`" % (core.clip(a, 120), c["exp"])))
    for c in cs:
        if not c["prop"].startswith("ok"):
            bad.append((c, c["prop"]))
    for c, why in bad:
        m = re.match(r"p(\d+)\.(\d+) (\S+)", c["tag"])
        pi, si, op = int(m.group(1)), int(m.group(2)), m.group(3)
        steps = [prog[pi][k] for k in sorted(prog[pi]) if k <= si]
        kind = why.split("`")[1].split()[:2] if "`" in why else why.split()[1:4]

        def fails(rc, cs2):
            if rc != 0:
                return True
            last = [x for x in cs2 if x["tag"].startswith("r%d." % (len(steps) - 1))]
            rq = [x for x in last if x["req"]]
            an = core.driver_run([x["req"] for x in rq]) if rq else []
            return any(a.strip() != x["exp"].strip() for x, a in zip(rq, an)) or any(not x["prop"].startswith("ok") for x in last)
        small = shrink.shrink(exe, steps, fails, os.path.join(core.OUT, "shrink"))
        live = [s for s in small if not s.startswith("tets ")]
        key = (op + "-" + "_".join(kind)).replace(" ", "_")[:60]
        ctx.finding(key, "C01 fails after `%s`: %s" % (op, why), {"why": why, "program": small, "essential_steps": live, "case": c["tag"],
                                                                   "replay_cmd": "build/h/c01_api 0 0 <file with the program lines>"})
    ops = collections.Counter(c["tag"].split()[1] for c in cs)
    cov.update({"evaluations": len(cs) + ch["evaluations"] + ct["evaluations"], "distinct_nontrivial": len({core.digest(c["req"]) for c in reqs}) + ch["distinct_nontrivial"] + ct["distinct_nontrivial"],
                "objects_checked": len(cs), "objects_through_verified_checker": len(reqs), "halfedge_cases": ch["evaluations"],
                "topo_replay": ct, "kinds": ct["kinds"],
                "programs": P, "steps_per_program": L, "programs_crashed": len(crashes), "corpus_programs": ncorpus, "ops": dict(ops),
                "rule": "programs of %d steps over 40 public operations, two thirds on the integer lattice (coincident faces, A+A, A-A, shared edges/vertices); every object returned by every step is exported and checked; "
                        "distinct = distinct exported meshes (request lines)" % L,
                "samples": [{"case": c["tag"], "answer": c["exp"]} for c in reqs[:5]]})
    return cov
