"""C01 - every returned Manifold is a closed oriented 2-manifold or an empty error."""
import os, re, collections
from vlib import core, cases, libs, shrink

LEVEL = "proof"
PROPS = ["MV/Props/C01a.lean"]
ASSUMPTIONS = [
    "proved (all meshes): checkMesh = ok <=> Closed2Manifold (sound and complete oracle), invariance of Closed2Manifold under triangle permutation/rotation, injective vertex relabelling and compaction, Euler arithmetic; "
    "CreateHalfedges yields PairInv/NoDupEdge for every closed 2-manifold input and removes exactly opposed triangle pairs (duplicate-free case; the general duplicated-edge case is stated, kept as partial, and covered by exact differential runs)",
    "PARTIAL: the per-operation invariants of the edge-collapse/swap/dedupe primitives, face assembly and subdivision are not yet proved; for them the property is decided per run by piping EVERY object returned by seeded API programs through the verified checker",
    "the halfedge model is tied to src/impl.cpp by calling the real Impl::CreateHalfedges on seeded triangle soups (balanced, with duplicated edges and opposed pairs) and comparing the three arrays exactly",
]


def run(ctx):
    cov = core.proof_gate(ctx.pid, PROPS, ["MV.Props.C01a"] if ctx.tier == "thorough" else None)
    cov["checker_cmd"] = "cd lean && lake build MV mvdriver && lake env lean <#print axioms for every theorem of MV/Props/C01a.lean>"
    cov["trusted_base"] = core.TRUSTED_BASE
    libs.build("ser")
    # (a) CreateHalfedges: model vs real code, exact
    exe_h = core.compile_harness("c01_halfedge", [os.path.join(core.ROOT, "harness", "c01_halfedge.cpp")], libs.cxx_flags("ser"), libs=libs.link_flags("ser"))
    cs_h, _ = cases.run_case_harness(ctx, exe_h, [400 if ctx.tier == "quick" else 6000])
    ch = cases.correspond(ctx, cs_h, "Impl::CreateHalfedges vs MV.Halfedge model (start/paired/prop arrays)")
    # (b) API programs through the verified checker
    exe = core.compile_harness("c01_api", [os.path.join(core.ROOT, "harness", "c01_api.cpp")], libs.cxx_flags("ser"), libs=libs.link_flags("ser"))
    # corpus of minimised past failures runs first
    corpus_dir = os.path.join(core.ROOT, "corpus", "C01")
    ncorpus = 0
    for f in sorted(os.listdir(corpus_dir)) if os.path.isdir(corpus_dir) else []:
        steps = [l.strip() for l in open(os.path.join(corpus_dir, f)) if l.strip()]
        rc, cs0, _ = shrink.replay(exe, steps, os.path.join(core.OUT, "shrink"))
        rq = [x for x in cs0 if x["req"]]
        an = core.driver_run([x["req"] for x in rq]) if rq else []
        badc = rc != 0 or any(a.strip() != x["exp"].strip() for x, a in zip(rq, an)) or any(not x["prop"].startswith("ok") for x in cs0)
        ncorpus += 1
        if badc:
            ctx.finding("corpus-" + f, "corpus program %s fails again" % f, {"program": steps, "rc": rc,
                        "failing": [x["tag"] + " " + x["prop"] for x in cs0 if not x["prop"].startswith("ok")][:10]})
    P, L = (60, 30) if ctx.tier == "quick" else (600, 40)
    p = core.sh([exe, str(P), str(L)], env={"VERIF_SEED": str(ctx.seed)}, timeout=7200)
    if p.returncode != 0:
        rp = core.write_replay(ctx.pid, "harness-crash", {"rc": p.returncode, "stderr_tail": p.stderr[-3000:]})
        raise core.Violation("c01_api itself failed (rc=%d)" % p.returncode, rp)
    crashes = re.findall(r"^CRASH (\d+) (-?\d+)", p.stdout, re.M)
    allprogs = re.findall(r"^PROG (\d+)\.(\d+) (.*)$", p.stdout, re.M)
    for cp, sig in crashes:
        steps = [x[2] for x in allprogs if x[0] == cp]
        small = shrink.shrink(exe, steps, lambda rc, cs2: rc != 0 or any(x["tag"].startswith("CRASH") for x in cs2), os.path.join(core.OUT, "shrink"))
        live = [s for s in small if not s.startswith("tets ")]
        ctx.finding("crash-" + live[-1].split()[0], "the real library crashed (signal %s) on an in-domain API program ending in `%s`" % (sig, live[-1]),
                    {"what": "API program crashed the library", "signal": sig, "program": small, "essential_steps": live})
    cs, _ = core.parse_cases(p.stdout)
    prog = collections.defaultdict(dict)
    for m in re.finditer(r"^PROG (\d+)\.(\d+) (.*)$", p.stdout, re.M):
        prog[int(m.group(1))][int(m.group(2))] = m.group(3)
    reqs = [c for c in cs if c["req"]]
    ans = core.driver_run([c["req"] for c in reqs])
    bad = []
    for c, a in zip(reqs, ans):
        c["model"] = a
        if a.strip() != c["exp"].strip():
            bad.append((c, "verified checker says `%s`, library claims `%s`" % (core.clip(a, 120), c["exp"])))
    for c in cs:
        if not c["prop"].startswith("ok"):
            bad.append((c, c["prop"]))
    for c, why in bad:
        m = re.match(r"p(\d+)\.(\d+) (\S+)", c["tag"])
        pi, si, op = int(m.group(1)), int(m.group(2)), m.group(3)
        steps = [prog[pi][k] for k in sorted(prog[pi]) if k <= si]
        kind = why.split("`")[1].split()[:2] if "`" in why else why.split()[1:4]

        def fails(rc, cs2):
            if rc != 0:
                return True
            last = [x for x in cs2 if x["tag"].startswith("r%d." % (len(steps) - 1))]
            rq = [x for x in last if x["req"]]
            an = core.driver_run([x["req"] for x in rq]) if rq else []
            return any(a.strip() != x["exp"].strip() for x, a in zip(rq, an)) or any(not x["prop"].startswith("ok") for x in last)
        small = shrink.shrink(exe, steps, fails, os.path.join(core.OUT, "shrink"))
        live = [s for s in small if not s.startswith("tets ")]
        key = (op + "-" + "_".join(kind)).replace(" ", "_")[:60]
        ctx.finding(key, "C01 fails after `%s`: %s" % (op, why), {"why": why, "program": small, "essential_steps": live, "case": c["tag"],
                                                                   "replay_cmd": "build/h/c01_api 0 0 <file with the program lines>"})
    ops = collections.Counter(c["tag"].split()[1] for c in cs)
    cov.update({"evaluations": len(cs) + ch["evaluations"], "distinct_nontrivial": len({core.digest(c["req"]) for c in reqs}) + ch["distinct_nontrivial"],
                "objects_checked": len(cs), "objects_through_verified_checker": len(reqs), "halfedge_cases": ch["evaluations"],
                "programs": P, "steps_per_program": L, "programs_crashed": len(crashes), "corpus_programs": ncorpus, "ops": dict(ops),
                "rule": "programs of %d steps over 40 public operations, two thirds on the integer lattice (coincident faces, A+A, A-A, shared edges/vertices); every object returned by every step is exported and checked; "
                        "distinct = distinct exported meshes (request lines)" % L,
                "samples": [{"case": c["tag"], "answer": c["exp"]} for c in reqs[:5]]})
    return cov
