"""C19 - refinement keeps the surface; simplification only removes redundancy."""
import os, subprocess
from concurrent.futures import ThreadPoolExecutor
from vlib import core, cases, libs

LEVEL = "proof"
PROPS = ["MV/Props/C19.lean", "MV/Proof/PartitionTabT5.lean", "MV/Proof/PartitionTabT6.lean", "MV/Proof/PartitionTabT7.lean",
         "MV/Proof/PartitionTabT8.lean", "MV/Proof/PartitionTabQ3.lean", "MV/Proof/PartitionTabQ4.lean"]
ASSUMPTIONS = [
    "theorems are about MV/Model/Partition.lean (GetPartition sorting/rotation, GetCachedPartition, PartitionQuad, PartitionFan, Reindex, the exclusive scans and "
    "triangle assembly of Impl::Subdivide, SetTolerance/Simplify/SetEpsilon scalar logic) and the checker MV/Model/PartitionCheck.lean; tied to src/subdivision.cpp by "
    "running the REAL Partition::GetPartition / Reindex (the .cpp is #included into harness/c19_partition.cpp) on every division triple 1..8 (all orders), every quadruple "
    "1..4, seeded tuples up to 200, and comparing idx, sortedDivisions, triVert exactly and vertBary as IEEE bit patterns; the REAL Impl::Subdivide is called directly "
    "(harness/c19_refine.cpp) and its vertex count and triangle list are compared exactly with MV.Partition.subdivideIdx (meshes with and without marked quads)",
    "the four count decisions the C++ takes through double arithmetic (sqrt/round/lerp) are the record `Dec`: the driver replays them at Float (Dec.float, bit-exact tie), "
    "the table theorems are about the integer-exact Dec.exact; the driver reports for every tuple whether both give the identical partition and the check REQUIRES "
    "agreement on every tuple inside the tables' bounds (they first differ at 22 divisions: a .5 tie of round(lerp(0,11,15/22)))",
    "partition_valid_tri_upto / partition_valid_quad_upto are bounded (triangles: divisions 1..8 in any order, quads 1..4): finite kernel-evaluated tables, the "
    "property's own quantifier; beyond the bounds only the harness oracle and the same checker run by the driver (patterns up to 400 vertices) apply",
    "PatternValid is the combinatorial + exact-rational certificate (edges paired, boundary = outer cycle in order, every vertex used, Euler characteristic 1, all "
    "sub-triangles positively oriented, areas summing to the whole); that this implies a geometric tiling (degree argument) is not formalised; quads are judged in "
    "the unit-square chart of their four weights",
    "Reindex is modelled and compared exactly; its injectivity and agreement with the mesh's edge orientation is an oracle of the harness, not a theorem",
    "tolerance_floor is over a linear order (doubles without NaN); epsilon itself (MaxEpsilon, kPrecision * scale) is an input of the model",
    "NOT modelled: InterpTri / tangent interpolation accuracy, SimplifyTopology2's geometric decisions, property interpolation in Subdivide (covered by C07), "
    "keepInterior's extra divisions (they only change edgeAdded, which is an input of the model), int overflow for divisions > 46340",
    "end-to-end oracles: volume/area within 1e-10 relative, winding number in long double for points >= 10 tolerance + 1e-3 away from the surface, "
    "point-to-surface distance in long double with a 1e-12 (refine) / 1e-9 (simplify) band, the verified mesh checker (MV.C01a checkMesh_iff) on every export",
]

HP = os.path.join(core.ROOT, "harness", "c19_partition.cpp")
HR = os.path.join(core.ROOT, "harness", "c19_refine.cpp")
GC = ["-ffunction-sections", "-Wl,--gc-sections"]   # subdivision.cpp's (uncalled) Impl methods refer to other translation units
TAB_T, TAB_Q = 8, 4                                  # bounds of the table theorems


def kind(c):
    w = c["tag"].split()
    return w[1] if len(w) > 1 else "case"


def normalize(ans, c):
    # seeded tuples beyond the tables: the Dec.exact/Dec.float agreement flag is informational
    if c["exp"].startswith("*") and ans[:1] in "01":
        return "*" + ans[1:]
    return ans


def search(ctx, c):
    """Model and implementation disagree: judge the IMPLEMENTATION's own output with the verified checkers."""
    k = kind(c)
    if k in ("tri", "quad", "rand", "bigrand"):
        sec = [s.strip() for s in c["exp"].split(";")]
        if len(sec) >= 5:
            req = "partition checkraw %s ; %s ; %s" % (sec[2], sec[3].split()[0], sec[4])
            verdict = core.driver_run([req])[0]
            if verdict.startswith("bad"):
                return {"what": "the pattern returned by the REAL Partition::GetPartition is rejected by the verified checker (checkTopo_sound)",
                        "case": c["tag"], "request": c["req"], "checker": verdict, "implementation": core.clip(c["exp"], 2000), "model": core.clip(c.get("model", ""), 2000)}
    if k in ("tri", "quad", "rand", "bigrand", "reindex"):
        # the pattern itself is still a valid tiling (or could not be judged): look for an END-TO-END failure of the property
        # on the public API (Refine* on smoothed / plain solids) caused by the changed pattern
        try:
            libs.build("ser")
            exe_r = core.compile_harness("c19_refine", [HR], libs.cxx_flags("ser") + ["-Wno-deprecated-declarations"], libs=libs.link_flags("ser"))
            p = core.sh([exe_r, "240"], env={"VERIF_SEED": str(ctx.seed), "VERIF_TIER": ctx.tier}, timeout=600)
            cs2, _ = core.parse_cases(p.stdout)
            for c2 in cs2:
                if not c2["prop"].startswith("ok"):
                    return {"what": "model and implementation disagree on %s; the end-to-end oracle then fails on the real code" % c["tag"], "case": c2["tag"], "oracle": c2["prop"],
                            "replay_cmd": "VERIF_SEED=%d %s 240   # case %s" % (ctx.seed, exe_r, c2["tag"].split()[0]), "first_mismatch": c["tag"]}
            if p.returncode != 0:
                return {"what": "model and implementation disagree on %s; the end-to-end harness then crashes (rc=%d)" % (c["tag"], p.returncode), "stderr_tail": p.stderr[-2000:],
                        "replay_cmd": "VERIF_SEED=%d %s 240" % (ctx.seed, exe_r)}
        except Exception:
            pass
    if k == "subdiv":
        sec = c["exp"].split(";")
        tris = sec[1].split()
        verdict = core.driver_run(["mesh check %s %d %s" % (sec[0].strip(), len(tris) // 3, " ".join(tris))])[0]
        if verdict.startswith("bad"):
            return {"what": "the triangle list produced by the REAL Impl::Subdivide is not a closed 2-manifold with every vertex referenced (verified mesh checker)",
                    "case": c["tag"], "request": core.clip(c["req"], 4000), "checker": verdict}
    return None


def run(ctx):
    thorough = ctx.tier == "thorough"
    with ThreadPoolExecutor(max_workers=3) as ex:
        fl = ex.submit(libs.build, "ser")
        fp = ex.submit(core.compile_harness, "c19_partition", [HP], ["-O1", "-DMANIFOLD_PAR=-1"] + GC)
        cov = core.proof_gate(ctx.pid, PROPS, ["MV.Props.C19"] if thorough else None)
        fl.result()
        exe_p = fp.result()
    exe_r = core.compile_harness("c19_refine", [HR], libs.cxx_flags("ser") + ["-Wno-deprecated-declarations"], libs=libs.link_flags("ser"))
    cov["checker_cmd"] = "cd lean && lake build MV mvdriver && lake env lean <#print axioms for every theorem of MV/Props/C19.lean and the MV/Proof/PartitionTab*.lean tables>"
    cov["trusted_base"] = core.TRUSTED_BASE + ["long-double geometric oracles of harness/c19_refine.cpp (winding number, point-triangle distance)"]
    # patterns first: a broken pattern is reported before the (possibly hanging) end-to-end programs run on it
    cs_p, st_p = cases.run_case_harness(ctx, exe_p, [12, 6, 600, 3000] if thorough else [TAB_T, TAB_Q, 60, 300])
    # inside the tables' bounds the EXP line demands agreement flag 1 (Dec.float == Dec.exact) and verdict ok
    c1 = cases.correspond(ctx, cs_p, "Partition::GetPartition / Reindex vs MV.Partition model (triVert exact, vertBary bitwise, verified checker verdict)",
                          search=search, kind_of=kind, normalize=normalize)
    limit = 6000 if thorough else 900      # the quick run takes about 15 s
    try:
        cs_r, st_r = cases.run_case_harness(ctx, exe_r, [1500 if thorough else 150], timeout=limit)
    except subprocess.TimeoutExpired:
        rp = core.write_replay(ctx.pid, "harness-hang", {"cmd": [exe_r, 1500 if thorough else 150], "seed": ctx.seed, "limit_s": limit,
                                                         "note": "Refine*/Simplify programs that normally finish in milliseconds did not terminate"})
        raise core.Violation("the end-to-end harness did not finish within %d s (the real code hangs on small Refine*/Simplify programs)" % limit, rp, no_input=True)
    c2 = cases.correspond(ctx, cs_r, "Impl::Subdivide index bookkeeping, SetTolerance scalar logic vs model; verified mesh checker on every Refine*/Simplify export",
                          search=search, kind_of=kind)
    disagree = sum(1 for c in cs_p if c.get("model", "")[:1] == "0")
    cov.update(c1)
    for k in ("evaluations", "model_vs_impl_compared", "distinct_nontrivial", "mismatches", "property_failures"):
        cov[k] = c1[k] + c2[k]
    cov["driver_wall_s"] = round(c1["driver_wall_s"] + c2["driver_wall_s"], 1)
    kinds = dict(c1["kinds"])
    for k, v in c2["kinds"].items():
        kinds[k] = kinds.get(k, 0) + v
    cov["kinds"] = kinds
    cov["parts"] = {"patterns": c1, "end_to_end": c2}
    cov["stats"] = {"patterns": st_p, "end_to_end": st_r, "seeded_tuples_where_float_and_exact_decisions_differ": disagree}
    cov["exhaustive"] = True
    cov["exhaustive_space"] = ("every division triple in 1..%d (all orders, %d tuples) and every quadruple in 1..%d (%d tuples): real GetPartition vs model, "
                               "bitwise barycentrics, verified checker" % ((12, 1728, 6, 1296) if thorough else (TAB_T, TAB_T ** 3, TAB_Q, TAB_Q ** 4)))
    cov["rule"] = ("patterns: exhaustive tuples as above + the skipped quad side {0,..}; seeded tuples with divisions up to 40 (bitwise barycentrics) and up to 200 / quads 90 "
                   "(topology only), flavours random / mostly-1 / near-maximal / uniform / obtuse-degenerate strips; Reindex on random consistent embeddings (corner ids, "
                   "edge ranges in random order with gaps, forward/backward edges, mirrored sortings) with an injectivity + edge-orientation + pairing oracle; "
                   "end-to-end: 11 base shapes (boxes, tetrahedron, L-shape, overlapping and disjoint unions, rotated frame, octagonal prism, sphere, cylinder, cube-sphere, "
                   "sphere+cube; optional property channels and translation) x {direct Impl::Subdivide with uniform / hashed-random / sparse / negative-clamped edge "
                   "divisions, with and without SmoothOut quads; Refine(n), Refine;Refine, RefineToLength, RefineToTolerance without tangents; SmoothOut / "
                   "CalculateNormals+SmoothByNormals then Refine*; Refine(k)/RefineToLength then Simplify(t)/SetTolerance(t) for t in 1e-6..0.02; SetTolerance at 0, eps, "
                   "eps/2, tol, tol(1+1e-15), -1 and chains}; distinct = distinct request lines")
    cov["samples"] = [{"case": c["tag"], "request": core.clip(c["req"], 160), "answer": core.clip(c["exp"], 160)} for c in (cs_p[:2] + cs_p[-2:] + cs_r[:4])]
    return cov
