"""C13 - parallel primitives and lock-free containers equal their sequential spec."""
import os, time
from vlib import core, cases
from checks import c13_containers

LEVEL = "proof"
PROPS = ["MV/Props/C13a.lean", "MV/Props/C13b.lean", "MV/Props/C13c.lean"]
ASSUMPTIONS = [
    "theorems are about MV/Model/Par.lean; the model is tied to src/parallel.h by running the real templates (MANIFOLD_PAR=1) "
    "under virtual TBB on seeded (input, schedule) pairs and the model on the SAME schedule term, outputs compared exactly",
    "virtual TBB stays inside oneTBB's documented contract (harness/vtbb/CONTRACT.md); real hardware interleavings are only sampled (thorough tier, real TBB)",
    "std::reduce/std::merge/std::stable_sort of libstdc++ 12 are taken as the sequential specification",
    "containers: theorems about the small-step models MV/Model/Dsu.lean and HashT.lean hold for every interleaving under sequentially consistent atomics (weak memory not modelled); "
    "tied to disjoint_sets.h / hashtable.h by re-compiling them with every atomic access routed through a scheduler-controlled shim and comparing the per-step log with the model on the same schedule; liveness (hash probing on a full table) is not claimed",
]


def run(ctx):
    cov = core.proof_gate(ctx.pid, PROPS, ["MV.Props.C13a", "MV.Props.C13b", "MV.Props.C13c"] if ctx.tier == "thorough" else None)
    cov["checker_cmd"] = "cd lean && lake build MV mvdriver && lake env lean <#print axioms for every theorem of %s>" % ",".join(PROPS)
    cov["trusted_base"] = core.TRUSTED_BASE + ["virtual TBB shim (harness/vtbb)"]
    exe = core.compile_harness("c13_par", [os.path.join(core.ROOT, "harness", "c13_par.cpp")],
                               ["-O1", "-g", "-DMANIFOLD_PAR=1", "-I" + os.path.join(core.ROOT, "harness", "vtbb")])
    n = 220 if ctx.tier == "quick" else 1200
    cs, stats = cases.run_case_harness(ctx, exe, [n])
    c2 = cases.correspond(ctx, cs, "parallel.h templates under virtual TBB vs MV.Par model on the same schedule")
    cov.update(c2)
    cov["schedules"] = stats
    cov["rule"] = ("cases drawn from VERIF_SEED: primitive x length class (0,1,small,kSeqThreshold+-,2e4-3.5e4,65530-65541,131071-131073,2e5) x content class "
                   "(few distinct, sorted, reverse, constant, random) x schedule (random legal split tree, mode 'max split' every 7th); distinct = distinct request lines")
    cov["samples"] = [{"case": c["tag"], "request": core.clip(c["req"], 200), "answer": core.clip(c["exp"], 120)} for c in cs[:4]]
    cov.update(c13_containers.run(ctx))
    if ctx.tier == "thorough":
        # real TBB, real threads: only the property oracle (std:: equality) is meaningful
        exe2 = core.compile_harness("c13_par_tbb", [os.path.join(core.ROOT, "harness", "c13_par.cpp")],
                                    ["-O2", "-DMANIFOLD_PAR=1", "-DREAL_TBB", "-pthread"], out_name="c13_par_tbb", libs=["-ltbb"])
        cs2, _ = cases.run_case_harness(ctx, exe2, [600])
        bad = [c for c in cs2 if not c["prop"].startswith("ok")]
        cov["real_tbb_cases"] = len(cs2)
        for c in bad:
            ctx.finding("realtbb-" + c["tag"].split()[1], "real-TBB run: " + c["prop"], {"case": c["tag"], "oracle": c["prop"]})
    return cov
