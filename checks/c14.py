"""C14 - spatial indices report exactly the overlapping pairs."""
import os
from vlib import core, cases

LEVEL = "proof"
PROPS = ["MV/Props/C14.lean"]
ASSUMPTIONS = [
    "theorems are about MV/Model/Collider.lean (Karras radix tree, bottom-up boxes for every arrival order, stack traversal, Transform/UpdateBoxes); "
    "tied to src/collider.h by building the real Collider on integer-lattice boxes and comparing internalChildren_/nodeParent_/nodeBBox_ and the reported pairs (in traversal order) exactly",
    "coordinates are Int in the model: NaN/inf boxes (incl. the empty-query early exit) are outside the theorems; indices are unbounded (int overflow of max_length*=4 for n>2^29 not modelled)",
    "the 2-D broad phase (BVHBuildFromBoxes/BVHCollisions, x-sorted sweep) and the polygon k-d tree are checked against brute force only (no Lean model yet)",
]


def run(ctx):
    cov = core.proof_gate(ctx.pid, PROPS, ["MV.Props.C14"] if ctx.tier == "thorough" else None)
    cov["checker_cmd"] = "cd lean && lake build MV mvdriver && lake env lean <#print axioms for every theorem of MV/Props/C14.lean>"
    cov["trusted_base"] = core.TRUSTED_BASE + ["virtual TBB shim (harness/vtbb) for the n>1e4 construction paths"]
    exe = core.compile_harness("c14_collider", [os.path.join(core.ROOT, "harness", "c14_collider.cpp")],
                               ["-O1", "-g", "-DMANIFOLD_PAR=1", "-I" + os.path.join(core.ROOT, "harness", "vtbb")])
    if ctx.tier == "quick":
        cs, stats = cases.run_case_harness(ctx, exe, [150, 0])
    else:
        cs, stats = cases.run_case_harness(ctx, exe, [1500, 1])
    c2 = cases.correspond(ctx, cs, "Collider arrays and reported pairs vs MV.Collider model")
    cov.update(c2)
    cov["exhaustive"] = False
    cov["rule"] = ("n in 2..600 (and 10002..13000 to reach the parallel construction), codes from {3 values, 50 values, 30-bit random, all equal, 32-bit random} sorted, "
                   "boxes on a lattice of side 1..20 with repeats and the all-identical degenerate case; modes tree/boxes/query/pquery/tquery/uquery with self-collision on/off; "
                   "thorough adds every non-decreasing code array over {0,1,2} for n<=7; distinct = distinct request lines")
    cov["samples"] = [{"case": c["tag"], "request": core.clip(c["req"], 200), "answer": core.clip(c["exp"], 120)} for c in cs[:4]]
    return cov
