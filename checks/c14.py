"""C14 - spatial indices report exactly the overlapping pairs (3-D collider, 2-D broad phase, polygon k-d tree)."""
import os
from concurrent.futures import ThreadPoolExecutor
from vlib import core, cases

LEVEL = "proof"
PROPS = ["MV/Props/C14.lean", "MV/Props/C14b.lean"]
ASSUMPTIONS = [
    "theorems are about MV/Model/Collider.lean (Karras radix tree, bottom-up boxes for every arrival order, stack traversal, Transform/UpdateBoxes); "
    "tied to src/collider.h by building the real Collider on integer-lattice boxes and comparing internalChildren_/nodeParent_/nodeBBox_ and the reported pairs (in traversal order) exactly",
    "coordinates are Int in the model: NaN/inf boxes (incl. the empty-query early exit) are outside the theorems; indices are unbounded (int overflow of max_length*=4 for n>2^29 not modelled)",
    "2-D half (MV/Props/C14b.lean) is about MV/Model/Broad2.lean: the x-sorted sweep and the BVH branch of CollectIntersectionPairs, BVHBuildFromBoxes, BVHCollisions, "
    "BuildTwoDTree/QueryTwoDTree; tied to src/boolean2.cpp, boolean2.h, tree2d.cpp, tree2d.h by running the REAL functions (the .cpp files are #included into harness/c14_broad2.cpp) on "
    "integer-lattice boxes/points and comparing leafToOrig/internalChildren/nodeBBox, the recorded leaves in traversal order, the emitted pair lists in emission order, the point array after "
    "BuildTwoDTree and the reported points in report order exactly; serial build (MANIFOLD_PAR=-1: CollidePairs branch) and virtual-TBB build (MANIFOLD_PAR=1: PairsRecorder/combinable branch)",
    "Morton codes (MortonCode2: floating point) and the verdicts of SharedEndpointSafelySkippable (floating point) are INPUTS of the 2-D model: the theorems hold for every code array < 2^32 and every "
    "filter (symmetric for the sweep); the harness passes the values the real functions return",
    "xsweep_pairs_exact needs min.x <= max.x for every box (BoxOf2DEdge with eps >= 0 guarantees it; xsweep_needs_valid shows an inverted box makes the sweep and Box2::DoesOverlap disagree; "
    "bvh2_pairs_exact needs no such hypothesis); std::stable_sort is modelled by core's List.mergeSort (stable; the result of a stable sort is unique)",
    "kdtree_query_exact: the 64-entry stack suffices for n < 9*2^64 points (stated as hypothesis); QueryTwoDTree's DEBUG_ASSERT is off in release builds, the model returns none instead",
    "MergeVerts' candidate sweep is internal to MergeVerts (not observable): it is covered only by the result oracle (clusters = connected components of the distance<=eps graph by an all-pairs scan)",
]

H3D = os.path.join(core.ROOT, "harness", "c14_collider.cpp")
H2D = os.path.join(core.ROOT, "harness", "c14_broad2.cpp")
VT = os.path.join(core.ROOT, "harness", "vtbb")
GC = ["-ffunction-sections", "-Wl,--gc-sections"]   # boolean2.cpp's (uncalled) Boolean2 driver refers to other translation units


def run(ctx):
    # the three harness builds run while the proof gate is busy
    with ThreadPoolExecutor(max_workers=3) as ex:
        f3d = ex.submit(core.compile_harness, "c14_collider", [H3D], ["-O1", "-g", "-DMANIFOLD_PAR=1", "-I" + VT])
        fser = ex.submit(core.compile_harness, "c14_broad2", [H2D], ["-O1", "-DMANIFOLD_PAR=-1"] + GC, "c14_broad2_ser")
        fvt = ex.submit(core.compile_harness, "c14_broad2", [H2D], ["-O0", "-DMANIFOLD_PAR=1", "-I" + VT] + GC, "c14_broad2_vtbb")   # -O0: the PAR=1 templates dominate the compile time
        cov = core.proof_gate(ctx.pid, PROPS, ["MV.Props.C14", "MV.Props.C14b"] if ctx.tier == "thorough" else None)
        exe, exe_ser, exe_vt = f3d.result(), fser.result(), fvt.result()
    cov["checker_cmd"] = "cd lean && lake build MV mvdriver && lake env lean <#print axioms for every theorem of MV/Props/C14.lean and MV/Props/C14b.lean>"
    cov["trusted_base"] = core.TRUSTED_BASE + ["virtual TBB shim (harness/vtbb) for the n>1e4 construction paths and the MANIFOLD_PAR=1 branch of CollectIntersectionPairs"]
    if ctx.tier == "quick":
        cs, stats = cases.run_case_harness(ctx, exe, [150, 0])
        cs_ser, _ = cases.run_case_harness(ctx, exe_ser, [200, 1])
        cs_vt, _ = cases.run_case_harness(ctx, exe_vt, [80, 1])
    else:
        cs, stats = cases.run_case_harness(ctx, exe, [1500, 1])
        cs_ser, _ = cases.run_case_harness(ctx, exe_ser, [4000, 2])
        cs_vt, _ = cases.run_case_harness(ctx, exe_vt, [2000, 2])
    c3 = cases.correspond(ctx, cs, "Collider arrays and reported pairs vs MV.Collider model")
    for c in cs_vt:
        c["tag"] = c["tag"] + " vtbb"
    c2s = cases.correspond(ctx, cs_ser, "2-D broad phase / k-d tree (serial build) vs MV.Broad2 model")
    c2v = cases.correspond(ctx, cs_vt, "2-D broad phase / k-d tree (virtual-TBB build) vs MV.Broad2 model")
    cov.update(c3)
    for k in ("evaluations", "model_vs_impl_compared", "distinct_nontrivial", "mismatches", "property_failures"):
        cov[k] = c3[k] + c2s[k] + c2v[k]
    cov["driver_wall_s"] = round(c3["driver_wall_s"] + c2s["driver_wall_s"] + c2v["driver_wall_s"], 1)
    kinds = dict(c3["kinds"])
    for d in (c2s["kinds"], c2v["kinds"]):
        for k, v in d.items():
            kinds[k] = kinds.get(k, 0) + v
    cov["kinds"] = kinds
    cov["parts"] = {"collider_3d": c3, "broad2_serial": c2s, "broad2_vtbb": c2v}
    cov["exhaustive"] = False
    cov["rule"] = ("3-D: n in 2..600 (and 10002..13000 to reach the parallel construction), codes from {3 values, 50 values, 30-bit random, all equal, 32-bit random} sorted, "
                   "boxes on a lattice of side 1..20 with repeats and the all-identical degenerate case; modes tree/boxes/query/pquery/tquery/uquery with self-collision on/off; "
                   "thorough adds every non-decreasing code array over {0,1,2} for n<=7. "
                   "2-D: n in 1..40 and 2..200 per round, then n = 1000, 1022..1026 (both sides of kEdgePairBvhThreshold), 3000 (thorough: 2000, 5000, 12000), BOTH branches of "
                   "CollectIntersectionPairs on every size; box flavours random / many identical / three distinct min.x / zero-width and point boxes / all identical / vertical strips; "
                   "edges with distinct endpoints (filter never fires) and edges over a small vertex pool with the real SharedEndpointSafelySkippable verdicts passed as the skip table; "
                   "modes xsweep/bvh2pairs/bvh2/bvh2query/kdbuild/kdquery/mergeverts(oracle only); k-d tree n in 0..8, 9, 17, 8..38, 10..310, 1000, 1023..1025, 4000 with "
                   "few distinct x / few distinct y / 3x3 lattice / all identical / diagonal points, rectangles incl. a point, everything, a segment, edges on point coordinates, inverted; "
                   "every case: exact comparison with the model in the order the code reports + all-pairs / all-points oracle; distinct = distinct request lines")
    cov["samples"] = [{"case": c["tag"], "request": core.clip(c["req"], 200), "answer": core.clip(c["exp"], 120)} for c in (cs[:2] + cs_ser[:3] + cs_vt[:1])]
    return cov
