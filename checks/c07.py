"""C07 - every output triangle traces back to its source face and interpolated properties."""
from vlib import core, cases, exportcheck as xc

LEVEL = "proof"
PROPS = ["MV/Props/C07.lean"]
ASSUMPTIONS = [
    "theorems (runs_partition, runs_sorted, increment_bijective_monotone, increment_preserves_runLE, offsetQ_disjoint, compose_offsets_disjoint) are about "
    "MV/Model/Export.lean + MV/Model/MeshIds.lean; tied to GetMeshGLImpl (src/impl.h) by dumping triRef / meshIDtransform / halfedges of the real Impl after random API programs "
    "and requiring `mvdriver export all` to reproduce runIndex, runOriginalID, runFlags, runTransform (bit patterns), faceID, triVerts, per-vertex payload hashes, mergeFromVert, mergeToVert, tangent order exactly",
    "IncrementMeshIDs / UpdateReference(offsetQ) / Compose offsets are modelled and proved, but tied to the C++ only through their effect on the dumped relation tables "
    "(consistent, ascending keys, every instance its own run) and through the geometric oracle - there is no step-by-step replay of those three functions",
    "the geometric clauses (triangle within 10*tolerance of the plane of the transformed source face, orientation incl. back-side and mirrored runs, property = interpolated source field "
    "within 1e-9 relative + |grad|*20*tolerance where affine, exactly 0 for channels the source lacks, inside the source triangle when it has its own face ID) are a long-double oracle on the real output, not theorems; "
    "SplitByPlane's cutter is taken to be the library's Halfspace cube (Cube(2, centred))",
    "properties are checked only where the property statement applies: source triangles with their own face ID, or channels constructed affine in position; "
    "that SwapEdge/CollapseEdge2 blending keeps values within tolerance is covered by the oracle only",
]


def run(ctx):
    cov = core.proof_gate(ctx.pid, PROPS, ["MV.Props.C07"] if ctx.tier == "thorough" else None)
    cov["checker_cmd"] = "cd lean && lake build MV mvdriver && lake env lean <#print axioms for every theorem of MV/Props/C07.lean>"
    cov["trusted_base"] = core.TRUSTED_BASE + ["`#define private public` access to Manifold::GetCsgLeafNode() in harness/progs.h"]
    cs, stats = xc.build_and_run(ctx, "c07_export", 1500 if ctx.tier == "quick" else 12000)
    cov["checkmerge_verdicts"] = xc.checkmerge(ctx, cs)
    ex = [c for c in cs if xc.kind(c) != "checkmerge"]
    xc.report_findings(ctx, ex, "C07 provenance oracle on the real GetMeshGL64 output")
    cov["known_findings_hit"] = list(ctx.known_hit)
    c2 = cases.correspond(ctx, ex, "GetMeshGLImpl run table / prop-vert export vs MV.Export model", kind_of=xc.kind)
    cov.update(c2)
    cov["generator"] = stats
    cov["rule"] = ("random API programs (harness/progs.h): 1-3 originals (cube, sphere 4/8/12, cylinder/cone 3-10 segments, tetrahedron, L-shaped Boolean re-originalised), each as primitive or as user MeshGL64 "
                   "with 0-4 property channels (affine / one nonlinear), face IDs none / per triangle / per coplanar group, optional per-triangle vertex duplication with merge vectors, 0/1/2 reserved original IDs, AsOriginal; "
                   "instances under rotation / mirror / non-uniform scale / translation; 1-5 steps of Boolean x3, Split, SplitByPlane, BatchBoolean x3, Compose of disjoint copies, Refine(2-3), AsOriginal, transform; "
                   "non-trivial = non-empty result; distinct = distinct request lines")
    cov["samples"] = [{"case": core.clip(c["tag"], 200), "request": core.clip(c["req"], 200), "answer": core.clip(c["exp"], 120)} for c in ex[1:4]]
    return cov
