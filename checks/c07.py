"""C07 - every output triangle traces back to its source face and interpolated properties."""
from vlib import core, cases, exportcheck as xc

LEVEL = "proof"
PROPS = ["MV/Props/C07.lean", "MV/Props/C07b.lean"]
ASSUMPTIONS = [
    "theorems (runs_partition, runs_sorted, increment_bijective_monotone, increment_preserves_runLE, offsetQ_disjoint, compose_offsets_disjoint) are about "
    "MV/Model/Export.lean + MV/Model/MeshIds.lean; tied to GetMeshGLImpl (src/impl.h) by dumping triRef / meshIDtransform / halfedges of the real Impl after random API programs "
    "and requiring `mvdriver export all` to reproduce runIndex, runOriginalID, runFlags, runTransform (bit patterns), faceID, triVerts, per-vertex payload hashes, mergeFromVert, mergeToVert, tangent order exactly",
    "IncrementMeshIDs / UpdateReference(offsetQ) / Compose offsets are modelled and proved, but tied to the C++ only through their effect on the dumped relation tables "
    "(consistent, ascending keys, every instance its own run) and through the geometric oracle - there is no step-by-step replay of those three functions",
    "interpolation half (C07b): theorems of MV/Props/C07b.lean are about MV/Model/PropInterp.lean (getBarycentric = GetBarycentric of src/shared.h; baryTri / cornerKey / interpRow / cornerStep / createProperties = "
    "Barycentric + CreateProperties of src/boolean_result.cpp). The arithmetic ones (sum to one except when all three edge tests fire, vertex / edge snapping, affine fields interpolated exactly, retained corner = source row) "
    "hold at an exact ordered field, NOT for rounded doubles; the combinatorial ones (same property vertex iff same key, every row = interpRow of the first corner with the key, zero fill) hold for every Scalar incl. Float. "
    "Tie: the same definitions run at Float must reproduce, bit for bit, GetBarycentric called directly and, through the add-only hook verif::hooks().onCreateProps, every CreateProperties call of small random Booleans "
    "(sizes of the two propMissIdx tables, property index per corner, barycentric table, every property row)",
    "the interior-case key of CreateProperties is (PQ, output vertex) without the source triangle: two corners at one output vertex that are interior to two different source triangles of one operand share the row "
    "interpolated in the first triangle (theorem key_eq_meaning states exactly this); the harness counts such merges on the real code (STATS sharedInteriorAcrossSourceTris, 0 in all runs so far) and its oracle "
    "compares every corner with ITS OWN source triangle's interpolation",
    "the geometric clauses (triangle within 10*tolerance of the plane of the transformed source face, orientation incl. back-side and mirrored runs, property = interpolated source field "
    "within 1e-9 relative + |grad|*20*tolerance where affine, exactly 0 for channels the source lacks, inside the source triangle when it has its own face ID) are a long-double oracle on the real output, not theorems; "
    "SplitByPlane's cutter is taken to be the library's Halfspace cube (Cube(2, centred))",
    "properties are checked only where the property statement applies: source triangles with their own face ID, or channels constructed affine in position; "
    "that the property paths of SwapEdge / CollapseEdge / CollapseEdge2 (edge_op.cpp) keep values within tolerance is covered by the end-to-end oracle only (not modelled)",
]


def run(ctx):
    cov = core.proof_gate(ctx.pid, PROPS, ["MV.Props.C07"] if ctx.tier == "thorough" else None)
    cov["checker_cmd"] = "cd lean && lake build MV mvdriver && lake env lean <#print axioms for every theorem of MV/Props/C07.lean and MV/Props/C07b.lean>"
    cov["trusted_base"] = core.TRUSTED_BASE + ["`#define private public` access to Manifold::GetCsgLeafNode() in harness/progs.h"]
    cs, stats = xc.build_and_run(ctx, "c07_export", 1500 if ctx.tier == "quick" else 12000)
    cov["checkmerge_verdicts"] = xc.checkmerge(ctx, cs)
    ex = [c for c in cs if xc.kind(c) != "checkmerge"]
    xc.report_findings(ctx, ex, "C07 provenance oracle on the real GetMeshGL64 output")
    cov["known_findings_hit"] = list(ctx.known_hit)
    c2 = cases.correspond(ctx, ex, "GetMeshGLImpl run table / prop-vert export vs MV.Export model", kind_of=xc.kind)
    cov.update(c2)
    cov["generator"] = stats
    cov["rule"] = ("random API programs (harness/progs.h): 1-3 originals (cube, sphere 4/8/12, cylinder/cone 3-10 segments, tetrahedron, L-shaped Boolean re-originalised), each as primitive or as user MeshGL64 "
                   "with 0-4 property channels (affine / one nonlinear), face IDs none / per triangle / per coplanar group, optional per-triangle vertex duplication with merge vectors, 0/1/2 reserved original IDs, AsOriginal; "
                   "instances under rotation / mirror / non-uniform scale / translation; 1-5 steps of Boolean x3, Split, SplitByPlane, BatchBoolean x3, Compose of disjoint copies, Refine(2-3), AsOriginal, transform; "
                   "non-trivial = non-empty result; distinct = distinct request lines")
    cov["samples"] = [{"case": core.clip(c["tag"], 200), "request": core.clip(c["req"], 200), "answer": core.clip(c["exp"], 120)} for c in ex[1:4]]
    cov["interpolation"] = interpolation(ctx)
    return cov


def interpolation(ctx):
    """C07b: GetBarycentric called directly and CreateProperties observed through verif::hooks().onCreateProps
    (harness/c07_props.cpp) against MV/Model/PropInterp.lean run at Float: every answer bit for bit; the
    long-double oracles of the harness judge the real outputs."""
    import os
    from vlib import libs
    hook = os.path.join(core.REPO, "src", "verif_hooks.h")
    if "onCreateProps" not in open(hook).read():
        raise core.BuildBroken("src/verif_hooks.h has no onCreateProps hook: the tree lacks the patch `verif hook: onCreateProps`")
    libs.build("ser")
    exe = core.compile_harness("c07_props", [os.path.join(core.ROOT, "harness", "c07_props.cpp")],
                               libs.cxx_flags("ser") + ["-Wno-deprecated-declarations"], libs=libs.link_flags("ser"))
    na, nb = (6000, 90) if ctx.tier == "quick" else (60000, 800)
    cs, stats = cases.run_case_harness(ctx, exe, [na, nb])
    for c in cs:
        c["harness"] = "c07_props"
        c["replay_cmd"] = "VERIF_SEED=%d %s %d %d   # case %s" % (ctx.seed, exe, na, nb, c["tag"].split()[0])
    xc.report_findings(ctx, cs, "C07b oracle on the real GetBarycentric / CreateProperties outputs")
    cov = cases.correspond(ctx, cs, "GetBarycentric / CreateProperties vs MV.PropInterp at Float (bit patterns)",
                           search=interp_search, kind_of=xc.kind)
    cov["generator"] = stats
    cov["rule"] = ("A: GetBarycentric on triangles at scales 1e-6..1e6 with tolerance 1e-12..1e-3 of the scale: random points near the plane, points at "
                   "0/0.3/0.9/0.999999/1/1.000001/1.1/2/10 tolerances from a vertex or an edge line, point-sized / duplicated-vertex / collinear / zero triangles, "
                   "tolerance-sized triangles (several edge tests fire, incl. all three: 0/0), exact axis-aligned grids, the vertices themselves, tolerance 0 / negative / huge, inf and NaN coordinates; "
                   "B: 1-2 Booleans per program over primitives as bare meshes or user meshes with 0-4 channels, full or partial property seams with merge vectors, own face IDs, "
                   "optional CalculateNormals (subtracted operands with normals), the first result re-used as P or Q of a second Boolean; non-trivial = every case; distinct = distinct request lines")
    cov["samples"] = [{"case": core.clip(c["tag"], 200), "request": core.clip(c["req"], 200), "answer": core.clip(c["exp"], 120)} for c in cs[:2] + cs[-1:]]
    return cov


def interp_search(ctx, c):
    """model != implementation: look for a corner of the dumped call whose REAL row is not the interpolation of its own
    source triangle - the harness oracle already judged every case, so a failing input would have been reported by
    report_findings before; here the disagreement itself is the evidence."""
    return None
