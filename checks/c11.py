"""C11 - CrossSections are regularised; 2-D Booleans compute the set operation."""
import os, sys
from vlib import core, cases, libs

LEVEL = "proof"
PROPS = ["MV/Props/C11.lean", "MV/Props/C11b.lean"]
ASSUMPTIONS = [
    "theorems are about MV/Model/Sweep2.lean (exact integer coordinates): fill rules on all integers, EmitBoundary = coboundary of the fill indicator for every "
    "status column, PolySet2 canonical form / permutation, reversal and operand-order invariance, MergeVerticals1D coverage, closed walks for every tie-breaking rule; "
    "tied to the C++ (i) by the translator tools/extract_windrule.py, which regenerates MV/Gen/WindRule.lean from IsInside, Boolean2D, ApplyFillRule and EmitBoundary on "
    "every run (theorem gen_eq_model re-proved), (ii) by driving the real IsInside / EmitBoundary / SweepPass::ProcessEvent / PolySetAdd / MergeVerticals1D / "
    "OutEdgesToPolygons on random inputs and comparing with the model exactly",
    "NOT proved: that the floating-point sweep keeps the status in geometric order (Bentley-Ottmann completeness under rounding, block rule), MergeVerts / incidence "
    "pre-split, PushSimpleLoops simplicity; these are covered only by the oracles on the real outputs: pixel semantics on lattice programs (exact), long-double "
    "winding-number oracle at points farther than 10*max(eps, tolerance) from every input and output edge, segment-crossing test on the output",
    "C11b (arrangement pass): MV/Model/Arrange2.lean transliterates SweepPass (PendingAdd, Classify, GradientLess, EmitBoundary, SplitAt, OnInterior, TestPair, ProcessEvent, "
    "Run, both modes) over order-only coordinates with the three floating-point kernels (YAtX comparison, gradient cross-product sign, constructed crossing point) as oracle "
    "arguments; proved for every oracle, status and event: adjacency_complete (every new neighbour pair, at the bottom, middle or top of the status, leaves the event point "
    "together or is passed to TestPair), status_sorted_invariant, events_processed_in_order (while every constructed crossing lies after its event: the model's `ahead` flag, "
    "recomputed per replayed run), no_missed_crossing_partial (combinatorial half). Tie: the MANIFOLD_VERIF hook onSweep2 records every pass of the REAL SweepPass "
    "(status before/after, lo hi k, Sides, TestPair and SplitAt calls); the model replays it with the kernels' answers taken from the record (ranks for coordinates) and must "
    "reproduce every status, every TestPair call, events_/pending_ sizes and out_ exactly. Decided per run, not proved: that GradientLess is a strict weak order on each "
    "re-inserted block (so that std::stable_sort = the model's stable insertion sort), that crossings are ahead of the sweep; NOT carried: the geometric half of Bentley-Ottmann "
    "(crossing edges become adjacent before their crossing) and the numerical quality of Intersect/Interpolate",
    "the pinned API has no FillRule enum: construction reads Positive (constructors, Warp) or EvenOdd (CrossSection::EvenOdd); NonZero/Negative do not exist; "
    "the internal Intersect rule (w > 1) is exercised through boolean2.h ApplyFillRule",
]

ROOT = core.ROOT


def translate(ctx):
    p = core.sh([sys.executable, os.path.join(ROOT, "tools", "extract_windrule.py")], env={"VERIF_REPO": core.REPO})
    if p.returncode != 0:
        rp = core.write_replay(ctx.pid, "translator", {"broken": "tools/extract_windrule.py could not translate IsInside / Boolean2D / ApplyFillRule / EmitBoundary",
                                                      "stderr": p.stderr[-3000:]})
        raise core.Violation("the source no longer has the shape the C11 translator understands: " + p.stderr.strip()[-300:], rp, no_input=True)
    return open(os.path.join(core.LEAN, "MV", "Gen", "WindRule.lean")).read()


def build_harness(var):
    libs.build(var)
    return core.compile_harness("c11_cross", [os.path.join(ROOT, "harness", "c11_cross.cpp")], libs.cxx_flags(var), libs=libs.link_flags(var),
                                out_name="c11_cross_" + var)


def build_arrange(var):
    libs.build(var)
    return core.compile_harness("c11b_arrange", [os.path.join(ROOT, "harness", "c11b_arrange.cpp")], libs.cxx_flags(var), libs=libs.link_flags(var),
                                out_name="c11b_arrange_" + var)


def first_diff_event(c):
    """the first event record on which the model's replay and the recorded run of the real SweepPass differ"""
    ea, ma = c["exp"].split(" # "), c.get("model", "").split(" # ")
    for i, (x, y) in enumerate(zip(ea, ma)):
        if x != y:
            return {"record_index": i, "what": "header (ahead drained nEvents)" if i == 0 else "event %d of the pass (format: p : lo hi k : Sides : status after insertion : TestPair i j : tested seq pairs : status at exit : |events_| |pending_|)" % i,
                    "implementation": core.clip(x, 1500), "model": core.clip(y, 1500)}
    return {"record_index": min(len(ea), len(ma)), "what": "number of records differs", "implementation": len(ea), "model": len(ma)}


def arrange_search(ctx, c):
    """model != implementation on a sweep pass: look for an input on which the real arrangement pass violates the property
    (output pieces cross / ray-crossing number changed), first among more cases of the same generators, then end to end."""
    ev = first_diff_event(c)
    try:
        exe = build_arrange("ser")
        cs, _ = cases.run_case_harness(ctx, exe, [4000, 200], timeout=3000)
    except core.BuildBroken:
        cs = []
    bad = [x for x in cs if not x["prop"].startswith("ok")]
    if bad:
        b = min(bad, key=lambda x: len(x["req"]))
        return {"broken_correspondence": "SweepPass event/status machine vs MV.Arr2", "diverging_case": c["tag"], "diverging_event": ev, "seed": ctx.seed,
                "failing_case": b["tag"], "oracle": b["prop"], "request": b["req"], "implementation": b["exp"],
                "rerun": "VERIF_SEED=%d build/h/c11b_arrange_ser 4000 200 | grep -A3 '%s '" % (ctx.seed, b["tag"].split()[0])}
    rp = oracle_search(ctx, "SweepPass event/status machine differs from MV.Arr2 at " + c["tag"])
    if rp:
        import json
        r = json.load(open(rp))
        r["diverging_case"], r["diverging_event"] = c["tag"], ev
        return r
    core.write_replay(ctx.pid, "correspondence-arrange-event", {"case": c["tag"], "diverging_event": ev, "request": c["req"]})
    return None


def oracle_search(ctx, broken):
    """DESIGN.md section 3, 'Search': gate 1 broke (translator / proofs). Run the property oracles of the harness on the
    real code alone (no model involved); a failing case is the concrete input of the violation."""
    try:
        exe = build_harness("ser")
        cs, _ = cases.run_case_harness(ctx, exe, [150, 250, 400, 3], timeout=3000)
    except core.BuildBroken:
        return None
    bad = [c for c in cs if not c["prop"].startswith("ok")]
    if not bad:
        return None
    c = bad[0]
    return core.write_replay(ctx.pid, "violation-after-broken-proof-gate",
                             {"broken_gate": broken, "case": c["tag"], "seed": ctx.seed, "request": c["req"], "implementation": c["exp"], "oracle": c["prop"],
                              "failing_cases": len(bad), "of": len(cs), "rerun": "VERIF_SEED=%d build/h/c11_cross_ser 150 250 400 3" % ctx.seed})


def replay(ctx):
    """./check.py C11 --replay <file>: re-evaluate the model on the recorded request and show the recorded oracle verdict;
    the concrete input of an oracle failure is inside the verdict text (polygons printed with 17 digits) and the case is
    regenerated by the harness from (seed, counts)."""
    import json
    r = json.load(open(ctx.replay))
    print("case:", r.get("case"))
    if r.get("request"):
        core.lean_build()
        print("request:", core.clip(r["request"], 400))
        print("model now:", core.clip(core.driver_run([r["request"]])[0], 400))
        print("implementation (recorded):", core.clip(r.get("implementation", ""), 400))
    if r.get("oracle"):
        print("oracle (recorded):", r["oracle"])
    print("regenerate: VERIF_SEED=<seed of the run> build/h/c11_cross_ser 150 250 400 3 | grep -A3 '%s'" % (r.get("case", "").split(":")[-1].split()[0] if r.get("case") else ""))
    return {"obligations": 0, "discharged": 0, "checker_cmd": "replay", "trusted_base": core.TRUSTED_BASE, "evaluations": 1, "distinct_nontrivial": 1}


def run(ctx):
    if ctx.replay:
        return replay(ctx)
    try:
        gen = translate(ctx)
        cov = core.proof_gate(ctx.pid, PROPS, ["MV.Props.C11"] if ctx.tier == "thorough" else None)
    except core.Violation as v:
        rp = oracle_search(ctx, v.msg)
        if rp:
            raise core.Violation(v.msg + "; the property oracle then fails on a concrete input of the real code", rp)
        raise
    cov["checker_cmd"] = "python3 tools/extract_windrule.py && cd lean && lake build MV mvdriver && lake env lean <#print axioms for every theorem of MV/Props/C11.lean>"
    cov["trusted_base"] = core.TRUSTED_BASE + ["tools/extract_windrule.py (C++ expression -> Lean term printer)",
                                              "harness/c11b_arrange.cpp (builds the oracle tables by calling the real YAtX / la::cross on the recorded arguments; rank renumbering)",
                                              "the long-double winding-number and segment-crossing oracles in harness/c11_cross.cpp"]
    cov["generated_isInside"] = [l.strip() for l in gen.split("\n") if l.strip().startswith("| .")]
    quick = ctx.tier == "quick"
    variants = ["ser"] if quick else ["ser", "vtbb", "par"]
    total = {"evaluations": 0, "model_vs_impl_compared": 0, "distinct_nontrivial": 0, "kinds": {}, "mismatches": 0, "property_failures": 0}
    stats_all = {}
    samples = []
    samples2 = []
    # C11b: the event/status machine of the real SweepPass (hook onSweep2) replayed by MV.Arr2
    for var in (["ser"] if quick else ["ser", "par"]):
        exe = build_arrange(var)
        cs, stats = cases.run_case_harness(ctx, exe, [400, 40] if quick else [6000, 400], timeout=3000)
        for c in cs:
            c["tag"] = var + ":" + c["tag"]
        # first the replay alone (verdicts of the property oracles set aside), so that a divergence is reported with its event and
        # arrange_search attaches a failing input of the property; then the same cases again with their oracle verdicts
        cases.correspond(ctx, [dict(c, prop="ok") for c in cs], "real SweepPass event/status machine (hook onSweep2) vs MV.Arr2 replay (" + var + ")", search=arrange_search,
                         kind_of=lambda c: "arr2-" + (c["tag"].split()[1] if len(c["tag"].split()) > 1 else "case"))
        c2 = cases.correspond(ctx, cs, "real SweepPass::Run/ProcessEvent/TestPair/SplitAt/PendingAdd (hook onSweep2) vs MV.Arr2 replay (" + var + ")",
                              search=arrange_search, kind_of=lambda c: "arr2-" + (c["tag"].split()[1] if len(c["tag"].split()) > 1 else "case"))
        for k in ("evaluations", "model_vs_impl_compared", "distinct_nontrivial", "mismatches", "property_failures"):
            total[k] += c2[k]
        total["driver_wall_s"] = total.get("driver_wall_s", 0) + c2["driver_wall_s"]
        for k, v in c2["kinds"].items():
            total["kinds"][k] = total["kinds"].get(k, 0) + v
        for k, v in stats.items():
            stats_all["arr2_" + var + "_" + k] = int(v)
        need = ["tip_top", "tip_bottom", "tip_mid", "ins_bottom", "ins_top", "crossings", "oninterior", "forced", "vertical", "windpasses", "libpasses"]
        missing = [k for k in need if int(stats.get(k, 0)) == 0]
        if missing:
            raise core.BuildBroken("the C11b harness produced no event of kind(s) %s" % missing)
        pick = {}
        for c in cs:
            pick.setdefault(c["tag"].split()[1], c)
        samples2 += [{"case": c["tag"], "request": core.clip(c["req"], 160), "answer": core.clip(c["exp"], 100)} for c in list(pick.values())[:4]]
    for var in variants:
        exe = build_harness(var)
        if var == "ser":
            args = [150, 250, 400, 3] if quick else [1500, 3000, 6000, 40]
        elif var == "vtbb":  # virtual TBB: the parallel broad phase / narrow phase above the size thresholds, drawn schedules
            args = [0, 100, 300, 30]
        else:  # real oneTBB
            args = [0, 100, 600, 40]
        cs, stats = cases.run_case_harness(ctx, exe, args, timeout=3000)
        for c in cs:
            c["tag"] = var + ":" + c["tag"]
        c2 = cases.correspond(ctx, cs, "real IsInside/EmitBoundary/ProcessEvent column/PolySetAdd/MergeVerticals1D/OutEdgesToPolygons and lattice Boolean programs vs MV.Sweep2 (" + var + ")",
                              kind_of=lambda c: c["tag"].split()[1].split("-")[0] if len(c["tag"].split()) > 1 else "case")
        for k in ("evaluations", "model_vs_impl_compared", "distinct_nontrivial", "mismatches", "property_failures"):
            total[k] += c2[k]
        total["driver_wall_s"] = total.get("driver_wall_s", 0) + c2["driver_wall_s"]
        for k, v in c2["kinds"].items():
            total["kinds"][k] = total["kinds"].get(k, 0) + v
        for k, v in stats.items():
            stats_all[var + "_" + k] = int(v)
        if not samples:
            pick = {}
            for c in cs:
                pick.setdefault(c["tag"].split()[1].split("-")[0], c)
            samples = [{"case": c["tag"], "request": core.clip(c["req"], 160), "answer": core.clip(c["exp"], 100)} for c in pick.values()]
        import re
        bvh = [int(re.search(r"nin=(\d+)", c["tag"]).group(1)) for c in cs if " bvh-" in c["tag"]]
        total.setdefault("bvh_operand_edges", []).extend(bvh)
        if not any(n >= 1024 for n in bvh):
            raise core.BuildBroken("the harness produced no case with at least 1024 operand edges (BVH broad phase not reached)")
    be = total.pop("bvh_operand_edges", [])
    total["bvh_cases"] = {"count": len(be), "at_least_1024_edges": sum(1 for n in be if n >= 1024), "min_edges": min(be), "max_edges": max(be)}
    cov.update(total)
    cov["oracle_counters"] = stats_all
    cov["library_variants"] = variants
    cov["rule"] = ("unit: every rule x windings -6..6 and +-2^40; EmitBoundary called directly (both hand-over directions) and through ProcessEvent on synthetic status columns "
                   "(under/fan/over blocks, multiplicities up to 2^40); PolySetAdd / MergeVerticals1D on random lattice edge lists with copies and reversals; OutEdgesToPolygons on "
                   "random balanced multigraphs on distinct lattice points. lattice: Boolean/BatchBoolean/Translate/Warp/Rotate(90)/Mirror programs of depth<=6 over integer "
                   "rectangles in [0,8]^2 with reuse of whole sub-programs; distinct = distinct request lines. contours: stars {n/k}, bow-ties, overlapping discs of both orientations, "
                   "collinear-grid rectangles with copies, needles through a near-common point (perturbation 1e-6..1e-15), scribbles, nested rings, near-identical copies "
                   "(rotation 1e-8..1e-15), hashes of thin bars with touching corners, mixtures; scales 1e-3..1e3; Positive / EvenOdd / w>1 construction, binary Booleans, "
                   "BatchBoolean of three, non-affine Warp, Booleans of sheared/rotated/mirrored sections; >1024-edge operands for the BVH broad phase. "
                   "arr2 (C11b): whole passes of the real SweepPass replayed event by event: random lattice segments (shared end points, verticals, collinear overlaps), lattice "
                   "rectangles, rails with a tip (two edges ending, none starting) in the bottom / a middle / the top gap whose neighbours cross beyond the tip, lines through a "
                   "near-common point (1e-3..1e-15), random segments, stars, fans between two rails; driven through CollectArrangement, a hand-seeded SweepPass (shuffled, reversed, "
                   "cancelling Seed calls), CollectThenMeasure (winding pass) and the library's own passes under CrossSection Booleans; distinct = distinct request lines")
    cov["samples"] = samples + samples2
    return cov
