"""C06 - shared Manifolds / CrossSections / ExecutionContexts may be used from many threads:
no data race, no deadlock, the answers of a serial execution."""
import collections, os, re, sys
from concurrent.futures import ThreadPoolExecutor
from vlib import core, cases, libs

sys.path.insert(0, os.path.join(core.ROOT, "tools"))
import c06_trace  # noqa: E402  (decoder of `sync` request lines, used for the replay text)

LEVEL = "proof"
PROPS = ["MV/Props/C06.lean"]
ASSUMPTIONS = [
    "theorems (MV/Props/C06.lean) hold for every trace / schedule / number of threads: monitor_sound (a trace accepted by the vector-clock monitor hbAccept - the very "
    "function mvdriver runs - has every pair of conflicting accesses ordered by happens-before), lockset_sound, lazy_eval_linearizable / _no_deadlock / _mutex (the lock protocol of "
    "GetCsgLeafNode + ToLeafNode on one shared lazy op node, any number of handles and threads), two_lock_no_deadlock / two_lock_mutex (libstdc++ std::lock for two mutexes next to "
    "lock_guards), rank_no_deadlock, reserveIDs_disjoint / reserveIDs_cover / idsAccept_iff",
    "tie: the hook family verif::Sync (src/verif_hooks.h, patches/03) emits every lock_guard / scoped_lock / ConcurrentSharedPtr guard acquisition and release, every read and "
    "write of pNode_, CsgLeafNode::pImpl_/transform_, *CsgOpNode::impl_, cache_, CrossSection::paths_/transform_/tolerance_, and every meshIDCounter_.fetch_add from the REAL "
    "library while 2-8 client threads run generated programs; the merged trace (global sequence number; lock events after the acquire / before the release) goes through hbAccept, "
    "lsAccept (exclusion, claimed guards really held, rank rule pNodeMutex_/pathsMutex_ < op guard < leaf mutex_) and idsAccept in the compiled Lean driver; "
    "a hook site that is missing for a NEW access to one of these fields is not detected by the monitors (field inventory = the grep in checks/c06.py: every textual use of the guarded "
    "members in the four classes must be on a line range covered by a hook, else the check stops with a broken tie)",
    "happens-before = program order + mutex unlock->lock + thread start/join; atomics (ctx_ AtomicLoad/StoreShared, cancel flag, progress counters, meshIDCounter_) never race and are "
    "given NO ordering power (under-approximation: the monitor can only be too strict); memory model below sequential consistency is not modelled",
    "address re-use: the harness renames an address to a fresh id at every alloc event (constructors of Manifold, CsgLeafNode, CsgOpNode, ConcurrentSharedPtr, CrossSection); "
    "acquisitions that cannot be contended are exempt from the rank rule: the mutex of a temporary the thread created inside its current critical section (mode 4, decided by the "
    "harness from the alloc event) and the guard of an op node whose destructor checked impl_.UseCount()==1 (hook kSyncOwned); std::scoped_lock members are mode 2",
    "serial equivalence is an oracle on the real answers, not a theorem about the real code: every answer of every thread (queries, full export hash, copies, assignments, derived "
    "expressions over shared lazy sub-expressions, cross-section operations) is compared with serial executions of the same operations on an identically rebuilt pool: bit-equal for "
    "order-independent values; for values whose MESH legitimately depends on the order in which a serial execution forces shared sub-expressions / draws mesh IDs: equal to the forward, "
    "reverse or started-order serial execution, or the same solid (status, emptiness, genus, volume/area/bounds to 1e-9). In cancellation cases an answer may be the all-or-nothing Cancelled form",
    "ThreadSanitizer (build tsanser: -fsanitize=thread, MANIFOLD_PAR=OFF, hooks not installed) runs the same programs: supporting evidence and failing-schedule search only",
    "library built with MANIFOLD_PAR=OFF for the traces: only client threads exist (TBB worker threads inside one evaluation are property C04/C13's subject)",
]

H = os.path.join(core.ROOT, "harness", "c06_threads.cpp")
GUARDED = {   # field inventory: member -> files in which every textual use must be known to the hook patch
    "pNode_": ["src/manifold.cpp"],
    "cache_": ["src/csg_tree.cpp"],
    "pathsMutex_": ["src/cross_section.cpp"],
}
EXPECTED_USES = {"pNode_": None, "cache_": None, "pathsMutex_": None}


def field_inventory():
    """Count textual uses of the guarded members and the Sync hook calls next to them: a use that is not
    within 12 lines of a verif:: hook / VERIF_ macro is reported (new, unhooked access => broken tie)."""
    bad = []
    counts = {}
    for member, files in GUARDED.items():
        for rel in files:
            path = os.path.join(core.REPO, rel)
            lines = open(path).read().split("\n")
            hook = [i for i, l in enumerate(lines) if "verif::" in l or "VERIF_" in l or "Verif" in l]
            uses = [i for i, l in enumerate(lines) if re.search(r"(?<![A-Za-z_])" + member + r"(?![A-Za-z_])", l) and not l.strip().startswith("//") and "verif" not in l.lower()]
            counts[member] = len(uses)
            for i in uses:
                if not any(abs(i - h) <= 12 for h in hook):
                    bad.append("%s:%d uses %s with no hook nearby: %s" % (rel, i + 1, member, lines[i].strip()[:100]))
    return counts, bad


def tsan_build():
    cm, cx = libs.VARIANTS["tsan"]
    b = core.cmake_variant("tsanser", ["-DMANIFOLD_PAR=OFF", "-DMANIFOLD_CBIND=ON", "-DMANIFOLD_CROSS_SECTION=ON"], cx)
    exe = core.compile_harness("c06_threads", [H], cx + ["-DMANIFOLD_PAR=-1"], out_name="c06_threads_tsan",
                               libs=[os.path.join(b, "src", "libmanifold.a"), "-pthread"])
    return exe


def tsan_run(ctx, exe, n):
    env = {"VERIF_SEED": str(ctx.seed), "VERIF_TIER": ctx.tier, "TSAN_OPTIONS": "halt_on_error=0 exitcode=66 report_signal_unsafe=0"}
    p = core.sh([exe, str(n), "tsan"], env=env, timeout=1500)
    reports = re.findall(r"WARNING: ThreadSanitizer: ([^\n]*)\n(.*?)\nSUMMARY: ThreadSanitizer: ([^\n]*)", p.stderr, re.S)
    return p, reports


def explain(case, verdict):
    """Human-readable account of the first rejected event of a trace."""
    try:
        n, ev = c06_trace.parse(case["req"])
    except Exception as e:  # pragma: no cover
        return "undecodable trace: %s" % e
    out = {}
    for key in ("hb", "ls"):
        m = re.search(key + r"=(?:race|bad)@(\d+)", verdict)
        if m:
            out[key] = c06_trace.describe(ev, int(m.group(1)), 8).split("\n")
    return out


def run(ctx):
    counts, unhooked = field_inventory()
    if unhooked:
        raise core.BuildBroken("field inventory: accesses to guarded members without a Sync hook (the trace would be incomplete):\n" + "\n".join(unhooked))
    with ThreadPoolExecutor(max_workers=3) as ex:
        fser = ex.submit(lambda: (libs.build("ser"), core.compile_harness("c06_threads", [H], libs.cxx_flags("ser"), libs=libs.link_flags("ser")))[1])
        ftsan = ex.submit(tsan_build)
        cov = core.proof_gate(ctx.pid, PROPS, ["MV.Props.C06"] if ctx.tier == "thorough" else None)
        exe = fser.result()
        exe_tsan = ftsan.result()
    cov["checker_cmd"] = "cd lean && lake build MV mvdriver && lake env lean <#print axioms for every theorem of MV/Props/C06.lean>"
    cov["trusted_base"] = core.TRUSTED_BASE + [
        "the hook patch (verif::Sync sites) and the harness' trace merge / address renaming / private-lock classification",
        "ThreadSanitizer (gcc 12 libtsan) for the supporting runs"]
    ncases = 60 if ctx.tier == "quick" else 600
    cs, stats = cases.run_case_harness(ctx, exe, [ncases, "trace"], timeout=1500)
    # ---- gates 2 + 3: every trace through the Lean monitors; serial-equivalence oracle of the harness
    reqs = [c for c in cs if c["req"]]
    ans = core.driver_run([c["req"] for c in reqs])
    rejected = []
    for c, a in zip(reqs, ans):
        c["model"] = a
        if a.strip() != c["exp"].strip():
            rejected.append(c)
    propfail = [c for c in cs if not c["prop"].startswith("ok")]
    kinds = collections.Counter(c["tag"].split()[1] for c in cs)
    threads = collections.Counter(re.search(r"threads=(\d+)", c["tag"]).group(1) for c in cs)
    cov.update({"evaluations": len(cs), "model_vs_impl_compared": len(reqs), "distinct_nontrivial": len({core.digest(c["req"]) for c in reqs if int(c["exp"].rsplit("=", 1)[1]) > 200}),
                "kinds": dict(kinds), "threads_histogram": dict(threads), "harness_stats": stats, "traces_rejected": len(rejected), "property_failures": len(propfail),
                "guarded_member_uses": counts})
    tsan_reports = None
    if rejected or propfail or ctx.tier == "thorough":
        p, tsan_reports = tsan_run(ctx, exe_tsan, 12 if ctx.tier == "quick" else 40)
    else:
        p, tsan_reports = tsan_run(ctx, exe_tsan, 6)
    cov["tsan_reports"] = len(tsan_reports)
    cov["tsan_summaries"] = sorted({r[2][:200] for r in tsan_reports})[:10]
    if rejected:
        c = min(rejected, key=lambda c: len(c["req"]))
        why = explain(c, c["model"])
        kind = "data-race" if "hb=race" in c["model"] else "lock-discipline" if "ls=bad" in c["model"] else "id-ranges" if "ids=overlap" in c["model"] else "cache-published-twice"
        idx = re.search(r"c(\d+) ", c["tag"] + " ").group(1)
        replay = {"what": "the verified monitors reject a synchronisation trace recorded from the real library", "case": c["tag"], "verdict": c["model"], "expected": c["exp"],
                  "first_rejected_event": why, "rejected_cases": [(r["tag"], r["model"]) for r in rejected[:30]],
                  "reproduce": "VERIF_SEED=%d build/h/c06_threads %d trace %s   (schedule dependent: repeat)" % (ctx.seed, ncases, idx),
                  "tsan": [{"kind": r[0], "summary": r[2], "report": r[1][:3000]} for r in tsan_reports[:3]],
                  "request": core.clip(c["req"], 4000)}
        ctx.finding(kind + "-" + ("tsan-confirmed" if tsan_reports else "trace-only"), "the %s monitor rejects the trace of %s (%d of %d traces rejected): %s" %
                    (kind, c["tag"], len(rejected), len(reqs), c["model"]), replay)
    for c in propfail:
        key = "serial-equivalence-" + c["tag"].split()[1]
        ctx.finding(key, "property oracle failed on %s: %s" % (c["tag"], c["prop"]),
                    {"what": "an answer of a concurrently running thread is not the answer of a serial execution", "case": c["tag"], "oracle": c["prop"],
                     "reproduce": "VERIF_SEED=%d build/h/c06_threads %d trace %s" % (ctx.seed, ncases, re.search(r"c(\d+) ", c["tag"] + " ").group(1))})
    if tsan_reports:
        r = tsan_reports[0]
        ctx.finding("tsan-" + re.sub(r"[^A-Za-z0-9]+", "-", r[2])[:60], "ThreadSanitizer reports %d problem(s) in the multi-threaded client programs, e.g. %s" % (len(tsan_reports), r[2][:300]),
                    {"what": "ThreadSanitizer report (the report is the failing schedule)", "kind": r[0], "summary": r[2], "report": r[1][:6000],
                     "reproduce": "VERIF_SEED=%d TSAN_OPTIONS=halt_on_error=0 build/h/c06_threads_tsan 40 tsan" % ctx.seed})
    cov["exhaustive"] = False
    cov["rule"] = ("per case: a pool of 3-5 primitive Manifolds (some with a pending transform), 3-7 lazy expressions over them (Booleans of earlier entries, transformed copies sharing impl_, "
                   "plain copies sharing pNode_, nested sharing), 4-9 CrossSections with pending transforms and Booleans, one ExecutionContext per thread; 2-8 threads, each a random program of "
                   "4-11 (thorough 6-17) operations: query/export/copy/assign of shared objects, derived expressions over shared lazy sub-expressions (evaluated, evaluated through a context, or "
                   "dropped unevaluated), Status through a context, Progress/Cancelled polling and Cancel of ANOTHER thread's context, cancellation injected at the k-th IsCancelled poll, "
                   "ReserveIDs, cross-section copy/assign/Boolean/BatchBoolean/Hull/Offset/Simplify/Decompose/SetTolerance; kinds plain / cross (cross-section heavy) / cancel; generic-position "
                   "geometry; distinct_nontrivial = distinct traces with more than 200 events")
    cov["samples"] = [{"case": c["tag"], "request": core.clip(c["req"], 160), "answer": c.get("model", "")} for c in cs[:3]]
    return cov
