"""C12 - Offset, Hull, Decompose and Simplify of CrossSections mean what they say."""
import os
from concurrent.futures import ThreadPoolExecutor
from vlib import core, cases, libs

LEVEL = "proof"
PROPS = ["MV/Props/C12.lean"]
ASSUMPTIONS = [
    "theorems are about MV/Model/CrossOps.lean, ONE Scalar-polymorphic definition per C++ function, at the instance of an arbitrary linearly ordered field "
    "(exact arithmetic, MV/Proof/CrossOpsField.lean): HullImpl (sort + two monotone chains + the CCW(...,0) <= 0 pop) returns a strictly convex counter-clockwise ring of input "
    "points with every input point on the inner side of every edge; SimplifyRing returns an in-order sublist and stops only with <= 3 vertices or with every live vertex "
    "at squared deviation >= tol^2 from the line through its current neighbours (heap invariant: a current-stamp entry with the current deviation for every live vertex); "
    "DecomposeByContainment: every positive ring seeds exactly one component, a hole is attached to at most one, no ring is duplicated, areas add up (for every outcome of the "
    "geometric tests, which are arguments); MiterPoint / square cap / round samples / bevel endpoints lie on the offset lines resp. within the miter-limit distance for unit normals",
    "tied to the C++ by running the REAL functions (src/cross_section.cpp and src/boolean2_offset.cpp are #included into harness/c12_crossops.cpp so that the anonymous-namespace "
    "functions HullImpl, SimplifyRing, OffsetContour, MiterPoint, AppendSquareJoin, AppendRoundJoin, OutwardNormal, PointInRing are called directly) and the same model definitions "
    "at Float in the compiled driver on the same inputs: every vertex compared as an IEEE-754 bit pattern, structure exactly",
    "NOT proved (decided per run by the oracles on the real outputs only): offset_distance_partial and offset_monotone_partial (analysis over arcs and the Positive fill rule: the final "
    "ApplyFillRule belongs to C11), the effect of rounding on the hull/deviation predicates (the theorems are exact-arithmetic statements; the harness checks lattice inputs exactly "
    "and double inputs with a rounding allowance computed from the operands), fdlibm-derived sind/cosd/acos (the sampled rotations of a round join are inputs of the model; "
    "the harness replicates only the six-line angle schedule of AppendRoundJoin with the real degrees/cosd/sind), FilterSmallContours, NaN/overflowing coordinates",
    "oracles classify sample points only when farther than max(1e-7*scale, 10*tolerance) from the input boundary, the output boundary and every band edge",
]

H = os.path.join(core.ROOT, "harness", "c12_crossops.cpp")


def build_harness():
    libs.build("ser")
    return core.compile_harness("c12_crossops", [H], libs.cxx_flags("ser") + ["-Wno-unused-function"], libs=libs.link_flags("ser"))


def sizes(ctx):
    return [800, 300, 150] if ctx.tier == "quick" else [20000, 15000, 6000]


def oracle_search(ctx, broken):
    """Gate 1 or 2 broke: run the property oracles of the harness on the real code alone; a failing case is the concrete input."""
    try:
        exe = build_harness()
        cs, _ = cases.run_case_harness(ctx, exe, [400, 250, 150], timeout=3000)
    except (core.BuildBroken, core.Violation):
        return None
    bad = [c for c in cs if not c["prop"].startswith("ok")]
    if not bad:
        return None
    c = bad[0]
    return core.write_replay(ctx.pid, "violation-after-broken-gate",
                             {"broken_gate": broken, "case": c["tag"], "seed": ctx.seed, "request": c["req"], "implementation": c["exp"], "oracle": c["prop"],
                              "failing_cases": len(bad), "of": len(cs), "rerun": "VERIF_SEED=%d build/h/c12_crossops 400 250 150" % ctx.seed})


def replay(ctx):
    import json
    r = json.load(open(ctx.replay))
    print("case:", r.get("case"))
    if r.get("request"):
        core.lean_build()
        print("request:", core.clip(r["request"], 400))
        print("model now:", core.clip(core.driver_run([r["request"]])[0], 400))
        print("implementation (recorded):", core.clip(r.get("implementation") or "", 400))
    if r.get("oracle"):
        print("oracle (recorded):", r["oracle"])
    print("regenerate: VERIF_SEED=<seed of the run> build/h/c12_crossops <nUnit> <nOffset> <nApi> | grep -A3 '<case tag>'")
    return {"obligations": 0, "discharged": 0, "checker_cmd": "replay", "trusted_base": core.TRUSTED_BASE, "evaluations": 1, "distinct_nontrivial": 1}


def run(ctx):
    if ctx.replay:
        return replay(ctx)
    with ThreadPoolExecutor(max_workers=1) as ex:
        fexe = ex.submit(build_harness)
        try:
            cov = core.proof_gate(ctx.pid, PROPS, ["MV.Props.C12"] if ctx.tier == "thorough" else None)
        except core.Violation as v:
            try:
                fexe.result()
            except Exception:
                pass
            rp = oracle_search(ctx, v.msg)
            if rp:
                raise core.Violation(v.msg + "; the property oracle then fails on a concrete input of the real code", rp)
            raise
        exe = fexe.result()
    cov["checker_cmd"] = "cd lean && lake build MV mvdriver && lake env lean <#print axioms for every theorem of MV/Props/C12.lean>"
    cov["trusted_base"] = core.TRUSTED_BASE + ["the long-double signed-distance / winding / crossing oracles and the exact int64 hull oracle in harness/c12_crossops.cpp",
                                              "Lean Float = C double on this machine (sqrt, frexp/ldexp, + - * /): checked bitwise on every case"]
    cs, stats = cases.run_case_harness(ctx, exe, sizes(ctx), timeout=3000)

    def kind(c):
        w = c["tag"].split()
        return w[1].split("-")[0] if len(w) > 1 else "case"

    def search(ctx_, c):
        bad = [x for x in cs if not x["prop"].startswith("ok")]
        if bad:
            b = bad[0]
            return {"case": b["tag"], "request": b["req"], "implementation": b["exp"], "oracle": b["prop"], "after": "model/implementation mismatch on " + c["tag"]}
        rp_case = oracle_search(ctx_, "correspondence: " + c["tag"])
        if rp_case:
            import json
            return json.load(open(rp_case))
        return None

    c2 = cases.correspond(ctx, cs, "real HullImpl / SimplifyRing / DecomposeByContainment / OffsetContour / joins / primitives vs MV.CrossOps at Float", search=search, kind_of=kind)
    cov.update(c2)
    cov["oracle_counters"] = {k: int(v) for k, v in stats.items()}
    need = {"hull_exact": 10, "hull_band": 10, "simplify_removed": 50, "simplify_break_exit": 5, "decompose_forest": 5, "offset_samples": 2000, "monotone_samples": 500,
            "contour_round": 3, "contour_miter": 3, "contour_square": 3, "contour_bevel": 3, "offset_pos": 5, "offset_neg": 5}
    low = {k: int(stats.get(k, 0)) for k, v in need.items() if int(stats.get(k, 0)) < v}
    if low:
        raise core.BuildBroken("the harness did not reach the required coverage: %s" % low)
    pick = {}
    for c in cs:
        pick.setdefault(kind(c), c)
    cov["samples"] = [{"case": c["tag"], "request": core.clip(c["req"], 160), "answer": core.clip(c["exp"], 100)} for c in pick.values()]
    cov["exhaustive"] = False
    cov["rule"] = ("distinct = distinct request lines of the model-vs-implementation cases. hull: dense/sparse integer lattices (duplicates, collinear runs, square boundaries), "
                   "random doubles 2^-20..2^20, points on circles, clusters of radius 2^-5..2^-45, nearly collinear doubles, many copies of one point, +-0, NaN/inf, fewer than 3 points, "
                   "plus CrossSection::Hull(points / polygons). simplify: circles, star-shaped noise, rectangles with collinear runs, radial noise 2^-3..2^-40, lattice scribbles "
                   "(exact ties), duplicated and nearly duplicated vertices, rings of <= 3 vertices, tolerances 0, 2^-50..3 x scale, negative, infinite, plus CrossSection::Simplify on "
                   "regularised and offset sections. decompose: forests of nested discs (depth <= 4, up to 4 roots, shuffled order) with the expected partition, raw inputs with orphan holes, "
                   "positive-in-positive, slivers, rings with < 3 vertices, identical and touching lattice squares, plus CrossSection::Decompose. joins: unit normals equal / opposite / "
                   "perpendicular / nearly opposite (2^-3..2^-30), +-delta. OffsetContour: convex, star (reflex, spikes), collinear, L, needle and exact-reversal spike, lattice scribble, "
                   "zero-length edges; 4 join types, +-delta incl. 0, miter limits valid / < 2 / NaN / inf, 3..40 segments. Offset (public): convex, star, L, holed, two pieces, needle, "
                   "collinear, ring with island, union minus disc; rotated/translated; |delta| 0.5%..60% of the size, both signs; signed-distance oracle, edge-dilation containment, "
                   "miter-limit bound, winding 0/1, crossing-freeness, monotonicity against a second delta (same sign beyond the chordal factor, across zero, against the input)")
    return cov
