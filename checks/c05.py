"""C05 - Manifolds and CrossSections are values: deriving new ones never changes old ones."""
import collections, json, os, re
from vlib import core, cases, libs, shrink

LEVEL = "proof"
PROPS = ["MV/Props/C05.lean"]
ASSUMPTIONS = [
    "proved for ALL event traces (MV/Props/C05.lean over MV/Model/Cow.lean, the reference-counted buffer heap of Vec<T,true>): on every trace accepted by the monitor "
    "(no use after free, write/resize only with stored count 1) the stored count of every buffer equals the number of live handles (rc_counts_handles), an event never changes the observation "
    "of a handle it does not act on (cow_safe, observe_constant, cow_safe_trace), makeUnique/share/clone/move/write/free specifications, MakeUnique's real body (clone; free; move) refines the atomic event "
    "(makeUnique_refines), and a write at count 2 does change the other handle (monitor_complete_counterexample). Object level: materialise_observationally_pure under the explicit hypothesis that "
    "every getter commutes with materialise; the hypothesis holds for the Manifold leaf (every getter is GetImpl()->...), and is refuted for the pinned CrossSection::GetTolerance (defect 12)",
    "tie (every run): the MANIFOLD_VERIF hook onVecEvent reports every alloc/share/clone/release/move/MakeUnique of a SharedVec and the first mutable access per handle per epoch "
    "(shadowed operator[]/begin/end/front/back/data and every AssertUnique site); the stream of each API program goes through the compiled monitor, which also compares the real buffer identity and the real "
    "atomic counter with the model's after every event",
    "PARTIAL: that nothing outside SharedVec is shared mutably (shared_ptr<const Impl>, shared_ptr<const PathImpl>, CsgOpNode caches, collider, mesh relation) is not modelled; for those the property is decided per run "
    "by re-observing every live object (all public getters, shuffled order, bitwise) after every step of seeded histories, including copies, assignments, moves, destruction, in-place operators and deferred first observation",
    "the Vec hook sees mutable access through the Vec object only; a VecView obtained by view()/conversion before a share would bypass it (no such use of start_/paired_/propVert_ exists: scanned every run)",
]

# Impl methods that promise copy-on-write safety by calling halfedge_.MakeUnique() (pinned tree)
EXPECTED_MAKEUNIQUE = {"Subdivide", "SortGeometry", "CleanupTopology", "SimplifyTopology", "SimplifyTopology2", "DedupePropVerts", "MakeEmpty", "Transform", "SetNormals", "Refine"}


def scan_sources():
    src = os.path.join(core.REPO, "src")
    sites, direct = [], []
    for f in sorted(os.listdir(src)):
        if not (f.endswith(".cpp") or f.endswith(".h")):
            continue
        fn = None
        for i, line in enumerate(open(os.path.join(src, f), errors="replace"), 1):
            m = re.match(r"^[A-Za-z].*?\b(?:Manifold::Impl::)?([A-Za-z0-9_]+)\s*\($", line.rstrip()) or re.match(r"^[A-Za-z].*?\bManifold::Impl::([A-Za-z0-9_]+)\s*\(", line)
            if m:
                fn = m.group(1)
            if "halfedge_.MakeUnique()" in line:
                sites.append((f, i, fn))
            if f not in ("shared.h", "boolean2_diagnostics.h") and re.search(r"\b(start_|paired_|propVert_)\b", line.split("//")[0]):
                direct.append("%s:%d" % (f, i))
    return sites, direct


def evaluate(cs):
    """-> list of (case, why, key) for one harness output (monitor + re-observation)."""
    bad = []
    reqs = [c for c in cs if c["req"]]
    for c in reqs:
        if "crashed=1" in c["tag"]:   # stream handed over by a crashing child: keep whole events only
            t = c["req"].split()
            c["req"] = " ".join(t[:1 + 5 * ((len(t) - 1) // 5)])
    ans = core.driver_run([c["req"] for c in reqs]) if reqs else []
    for c, a in zip(reqs, ans):
        c["model"] = a
        if a.strip() != c["exp"].strip():
            m = re.match(r"rejected (\d+) (\S+) (\S+)", a)
            bad.append((c, "copy-on-write monitor: %s" % a, "monitor-%s-%s" % (c["tag"].split()[1], (m.group(3) if m else a).split("=")[0].replace(":", "-"))))
    for c in cs:
        if not c["prop"].startswith("ok"):
            m = re.search(r"changed: (\S+) was", c["prop"]) or re.search(r"Impl::(\S+) on an Impl", c["prop"])
            bad.append((c, c["prop"], "%s-%s" % (c["tag"].split()[1], m.group(1) if m else "changed")))
    return bad


def run(ctx):
    cov = core.proof_gate(ctx.pid, PROPS, ["MV.Props.C05"] if ctx.tier == "thorough" else None)
    cov["checker_cmd"] = "cd lean && lake build MV mvdriver && lake env lean <#print axioms for every theorem of MV/Props/C05.lean>"
    cov["trusted_base"] = core.TRUSTED_BASE + ["MANIFOLD_VERIF hook onVecEvent in src/vec.h (patches/hook_C05_vec.diff)"]
    libs.build("ser")
    exe = core.compile_harness("c05_values", [os.path.join(core.ROOT, "harness", "c05_values.cpp")], libs.cxx_flags("ser"), libs=libs.link_flags("ser"))
    wd = os.path.join(core.OUT, "shrink")

    def shrink_and_report(steps, key, why, c):
        want = key

        def fails(rc, cs2):
            if rc != 0:
                return key.startswith("crash")
            return any(k == want for _, _, k in evaluate(cs2))
        small = shrink.shrink(exe, steps, fails, wd) if steps else []
        live = [s for s in small if not s.startswith("tets ") and not s.startswith("kind ")]
        ctx.finding(key, "C05 violated: %s" % why, {"why": why, "case": c["tag"] if c else None, "program": small, "essential_steps": live,
                                                   "replay_cmd": "VERIF_REPO=%s build/h/c05_values 0 0 <file with the program lines>; ./check.py C05 --replay <this file>" % core.REPO})

    if ctx.replay:
        prog = json.load(open(ctx.replay)).get("program", [])
        rc, cs0, _ = shrink.replay(exe, prog, wd)
        bad = evaluate(cs0)
        if rc != 0 or bad:
            rp = core.write_replay(ctx.pid, "replayed", {"program": prog, "rc": rc, "failing": [w for _, w, _ in bad]})
            raise core.Violation("replayed history still fails: %s" % (bad[0][1] if bad else "crash rc=%d" % rc), rp)
        cov.update({"evaluations": len(cs0), "distinct_nontrivial": len(cs0), "replayed": ctx.replay})
        return cov

    # corpus of minimised past failures first
    corpus_dir = os.path.join(core.ROOT, "corpus", "C05")
    ncorpus = 0
    for f in sorted(os.listdir(corpus_dir)) if os.path.isdir(corpus_dir) else []:
        steps = [l.strip() for l in open(os.path.join(corpus_dir, f)) if l.strip()]
        rc, cs0, _ = shrink.replay(exe, steps, wd)
        ncorpus += 1
        for c, why, key in evaluate(cs0):
            ctx.finding(key, "corpus history %s fails again: %s" % (f, why), {"program": steps, "why": why})
        if rc != 0:
            ctx.finding("crash-corpus-" + f, "corpus history %s crashes" % f, {"program": steps, "rc": rc})

    PM, LM, PX, LX = (16, 30, 24, 40) if ctx.tier == "quick" else (120, 80, 160, 100)
    PL, LL = (250, 12) if ctx.tier == "quick" else (2500, 14)
    p = core.sh([exe, str(PM), str(LM), str(PX), str(LX), str(PL), str(LL)], env={"VERIF_SEED": str(ctx.seed), "VERIF_TIER": ctx.tier}, timeout=7200)
    if p.returncode != 0:
        rp = core.write_replay(ctx.pid, "harness-crash", {"rc": p.returncode, "stderr_tail": p.stderr[-3000:]})
        raise core.Violation("c05_values itself failed (rc=%d)" % p.returncode, rp)
    prog = collections.defaultdict(dict)
    for m in re.finditer(r"^PROG (\w+)\.(\d+) (.*)$", p.stdout, re.M):
        prog[m.group(1)][int(m.group(2))] = m.group(3)
    cs, _ = core.parse_cases(p.stdout)
    ops = collections.Counter()
    for m in re.finditer(r"^OPS (.*)$", p.stdout, re.M):
        for kv in m.group(1).split():
            k, _, v = kv.partition("=")
            ops[k] += int(v)
    # A crash of the real library in the middle of a history is not by itself a change of an existing value (it is C01/C09's
    # business); the child hands over the event stream recorded up to the crash, and the monitor's verdict on it decides:
    # a write to a shared buffer is reported before it happens. Crashes with an accepted prefix are listed as inconclusive.
    crashes = re.findall(r"^CRASH (\w+) (-?\d+)", p.stdout, re.M)
    inconclusive = []
    for tag, sig in crashes:
        steps = [prog[tag][k] for k in sorted(prog[tag])] if tag in prog else []
        inconclusive.append({"history": tag, "status": sig, "last_step": steps[-1] if steps else None})
        print("INCONCLUSIVE: history %s crashed the library (status %s) at `%s`; partial event stream checked by the monitor" % (tag, sig, steps[-1] if steps else "?"))
    bad = evaluate(cs)
    internal = [(c, why, key) for c, why, key in bad if c["tag"].split()[1] == "impl"]
    for c, why, key in bad:
        if c["tag"].split()[1] == "impl":
            continue
        tag = c["tag"].split()[0]
        steps = [prog[tag][k] for k in sorted(prog[tag])] if tag in prog else []
        m = re.search(r"after step (\d+) \(", why)
        if m and steps:
            steps = steps[:int(m.group(1)) + 1]
        shrink_and_report(steps, key, why, c)

    if internal:
        # no public history was affected: the Impl-level contract "a method that writes halfedge_ makes it unique first" is broken in a
        # sharing state that only Impl::Transform creates; reported without a public failing input
        rp = core.write_replay(ctx.pid, "violation-impl-sharing", {"broken": "Impl-level copy-on-write contract (harness/c05_values.cpp, family `impl`): the method was run on an Impl whose halfedge "
                                                                   "buffers are shared with a second Impl by Halfedges copy-assignment (what Impl::Transform does)",
                                                                   "failing": [{"case": c["tag"], "why": why} for c, why, _ in internal],
                                                                   "replay_cmd": "VERIF_REPO=%s build/h/c05_values 0 0 0 0   (runs only the impl family)" % core.REPO})
        raise core.Violation("C05: %d Impl-level sharing case(s) fail, e.g. %s: %s" % (len(internal), internal[0][0]["tag"].split()[2], internal[0][1]), rp, no_input=True)

    silent = [c["tag"] for c in cs if c["tag"].split()[1] in ("manifold", "impl") and "crashed=1" not in c["tag"] and len(c["req"].split()) < 6]
    if silent:
        rp = core.write_replay(ctx.pid, "tie-no-events", {"broken": "the onVecEvent hook produced no events for these histories (library built without the hook patch or without -DMANIFOLD_VERIF?)", "cases": silent[:20]})
        raise core.Violation("the copy-on-write hook is silent: %d histories produced no SharedVec events" % len(silent), rp, no_input=True)

    stats = collections.Counter()
    for c in cs:
        for kv in c["tag"].split()[2:]:
            k, _, v = kv.partition("=")
            if v.isdigit():
                stats[c["tag"].split()[1] + "_" + k] += int(v)
    reqs = [c for c in cs if c["req"]]
    kinds = collections.Counter(c["tag"].split()[1] for c in cs)

    san = {}
    if ctx.tier == "thorough":
        libs.build("san")
        exe_s = core.compile_harness("c05_values_san", [os.path.join(core.ROOT, "harness", "c05_values.cpp")], libs.cxx_flags("san"), out_name="c05_values_san", libs=libs.link_flags("san"))
        ps = core.sh([exe_s, "30", "40", "40", "60"], env={"VERIF_SEED": str(ctx.seed + 1000), "ASAN_OPTIONS": "detect_leaks=0"}, timeout=7200)
        cs_s, _ = core.parse_cases(ps.stdout)
        prog_s = collections.defaultdict(dict)
        for m in re.finditer(r"^PROG (\w+)\.(\d+) (.*)$", ps.stdout, re.M):
            prog_s[m.group(1)][int(m.group(2))] = m.group(3)
        memerr = re.findall(r"ERROR: AddressSanitizer: (heap-use-after-free|attempting double-free|heap-buffer-overflow|alloc-dealloc-mismatch|attempting free[^\n]*)", ps.stderr)
        for tag, sig in re.findall(r"^CRASH (\w+) (-?\d+)", ps.stdout, re.M):
            steps = [prog_s[tag][k] for k in sorted(prog_s[tag])] if tag in prog_s else []
            if memerr:
                ctx.finding("san-" + memerr[0].split()[0], "AddressSanitizer %s while running history %s" % (memerr[0], tag), {"program": steps, "stderr_tail": ps.stderr[-6000:]})
            else:
                inconclusive.append({"history": "san:" + tag, "status": sig, "last_step": steps[-1] if steps else None})
        for c, why, key in evaluate(cs_s):
            ctx.finding("san-" + key, "C05 violated in the sanitizer build: %s" % why, {"why": why, "case": c["tag"]})
        san = {"san_cases": len(cs_s)}

    # static part of the tie: who promises copy-on-write safety, and nobody reaches the three arrays directly
    sites, direct = scan_sources()
    found = {fn for _, _, fn in sites}
    if found != EXPECTED_MAKEUNIQUE or direct:
        rp = core.write_replay(ctx.pid, "tie-makeunique-sites", {"broken": "the set of functions calling halfedge_.MakeUnique() (or direct access to start_/paired_/propVert_) differs from the audited one",
                                                                "missing": sorted(EXPECTED_MAKEUNIQUE - found), "new": sorted(found - EXPECTED_MAKEUNIQUE), "direct_access": direct,
                                                                "sites": ["%s:%d %s" % s for s in sites]})
        raise core.Violation("copy-on-write call sites changed (missing %s, new %s, direct access %s): the impl-level table of harness/c05_values.cpp must be re-audited"
                             % (sorted(EXPECTED_MAKEUNIQUE - found), sorted(found - EXPECTED_MAKEUNIQUE), direct[:5]), rp, no_input=True)

    cov.update({"evaluations": len(cs), "distinct_nontrivial": len({core.digest(c["req"]) for c in reqs}) + kinds.get("cross", 0),
                "histories": dict(kinds), "event_streams_through_monitor": len(reqs), "programs_crashed": len(crashes), "crashed_inconclusive": inconclusive, "corpus_programs": ncorpus,
                "counters": dict(stats), "ops": dict(ops), "makeunique_sites": ["%s:%d %s" % s for s in sites], **san,
                "rule": "manifold histories of %d-%d steps and CrossSection histories of %d-%d steps over pools of <= 24 live objects (one child process each); ~25%% value operations "
                        "(copy, assign over a live slot, move-assign, move-construct, destroy, += -= ^= in place, deferred look), 25%% of results first observed later; every live object re-observed after every step; "
                        "lazy family: %d histories of %d-%d steps made only of lazily evaluated operations (Booleans, batch, transforms, Booleans on temporary transformed views) over generic-position "
                        "primitives with copies/assignments/moves/destructions, pools of <= 9, nothing observed before the end, compared as solids with the eager run of the same program (a crash of the lazy run "
                        "after the eager run completed is a violation); "
                        "impl family: 9 methods x 4 shapes with artificially shared halfedge buffers; distinct = distinct event streams + CrossSection histories" % (LM, 2 * LM, LX, 2 * LX, PL, LL, LL + 12),
                "samples": [{"case": c["tag"], "monitor": c.get("model", "")} for c in cs[:3] + [c for c in cs if " impl " in c["tag"]][:2]]})
    return cov
