"""C08 - MeshGL export and re-import is lossless."""
from vlib import core, cases, exportcheck as xc

LEVEL = "proof"
PROPS = ["MV/Props/C08a.lean", "MV/Props/C08b.lean"]
ASSUMPTIONS = [
    "theorems (exportVerts_eq_spec, merge_restores, merge_restores_manifold, merge_restores_checkmerge, tangent_follows_triangle(_fixed), tangents_zip_corners, faceID_roundtrip, runs_roundtrip, reexport_eq) are about "
    "MV/Model/Export.lean, which models the FIXED exporter (patches/fix_C08_tangents.diff); the pinned behaviour is `exportTangentsPinned` with a proved counter-example; "
    "tied to GetMeshGLImpl by `mvdriver export all` reproducing every integer field / payload hash of the real GetMeshGL64 from the dumped Impl",
    "floats are opaque payloads in the model; that positions / properties / tangents / transforms survive the trip bit for bit, the 32-bit path, the OBJ writer/reader, Merge() after stripping "
    "and Refine(2) before/after are checked by the harness oracle on the real code (exact comparison of canonical triangle multisets), not by theorems",
    "the importer's geometric phases (CleanupTopology, DedupePropVerts, SetNormalsAndCoplanar, Morton SortGeometry) are not modelled: only importRuns / importTris (discrete part); "
    "tolerance non-decrease is oracle-only",
    "GetMeshGL64() re-normalises channels 0..2 when every run hasNormals: those channels are compared within 4 ulp (as the property allows), and are left out of the payload hashes of the model comparison",
]


def run(ctx):
    cov = core.proof_gate(ctx.pid, PROPS, ["MV.Props.C08a", "MV.Props.C08b"] if ctx.tier == "thorough" else None)
    cov["checker_cmd"] = "cd lean && lake build MV mvdriver && lake env lean <#print axioms for every theorem of %s>" % ",".join(PROPS)
    cov["trusted_base"] = core.TRUSTED_BASE + ["`#define private public` access to Manifold::GetCsgLeafNode() in harness/progs.h"]
    cs, stats = xc.build_and_run(ctx, "c08_roundtrip", 350 if ctx.tier == "quick" else 5000)
    cov["checkmerge_verdicts"] = xc.checkmerge(ctx, cs)
    ex = [c for c in cs if xc.kind(c) != "checkmerge"]
    xc.report_findings(ctx, ex, "C08 round-trip oracle on the real code", priority=("tangent", "Refine", "re-export", "re-import"))
    c2 = cases.correspond(ctx, ex, "GetMeshGLImpl (all fields incl. tangent order) vs MV.Export model", search=xc.pinned_search, kind_of=xc.kind)
    cov.update(c2)
    cov["generator"] = stats
    cov["known_findings_hit"] = list(ctx.known_hit)
    cov["rule"] = ("the C07 programs plus CalculateNormals on originals, SmoothOut(angle, smoothness), SmoothOut(), CalculateNormals+SmoothByNormals; every result is exported, re-imported and re-exported "
                   "(64-bit, 32-bit, OBJ, stripped merge vectors + Merge(), Refine(2) for meshes with tangents); every user MeshGL64 the program imported is compared with its own export; "
                   "non-trivial = NoError and non-empty; distinct = distinct request lines")
    cov["samples"] = [{"case": core.clip(c["tag"], 200), "request": core.clip(c["req"], 200), "answer": core.clip(c["exp"], 120)} for c in ex[1:4]]
    return cov
