"""C13 part 2: lock-free containers. The real disjoint_sets.h / hashtable.h are re-compiled on every run
with their atomic accesses routed through a logging, scheduler-controlled shim (source rewriting with
checked substitutions); real threads run the real code one atomic step at a time under a seeded
scheduler; the Lean small-step model replays the same schedule and must produce the same per-step log,
final memory, return values and labelling."""
import os, re, subprocess
from vlib import core


def rewrite(src_path, subs, out_path):
    s = open(src_path).read()
    for pat, rep, minc in subs:
        s, n = re.subn(pat, rep, s)
        if n < minc:
            raise core.BuildBroken("source pattern no longer found in %s: %s (the shim no longer intercepts every atomic access)" % (src_path, pat))
    open(out_path, "w").write(s)


def build(ctx):
    hd = os.path.join(core.BUILD, "h", "shim")
    os.makedirs(hd, exist_ok=True)
    rewrite(os.path.join(core.REPO, "src", "disjoint_sets.h"), [(r"std::vector<std::atomic<uint64_t>>", "std::vector<LogAtomic>", 1)], os.path.join(hd, "ds_shim.h"))
    rewrite(os.path.join(core.REPO, "src", "hashtable.h"), [
        (r"const uint64_t found = AtomicCAS\(k, kOpen, key\);", "const uint64_t found = ShimCAS(k, kOpen, key);", 1),
        (r"AtomicLoad\(keys_\[idx\]\)", "ShimLoad(keys_[idx])", 2),
        (r"used_\.load\(std::memory_order_relaxed\)", "ShimUsedLoad(used_)", 1),
        (r"used_\.fetch_add\(1, std::memory_order_relaxed\);", "ShimFetchAdd(used_);", 1),
        (r"values_\[idx\] = val;", "ShimStore(values_, idx, val);", 1)], os.path.join(hd, "hashtable_shim.h"))
    # any atomic access the rewriting does not know about breaks the tie
    left = open(os.path.join(hd, "ds_shim.h")).read()
    if re.search(r"std::atomic<", left):
        raise core.BuildBroken("disjoint_sets.h has an atomic the shim does not intercept")
    exes = {}
    for name in ("c13_dsu_shim", "c13_hash_shim"):
        exes[name] = core.compile_harness(name, [os.path.join(core.ROOT, "harness", name + ".cpp")], ["-O1", "-pthread", "-DMANIFOLD_PAR=-1", "-I" + hd])
    return exes


def partition(labels):
    first = {}
    return [first.setdefault(l, i) for i, l in enumerate(labels)]


def run(ctx):
    exes = build(ctx)
    nseed = 25 if ctx.tier == "quick" else 300
    reqs, exps, tags, timeouts = [], [], [], 0
    for seed in range(ctx.seed * 1000, ctx.seed * 1000 + nseed):
        for cfg in ("4 3 4", "8 3 12", "12 4 10", "16 2 30", "3 2 3"):
            p = core.sh([exes["c13_dsu_shim"], str(seed)] + cfg.split(), timeout=60)
            l = p.stdout.split("\n")
            reqs.append(l[0]); exps.append(l[1]); tags.append("dsu seed=%d cfg=%s" % (seed, cfg))
        for cfg in ("2 1 3 4 5 id", "3 3 4 4 20 id", "3 1 3 6 30 h64", "2 2 3 4 9 id"):
            try:
                p = core.sh([exes["c13_hash_shim"], str(seed)] + cfg.split(), timeout=20)
            except subprocess.TimeoutExpired:
                timeouts += 1   # operator[] spinning on a full table / even step: liveness is not claimed
                continue
            l = p.stdout.split("\n")
            reqs.append(l[0]); exps.append(l[1]); tags.append("hash seed=%d cfg=%s" % (seed, cfg))
    ans = core.driver_run(reqs)
    steps = 0
    for tag, rq, ex, an in zip(tags, reqs, exps, ans):
        if an.strip() != ex.strip():
            rp = core.write_replay(ctx.pid, "correspondence-containers", {"broken_correspondence": "small-step model vs real container under the same schedule", "case": tag, "request": rq, "model": an, "implementation": ex})
            # property oracle on the implementation's own answer
            bad = prop_fail(tag, ex)
            if bad:
                ctx.finding("container-" + tag.split()[0], bad, {"case": tag, "request": rq, "implementation": ex})
            raise core.Violation("lock-free container model and implementation disagree on %s" % tag, rp, no_input=True)
        bad = prop_fail(tag, ex)
        if bad:
            ctx.finding("container-" + tag.split()[0], bad, {"case": tag, "request": rq, "implementation": ex})
        steps += len(rq.split("sched")[-1].split())
    return {"container_runs": len(reqs), "container_atomic_steps": steps, "hash_livelock_timeouts": timeouts,
            "container_samples": [{"request": core.clip(reqs[0], 200), "answer": core.clip(exps[0], 200)}]}


def prop_fail(tag, ex):
    """The property itself, on the real code's output."""
    if tag.startswith("dsu"):
        m = re.search(r"\| cc (\d+) ([\d ]+) \| seq ([\d ]+)$", ex.strip())
        if not m:
            return None
        cc = [int(x) for x in m.group(2).split()]; sq = [int(x) for x in m.group(3).split()]
        if partition(cc) != partition(sq):
            return "concurrent unite/find partition differs from the sequential partition: cc=%s seq=%s" % (cc, sq)
        if len(set(cc)) != int(m.group(1)):
            return "connectedComponents count differs from the number of labels"
        return None
    # hash: unless some insert returned Full (F), every inserted key is found with a value some inserter wrote for it
    res = ex.split("| res")[1].split("|")[0]
    if " F" in res:
        return None
    look = ex.split("| look")[1].split() if "| look" in ex else []
    for i in range(0, len(look) - 3, 4):
        if look[i + 1] != "1":
            return "inserted key %s not retrievable although no insert reported Full" % look[i]
    return None
