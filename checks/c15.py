"""C15 - cancellation is all-or-nothing at every check; progress is monotone, <= 1, ends at 1."""
import collections, json, os, re, time
from vlib import core, cases, libs

# The headline level is fault enumeration, not proof: the theorems of MV/Props/C15.lean are about a model
# whose cancellation half takes the SHAPE of the C++ as a hypothesis (`guarded`: every ctx-aware loop is followed by
# a check before its output is consumed; the poisoning of cache_) - that shape is tied to the code only by
# injecting Cancel() at the k-th IsCancelled check for every k on real programs. (The pinned Refine violated
# exactly that hypothesis; the enumeration found it, no theorem could have.) The progress half IS proved for all
# interleavings/expressions and is tied by the regenerated constants/site counts/store orders, by running the
# reduction-count model on the same expressions, and by the verified monitor on every real counter stream.
LEVEL = "fault_enumeration"
PROPS = ["MV/Props/C15.lean"]
GEN = os.path.join(core.LEAN, "MV", "Gen", "Phases.lean")
TRANSLATOR = os.path.join(core.ROOT, "tools", "extract_phases.py")
ASSUMPTIONS = [
    "level: fault enumeration supported by partial proofs. Proved for ALL inputs in MV/Props/C15.lean (model MV/Model/Progress.lean): "
    "progress_monotone_le_one (every interleaving of the evaluating thread's atomic counter updates with an observer's two loads, "
    "under the coded reset order and credits within the denominator; the only excluded reader is one that sleeps between its two loads "
    "through a denominator store AND a later credit), tree_reductions_eq_leaves_minus_one, dag_reductions_le_leaves_minus_one, "
    "batchBoolean/batchUnion reductions, boolean_publishes_exactly_k, factory_progress, progress_one_at_end (trees; DAGs with the top-up), "
    "cancel_all_or_nothing (one Impl under the post-loop-check discipline; expressions with poisoned caches), cancelled_stays_cancelled, "
    "fresh_context_reevaluates, monitor_sound",
    "tie of the progress half: tools/extract_phases.py regenerates MV/Gen/Phases.lean from the working tree on every run (kPhasesPer*, "
    "counts of phase(__LINE__) / ADVANCE_PHASE_OR_RETURN sites per function, order of the four counter stores in both resets, "
    "check-before-credit inside ADVANCE_PHASE_OR_RETURN, top-up in GetCsgLeafNode) and phase_sites_match / reset_order_numerators_first / "
    "credit_discipline are re-proved by decide; the model's predicted final counters are compared with the real ones for every tree/DAG "
    "program; every real counter stream (sampled at every IsCancelled check) goes through MV.Progress.progressMonitor (monitor_sound)",
    "tie of the cancellation half: (a) translator tools/extract_cancel.py regenerates MV/Gen/CancelSites.lean (every function running work under a context as a sequence loop / call / check / work) "
    "on every run; cancel_sites_guarded (kernel decide) shows every context-aware loop and in-place call is followed by a later check in its function, up to the reviewed exception lists, and "
    "source_functions_all_or_nothing derives the `guarded` hypothesis of cancel_all_or_nothing for those programs; chunk counts and the exact positions of checks inside loops are not extracted; "
    "(b) the fault enumeration (harness/c15_cancel.cpp). Programs are finite; 'all programs' is sampled, 'every k' is exhaustive "
    "for programs with N <= 400 checks (quick) / 1500 (thorough) and stratified (first/last 50 + one k per stratum) above that",
    "the '=1 after an uncancelled completion' clause is checked for calls on valid operands (status NoError); a static factory that "
    "returns a validation error (e.g. NotManifold) ends below 1 by design of the code and is not in the generated programs",
    "inside Minkowski* every internal batch is its own evaluation (GetCsgLeafNode resets the counters): monotonicity is checked between "
    "resets only (mode `multi`); the resets are inferred from the samples (numerator decreased or denominators changed)",
    "serial library and, in the thorough tier, the parallel code paths under virtual TBB (seeded legal schedules on one thread); "
    "real multi-threaded TBB runs are not enumerated (the hook's check counter would itself race)",
]


def regenerate(ctx):
    """translator: returns (changed, status text); raises Violation when a pattern is no longer found."""
    before = open(GEN).read() if os.path.exists(GEN) else None
    p = core.sh(["python3", TRANSLATOR, "--repo", core.REPO, "--out", GEN])
    if p.returncode != 0:
        rp = core.write_replay(ctx.pid, "translator", {"broken": "tools/extract_phases.py could not find a pattern in the working tree",
                                                       "stderr": p.stderr[-3000:], "repo": core.REPO})
        raise core.Violation("translator failed: %s" % p.stderr.strip()[-400:], rp, no_input=True)
    after = open(GEN).read()
    # second translator: the cancellation discipline of every ctx-running function -> MV/Gen/CancelSites.lean
    gen2 = os.path.join(core.LEAN, "MV", "Gen", "CancelSites.lean")
    before2 = open(gen2).read() if os.path.exists(gen2) else None
    p2 = core.sh(["python3", os.path.join(core.ROOT, "tools", "extract_cancel.py"), core.REPO, gen2])
    if p2.returncode != 0:
        rp = core.write_replay(ctx.pid, "translator-cancel", {"broken": "tools/extract_cancel.py could not read the cancellation sites of the working tree",
                                                              "stderr": p2.stderr[-3000:], "repo": core.REPO})
        raise core.Violation("translator failed: %s" % p2.stderr.strip()[-400:], rp, no_input=True)
    return before != after or before2 != open(gen2).read(), p.stdout.strip() + " ; cancel sites: " + p2.stdout.strip()


def build_harness(variant):
    libs.build(variant)
    return core.compile_harness("c15_cancel", [os.path.join(core.ROOT, "harness", "c15_cancel.cpp")], libs.cxx_flags(variant),
                                out_name="c15_cancel_" + variant, libs=libs.link_flags(variant))


def report(ctx, found, key, text, replay_obj):
    """a property failure on a concrete input: listed in known_findings.txt => KNOWN-FINDING line; otherwise it is
    collected (first example per key, with its own replay file) and raised together at the end of the variant."""
    for k, t in ctx.known:
        if k == key:
            if key not in ctx.known_hit:
                ctx.known_hit.append(key)
                print("KNOWN-FINDING: property=%s %s" % (ctx.pid, t))
            return
    if key in found:
        found[key]["count"] += 1
        return
    rp = core.write_replay(ctx.pid, "violation-" + key, replay_obj)
    found[key] = {"text": text, "replay": rp, "count": 1}


def raise_found(ctx, found):
    if not found:
        return
    for key, f in found.items():
        print("%s   [%d fault point(s), replay=%s]" % (f["text"], f["count"], f["replay"]))
    first = next(iter(found.values()))
    rp = first["replay"]
    if len(found) > 1:
        rp = core.write_replay(ctx.pid, "violations-all", {"violations": [{"key": k, "what": f["text"], "fault_points": f["count"], "replay": f["replay"]} for k, f in found.items()],
                                                           "note": "every entry is a concrete failing input; run ./check.py C15 --replay <entry.replay> for one of them"})
    raise core.Violation("C15: %d distinct violation(s) on concrete inputs" % len(found), rp)


def judge(ctx, cs, variant, cov, proof_broken=None):
    """property oracle (PROP lines + Lean monitor) and model correspondence (csg cases) on one harness run."""
    found = collections.OrderedDict()
    reqs = [c for c in cs if c["req"]]
    ans = core.driver_run([c["req"] for c in reqs])
    for c, a in zip(reqs, ans):
        c["model"] = a.strip()
    def parts(c):
        w = c["tag"].split()
        prog, _, k = w[0].partition(".")
        return prog, k, (w[1] if len(w) > 1 else "case")
    # 1. the harness's own oracle: all-or-nothing, sticky, operands, fresh rebuild
    for c in cs:
        if not c["prop"].startswith("ok"):
            prog, k, kind = parts(c)
            why = c["prop"].split(" ", 1)[-1]
            report(ctx, found, "%s-%s" % (kind, why), "C15 violated on the real code [%s]: program %s, Cancel() at check %s: %s" % (variant, prog, k, why),
                        {"property": "C15", "variant": variant, "program": prog, "k": k, "seed": ctx.seed, "oracle": c["prop"], "case": c["tag"],
                         "progress_stream": core.clip(c["req"], 4000), "replay_cmd": "build/h/c15_cancel_%s --program %s --k %s  (VERIF_SEED=%d)" % (variant, prog, k.lstrip("k") or "0", ctx.seed)})
    # 2. the verified monitor on the real counter streams
    for c in reqs:
        prog, k, kind = parts(c)
        if kind.endswith("-model"):
            continue
        if c["model"] != "ok":
            why = c["model"].replace("bad ", "").replace(" ", "_")
            report(ctx, found, "%s-progress-%s" % (kind, why),
                        "C15 violated on the real code [%s]: Progress() stream of program %s (%s) rejected by the Lean monitor: %s" % (variant, prog, k, c["model"]),
                        {"property": "C15", "variant": variant, "program": prog, "k": k, "seed": ctx.seed, "monitor": c["model"], "case": c["tag"],
                         "progress_stream": core.clip(c["req"], 6000), "replay_cmd": "build/h/c15_cancel_%s --program %s%s  (VERIF_SEED=%d)" % (variant, prog, "" if k == "ref" else " --k " + k.lstrip("k"), ctx.seed)})
    raise_found(ctx, found)
    # 3. reduction-count model vs implementation
    mism = [c for c in reqs if parts(c)[2].endswith("-model") and c["model"] != c["exp"].strip()]
    if mism and not proof_broken:
        c = mism[0]
        rp = core.write_replay(ctx.pid, "correspondence-csg", {"broken_correspondence": "final counters predicted by MV.Progress.csgFinalCounters vs the real ones",
                                                               "variant": variant, "case": c["tag"], "request": c["req"], "model": c["model"], "implementation": c["exp"],
                                                               "mismatching_cases": [m["tag"] for m in mism]})
        raise core.Violation("reduction-count model and implementation disagree on %d expression(s), e.g. %s: model %s, code %s" % (len(mism), c["tag"], c["model"], c["exp"]), rp, no_input=True)
    kinds = collections.Counter(parts(c)[2] for c in cs)
    v = cov.setdefault("variants", {})
    v[variant] = {"cases": len(cs), "monitor_streams": len([c for c in reqs if not parts(c)[2].endswith("-model")]),
                  "model_vs_impl_compared": len([c for c in reqs if parts(c)[2].endswith("-model")]), "kinds": dict(kinds),
                  "cancelled_runs": len([c for c in cs if " cancelled=" in c["tag"]]), "complete_runs": len([c for c in cs if c["tag"].endswith(" complete")])}
    return v[variant]


def run_variant(ctx, variant, cov, args=(), proof_broken=None):
    exe = build_harness(variant)
    t0 = time.time()
    cs, stats = cases.run_case_harness(ctx, exe, list(args), timeout=5400)
    v = judge(ctx, cs, variant, cov, proof_broken)
    v["harness_wall_s"] = round(time.time() - t0, 1)
    progs = {}
    for k, val in stats.items():
        m = re.match(r"prog_(.+)_(N|k|ms)$", k)
        if m:
            progs.setdefault(m.group(1), {})[m.group(2)] = int(val)
    v["programs"] = {p: {"N_checks": d.get("N"), "k_injected": d.get("k")} for p, d in progs.items()}
    return cs, v


def run(ctx):
    cov = {}
    # ---- replay of one fault point
    if ctx.replay:
        r = json.load(open(ctx.replay))
        variant = r.get("variant", "ser")
        args = ["--program", r["program"]] + (["--k", str(r["k"]).lstrip("k")] if str(r.get("k", "ref")) not in ("ref", "") else [])
        ctx.seed = int(r.get("seed", ctx.seed))
        regenerate(ctx)
        ok, log = core.lean_build()
        if not ok:
            core.sh(["lake", "build", "mvdriver"], cwd=core.LEAN, timeout=3600, check=True)
        cs, v = run_variant(ctx, variant, cov, args, proof_broken=not ok)
        cov.update({"obligations": 0, "discharged": 0, "checker_cmd": "replay", "trusted_base": core.TRUSTED_BASE, "evaluations": len(cs),
                    "distinct_nontrivial": len(cs), "rule": "replay of %s" % ctx.replay})
        return cov
    # ---- gate 1: translator + proofs
    changed, tmsg = regenerate(ctx)
    cov["translator"] = {"cmd": "tools/extract_phases.py --repo %s ; tools/extract_cancel.py %s" % (core.REPO, core.REPO), "gen_file_changed_by_this_run": changed, "status": tmsg}
    gate_violation = None
    try:
        cov.update(core.proof_gate(ctx.pid, PROPS, ["MV.Props.C15"] if ctx.tier == "thorough" else None))
    except core.Violation as v:
        gate_violation = v
        cov.update({"obligations": len(core.theorem_names(PROPS[0])), "discharged": 0, "proof_gate": "BROKEN: " + v.msg})
        # search (DESIGN section 3): the monitor and the models live in files that do not depend on the theorems
        p = core.sh(["lake", "build", "mvdriver"], cwd=core.LEAN, timeout=3600)
        if p.returncode != 0:
            raise
    cov["checker_cmd"] = ("tools/extract_phases.py && cd lean && lake build MV mvdriver && lake env lean <#print axioms for every theorem of MV/Props/C15.lean>"
                          " ; build/h/c15_cancel_<variant> | mvdriver progress")
    cov["trusted_base"] = core.TRUSTED_BASE + [
        "tools/extract_phases.py (regex extraction of constants, site counts, store orders from the working tree)",
        "tools/extract_cancel.py (statement-level reading of every function that runs work under a context: loops / calls handed the context, IsCancelled checks, in source order with nested blocks flattened; loop structure is lost) and the reviewed exception lists of MV/Model/CancelSites.lean (valueCallees, tailFns, entryChecked)",
        "MANIFOLD_VERIF hook onCancelCheck in IsCancelled (src/execution_impl.h): the countdown fires Cancel() on a copy of the context from inside the k-th check",
        "FNV-1a hash over every MeshGL64 field (+status) as the bit-identity test; original IDs renamed by first occurrence (they come from a process-global counter)",
        "virtual TBB shim (harness/vtbb) for the parallel code paths in the thorough tier",
    ]
    # ---- gates 2+3: fault enumeration
    variants = ["ser"] + (["vtbb"] if ctx.tier == "thorough" else [])
    allcs = []
    try:
        for var in variants:
            cs, v = run_variant(ctx, var, cov, proof_broken=gate_violation is not None)
            allcs += [(var, c) for c in cs]
    except core.Violation as v:
        cov.setdefault("evaluations", sum(x["cases"] for x in cov.get("variants", {}).values()) or 1)
        cov.setdefault("distinct_nontrivial", 0)
        v.coverage = cov
        raise
    if gate_violation is not None:
        # no concrete failing input found: still a violation (the property is no longer shown to hold)
        gate_violation.coverage = cov
        raise gate_violation
    runs = [(var, c) for var, c in allcs if re.search(r"\.k\d+ ", c["tag"] + " ")]
    nontrivial = {c["tag"].split(".")[0] for var, c in allcs if ".ref " in c["tag"] and " nontrivial" in c["tag"]}
    cov["evaluations"] = len(allcs)
    cov["fault_points"] = len(runs)
    cov["distinct_nontrivial"] = len({core.digest(var + "|" + c["tag"].split()[0] + "|" + c["req"]) for var, c in runs if c["tag"].split(".")[0] in nontrivial})
    cov["exhaustive"] = False
    cov["rule"] = ("25 programs of context-observed eager calls built from seeded operands: deferred Boolean trees (+, -, ^, nested, negative-list collapsing), "
                   "BatchBoolean Add/Intersect/Subtract incl. disjoint operands (Compose credit), DAGs (a sub-expression reused under transforms, one op node in two parents, "
                   "three uses inside a batch), Refine/RefineToLength/RefineToTolerance, Hull, MinkowskiSum convex+convex / non-convex+convex / non-convex+non-convex, "
                   "MinkowskiDifference, ExecutionContext::FromMeshGL (MeshGL and MeshGL64), ::Smooth with sharpened edges, ::LevelSet, and one context reused for four calls. "
                   "Per program: an uncancelled run (N checks, export hash of every result, counter stream), then Cancel() from inside the k-th IsCancelled check for every "
                   "k<=N when N<=400 (thorough: 1500; the thorough tier adds five programs with operands above the 1e4 parallel thresholds), else first/last 50 + one random k per stratum (budget 400; 200 / 40 for the two slow Minkowski programs). "
                   "distinct_nontrivial = distinct (variant, program, k, counter stream) fault points on programs whose uncancelled result is a non-empty solid with status NoError")
    cov["samples"] = [{"case": c["tag"], "variant": var, "request": core.clip(c["req"], 260), "monitor": c.get("model"), "oracle": c["prop"]}
                      for var, c in (allcs[:2] + [x for x in allcs if ".k" in x[1]["tag"]][3:6])]
    return cov
