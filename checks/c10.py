"""C10 - Triangulate returns a correct triangulation."""
import os, re
from concurrent.futures import ThreadPoolExecutor
from vlib import core, cases, libs

LEVEL = "proof"
PROPS = ["MV/Props/C10.lean", "MV/Props/C10b.lean"]
ASSUMPTIONS = [
    "theorems (chain invariant for EVERY clip/join sequence, exit condition, count, halfedge pairing, convex strip) are about MV/Model/EarClip.lean; "
    "tied to src/polygon.cpp by replaying the hook-logged ClipEar/JoinPolygons decisions of the real run on the model: identical triangle list, rings closed, net = contours, all halfedges paired",
    "geometric clauses (counter-clockwise within epsilon, areas sum to the polygon area, no overlap) are checked by a long-double oracle on generated epsilon-valid polygon sets only; rounding is not in the theorems",
    "C10b: the geometric decisions (CCW, IsConvex incl. normalisation / zero-length edges / early return, TriangulateConvex, EarClip epsilon derivation, Vert::IsShort/Interior/InsideEdge/IsConvex/IsReflex/"
    "InterpY2X/SignedDist/Cost/DelaunayCost/EarCost, ClipIfDegenerate's test) are the Scalar-polymorphic definitions of MV/Model/PolyGeom.lean; theorems of MV/Props/C10b.lean are about them at Option F "
    "(F any linearly ordered field, none = NaN, exact arithmetic, sqrt = any normaliser positive on positives; MV/Proof/PolyGeomReal.lean: the real square root qualifies); tied to src/polygon.cpp by "
    "harness/c10_polygeom.cpp, which #includes polygon.cpp with `private` opened and calls the real functions, the model run at Float: verdicts exact, floats as IEEE bit patterns "
    "(the SIGN of a zero EarCost is canonicalised on both sides: it depends on the k-d tree report order of tied candidates and is not observable)",
    "C10b NOT carried: rounding (the theorems are exact-arithmetic; underflow of dot(edge,edge) to 0 for a non-zero edge gives x/0 = inf in the code, outside the Option-F model, inside the Float tie); "
    "locally convex + simple => convex position (convex_strip_ccw_partial assumes convex position; checked per run by oracle (b)); FindStart's area classification, CutKeyhole's CheckEdge fold, "
    "FindCloserBridge and the ear-queue order stay oracle arguments replayed from the hook log",
]


def run(ctx):
    libs.build("ser")
    with ThreadPoolExecutor(max_workers=2) as ex:   # the two harness builds run while the proof gate is busy
        f1 = ex.submit(core.compile_harness, "c10_earclip", [os.path.join(core.ROOT, "harness", "c10_earclip.cpp")], libs.cxx_flags("ser"), None, 1800, libs.link_flags("ser"))
        f2 = ex.submit(core.compile_harness, "c10_polygeom", [os.path.join(core.ROOT, "harness", "c10_polygeom.cpp")], libs.cxx_flags("ser"), None, 1800, libs.link_flags("ser"))
        cov = core.proof_gate(ctx.pid, PROPS, ["MV.Props.C10", "MV.Props.C10b"] if ctx.tier == "thorough" else None)
        exe, exe_g = f1.result(), f2.result()
    cov["checker_cmd"] = "cd lean && lake build MV mvdriver && lake env lean <#print axioms for every theorem of MV/Props/C10.lean and MV/Props/C10b.lean>"
    cov["trusted_base"] = core.TRUSTED_BASE + ["MANIFOLD_VERIF hooks onEarStart/onEarClip/onEarJoin in src/polygon.cpp",
                                               "`#define private public` around `#include \"polygon.cpp\"` in harness/c10_polygeom.cpp (access only; the code executed is the real one)"]
    cs, stats = cases.run_case_harness(ctx, exe, [250 if ctx.tier == "quick" else 3000])
    skipped = {}

    def norm(a, c):
        m = re.search(r" \| skipped (\d+)$", a)
        if m:
            skipped[c["tag"]] = int(m.group(1))
            a = a[:m.start()]
        return a
    c2 = cases.correspond(ctx, cs, "hook-logged ear-clip decisions replayed on MV.EarClip model", normalize=norm,
                          kind_of=lambda c: c["tag"].split()[1])
    # count clause: exactly V-2+2h-2(o-1) triangles unless topological degenerates were skipped
    bad = []
    for c in cs:
        m = re.search(r"count=(\d+) expect=(-?\d+)", c["tag"])
        if m and c["tag"] in skipped and "earOnly" in c["tag"]:
            if int(m.group(1)) != int(m.group(2)) - skipped[c["tag"]]:
                bad.append(c)
    for c in bad:
        ctx.finding("count", "triangle count differs from V-2+2h-2(o-1) minus skipped degenerates: " + c["tag"], {"case": c["tag"], "request": c["req"], "implementation": c["exp"]})
    # C10b: geometric decisions, model at Float vs the real functions
    quick = ctx.tier == "quick"
    cg0, st0 = cases.run_case_harness(ctx, exe_g, [1500 if quick else 12000, 0])
    cg1, st1 = cases.run_case_harness(ctx, exe_g, [400 if quick else 3000, 1])
    g0 = cases.correspond(ctx, cg0, "CCW / IsConvex / TriangulateConvex / EarClip epsilon: MV.PolyGeom at Float vs the real functions (bit patterns)")
    g1 = cases.correspond(ctx, cg1, "EarClip::Vert predicates (IsShort, IsConvex, IsReflex, InsideEdge, Interior, InterpY2X, EarCost, Clipped, ClipIfDegenerate test): MV.PolyGeom at Float vs the real members")
    cov.update(c2)
    for g in (g0, g1):
        for k in ("evaluations", "model_vs_impl_compared", "distinct_nontrivial", "mismatches", "property_failures"):
            cov[k] = cov.get(k, 0) + g.get(k, 0)
        for k, v in g["kinds"].items():
            cov["kinds"][k] = cov["kinds"].get(k, 0) + v
    cov["parts"] = {"earclip_replay": c2, "polygeom_convex": g0, "polygeom_verts": g1}
    cov["polygeom_input_stats"] = {"convex": st0, "verts": st1}
    cov["count_formula_checked"] = len(skipped)
    cov["rule"] = ("polygon sets: convex n-gons, jagged stars, stars with up to 4 clockwise holes, islands inside holes, staircases with collinear runs, 1-3 outers, "
                   "random collinear/duplicate vertex insertion, similarity transforms with scale 1e-6..1e6; each run with allowConvex on and off; distinct = distinct request lines. "
                   "C10b: rings regular / jagged star / convex lattice / lattice L / random lattice (non-simple) / all-equal points / fewer than 3 vertices, optionally a second contour and a clockwise hole; "
                   "decorations: exact duplicates at convex AND reflex corners (also triples), exactly collinear midpoints, midpoints pushed in or out by {0.25..4} x tolerance, spikes; "
                   "scales 2^-20..2^20 (exact) and 1e-6..1e6 with rotation; epsilon in {0, 1e-12, 1e-10, 1e-7, 1e-5, 1} x scale, -1 (derived), NaN; 4% of sets get a NaN/inf/1e308/denormal/-0 coordinate; "
                   "per set: IsConvex verdict, strip triangles, 3 CCW triples (near-collinear by 2^-k), working epsilon; per EarClip state (after Initialize, half of them after ClipIfDegenerate): every predicate on every live vertex, "
                   "InsideEdge on 2 random tails per vertex, EarCost with the real collider on every ring of >= 3 live vertices; oracles (a) accepted => no right turn after de-duplication, (b) accepted simple ring => strip CCW and area-exact")
    cov["samples"] = [{"case": c["tag"], "request": core.clip(c["req"], 200), "answer": core.clip(c["exp"], 120)} for c in cs[1:5]]
    return cov
