"""C10 - Triangulate returns a correct triangulation."""
import os, re
from vlib import core, cases, libs

LEVEL = "proof"
PROPS = ["MV/Props/C10.lean"]
ASSUMPTIONS = [
    "theorems (chain invariant for EVERY clip/join sequence, exit condition, count, halfedge pairing, convex strip) are about MV/Model/EarClip.lean; "
    "tied to src/polygon.cpp by replaying the hook-logged ClipEar/JoinPolygons decisions of the real run on the model: identical triangle list, rings closed, net = contours, all halfedges paired",
    "geometric clauses (counter-clockwise within epsilon, areas sum to the polygon area, no overlap) are checked by a long-double oracle on generated epsilon-valid polygon sets only; rounding is not in the theorems",
]


def run(ctx):
    cov = core.proof_gate(ctx.pid, PROPS, ["MV.Props.C10"] if ctx.tier == "thorough" else None)
    cov["checker_cmd"] = "cd lean && lake build MV mvdriver && lake env lean <#print axioms for every theorem of MV/Props/C10.lean>"
    cov["trusted_base"] = core.TRUSTED_BASE + ["MANIFOLD_VERIF hooks onEarStart/onEarClip/onEarJoin in src/polygon.cpp"]
    libs.build("ser")
    exe = core.compile_harness("c10_earclip", [os.path.join(core.ROOT, "harness", "c10_earclip.cpp")], libs.cxx_flags("ser"), libs=libs.link_flags("ser"))
    cs, stats = cases.run_case_harness(ctx, exe, [250 if ctx.tier == "quick" else 3000])
    skipped = {}

    def norm(a, c):
        m = re.search(r" \| skipped (\d+)$", a)
        if m:
            skipped[c["tag"]] = int(m.group(1))
            a = a[:m.start()]
        return a
    c2 = cases.correspond(ctx, cs, "hook-logged ear-clip decisions replayed on MV.EarClip model", normalize=norm,
                          kind_of=lambda c: c["tag"].split()[1])
    # count clause: exactly V-2+2h-2(o-1) triangles unless topological degenerates were skipped
    bad = []
    for c in cs:
        m = re.search(r"count=(\d+) expect=(-?\d+)", c["tag"])
        if m and c["tag"] in skipped and "earOnly" in c["tag"]:
            if int(m.group(1)) != int(m.group(2)) - skipped[c["tag"]]:
                bad.append(c)
    for c in bad:
        ctx.finding("count", "triangle count differs from V-2+2h-2(o-1) minus skipped degenerates: " + c["tag"], {"case": c["tag"], "request": c["req"], "implementation": c["exp"]})
    cov.update(c2)
    cov["count_formula_checked"] = len(skipped)
    cov["rule"] = ("polygon sets: convex n-gons, jagged stars, stars with up to 4 clockwise holes, islands inside holes, staircases with collinear runs, 1-3 outers, "
                   "random collinear/duplicate vertex insertion, similarity transforms with scale 1e-6..1e6; each run with allowConvex on and off; distinct = distinct request lines")
    cov["samples"] = [{"case": c["tag"], "request": core.clip(c["req"], 200), "answer": core.clip(c["exp"], 120)} for c in cs[1:5]]
    return cov
