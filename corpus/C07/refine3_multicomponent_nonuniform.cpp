// build: g++ -std=c++17 -I$REPO/include <this file> <libmanifold.a> -pthread
#include <cstdio>
#include <cmath>
#include "manifold/manifold.h"
using namespace manifold;
static void stat(const char* n, const Manifold& r){ MeshGL64 g=r.GetMeshGL64(); size_t np=g.numProp; double mn=1e9,mx=0; for(size_t t=0;t<g.NumTri();t++) for(int i=0;i<3;i++){ size_t a=g.triVerts[3*t+i], b=g.triVerts[3*t+(i+1)%3]; double d=0; for(int c=0;c<3;c++){ double x=g.vertProperties[np*a+c]-g.vertProperties[np*b+c]; d+=x*x;} d=sqrt(d); mn=std::min(mn,d); mx=std::max(mx,d);} printf("%s: tris %zu edges [%g,%g] ratio %.2f\n",n,(size_t)g.NumTri(),mn,mx,mx/mn); }
int main(){
  for (int seg : {8,12,16,20,24}) { char b[64]; Manifold s=Manifold::Sphere(1,seg); for(int n: {2,3,4,5}){ snprintf(b,64,"sphere%d.Refine(%d)",seg,n); stat(b, s.Refine(n)); } }
  Manifold cube = Manifold::Cube(vec3(1.0),true);
  for(int n: {2,3,4,5}){ char b[64]; snprintf(b,64,"cube.Refine(%d)",n); stat(b, cube.Refine(n)); }
  Manifold c2 = Manifold::Compose({cube, cube.Translate({10,0,0})});
  for(int n: {2,3,4,5}){ char b[64]; snprintf(b,64,"2cubes.Refine(%d)",n); stat(b, c2.Refine(n)); }
  Manifold t = Manifold::Tetrahedron();
  for(int n: {3,4}){ char b[64]; snprintf(b,64,"tet.Refine(%d)",n); stat(b, t.Refine(n)); }
  Manifold t2 = Manifold::Compose({t, t.Translate({10,0,0})});
  for(int n: {3,4}){ char b[64]; snprintf(b,64,"2tet.Refine(%d)",n); stat(b, t2.Refine(n)); }
}
