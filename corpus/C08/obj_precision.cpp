// build: g++ -std=c++17 -I$REPO/include <this file> <libmanifold.a> -pthread
#include <cstdio>
#include <sstream>
#include <cstdlib>
#include <cstring>
#include "manifold/manifold.h"
using namespace manifold;
int main(){
  Manifold m = Manifold::Sphere(1.0, 8).Rotate(10,20,30).Translate({1e-4,2e-5,0});
  MeshGL64 g = m.GetMeshGL64();
  for (int hex=0; hex<2; hex++){
    if(hex) setenv("MANIFOLD_OBJ_HEX_FLOAT","1",1);
    std::stringstream ss; WriteOBJ(ss,g); MeshGL64 r = ReadOBJ(ss);
    size_t bad=0; for(size_t i=0;i<g.vertProperties.size() && i<r.vertProperties.size();i++) if(memcmp(&g.vertProperties[i],&r.vertProperties[i],8)) bad++;
    printf("hex=%d verts %zu->%zu tris %zu->%zu inexact=%zu\n",hex,(size_t)g.NumVert(),(size_t)r.NumVert(),(size_t)g.NumTri(),(size_t)r.NumTri(),bad);
  }
}
