// build: g++ -std=c++17 -I$REPO/include <this file> <libmanifold.a> -pthread
#include <cstdio>
#include "manifold/manifold.h"
using namespace manifold;
int main(){
  Manifold a = Manifold::Sphere(1.0, 16);
  Manifold b = Manifold::Sphere(1.0, 16).Translate({0.7,0.2,0.1});
  printf("ids %d %d\n", a.OriginalID(), b.OriginalID());
  Manifold c = a + b;
  Manifold sm = c.SmoothOut(50, 0.1);
  MeshGL64 g = sm.GetMeshGL64();
  Manifold back(g);
  Manifold r1 = sm.Refine(2), r2 = back.Refine(2);
  printf("runs=%zu tang=%zu import=%d refineDirect=%d refineBack=%d nt %zu %zu\n", g.runOriginalID.size(), g.halfedgeTangent.size(), (int)back.Status(), (int)r1.Status(), (int)r2.Status(), r1.NumTri(), r2.NumTri());
  Manifold n = c.CalculateNormals(0, 50).SmoothByNormals(0);
  MeshGL64 g2 = n.GetMeshGL64(); Manifold back2(g2);
  printf("byNormals: import=%d refineDirect=%d refineBack=%d\n", (int)back2.Status(), (int)n.Refine(2).Status(), (int)back2.Refine(2).Status());
}
