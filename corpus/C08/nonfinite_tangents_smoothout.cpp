// build: g++ -std=c++17 -I$REPO/include <this file> <libmanifold.a> -pthread
#include <cstdio>
#include <cmath>
#include "manifold/manifold.h"
using namespace manifold;
static void rep(const char* n, const Manifold& m){
  MeshGL64 g = m.GetMeshGL64(); int bad=0; for(double x: g.halfedgeTangent) if(!std::isfinite(x)) bad++;
  Manifold b(g);
  printf("%s: status=%d tris=%zu tang=%zu nonfinite=%d reimport=%d refine=%d\n", n,(int)m.Status(), (size_t)g.NumTri(), g.halfedgeTangent.size(), bad, (int)b.Status(), (int)m.Refine(2).Status());
}
int main(){
  rep("tet.SmoothOut()", Manifold::Tetrahedron().SmoothOut());
  rep("cube.SmoothOut()", Manifold::Cube().SmoothOut());
  rep("cube.SmoothOut(60,0.5)", Manifold::Cube().SmoothOut(60,0.5));
  rep("cube^cube.SmoothOut()", (Manifold::Cube()^Manifold::Cube().Translate({.5,.5,.5})).SmoothOut());
  rep("sphere.SmoothOut()", Manifold::Sphere(1,8).SmoothOut());
  rep("sphere4.SmoothOut()", Manifold::Sphere(1,4).SmoothOut());
  rep("cyl.SmoothOut()", Manifold::Cylinder(1,1,1,6).SmoothOut());
  rep("cube.SmoothOut().SmoothOut()", Manifold::Cube().SmoothOut().SmoothOut());
}
