// C05 harness: Manifolds and CrossSections are values.
//
// A history is a text program (apiprog.h step syntax) over a pool of at most 24 live objects.
// Besides the deriving operations of the public API it contains the value operations
//   copy 1 s            push a copy-constructed copy of slot s
//   assign 2 d s        pool[d] = pool[s]              (copy-assign over an existing slot)
//   moveassign 2 d s    pool[d] = std::move(pool[s])   (s is dead afterwards)
//   movector 1 s        push T(std::move(pool[s]))     (s is dead afterwards)
//   destroy 1 s         the object in slot s is destroyed
//   iadd|isub|iint 2 d s   pool[d] += / -= / ^= pool[s]  (in place; d becomes a NEW value)
//   look 1 s            first full observation of a slot whose observation was deferred
// An op name prefixed by `~` defers the first observation of its results (so that copies and
// derivations can be taken from objects whose lazy transform has not been materialised yet).
//
// After EVERY step EVERY live object that has been observed before is observed again (all
// public getters, in a freshly shuffled order) and compared, bit for bit, with the observation
// recorded for its value group (an object, its copies, and where it was moved to).  The verdict
// goes to the PROP line and names the creating step and the step after which it changed.
//
// While a Manifold program runs, the MANIFOLD_VERIF hook `onVecEvent` records every
// share/clone/free/move/write/resize/MakeUnique of the SharedVec halfedge arrays; the stream is
// the REQ (`cow …`, see lean/Driver/Cow.lean) for the Lean monitor MV.Cow.accept, EXP `accepted`.
//
// Third family (`impl`): for every Impl method that calls halfedge_.MakeUnique() on the pinned
// tree, an Impl is made to SHARE its halfedge buffers with a second Impl (copy-assign of
// Halfedges, what Impl::Transform does), the method runs, and the second Impl's arrays must be
// unchanged and the event stream accepted.
//
// Fourth family (`lazy`): histories made ONLY of operations the library evaluates lazily (Booleans, batch Booleans,
// rigid/affine transforms, Booleans on a temporary transformed view) over generic-position primitives, interleaved
// with copies, assignments, moves, in-place ops and destructions; NOTHING is observed until the end of the
// history.  The same program is then run eagerly (every result forced as soon as it exists) in a fresh pool, and
// every object alive at the end must be the same solid in both runs (Status, IsEmpty, volume, area, bounding
// box within 1e-7 relative): destroying, overwriting or moving some handles of a lazy expression DAG must not
// change what the remaining handles evaluate to.  (Bit equality is not demanded: lazy evaluation may flatten
// the tree differently, C03.)
//
// usage: c05_values <manifold-programs> <steps> <cross-programs> <steps>      generated run
//        c05_values 0 0 <file>                                               replay (first line `kind 0 1 <0|1>`)
#include <signal.h>
#include <sys/wait.h>
#include <unistd.h>

#include <fstream>
#include <map>
#include <unordered_map>

#include "apiprog.h"
#include "impl.h"
#include "manifold/cross_section.h"
#include "verif_hooks.h"
using namespace manifold;

// ------------------------------------------------------------------------------------ recorder
struct Recorder {
  std::unordered_map<const void*, int> hid, bid;
  int nextH = 0, nextB = 0;
  const void* pendingClone = nullptr;
  std::string ev;
  size_t n = 0, nShare = 0, nClone = 0, nWrite = 0, nUniqueCloned = 0;
  int birth(const void* h) { auto it = hid.find(h); if (it != hid.end()) return it->second; return hid[h] = nextH++; }
  int use(const void* h) { return birth(h); }   // an unknown handle gets a fresh id: the monitor answers dead-handle
  int buf(const void* b) { auto it = bid.find(b); if (it != bid.end()) return it->second; return bid[b] = nextB++; }
  void put(char k, int h, int o, int b, int rc) {
    char tmp[96]; snprintf(tmp, sizeof tmp, " %c %d %d %d %d", k, h, o, b, rc); ev += tmp; n++;
  }
  void on(int kind, const void* h, const void* o, const void* b, int rc) {
    switch (kind) {
      case 0: {
        int nb = bid[b] = nextB++;
        if (pendingClone) { int src = use(pendingClone); pendingClone = nullptr; put('c', birth(h), src, nb, rc); nClone++; }
        else put('a', birth(h), 0, nb, rc);
        break; }
      case 1: { int src = use(o); put('s', birth(h), src, buf(b), rc); nShare++; break; }
      case 2: pendingClone = h; break;
      case 3: { put('f', use(h), 0, buf(b), rc); hid.erase(h); if (rc == 0) bid.erase(b); break; }
      case 4: { int src = use(o); put('m', birth(h), src, buf(b), rc); hid.erase(o); break; }
      case 5: put('w', use(h), 0, buf(b), rc); nWrite++; break;
      case 6: put('r', use(h), 0, buf(b), rc); nWrite++; break;
      case 7: put('u', use(h), 0, buf(b), rc); break;
      default: put('?', 0, 0, 0, 0);
    }
  }
  void install() { verif::hooks().onVecEvent = [this](int k, const void* h, const void* o, const void* b, int rc) { on(k, h, o, b, rc); }; }
  void uninstall() { verif::hooks().onVecEvent = nullptr; }
};

// ------------------------------------------------------------------------------- observations
typedef std::vector<uint64_t> Obs;
static uint64_t bits(double d) { uint64_t u; memcpy(&u, &d, 8); return u; }
template <typename T> static uint64_t hashVec(const std::vector<T>& v) { ap::Hash h; h.vec(v); return h.h; }
static uint64_t hashMesh32(const MeshGL& m) {
  ap::Hash h; h.add(&m.numProp, sizeof m.numProp); h.vec(m.vertProperties); h.vec(m.triVerts); h.vec(m.mergeFromVert); h.vec(m.mergeToVert);
  h.vec(m.runIndex); h.vec(m.runOriginalID); h.vec(m.runTransform); h.vec(m.faceID); h.vec(m.halfedgeTangent); h.add(&m.tolerance, sizeof m.tolerance);
  return h.h;
}

struct MTraits {
  typedef Manifold T;
  static const char* const* names() { static const char* n[] = {"GetMeshGL64", "GetMeshGL", "NumVert", "NumEdge", "NumTri", "NumProp", "NumPropVert", "BoundingBox", "GetTolerance", "Status", "OriginalID", "Genus", "Volume", "SurfaceArea", "IsEmpty"}; return n; }
  static int count() { return 15; }
  static uint64_t get(const Manifold& m, int k) {
    switch (k) {
      case 0: return ap::hashMesh(m.GetMeshGL64());
      case 1: return hashMesh32(m.GetMeshGL());
      case 2: return m.NumVert();
      case 3: return m.NumEdge();
      case 4: return m.NumTri();
      case 5: return m.NumProp();
      case 6: return m.NumPropVert();
      case 7: { Box b = m.BoundingBox(); ap::Hash h; double a[6] = {b.min.x, b.min.y, b.min.z, b.max.x, b.max.y, b.max.z}; h.add(a, sizeof a); return h.h; }
      case 8: return bits(m.GetTolerance());
      case 9: return (uint64_t)(int)m.Status();
      case 10: return (uint64_t)(int64_t)m.OriginalID();
      case 11: return (uint64_t)(int64_t)m.Genus();
      case 12: return bits(m.Volume());
      case 13: return bits(m.SurfaceArea());
      default: return m.IsEmpty();
    }
  }
};
struct XTraits {
  typedef CrossSection T;
  static const char* const* names() { static const char* n[] = {"GetTolerance", "ToPolygons", "Area", "NumVert", "NumContour", "Bounds", "IsEmpty"}; return n; }
  static int count() { return 7; }
  static uint64_t get(const CrossSection& c, int k) {
    switch (k) {
      case 0: return bits(c.GetTolerance());
      case 1: { Polygons p = c.ToPolygons(); ap::Hash h; size_t n = p.size(); h.add(&n, sizeof n); for (auto& ring : p) { size_t m = ring.size(); h.add(&m, sizeof m); for (auto& v : ring) { double a[2] = {v.x, v.y}; h.add(a, sizeof a); } } return h.h; }
      case 2: return bits(c.Area());
      case 3: return c.NumVert();
      case 4: return c.NumContour();
      case 5: { Rect b = c.Bounds(); ap::Hash h; double a[4] = {b.min.x, b.min.y, b.max.x, b.max.y}; h.add(a, sizeof a); return h.h; }
      default: return c.IsEmpty();
    }
  }
};
// all getters, evaluated in a shuffled order (so that a getter that does not materialise the
// lazy state first is sometimes asked before and sometimes after one that does); `first`
// forces getter index 0.. to be evaluated in natural order (used for the first observation of
// a CrossSection: GetTolerance before anything has materialised the paths)
template <typename Tr> static Obs observeAll(const typename Tr::T& x, hz::Rng& r, bool natural) {
  int n = Tr::count(); std::vector<int> ord(n); for (int i = 0; i < n; i++) ord[i] = i;
  if (!natural) for (int i = n; i > 1; --i) std::swap(ord[i - 1], ord[r.below(i)]);
  Obs o(n); for (int k : ord) o[k] = Tr::get(x, k);
  return o;
}

// ------------------------------------------------------------------- CrossSection interpreter
namespace cs {
using ap::Step;
inline SimplePolygon canned(int k) {
  switch (k % 4) {
    case 0: return {{0, 0}, {2, 0}, {2, 1}, {0, 1}};
    case 1: return {{0, 0}, {3, 0}, {1, 1}, {3, 2}, {0, 2}};
    case 2: return {{0, 0}, {2, 2}, {0, 2}, {2, 0}};  // bow-tie, fixed by the fill rule
    default: return {{-1, -1}, {1, -1}, {1, 1}, {-1, 1}};
  }
}
inline void exec(const Step& s, std::vector<CrossSection>& pool) {
  auto S = [&](int i) -> const CrossSection& { return pool.at(s.src.at(i)); };
  auto A = [&](int i) { return s.arg.at(i); };
  const std::string& op = s.op;
  if (op == "square") pool.push_back(CrossSection::Square({A(0), A(1)}, A(2) != 0));
  else if (op == "circle") pool.push_back(CrossSection::Circle(A(0), (int)A(1)));
  else if (op == "poly") pool.push_back(CrossSection(canned((int)A(0))));
  else if (op == "polys") pool.push_back(CrossSection(Polygons{canned((int)A(0)), canned((int)A(1))}));
  else if (op == "rect") pool.push_back(CrossSection(Rect({A(0), A(1)}, {A(2), A(3)})));
  else if (op == "tets") for (int i = 0; i < (int)A(0); i++) pool.push_back(CrossSection::Square({1, 1}));
  else if (op == "add") pool.push_back(S(0) + S(1));
  else if (op == "sub") pool.push_back(S(0) - S(1));
  else if (op == "int") pool.push_back(S(0) ^ S(1));
  else if (op == "batch") { std::vector<CrossSection> v; for (size_t i = 0; i < s.src.size(); i++) v.push_back(S(i)); pool.push_back(CrossSection::BatchBoolean(v, (OpType)(int)A(0))); }
  else if (op == "translate") pool.push_back(S(0).Translate({A(0), A(1)}));
  else if (op == "rotate") pool.push_back(S(0).Rotate(A(0)));
  else if (op == "scale") pool.push_back(S(0).Scale({A(0), A(1)}));
  else if (op == "mirror") pool.push_back(S(0).Mirror({A(0), A(1)}));
  else if (op == "transform") { mat2x3 m; for (int c = 0; c < 3; c++) for (int r = 0; r < 2; r++) m[c][r] = A(c * 2 + r); pool.push_back(S(0).Transform(m)); }
  else if (op == "chain") pool.push_back(S(0).Scale({A(0), A(1)}).Translate({A(2), A(3)}));   // two lazy steps, nothing looked at in between
  else if (op == "warp") { double k = A(0); pool.push_back(S(0).Warp([k](vec2& v) { v.x += k * v.y * v.y; })); }
  else if (op == "offset") pool.push_back(S(0).Offset(A(0), (JoinType)(int)A(1), 2.0, (int)A(2)));
  else if (op == "simplify") pool.push_back(S(0).Simplify(A(0)));
  else if (op == "settol") pool.push_back(S(0).SetTolerance(A(0)));
  else if (op == "hull") pool.push_back(S(0).Hull());
  else if (op == "hull2") pool.push_back(CrossSection::Hull(std::vector<CrossSection>{S(0), S(1)}));
  else if (op == "decompose") { auto v = S(0).Decompose(); for (size_t i = 0; i < v.size() && i < 3; i++) pool.push_back(v[i]); if (v.empty()) pool.push_back(S(0)); }
  else pool.push_back(CrossSection());
}
struct Gen {
  hz::Rng& r; int nobj = 0;
  explicit Gen(hz::Rng& r_) : r(r_) {}
  double coord(int span = 3) { return r.below(3) ? (double)((int)r.below(2 * span + 1) - span) : ((int)r.below(2001) - 1000) * 0.001 * span; }
  double pos(int span = 3) { return r.below(3) ? (double)(1 + r.below(span)) : 0.2 + r.below(1000) * 0.001 * span; }
  int pick() { return (int)r.below(nobj); }
  Step prim() {
    Step s;
    switch (r.below(6)) {
      case 0: case 1: s.op = "square"; s.arg = {pos(), pos(), (double)r.below(2)}; break;
      case 2: s.op = "circle"; s.arg = {pos(2), (double)(r.below(2) ? 0 : 3 + r.below(20))}; break;
      case 3: s.op = "poly"; s.arg = {(double)r.below(4)}; break;
      case 4: s.op = "polys"; s.arg = {(double)r.below(4), (double)r.below(4)}; break;
      default: s.op = "rect"; s.arg = {coord(), coord(), coord(), coord()}; break;
    }
    return s;
  }
  Step next() {
    if (nobj == 0 || r.below(6) == 0) return prim();
    Step s; int k = (int)r.below(100);
    auto one = [&](const char* op) { s.op = op; s.src = {pick()}; };
    auto two = [&](const char* op) { s.op = op; s.src = {pick(), pick()}; };
    if (k < 24) { two(k < 10 ? "add" : k < 18 ? "sub" : "int"); if (r.below(6) == 0) s.src[1] = s.src[0]; }
    else if (k < 28) { s.op = "batch"; int n = 2 + (int)r.below(4); for (int i = 0; i < n; i++) s.src.push_back(pick()); s.arg = {(double)r.below(3)}; }
    else if (k < 38) { one("translate"); s.arg = {r.below(4) ? coord() : coord() * 100, coord()}; }
    else if (k < 44) { one("rotate"); s.arg = {r.below(2) ? 90.0 * r.below(4) : coord(180)}; }
    else if (k < 52) { one("scale"); s.arg = {r.below(4) ? pos() : pos() * 10, pos()}; if (r.below(4) == 0) s.arg[r.below(2)] *= -1; }
    else if (k < 55) { one("mirror"); s.arg = {coord(1), 1.0}; }
    else if (k < 59) { one("transform"); s.arg = {pos(), coord(1) * 0.5, coord(1) * 0.5, pos(), coord(), coord()}; }
    else if (k < 67) { one("chain"); s.arg = {pos() * (r.below(2) ? 10 : 1), pos(), coord() * (r.below(2) ? 50 : 1), coord()}; }
    else if (k < 70) { one("warp"); s.arg = {0.01 * (1 + r.below(9))}; }
    else if (k < 80) { one("offset"); s.arg = {(r.below(3) ? 1 : -1) * 0.05 * (1 + r.below(10)), (double)r.below(4), (double)(r.below(2) ? 0 : 4 + r.below(12))}; }
    else if (k < 86) { one("simplify"); s.arg = {r.below(2) ? 0.0 : 0.001 * (1 + r.below(100))}; }
    else if (k < 90) { one("settol"); s.arg = {r.below(3) == 0 ? 0.0 : 0.0001 * (1 + r.below(1000))}; }
    else if (k < 94) one("hull");
    else if (k < 96) two("hull2");
    else one("decompose");
    return s;
  }
};
}  // namespace cs

// ---------------------------------------------------------------------------------- the runner
template <typename Tr> struct Runner {
  typedef typename Tr::T T;
  struct Group { bool seen = false; Obs obs; int birthStep = -1; std::string birthOp; int firstSeenStep = -1; };
  std::vector<T> pool;
  std::vector<int> gid;       // value group of each slot, -1 = dead
  std::vector<Group> groups;
  std::vector<char> deferred; // per slot: first observation deferred
  std::function<void(const ap::Step&, std::vector<T>&)> execOp;
  bool ok = true; std::string msg; size_t observations = 0, comparisons = 0;
  bool light = false;   // eager twin of a lazy history: force every new value (Status()) instead of re-observing everything
  std::map<std::string, int> opHist;
  int liveCount() const { int n = 0; for (int g : gid) n += g >= 0; return n; }
  std::vector<int> liveIdx() const { std::vector<int> v; for (size_t i = 0; i < gid.size(); i++) if (gid[i] >= 0) v.push_back((int)i); return v; }
  int newGroup(int step, const std::string& op) { Group g; g.birthStep = step; g.birthOp = op; groups.push_back(g); return (int)groups.size() - 1; }
  void fail(const std::string& m) { if (ok) { ok = false; msg = m; } }
  void lookAt(int slot, int step, const std::string& op, bool natural) {
    Group& g = groups[gid[slot]];
    hz::Rng rr((uint64_t)step * 1000003ull + (uint64_t)slot * 7919ull + 17);   // getter order depends only on (step, slot): replays reproduce it
    Obs o = observeAll<Tr>(pool[slot], rr, natural); observations++; if (g.seen) comparisons++;
    if (!g.seen) { g.seen = true; g.obs = o; g.firstSeenStep = step; return; }
    for (int k = 0; k < Tr::count(); k++)
      if (o[k] != g.obs[k]) {
        char b[400]; snprintf(b, sizeof b, "object created by step %d (%s), first observed after step %d, changed: %s was %016llx and is %016llx after step %d (%s) [slot %d]",
                              g.birthStep, g.birthOp.c_str(), g.firstSeenStep, Tr::names()[k], (unsigned long long)g.obs[k], (unsigned long long)o[k], step, op.c_str(), slot);
        fail(b); g.obs = o; return;
      }
  }
  // returns the number of objects appended
  size_t step(const ap::Step& s0, int stepNo) {
    ap::Step s = s0; bool defer = false;
    if (!s.op.empty() && s.op[0] == '~') { defer = true; s.op = s.op.substr(1); }
    opHist[s.op]++;
    size_t before = pool.size();
    auto srcOk = [&](size_t k) { return s.src.size() > k && s.src[k] >= 0 && (size_t)s.src[k] < pool.size(); };
    const std::string& op = s.op;
    if (op == "kind") {}
    else if (op == "copy" && srcOk(0)) { pool.push_back(pool[s.src[0]]); gid.push_back(gid[s.src[0]] >= 0 ? gid[s.src[0]] : newGroup(stepNo, op)); deferred.push_back(deferred[s.src[0]]); }
    else if (op == "assign" && srcOk(1)) { int d = s.src[0], c = s.src[1]; if (d != c) { pool[d] = pool[c]; gid[d] = gid[c] >= 0 ? gid[c] : newGroup(stepNo, op); deferred[d] = deferred[c]; } else { T& self = pool[d]; pool[d] = self; } }
    else if (op == "moveassign" && srcOk(1)) { int d = s.src[0], c = s.src[1]; if (d != c) { pool[d] = std::move(pool[c]); gid[d] = gid[c] >= 0 ? gid[c] : newGroup(stepNo, op); deferred[d] = deferred[c]; pool[c] = T(); gid[c] = -1; } }
    else if (op == "movector" && srcOk(0)) { int c = s.src[0]; T tmp(std::move(pool[c])); pool[c] = T(); int g = gid[c] >= 0 ? gid[c] : newGroup(stepNo, op); char df = deferred[c]; gid[c] = -1; pool.push_back(std::move(tmp)); gid.push_back(g); deferred.push_back(df); }
    else if (op == "destroy" && srcOk(0)) { int c = s.src[0]; pool[c] = T(); gid[c] = -1; }
    else if ((op == "iadd" || op == "isub" || op == "iint") && srcOk(1)) {
      int d = s.src[0], c = s.src[1];
      if (op == "iadd") pool[d] += pool[c]; else if (op == "isub") pool[d] -= pool[c]; else pool[d] ^= pool[c];
      gid[d] = newGroup(stepNo, op); deferred[d] = defer;
    }
    else if (op == "look" && srcOk(0)) { int c = s.src[0]; if (gid[c] >= 0) { deferred[c] = 0; } }
    else {
      bool fine = true; for (size_t k = 0; k < s.src.size(); k++) fine = fine && srcOk(k);
      if (fine) execOp(s, pool); else pool.push_back(T());
      while (gid.size() < pool.size()) { gid.push_back(newGroup(stepNo, op)); deferred.push_back(defer); }
    }
    if (light) {
      for (size_t i = before; i < pool.size(); i++) if (gid[i] >= 0) Tr::get(pool[i], Tr::count() - 1);
      if ((op == "iadd" || op == "isub" || op == "iint") && srcOk(0)) Tr::get(pool[s.src[0]], Tr::count() - 1);
      return pool.size() - before;
    }
    // re-observe every live object; a deferred slot is skipped until its group has been seen
    // through another member or a `look` clears the flag
    for (size_t i = 0; i < pool.size(); i++) {
      if (gid[i] < 0) continue;
      Group& g = groups[gid[i]];
      if (!g.seen && deferred[i]) continue;
      bool fresh = !g.seen;
      lookAt((int)i, stepNo, s0.op, fresh);
    }
    return pool.size() - before;
  }
  void finish(int stepNo) {   // end of history: everything still deferred is looked at, twice
    for (int rep = 0; rep < 2; rep++)
      for (size_t i = 0; i < pool.size(); i++) if (gid[i] >= 0) lookAt((int)i, stepNo, "end-of-history", rep == 0 && !groups[gid[i]].seen);
  }
};

// value operations + deferral on top of the per-type generators
template <typename G> static ap::Step genStep(G& gen, hz::Rng& r, const std::vector<int>& live, int maxLive, bool& madeOne) {
  ap::Step s; madeOne = true;
  auto L = [&]() { return live[r.below(live.size())]; };
  if ((int)live.size() >= maxLive) { s.op = "destroy"; s.src = {L()}; return s; }
  int k = (int)r.below(100);
  if (!live.empty() && k < 30) {
    if (k < 7) { s.op = "copy"; s.src = {L()}; }
    else if (k < 13) { s.op = "assign"; s.src = {L(), L()}; }
    else if (k < 16) { s.op = "moveassign"; s.src = {L(), L()}; }
    else if (k < 19) { s.op = "movector"; s.src = {L()}; }
    else if (k < 23) { s.op = "destroy"; s.src = {L()}; }
    else if (k < 27) { s.op = k < 25 ? "iadd" : k < 26 ? "isub" : "iint"; s.src = {L(), L()}; }
    else { s.op = "look"; s.src = {L()}; }
    return s;
  }
  gen.nobj = (int)live.size();
  s = gen.next();
  for (int& x : s.src) x = live[x % live.size()];
  if (r.below(4) == 0) s.op = "~" + s.op;
  return s;
}


// ------------------------------------------------------------------------------ lazy histories
namespace lz {
using ap::Step;
inline void exec(const Step& s, std::vector<Manifold>& pool) {
  auto S = [&](int i) -> const Manifold& { return pool.at(s.src.at(i)); };
  auto A = [&](int i) { return s.arg.at(i); };
  const std::string& op = s.op;
  if (op == "gcube") pool.push_back(Manifold::Cube({A(0), A(1), A(2)}, true).Rotate(A(3), A(4), A(5)).Translate({A(6), A(7), A(8)}));
  else if (op == "gsphere") pool.push_back(Manifold::Sphere(A(0), (int)A(1)).Rotate(A(2), A(3), 0).Translate({A(4), A(5), A(6)}));
  else if (op == "tbool") {   // Boolean on a TEMPORARY transformed view of the first operand
    Manifold t = S(0).Translate({A(1), A(2), A(3)});
    int o = (int)A(0); pool.push_back(o == 0 ? t + S(1) : o == 1 ? t - S(1) : o == 2 ? t ^ S(1) : S(1) - t);
  }
  else if (op == "tview") pool.push_back(S(0).Rotate(A(0), A(1), A(2)).Translate({A(3), A(4), A(5)}));
  else ap::exec(s, pool);
}
struct Gen {
  hz::Rng& r; int nobj = 0;
  explicit Gen(hz::Rng& r_) : r(r_) {}
  double g(double lo, double hi) { return lo + (hi - lo) * (double)(1 + r.below(99991)) / 99993.0; }   // generic values: no two alike
  int pick() { return (int)r.below(nobj); }
  Step prim() {
    Step s;
    if (r.below(3)) { s.op = "gcube"; s.arg = {g(0.6, 1.6), g(0.6, 1.6), g(0.6, 1.6), g(0, 90), g(0, 90), g(0, 90), g(-0.7, 0.7), g(-0.7, 0.7), g(-0.7, 0.7)}; }
    else { s.op = "gsphere"; s.arg = {g(0.5, 1.0), (double)(4 * (1 + r.below(3))), g(0, 90), g(0, 90), g(-0.7, 0.7), g(-0.7, 0.7), g(-0.7, 0.7)}; }
    return s;
  }
  Step next() {
    if (nobj < 2 || r.below(6) == 0) return prim();
    Step s; int k = (int)r.below(100);
    auto two = [&](const char* op) { s.op = op; s.src = {pick(), pick()}; };
    if (k < 40) two(k < 16 ? "add" : k < 30 ? "sub" : "int");
    else if (k < 46) { s.op = "batch"; int n = 2 + (int)r.below(3); for (int i = 0; i < n; i++) s.src.push_back(pick()); s.arg = {(double)(r.below(2) ? 0 : 2)}; }
    else if (k < 70) { two("tbool"); s.arg = {(double)r.below(4), g(-0.4, 0.4), g(-0.4, 0.4), g(-0.4, 0.4)}; }
    else if (k < 82) { s.op = "tview"; s.src = {pick()}; s.arg = {g(0, 45), g(0, 45), g(0, 45), g(-0.5, 0.5), g(-0.5, 0.5), g(-0.5, 0.5)}; }
    else if (k < 90) { s.op = "translate"; s.src = {pick()}; s.arg = {g(-0.5, 0.5), g(-0.5, 0.5), g(-0.5, 0.5)}; }
    else if (k < 95) { s.op = "scale"; s.src = {pick()}; s.arg = {g(0.7, 1.3), g(0.7, 1.3), g(0.7, 1.3)}; }
    else { s.op = "mirror"; s.src = {pick()}; s.arg = {g(0.1, 1), g(0.1, 1), g(0.1, 1)}; }
    return s;
  }
};
// General position by construction: the two operands of every Boolean are built from DISJOINT sets of primitives
// (each primitive has its own generic size, rotation and position), so no two operand surfaces coincide and the
// lazily flattened and the eagerly nested evaluation produce the same surface, not only the same point set.
// `leaves` tracks, per slot, the set of primitives (bit mask) its expression is built from.
struct Leaves {
  std::vector<uint64_t> m; int next = 0;
  uint64_t fresh() { return 1ull << (next++ % 64); }
  uint64_t at(int i) const { return i >= 0 && (size_t)i < m.size() ? m[i] : 0; }
  // false = the step would combine operands sharing a primitive; otherwise updates the masks as the step does
  bool apply(const Step& s0, bool check) {
    Step s = s0; if (!s.op.empty() && s.op[0] == '~') s.op = s.op.substr(1);
    const std::string& op = s.op; auto S = [&](size_t k) { return k < s.src.size() ? s.src[k] : -1; };
    auto disjoint = [&]() { uint64_t acc = 0; for (int x : s.src) { if (acc & at(x)) return false; acc |= at(x); } return true; };
    if (op == "gcube" || op == "gsphere") m.push_back(fresh());
    else if (op == "tets") { int n = s.arg.empty() ? 1 : (int)s.arg[0]; for (int i = 0; i < n; i++) m.push_back(fresh()); }
    else if (op == "add" || op == "sub" || op == "int" || op == "tbool" || op == "batch") {
      if (check && !disjoint()) return false;
      uint64_t acc = 0; for (int x : s.src) acc |= at(x); m.push_back(acc);
    }
    else if (op == "iadd" || op == "isub" || op == "iint") { if (check && (S(0) == S(1) || (at(S(0)) & at(S(1))))) return false; if (S(0) >= 0 && (size_t)S(0) < m.size()) m[S(0)] |= at(S(1)); }
    else if (op == "copy" || op == "movector") m.push_back(at(S(0)));
    else if (op == "assign" || op == "moveassign") { if (S(0) >= 0 && (size_t)S(0) < m.size()) m[S(0)] = at(S(1)); }
    else if (op == "destroy" || op == "look" || op == "kind") {}
    else m.push_back(at(S(0)));   // tview / translate / scale / mirror
    return true;
  }
};
struct Solid { int status; bool empty; double vol, area; double bb[6]; };
inline Solid solidOf(const Manifold& m) {
  Solid s; s.status = (int)m.Status(); s.empty = m.IsEmpty(); s.vol = m.Volume(); s.area = m.SurfaceArea(); Box b = m.BoundingBox();
  double a[6] = {b.min.x, b.min.y, b.min.z, b.max.x, b.max.y, b.max.z}; memcpy(s.bb, a, sizeof a); return s;
}
inline bool nearRel(double a, double b, double scale) { return std::fabs(a - b) <= 1e-7 * scale; }
inline std::string differ(const Solid& l, const Solid& e) {
  char b[300];
  if (l.status != e.status) { snprintf(b, sizeof b, "Status %d (lazy history) vs %d (eager)", l.status, e.status); return b; }
  if (l.empty != e.empty) { snprintf(b, sizeof b, "IsEmpty %d (lazy history) vs %d (eager); volume %.9g vs %.9g", (int)l.empty, (int)e.empty, l.vol, e.vol); return b; }
  if (e.empty) return "";
  double ext = 1e-9; for (int i = 0; i < 3; i++) ext = std::max(ext, e.bb[i + 3] - e.bb[i]);
  if (!nearRel(l.vol, e.vol, ext * ext * ext)) { snprintf(b, sizeof b, "Volume %.12g (lazy history) vs %.12g (eager)", l.vol, e.vol); return b; }
  if (!nearRel(l.area, e.area, ext * ext)) { snprintf(b, sizeof b, "SurfaceArea %.12g (lazy history) vs %.12g (eager)", l.area, e.area); return b; }
  for (int i = 0; i < 6; i++) if (!nearRel(l.bb[i], e.bb[i], ext)) { snprintf(b, sizeof b, "BoundingBox[%d] %.12g (lazy history) vs %.12g (eager)", i, l.bb[i], e.bb[i]); return b; }
  return "";
}
}  // namespace lz

static bool gReplay = false;
// a crash of the real library in the middle of a history: the child still hands the event
// stream recorded so far to the monitor (a write to a shared buffer is reported BEFORE it
// happens, so a crash caused by broken copy-on-write has its cause in the stream)
static Recorder* gRec = nullptr; static std::string gTag; static int gKind = 0; static volatile int gStep = -1;
static void onCrash(int sig) {
  static volatile sig_atomic_t once = 0; if (once) _exit(98); once = 1;
  fflush(stdout);
  std::string out = "CASE " + gTag + (gKind == 0 ? " manifold" : gKind == 1 ? " cross" : gKind == 3 ? " lazy" : " impl") + " crashed=1 signal=" + std::to_string(sig) + " step=" + std::to_string(gStep) +
                    " events=" + std::to_string(gRec ? gRec->n : 0) + "\nREQ " + (gRec ? "cow" + gRec->ev : std::string()) + "\nEXP " + (gRec ? "accepted" : "") + (gKind == 3 && gRec ? "\nPROP FAIL the lazy history crashed the library although the eager run of the same program completed\n" : "\nPROP ok\n");
  size_t off = 0; while (off < out.size()) { ssize_t w = write(1, out.data() + off, out.size() - off); if (w <= 0) break; off += (size_t)w; }
  _exit(97);
}
static void armCrashHandler() {
  static char stack[1 << 16]; stack_t ss; ss.ss_sp = stack; ss.ss_size = sizeof stack; ss.ss_flags = 0; sigaltstack(&ss, nullptr);
  struct sigaction sa; memset(&sa, 0, sizeof sa); sa.sa_handler = onCrash; sa.sa_flags = SA_ONSTACK; sigemptyset(&sa.sa_mask);
  for (int sg : {SIGSEGV, SIGBUS, SIGABRT, SIGFPE, SIGILL}) sigaction(sg, &sa, nullptr);
}
template <typename Tr, typename MakeGen>
static void runProgram(const std::string& tag, int kind, const std::vector<std::string>* given, uint64_t seed, int L, MakeGen makeGen,
                       std::function<void(const ap::Step&, std::vector<typename Tr::T>&)> execOp, bool record) {
  Recorder rec; if (record) { rec.install(); gRec = &rec; }
  gTag = tag; gKind = kind; armCrashHandler();
  {
    Runner<Tr> run; run.execOp = execOp;
    hz::Rng r(seed); auto gen = makeGen(r);
    int n = given ? (int)given->size() : L + 1;
    for (int i = 0; i < n; i++) {
      ap::Step s;
      if (given) { if (!ap::parse((*given)[i], s)) { if (gReplay) printf("STEP %d made 0\n", i); continue; } }
      else {
        bool m;
        if (i == 0) { s.op = "kind"; s.arg = {(double)kind}; } else s = genStep(gen, r, run.liveIdx(), 24, m);
        printf("PROG %s.%d %s\n", tag.c_str(), i, ap::show(s).c_str());
      }
      fflush(stdout); gStep = i;
      size_t made = run.step(s, i);
      if (gReplay) printf("STEP %d made %zu\n", i, made);
    }
    run.finish(n);
    if (record) rec.uninstall();   // the pool's destructors are not part of the history
    gRec = nullptr;
    std::ostringstream t; t << tag << " " << (kind == 0 ? "manifold" : "cross") << " steps=" << n << " live=" << run.liveCount() << " observations=" << run.observations << " comparisons=" << run.comparisons
                            << " events=" << rec.n << " shares=" << rec.nShare << " clones=" << rec.nClone << " writes=" << rec.nWrite;
    hz::emit(t.str(), record ? "cow" + rec.ev : "", record ? "accepted" : "", run.ok, run.msg);
    std::string h; for (auto& kv : run.opHist) h += " " + kv.first + "=" + std::to_string(kv.second);
    printf("OPS%s\n", h.c_str());
  }
}


// one lazy history + its eager twin (see the header comment, fourth family). The eager twin runs first (it also
// drives the generator: liveness is the same in both runs); a crash of the library during the LAZY run is then a
// result: the same legal program completed when every value was forced at once.
static bool gLazyPhase = false;
static void runLazyPair(const std::string& tag, const std::vector<std::string>* given, uint64_t seed, int L) {
  auto mexec = [](const ap::Step& s, std::vector<Manifold>& pool) { lz::exec(s, pool); };
  std::vector<ap::Step> prog; std::vector<lz::Solid> lazyS, eagerS; std::vector<int> liveSlots; std::map<std::string, int> hist;
  bool ok = true; std::string msg;
  gTag = tag; gKind = 3; gRec = nullptr; armCrashHandler();
  {
    Runner<MTraits> run; run.execOp = mexec; run.light = true;   // eager twin: every result forced at once
    hz::Rng r(seed); lz::Gen gen(r); lz::Leaves leaves; std::vector<int> dropSoon;
    int n = given ? (int)given->size() : L;
    for (int i = 0; i < n; i++) {
      ap::Step s;
      if (given) { if (!ap::parse((*given)[i], s)) continue; if (s.op == "kind") continue; }
      else {
        bool m;
        // derive-and-drop: results of derived operations are often temporaries that die without ever being looked at
        for (size_t q = 0; q < dropSoon.size();) { if (run.gid.size() <= (size_t)dropSoon[q] || run.gid[dropSoon[q]] < 0) dropSoon.erase(dropSoon.begin() + q); else q++; }
        bool dropNow = !dropSoon.empty() && r.below(100) < 45;
        for (int tries = 0;; tries++) {
          if (dropNow) { size_t q = r.below(dropSoon.size()); s = ap::Step(); s.op = r.below(4) ? "destroy" : "assign"; s.src = {dropSoon[q]}; if (s.op == "assign") { auto lv = run.liveIdx(); s.src.push_back(lv[r.below(lv.size())]); } dropSoon.erase(dropSoon.begin() + q); dropNow = false; }
          else
          s = genStep(gen, r, run.liveIdx(), 9, m);
          if (s.op == "look") s.op = "copy";
          if (tries >= 30) s = gen.prim();
          lz::Leaves probe = leaves;
          if (probe.apply(s, true)) break;             // operands of a Boolean never share a primitive
        }
        if (s.op[0] != '~') s.op = "~" + s.op;        // in the lazy run nothing is observed before the end
        printf("PROG %s.%d %s\n", tag.c_str(), i + 1, ap::show(s).c_str());
      }
      fflush(stdout); gStep = i; prog.push_back(s); leaves.apply(s, false);
      { const std::string b = s.op[0] == '~' ? s.op.substr(1) : s.op;
        if (!given && (b == "add" || b == "sub" || b == "int" || b == "batch" || b == "tbool" || b == "tview" || b == "translate" || b == "scale" || b == "mirror") && r.below(100) < 45) dropSoon.push_back((int)run.pool.size()); }
      ap::Step e = s; if (e.op[0] == '~') e.op = e.op.substr(1);
      hist[e.op]++;
      run.step(e, i);
    }
    liveSlots = run.liveIdx();
    for (int slot : liveSlots) eagerS.push_back(lz::solidOf(run.pool[slot]));
    if (!run.ok) { ok = false; msg = "eager twin: " + run.msg; }
  }
  Recorder rec; rec.install(); gRec = &rec; gLazyPhase = true;
  {
    Runner<MTraits> run; run.execOp = mexec;
    for (size_t i = 0; i < prog.size(); i++) { gStep = (int)i; run.step(prog[i], (int)i); }
    std::vector<int> live2 = run.liveIdx();
    if (live2 != liveSlots) { if (ok) { ok = false; msg = "lazy and eager run of the same program have different live slots"; } }
    else for (size_t j = 0; j < liveSlots.size(); j++) {
      lz::Solid l = lz::solidOf(run.pool[liveSlots[j]]);
      std::string d = lz::differ(l, eagerS[j]);
      if (!d.empty() && ok) { ok = false; msg = "slot " + std::to_string(liveSlots[j]) + " (never looked at before the end of the history) is a different solid than in the eager run of the same program: " + d; }
    }
    run.finish((int)prog.size());   // and the usual re-observation discipline from here on
    if (!run.ok && ok) { ok = false; msg = run.msg; }
    rec.uninstall(); gRec = nullptr; gLazyPhase = false;
  }
  std::ostringstream t; t << tag << " lazy steps=" << prog.size() << " live=" << liveSlots.size() << " events=" << rec.n << " shares=" << rec.nShare << " clones=" << rec.nClone;
  hz::emit(t.str(), "cow" + rec.ev, "accepted", ok, msg);
  std::string h; for (auto& kv : hist) h += " " + kv.first + "=" + std::to_string(kv.second);
  printf("OPS%s\n", h.c_str());
}

// ------------------------------------------------------------- internal sharing discipline
static std::vector<int> snapshot(const Halfedges& h) { std::vector<int> v; for (size_t i = 0; i < h.size(); i++) { v.push_back(h.Start(i)); v.push_back(h.Pair(i)); v.push_back(h.Prop(i)); } return v; }
static const char* kImplMethods[] = {"SortGeometry", "DedupePropVerts", "CleanupTopology", "SimplifyTopology", "SimplifyTopology2", "MakeEmpty", "SetNormals", "Refine", "Transform-mirror"};
static void runImplCase(int idx, int method, int shape) {
  Recorder rec; rec.install(); gRec = &rec; gTag = "i" + std::to_string(idx); gKind = 2; gStep = method; armCrashHandler();
  bool ok = true; std::string msg; size_t nh = 0;
  {
    Manifold base;
    switch (shape % 4) {
      case 0: base = Manifold::Cube({1, 2, 3}); break;
      case 1: base = Manifold::Sphere(1, 8).Translate({0.3, 0, 0}) + Manifold::Cube({1, 1, 1}); break;
      case 2: base = Manifold::Cube({2, 2, 2}).Refine(3); break;
      default: base = (Manifold::Cube({2, 2, 2}, true) - Manifold::Cylinder(3, 0.5, 0.5, 12, true)).CalculateNormals(0, 40); break;
    }
    MeshGL64 mesh = base.GetMeshGL64();
    Manifold::Impl B(mesh);
    if (method == 1) {   // DedupePropVerts writes only when property vertices coincide: give every vertex several identical ones
      Manifold withN = base.CalculateNormals(0, 0);   // one property vertex per (vertex, face corner)
      B = Manifold::Impl(withN.GetMeshGL64());
      for (auto& p : B.properties_) p = 0.0;
    }
    Manifold::Impl S = B;          // deep copy (Vec copy constructor)
    S.halfedge_ = B.halfedge_;     // copy-assign: S now SHARES B's three buffers (what Impl::Transform does)
    std::vector<int> before = snapshot(S.halfedge_); nh = before.size() / 3;
    switch (method) {
      case 0:   // move the vertices so that the Morton order, hence the vertex numbering, really changes
        for (auto& v : B.vertPos_) v = vec3(-v.z, 0.7 * v.x + 0.1, v.y);
        B.CalculateBBox(); B.SortGeometry(); break;
      case 1: B.DedupePropVerts(); break;
      case 2: B.CleanupTopology(); break;
      case 3: B.SimplifyTopology(0); break;
      case 4: B.SimplifyTopology2(); break;
      case 5: B.MakeEmpty(Manifold::Error::NoError); break;
      case 6: B.SetNormals(0, 40); break;
      case 7: B.Refine([](vec3, vec4, vec4) { return 1; }); break;
      default: { mat3x4 mir = la::identity; mir[0][0] = -1; Manifold::Impl R = B.Transform(mir); (void)R; break; }
    }
    std::vector<int> after = snapshot(S.halfedge_);
    if (after != before) {
      size_t k = 0; while (k < before.size() && k < after.size() && before[k] == after[k]) k++;
      ok = false; msg = std::string("Impl::") + kImplMethods[method] + " on an Impl whose halfedge buffers are shared changed the OTHER Impl: halfedge " + std::to_string(k / 3) +
                        (k % 3 == 0 ? " start" : k % 3 == 1 ? " paired" : " propVert") + " was " + std::to_string(k < before.size() ? before[k] : -99) + " is " + std::to_string(k < after.size() ? after[k] : -99);
    }
    rec.uninstall(); gRec = nullptr;
  }
  std::ostringstream t; t << "i" << idx << " impl " << kImplMethods[method] << " shape=" << shape % 4 << " halfedges=" << nh << " events=" << rec.n << " writes=" << rec.nWrite;
  hz::emit(t.str(), "cow" + rec.ev, "accepted", ok, msg);
}

template <typename F> static void inChild(const std::string& tag, F f) {
  fflush(stdout);
  pid_t pid = fork();
  if (pid != 0) { int st = 0; waitpid(pid, &st, 0); if (!(WIFEXITED(st) && WEXITSTATUS(st) == 0)) printf("CRASH %s %d\n", tag.c_str(), WIFSIGNALED(st) ? WTERMSIG(st) : -WEXITSTATUS(st)); return; }
  f(); fflush(stdout); _exit(0);
}

int main(int argc, char** argv) {
  uint64_t seed = hz::envSeed();
  auto mexec = [](const ap::Step& s, std::vector<Manifold>& pool) { ap::exec(s, pool); };
  auto xexec = [](const ap::Step& s, std::vector<CrossSection>& pool) { cs::exec(s, pool); };
  if (argc == 4) {   // replay
    gReplay = true;
    std::ifstream f(argv[3]); std::string line; std::vector<std::string> lines; int kind = 0;
    while (std::getline(f, line)) { if (line.empty()) continue; ap::Step s; if (ap::parse(line, s) && s.op == "kind" && !s.arg.empty()) kind = (int)s.arg[0]; lines.push_back(line); }
    if (kind == 2) runLazyPair("r0", &lines, seed, 0);
    else if (kind == 0) runProgram<MTraits>("r0", 0, &lines, seed, 0, [](hz::Rng& r) { return ap::Gen(r, false); }, mexec, true);
    else runProgram<XTraits>("r0", 1, &lines, seed, 0, [](hz::Rng& r) { return cs::Gen(r); }, xexec, false);
    return 0;
  }
  int PM = argc > 1 ? atoi(argv[1]) : 20, LM = argc > 2 ? atoi(argv[2]) : 40, PX = argc > 3 ? atoi(argv[3]) : 20, LX = argc > 4 ? atoi(argv[4]) : 60;
  for (int p = 0; p < PM; p++) {
    std::string tag = "m" + std::to_string(p);
    inChild(tag, [&]() {
      bool lattice = p % 3 == 0;
      runProgram<MTraits>(tag, 0, nullptr, seed * 100003 + p, LM + (p % 5) * LM / 4, [lattice](hz::Rng& r) { return ap::Gen(r, lattice); }, mexec, true);
    });
  }
  for (int p = 0; p < PX; p++) {
    std::string tag = "x" + std::to_string(p);
    inChild(tag, [&]() {
      runProgram<XTraits>(tag, 1, nullptr, seed * 200003 + p, LX + (p % 5) * LX / 4, [](hz::Rng& r) { return cs::Gen(r); }, xexec, false);
    });
  }
  int PL = argc > 5 ? atoi(argv[5]) : 0, LL = argc > 6 ? atoi(argv[6]) : 14;
  for (int p = 0; p < PL; p++) {
    std::string tag = "l" + std::to_string(p);
    inChild(tag, [&]() { printf("PROG %s.0 kind 0 1 2\n", tag.c_str()); runLazyPair(tag, nullptr, seed * 300007 + p, LL + (p % 4) * 4); });
  }
  int nm = (int)(sizeof kImplMethods / sizeof kImplMethods[0]), idx = 0;
  for (int m = 0; m < nm; m++) for (int sh = 0; sh < 4; sh++) { int i = idx++; inChild("i" + std::to_string(i), [&]() { runImplCase(i, m, sh); }); }
  return 0;
}
