// C14 (2-D half) correspondence harness: the REAL 2-D broad phase of src/boolean2.cpp
// (BVHBuildFromBoxes, BVHCollisions, CollectIntersectionPairs with and without a BVH,
// SharedEndpointSafelySkippable, MergeVerts) and the polygon k-d tree of src/tree2d.cpp /
// tree2d.h (BuildTwoDTree, QueryTwoDTree) versus the Lean model MV/Model/Broad2.lean on
// integer-lattice boxes / points, plus a brute-force oracle (the property itself) on every case.
// The two .cpp files are #included so that anonymous-namespace code is reachable; the program is
// linked with --gc-sections and without libmanifold (only the Boolean2 driver, which is not
// called, refers to other translation units).  Compiled twice by checks/c14.py: MANIFOLD_PAR=-1
// (serial CollidePairs branch) and MANIFOLD_PAR=1 against virtual TBB (PairsRecorder /
// tbb::combinable branch, loops executed in seeded orders).
#if (MANIFOLD_PAR == 1)
#include "tbb/vtbb_core.h"
#endif
#include "boolean2.cpp"
#include "tree2d.cpp"
#include "vec.h"
#include <functional>
#include <sstream>
#include <set>
#include "common.h"
using namespace manifold;
using hz::Rng;

static void pb(std::ostringstream& o, const Box2& b) { o << " " << (long)b.min.x << " " << (long)b.min.y << " " << (long)b.max.x << " " << (long)b.max.y; }

// ---- box generators -------------------------------------------------------------------
// R: lattice side, W: maximal box extent, flavour: 0 random, 1 many identical boxes,
// 2 few distinct min.x, 3 many degenerate (zero-width) boxes, 4 all identical, 5 vertical strips
static std::vector<Box2> genBoxes(Rng& r, int n, int R, int W, int flavour) {
  std::vector<Box2> bb(n);
  for (int i = 0; i < n; i++) {
    int x = (int)r.below(R), y = (int)r.below(R), w = (int)r.below(W + 1), h = (int)r.below(W + 1);
    if (flavour == 2) x = (int)r.below(3) * (R / 3 + 1);
    if (flavour == 3 && r.below(2)) { w = 0; if (r.below(2)) h = 0; }
    if (flavour == 5) { w = 0; x = (int)r.below(4); }
    bb[i] = Box2(vec2(x, y), vec2(x + w, y + h));
    if (flavour == 1 && i > 0 && r.below(3) == 0) bb[i] = bb[r.below(i)];
    if (flavour == 4 && i > 0) bb[i] = bb[0];
    if (flavour == 0 && i > 0 && r.below(11) == 0) bb[i] = bb[r.below(i)];
  }
  return bb;
}

static std::vector<uint32_t> mortonOf(const std::vector<Box2>& boxes) {
  // as BVHBuildFromBoxes: bbox = union of all, code = MortonCode2(center, bbox) (real function)
  Box2 bbox = boxes[0];
  for (auto& b : boxes) bbox = bbox.Union(b);
  std::vector<uint32_t> m(boxes.size());
  for (size_t i = 0; i < boxes.size(); i++) m[i] = MortonCode2(boxes[i].Center(), bbox);
  return m;
}

struct Edges { std::vector<EdgeM> e; std::vector<vec2> v; double eps = 0; bool shared = false; };

// edges with pairwise distinct endpoints: the filter never fires
static Edges distinctEdges(const std::vector<Box2>& bb) {
  Edges E;
  for (size_t i = 0; i < bb.size(); i++) { E.e.push_back({(int)(2 * i), (int)(2 * i + 1), 1}); E.v.push_back(bb[i].min); E.v.push_back(bb[i].max); }
  return E;
}
// edges over a small vertex pool (many shared endpoints); boxes = BoxOf2DEdge (integer eps)
static Edges sharedEdges(Rng& r, int n, int R, std::vector<Box2>& bb) {
  Edges E; E.shared = true; E.eps = (double)r.below(3);
  int nv = 2 + (int)r.below(n + 2);
  for (int i = 0; i < nv; i++) E.v.push_back(vec2((int)r.below(R), (int)r.below(R)));
  bb.resize(n);
  for (int i = 0; i < n; i++) {
    int a = (int)r.below(nv), b = (int)r.below(nv);
    if (a == b && r.below(4)) b = (a + 1) % nv;
    E.e.push_back({a, b, 1});
    bb[i] = BoxOf2DEdge(E.v[a], E.v[b], E.eps);
  }
  return E;
}

static void pairsCase(const std::string& tag, const std::vector<Box2>& bb, const Edges& E, bool useBvh) {
  const int n = (int)bb.size();
  std::ostringstream in, out; bool ok = true; std::string msg;
  BVH bvh;
  std::vector<uint32_t> codes;
  if (useBvh) { bvh = BVHBuildFromBoxes(bb); codes = mortonOf(bb); in << "collider bvh2pairs " << n; for (auto c : codes) in << " " << c; }
  else in << "collider xsweep " << n;
  in << " ;"; for (auto& b : bb) pb(in, b);
  std::vector<std::vector<char>> sk;
  if (E.shared) {
    sk.assign(n, std::vector<char>(n, 0));
    in << " ;";
    for (int a = 0; a < n; a++) for (int b = 0; b < n; b++) if (a != b && SharedEndpointSafelySkippable(E.e[a], E.e[b], E.v, E.eps)) { sk[a][b] = 1; in << " " << a << " " << b; }
  }
  std::vector<std::pair<int, int>> pairs;
  CollectIntersectionPairs(E.e, E.v, E.eps, bb, bvh, pairs);
  out << pairs.size(); for (auto& p : pairs) out << " " << p.first << " " << p.second;
  // oracle: all-pairs scan
  std::vector<std::pair<int, int>> br;
  for (int i = 0; i < n; i++) for (int j = i + 1; j < n; j++)
    if (bb[i].DoesOverlap(bb[j]) && !(E.shared && sk[i][j])) br.emplace_back(i, j);
  if (br != pairs) {
    ok = false;
    std::set<std::pair<int, int>> A(pairs.begin(), pairs.end()), B(br.begin(), br.end());
    std::ostringstream m; m << (useBvh ? "BVH" : "x-sweep") << " pairs != all-pairs scan: got " << pairs.size() << " expected " << br.size();
    for (auto& p : br) if (!A.count(p)) { m << "; missing (" << p.first << "," << p.second << ")"; break; }
    for (auto& p : pairs) if (!B.count(p)) { m << "; spurious (" << p.first << "," << p.second << ")"; break; }
    if (A == B) m << "; same set, order or multiplicity differs";
    msg = m.str();
  }
  hz::emit(tag, in.str(), out.str(), ok, msg);
}

static void bvhCase(const std::string& tag, Rng& r, const std::vector<Box2>& bb, int R, bool query) {
  const int n = (int)bb.size();
  std::ostringstream in, out; bool ok = true; std::string msg;
  BVH bvh = BVHBuildFromBoxes(bb);
  auto codes = mortonOf(bb);
  in << "collider " << (query ? "bvh2query " : "bvh2 ") << n; for (auto c : codes) in << " " << c;
  in << " ;"; for (auto& b : bb) pb(in, b);
  // oracle on the build: leafToOrig is the stable sort of 0..n-1 by code
  std::vector<int> ord(n); for (int i = 0; i < n; i++) ord[i] = i;
  std::sort(ord.begin(), ord.end(), [&](int a, int b) { return codes[a] != codes[b] ? codes[a] < codes[b] : a < b; });
  if (ord != bvh.leafToOrig) { ok = false; msg = "leafToOrig is not the stable sort by Morton code"; }
  if (!query) {
    bool f = true; for (int x : bvh.leafToOrig) { out << (f ? "" : " ") << x; f = false; }
    out << " ;"; for (auto& p : bvh.internalChildren) out << " " << p.first << " " << p.second;
    out << " ;"; for (auto& b : bvh.nodeBBox) pb(out, b);
    if (n > 1) { Box2 u = bb[0]; for (auto& b : bb) u = u.Union(b); const Box2& rt = bvh.nodeBBox[1];
      if (!(rt.min == u.min && rt.max == u.max)) { ok = false; msg = "root box is not the union of all boxes"; } }
  } else {
    int nq = 1 + (int)r.below(8);
    in << " ;";
    std::vector<Box2> qs;
    for (int i = 0; i < nq; i++) {
      int x = (int)r.below(R + 4) - 2, y = (int)r.below(R + 4) - 2;
      Box2 q(vec2(x, y), vec2(x + (int)r.below(R / 2 + 2), y + (int)r.below(R / 2 + 2)));
      if (r.below(3) == 0) q = bb[r.below(n)];
      qs.push_back(q); pb(in, q);
    }
    std::vector<std::vector<int>> res(nq);
    auto rec = [&](int q, int l) { res[q].push_back(l); };
    auto rc = MakeSimpleRecorder(rec);
    auto qf = [&](int i) { return qs[i]; };
    BVHCollisions(bvh, rc, qf, nq, /*parallel=*/false);
    for (int i = 0; i < nq; i++) {
      if (i) out << " ; "; out << res[i].size(); for (int l : res[i]) out << " " << l;
      std::vector<int> got; for (int l : res[i]) got.push_back(bvh.leafToOrig[l]); std::sort(got.begin(), got.end());
      std::vector<int> br; for (int k = 0; k < n; k++) if (bb[k].DoesOverlap(qs[i])) br.push_back(k);
      if (n > 1 && got != br) { ok = false; msg = "BVH query " + std::to_string(i) + " != brute-force overlap scan"; }
    }
  }
  hz::emit(tag, in.str(), out.str(), ok, msg);
}

// ---- k-d tree -------------------------------------------------------------------------
static std::vector<PolyVert> genPts(Rng& r, int n, int flavour) {
  // 0 random on a lattice about sqrt(n) wide, 1 few distinct x, 2 few distinct y, 3 tiny lattice (many
  // duplicates), 4 all identical, 5 one line x == y
  int R = 2 + (int)std::sqrt((double)n) + (int)r.below(8);
  std::vector<PolyVert> p(n);
  for (int i = 0; i < n; i++) {
    int x = (int)r.below(R), y = (int)r.below(R);
    if (flavour == 1) x = (int)r.below(2);
    if (flavour == 2) y = (int)r.below(2);
    if (flavour == 3) { x = (int)r.below(3); y = (int)r.below(3); }
    if (flavour == 4) { x = 1; y = 2; }
    if (flavour == 5) y = x;
    p[i] = {vec2(x, y), i};
  }
  return p;
}

static bool kdInvariant(const PolyVert* p, size_t n, bool sortX) {
  if (n < 2) return true;
  size_t h = n / 2;
  auto c = [&](const PolyVert& v) { return sortX ? v.pos.x : v.pos.y; };
  for (size_t i = 0; i < h; i++) if (c(p[i]) > c(p[h])) return false;
  for (size_t i = h + 1; i < n; i++) if (c(p[i]) < c(p[h])) return false;
  return kdInvariant(p, h, !sortX) && kdInvariant(p + h + 1, n - h - 1, !sortX);
}

static void kdCase(const std::string& tag, Rng& r, const std::vector<PolyVert>& pts, bool query) {
  const int n = (int)pts.size();
  std::ostringstream in, out; bool ok = true; std::string msg;
  Vec<PolyVert> v(pts);
  BuildTwoDTree(v.view());
  in << "collider " << (query ? "kdquery " : "kdbuild ") << n << " ;";
  for (auto& p : pts) in << " " << (long)p.pos.x << " " << (long)p.pos.y;
  std::vector<int> seen(n, 0);
  for (auto& p : v) if (p.idx < 0 || p.idx >= n || seen[p.idx]++ || !(pts[p.idx].pos == p.pos)) { ok = false; msg = "BuildTwoDTree did not permute the points"; }
  if (n > 8 && !kdInvariant(v.data(), v.size(), true)) { ok = false; msg = "k-d invariant (left <= median <= right per level) violated"; }
  if (!query) {
    bool f = true; for (auto& p : v) { out << (f ? "" : " ") << p.idx; f = false; }
  } else {
    int nq = 1 + (int)r.below(6);
    int R = 2; for (auto& p : pts) R = std::max(R, (int)std::max(p.pos.x, p.pos.y) + 1);
    in << " ;";
    for (int q = 0; q < nq; q++) {
      int x = (int)r.below(R + 2) - 1, y = (int)r.below(R + 2) - 1, w = (int)r.below(R + 1), h = (int)r.below(R + 1);
      int kind = (int)r.below(8);
      if (kind == 0) w = h = 0;                       // a point
      if (kind == 1) { x = -1; y = -1; w = h = R + 2; } // everything
      if (kind == 2) w = 0;                           // a vertical segment
      if (kind == 3 && n) { x = (int)pts[r.below(n)].pos.x; y = (int)pts[r.below(n)].pos.y; }  // edges on point coordinates
      Rect rc; rc.min = vec2(x, y); rc.max = vec2(x + w, y + h);
      if (kind == 4) std::swap(rc.min.x, rc.max.x);     // inverted in x: contains nothing
      in << " " << (long)rc.min.x << " " << (long)rc.min.y << " " << (long)rc.max.x << " " << (long)rc.max.y;
      std::vector<int> got;
      QueryTwoDTree(v.view(), rc, [&](const PolyVert& p) { got.push_back(p.idx); });
      if (q) out << " ; "; out << got.size(); for (int i : got) out << " " << i;
      std::vector<int> br; for (auto& p : pts) if (rc.Contains(p.pos)) br.push_back(p.idx);
      std::sort(got.begin(), got.end());
      if (got != br) { ok = false; msg = "QueryTwoDTree rect " + std::to_string(q) + " != brute-force scan (got " + std::to_string(got.size()) + ", expected " + std::to_string(br.size()) + ")"; }
    }
  }
  hz::emit(tag, in.str(), out.str(), ok, msg);
}

// ---- MergeVerts: only the result is observable; oracle = connected components of the
// "distance <= eps" graph by an all-pairs scan (the candidate sweep must not lose an edge of it)
static void mergeCase(const std::string& tag, Rng& r, int n) {
  int R = 2 + (int)(std::sqrt((double)n) * (1 + r.below(3)));
  double eps = (double)(1 + r.below(2));
  std::vector<vec2> in(n);
  for (auto& p : in) p = vec2((int)r.below(R), (int)r.below(r.below(3) ? R : 3));
  VertexMerge vm = MergeVerts(in, eps);
  std::vector<int> par(n); for (int i = 0; i < n; i++) par[i] = i;
  std::function<int(int)> find = [&](int x) { while (par[x] != x) x = par[x] = par[par[x]]; return x; };
  for (int i = 0; i < n; i++) for (int j = i + 1; j < n; j++) { vec2 d = in[i] - in[j]; if (dot(d, d) <= eps * eps) par[find(i)] = find(j); }
  bool ok = (int)vm.inputVert2Merged.size() == n; std::string msg;
  std::vector<int> rep(vm.verts.size(), -1);
  for (int i = 0; ok && i < n; i++) {
    int m = vm.inputVert2Merged[i];
    if (m < 0 || m >= (int)vm.verts.size()) { ok = false; msg = "inputVert2Merged out of range"; break; }
    if (rep[m] < 0) rep[m] = find(i);
    else if (rep[m] != find(i)) { ok = false; msg = "MergeVerts merged two verts of different eps-components"; }
  }
  if (ok) { std::set<int> roots; for (int i = 0; i < n; i++) roots.insert(find(i)); if (roots.size() != vm.verts.size()) { ok = false; msg = "MergeVerts left an eps-component split (" + std::to_string(vm.verts.size()) + " clusters, all-pairs scan " + std::to_string(roots.size()) + ")"; } }
  hz::emit(tag, "", "", ok, msg);
}

int main(int argc, char** argv) {
  uint64_t seed = hz::envSeed(); Rng r(seed);
  int T = argc > 1 ? atoi(argv[1]) : 200;      // number of small rounds
  int big = argc > 2 ? atoi(argv[2]) : 1;      // 0: no large cases, 1: a few, 2: many
  int id = 0;
  auto tg = [&](const char* kind, int n, const std::string& extra = "") { return "b" + std::to_string(id++) + " " + kind + " n=" + std::to_string(n) + (extra.empty() ? "" : " " + extra); };
#if (MANIFOLD_PAR == 1)
  tbb::vt::seed(seed * 104729 + 17);
#endif
  // ---- small and medium rounds
  for (int t = 0; t < T; t++) {
#if (MANIFOLD_PAR == 1)
    tbb::vt::seed(seed * 7919 + t);
#endif
    int n = t % 5 == 0 ? 2 + (int)r.below(200) : 1 + (int)r.below(40);
    int flavour = (int)r.below(6);
    int R = 1 + (int)r.below(n < 12 ? 6 : 3 * (int)std::sqrt((double)n) + 4), W = (int)r.below(5);
    std::vector<Box2> bb = genBoxes(r, n, R, W, flavour);
    switch (t % 8) {
      case 0: pairsCase(tg("xsweep", n, "f" + std::to_string(flavour)), bb, distinctEdges(bb), false); break;
      case 1: pairsCase(tg("bvh2pairs", n, "f" + std::to_string(flavour)), bb, distinctEdges(bb), true); break;
      case 2: { std::vector<Box2> eb; Edges E = sharedEdges(r, n, 2 + (int)r.below(8), eb); bool bv = r.below(2); pairsCase(tg(bv ? "bvh2pairs" : "xsweep", n, "shared"), eb, E, bv); break; }
      case 3: bvhCase(tg("bvh2", n, "f" + std::to_string(flavour)), r, bb, R, false); break;
      case 4: bvhCase(tg("bvh2query", n, "f" + std::to_string(flavour)), r, bb, R + W, true); break;
      case 5: { int k = (int)r.below(5); int m = k == 0 ? (int)r.below(9) : k == 1 ? 9 : k == 2 ? 17 : k == 3 ? 8 + (int)r.below(30) : 10 + (int)r.below(300);
                kdCase(tg("kdbuild", m), r, genPts(r, m, (int)r.below(6)), false); break; }
      case 6: { int k = (int)r.below(5); int m = k == 0 ? (int)r.below(9) : k == 1 ? 9 : k == 2 ? 17 : k == 3 ? 8 + (int)r.below(30) : 10 + (int)r.below(300);
                kdCase(tg("kdquery", m), r, genPts(r, m, (int)r.below(6)), true); break; }
      case 7: { int m = t % 16 == 7 ? 1 + (int)r.below(31) : 32 + (int)r.below(200); mergeCase(tg("mergeverts", m), r, m); break; }
    }
  }
  // ---- both sides of the 1024-edge switch and large inputs
  if (big) {
    std::vector<int> sizes = {1000, 1022, 1023, 1024, 1025, 1026, 3000};
    if (big > 1) { sizes.push_back(2000); sizes.push_back(5000); sizes.push_back(12000); }
    for (int n : sizes) {
      int reps = big > 1 ? 3 : 1;
      for (int k = 0; k < reps; k++) {
        int flavour = k == 0 ? (int)r.below(4) : (int)r.below(6);
        if (flavour == 4 && n > 1100) flavour = 1;
        int R = (flavour == 4 || flavour == 5) ? 40 : 2 * (int)std::sqrt((double)n) + (int)r.below(20), W = flavour == 1 ? 1 : 2;
        std::vector<Box2> bb = genBoxes(r, n, R, W, flavour);
        if (flavour == 4) bb.resize(300);   // all identical: keep the pair list (n^2/2) printable
        Edges E = distinctEdges(bb);
        int m = (int)bb.size();
        pairsCase(tg("xsweep", m, "f" + std::to_string(flavour)), bb, E, false);
        pairsCase(tg("bvh2pairs", m, "f" + std::to_string(flavour)), bb, E, true);
        if (k == 0) { bvhCase(tg("bvh2", m, "f" + std::to_string(flavour)), r, bb, R, false); bvhCase(tg("bvh2query", m, "f" + std::to_string(flavour)), r, bb, R, true); }
      }
    }
    for (int n : {1000, 1023, 1024, 1025, 4000}) { kdCase(tg("kdbuild", n), r, genPts(r, n, (int)r.below(4)), false); kdCase(tg("kdquery", n), r, genPts(r, n, (int)r.below(6)), true); }
    for (int n : {1000, 1023, 1024, 1025, 2500}) mergeCase(tg("mergeverts", n), r, n);
  }
#if (MANIFOLD_PAR == 1)
  printf("STATS calls=%zu leaves=%zu\n", tbb::vt::ctl().calls, tbb::vt::ctl().leaves);
#endif
  return 0;
}
