// C17 correspondence + oracle harness: constructors and transforms (library variant "ser").
//
//  (a) Extrude / Revolve: the model's triangle list (MV/Model/Extrude.lean, engine `ctor`) against the
//      real export.  REQ carries polygon sizes / axis pattern, division count, cone / full-revolution
//      flag and the cap triangulation the real code used (TriangulateIdx / Triangulate on the identical
//      input).  EXP is the real export's triangle list with every exported vertex renamed to the index
//      the MODEL gives it; the renaming is by the bit pattern of the position, which this harness
//      computes in model order with the documented formulas (the library's own cosd/sind/lerp), so a
//      wrong position is a PROP failure and SortGeometry's renumbering drops out.
//  (b) every produced manifold is printed as `MESH <kind> | nV nT tris | genus`; checks/c17.py sends it
//      through `mesh check` (verified checker).
//  (c) analytic oracles in long double (solid-angle winding number of the export): Cube, Sphere,
//      Cylinder/cone, Extrude (planar side walls), Revolve, LevelSet; transforms: volume, orientation,
//      point map, exact quarter turns, rotation order, Mirror, Warp.
//  (d) invalid-argument sweep against the `invalid` decision table (each call in a forked child).
//  (e) Quality settings against the model's segment function.
//  (f) EncodeIndex / DecodeIndex / ComputeGridPow of sdf.cpp against the model.
#include <algorithm>
#include <array>
#include <cmath>
#include <cstring>
#include <functional>
#include <map>
#include <set>
#include <sstream>
#include <sys/wait.h>
#include <unistd.h>
#include "sdf.cpp"  // anonymous-namespace EncodeIndex / DecodeIndex / ComputeGridPow (and LevelSet itself)
#include "manifold/manifold.h"
#include "manifold/polygon.h"
#include "common.h"
using namespace manifold;
using hz::Rng;
typedef long double ld;

static int gCase = 0;
static std::string nextId(const char* p) { return std::string(p) + std::to_string(gCase++); }
static double rnd(Rng& r, double lo, double hi) { return lo + (hi - lo) * (r.below(1u << 30) / (double)(1u << 30)); }
static uint64_t bits(double d) { if (d == 0.0) d = 0.0; uint64_t u; memcpy(&u, &d, 8); return u; }
typedef std::array<uint64_t, 3> Key;
static Key keyOf(double x, double y, double z) { return Key{bits(x), bits(y), bits(z)}; }

struct Mesh { std::vector<vec3> v; std::vector<std::array<int, 3>> t; };
static Mesh exportMesh(const Manifold& m) {
  MeshGL64 g = m.GetMeshGL64(); Mesh o;
  size_t nv = g.numProp ? g.vertProperties.size() / g.numProp : 0;
  for (size_t i = 0; i < nv; i++) o.v.push_back({g.vertProperties[i * g.numProp], g.vertProperties[i * g.numProp + 1], g.vertProperties[i * g.numProp + 2]});
  for (size_t i = 0; i + 2 < g.triVerts.size(); i += 3) o.t.push_back({(int)g.triVerts[i], (int)g.triVerts[i + 1], (int)g.triVerts[i + 2]});
  return o;
}
static void printMesh(const std::string& kind, const Manifold& m, const Mesh& e) {
  printf("MESH %s | %zu %zu", kind.c_str(), e.v.size(), e.t.size());
  for (auto& t : e.t) printf(" %d %d %d", t[0], t[1], t[2]);
  printf(" | %d\n", m.Genus());
}
// ------------------------------------------------------------------ long-double geometry
static ld winding(const Mesh& e, ld px, ld py, ld pz) {
  ld tot = 0;
  for (auto& t : e.t) {
    ld a[3] = {e.v[t[0]].x - px, e.v[t[0]].y - py, e.v[t[0]].z - pz}, b[3] = {e.v[t[1]].x - px, e.v[t[1]].y - py, e.v[t[1]].z - pz},
       c[3] = {e.v[t[2]].x - px, e.v[t[2]].y - py, e.v[t[2]].z - pz};
    ld la_ = sqrtl(a[0] * a[0] + a[1] * a[1] + a[2] * a[2]), lb = sqrtl(b[0] * b[0] + b[1] * b[1] + b[2] * b[2]), lc = sqrtl(c[0] * c[0] + c[1] * c[1] + c[2] * c[2]);
    ld num = a[0] * (b[1] * c[2] - b[2] * c[1]) - a[1] * (b[0] * c[2] - b[2] * c[0]) + a[2] * (b[0] * c[1] - b[1] * c[0]);
    ld den = la_ * lb * lc + (a[0] * b[0] + a[1] * b[1] + a[2] * b[2]) * lc + (b[0] * c[0] + b[1] * c[1] + b[2] * c[2]) * la_ + (c[0] * a[0] + c[1] * a[1] + c[2] * a[2]) * lb;
    tot += 2 * atan2l(num, den);
  }
  return tot / (4 * M_PIl);
}
static ld signedVolume(const Mesh& e) {
  ld v = 0;
  for (auto& t : e.t) { const vec3 &a = e.v[t[0]], &b = e.v[t[1]], &c = e.v[t[2]];
    v += (ld)a.x * ((ld)b.y * c.z - (ld)b.z * c.y) - (ld)a.y * ((ld)b.x * c.z - (ld)b.z * c.x) + (ld)a.z * ((ld)b.x * c.y - (ld)b.y * c.x); }
  return v / 6;
}
// even-odd point in polygon set + distance to the boundary (2-D, long double)
static bool inPolys(const Polygons& ps, ld x, ld y) {
  bool in = false;
  for (auto& p : ps) for (size_t i = 0, j = p.size() - 1; i < p.size(); j = i++) {
    ld xi = p[i].x, yi = p[i].y, xj = p[j].x, yj = p[j].y;
    if (((yi > y) != (yj > y)) && (x < (xj - xi) * (y - yi) / (yj - yi) + xi)) in = !in;
  }
  return in;
}
static ld distPolys(const Polygons& ps, ld x, ld y) {
  ld best = 1e300L;
  for (auto& p : ps) for (size_t i = 0, j = p.size() - 1; i < p.size(); j = i++) {
    ld ax = p[j].x, ay = p[j].y, bx = p[i].x, by = p[i].y, dx = bx - ax, dy = by - ay, l2 = dx * dx + dy * dy;
    ld t = l2 > 0 ? ((x - ax) * dx + (y - ay) * dy) / l2 : 0; t = std::max((ld)0, std::min((ld)1, t));
    ld ex = ax + t * dx - x, ey = ay + t * dy - y; best = std::min(best, sqrtl(ex * ex + ey * ey));
  }
  return best;
}
// classification oracle: `want(p)` returns +1 inside, 0 outside, -1 skip (inside the band)
struct Verdict { bool ok = true; std::string msg; int tested = 0, skipped = 0; };
static void classify(Verdict& V, const Mesh& e, Rng& r, vec3 lo, vec3 hi, int n, const std::function<int(ld, ld, ld)>& want, const char* what) {
  for (int i = 0; i < n && V.ok; i++) {
    ld x = rnd(r, lo.x, hi.x), y = rnd(r, lo.y, hi.y), z = rnd(r, lo.z, hi.z);
    int w = want(x, y, z);
    if (w < 0) { V.skipped++; continue; }
    ld wn = winding(e, x, y, z); V.tested++;
    int got = wn > 0.5L ? 1 : 0;
    if (fabsl(wn - roundl(wn)) > 1e-6L || got != w || (w == 0 && fabsl(wn) > 0.5L)) {
      char buf[300]; snprintf(buf, sizeof buf, "%s: point (%.17g %.17g %.17g) winding %.6Lf, defining inequality says %s", what, (double)x, (double)y, (double)z, wn, w ? "inside" : "outside");
      V.ok = false; V.msg = buf;
    }
  }
}
// ------------------------------------------------------------------ polygon generators (after harness/c10_earclip.cpp)
static SimplePolygon star(Rng& r, double cx, double cy, double rad, int n, bool cw, double jag) {
  SimplePolygon p; double ph = r.below(1000) * 0.00628;
  for (int i = 0; i < n; i++) { double a = ph + 2 * M_PI * i / n; double rr = rad * (1.0 - jag * (r.below(1000) / 1000.0)); p.push_back({cx + rr * cos(a), cy + rr * sin(a)}); }
  if (cw) std::reverse(p.begin(), p.end());
  return p;
}
static void addCollinear(Rng& r, SimplePolygon& p) {
  SimplePolygon q;
  for (size_t i = 0; i < p.size(); i++) { q.push_back(p[i]); if (r.below(4) == 0) { vec2 a = p[i], b = p[(i + 1) % p.size()]; q.push_back({(a.x + b.x) / 2, (a.y + b.y) / 2}); } }
  p = q;
}
static Polygons genPolys(Rng& r, double x0, int& holes) {
  Polygons polys; holes = 0;
  int kind = (int)r.below(4), no = 1 + (int)r.below(kind == 3 ? 3 : 1);
  for (int o = 0; o < no; o++) {
    double cx = x0 + 30.0 * o, cy = 0.5;
    int n = 3 + (int)r.below(kind == 0 ? 4 : 14);
    polys.push_back(star(r, cx, cy, 10, n, false, kind == 0 ? 0.0 : 0.45));
    if (kind >= 2) { int nh = (int)r.below(4); for (int h = 0; h < nh; h++) { double hx = cx + (h % 2 ? 1.8 : -1.8), hy = cy + (h / 2 ? 1.8 : -1.8); polys.push_back(star(r, hx, hy, 1.2, 3 + (int)r.below(5), true, 0.3)); holes++; } }
  }
  if (r.below(3) == 0) for (auto& p : polys) addCollinear(r, p);
  return polys;
}
static std::string canonTris(std::vector<std::array<long, 3>> ts) {
  for (auto& t : ts) { while (!(t[0] <= t[1] && t[0] <= t[2])) { long a = t[0]; t[0] = t[1]; t[1] = t[2]; t[2] = a; } }
  std::sort(ts.begin(), ts.end());
  std::string s; for (auto& t : ts) { if (!s.empty()) s += ' '; s += std::to_string(t[0]) + " " + std::to_string(t[1]) + " " + std::to_string(t[2]); }
  return s;
}
// rename the export's vertices to model indices by position; `apexFix` resolves coinciding positions
static bool renameExport(const Mesh& e, const std::vector<vec3>& modelPos, const std::function<long(const std::array<long, 3>&, int)>& apexFix,
                         std::vector<std::array<long, 3>>& out, std::string& msg) {
  std::map<Key, std::vector<long>> byPos;
  for (size_t i = 0; i < modelPos.size(); i++) byPos[keyOf(modelPos[i].x, modelPos[i].y, modelPos[i].z)].push_back((long)i);
  if (e.v.size() != modelPos.size()) { msg = "export has " + std::to_string(e.v.size()) + " vertices, the documented construction " + std::to_string(modelPos.size()); return false; }
  std::vector<long> name(e.v.size(), -2);
  for (size_t i = 0; i < e.v.size(); i++) {
    auto it = byPos.find(keyOf(e.v[i].x, e.v[i].y, e.v[i].z));
    if (it == byPos.end()) { char b[200]; snprintf(b, sizeof b, "exported vertex (%.17g %.17g %.17g) is not a position of the documented construction", e.v[i].x, e.v[i].y, e.v[i].z); msg = b; return false; }
    name[i] = it->second.size() == 1 ? it->second[0] : -1;
  }
  for (auto& t : e.t) {
    std::array<long, 3> m = {name[t[0]], name[t[1]], name[t[2]]};
    for (int k = 0; k < 3; k++) if (m[k] == -1) { long f = apexFix(m, k); if (f < 0) { msg = "ambiguous"; return false; } m[k] = f; }
    out.push_back(m);
  }
  return true;
}

// ================================================================== (a) Extrude
static void extrudeCase(Rng& r, int t) {
  int holes; Polygons polys = genPolys(r, 0, holes);
  double height = rnd(r, 0.5, 20);
  int nDiv = (int)r.below(4);
  double twist = (r.below(3) == 0) ? 0.0 : (r.below(2) ? rnd(r, -40, 40) : 90.0 * (int)(r.below(5)) - 180);
  vec2 scaleTop = r.below(3) == 0 ? vec2(0.0) : (r.below(3) == 0 ? vec2(1.0) : (r.below(2) ? vec2(rnd(r, 0.2, 1.5)) : vec2(rnd(r, 0.2, 1.5), rnd(r, 0.2, 1.5))));
  if (t % 11 == 7) scaleTop = vec2(-1.0, 0.0);  // clamped to {0,0}: a cone
  Manifold m = Manifold::Extrude(polys, height, nDiv, twist, scaleTop);
  Mesh e = exportMesh(m);
  std::string id = nextId("x");
  // ---- the documented construction, in the order the constructor numbers it (constructors.cpp:243-283)
  vec2 sT = {std::max(scaleTop.x, 0.0), std::max(scaleTop.y, 0.0)};
  bool isCone = sT.x == 0.0 && sT.y == 0.0;
  int N = nDiv + 1; std::vector<vec3> pos; PolygonsIdx pidx; int idx = 0; std::vector<int> polyOf;
  for (size_t j = 0; j < polys.size(); j++) { SimplePolygonIdx s; for (auto& v : polys[j]) { pos.push_back({v.x, v.y, 0.0}); s.push_back({v, idx++}); polyOf.push_back((int)j); } pidx.push_back(s); }
  int nC = idx;
  for (int i = 1; i < N + 1; ++i) {
    double alpha = i / double(N), phi = alpha * twist;
    vec2 scale = la::lerp(vec2(1.0), sT, alpha);
    mat2 rotation({cosd(phi), sind(phi)}, {-sind(phi), cosd(phi)});
    mat2 transform = mat2({scale.x, 0.0}, {0.0, scale.y}) * rotation;
    if (i == N && isCone) break;
    for (auto& poly : polys) for (auto& v : poly) { vec2 p = transform * v; pos.push_back({p.x, p.y, height * alpha}); }
  }
  if (isCone) for (size_t j = 0; j < polys.size(); j++) pos.push_back({0.0, 0.0, height});
  std::vector<ivec3> top = TriangulateIdx(pidx);
  std::ostringstream rq; rq << "ctor extrude " << polys.size(); for (auto& p : polys) rq << " " << p.size();
  rq << " " << nDiv << " " << (isCone ? 1 : 0) << " " << top.size(); for (auto& tr : top) rq << " " << tr[0] << " " << tr[1] << " " << tr[2];
  // ---- rename and compare
  std::vector<std::array<long, 3>> named; std::string msg; bool ok = true;
  auto apexFix = [&](const std::array<long, 3>& mm, int k) -> long {
    if (!isCone) return -1;
    for (int q = 0; q < 3; q++) if (q != k && mm[q] >= 0 && mm[q] < (long)nC * N) return (long)nC * N + polyOf[mm[q] % nC];
    return -1; };
  std::string exp;
  if (m.Status() != Manifold::Error::NoError) { ok = false; msg = "Extrude of a valid polygon set returned an error status"; }
  else if (!renameExport(e, pos, apexFix, named, msg)) { if (msg == "ambiguous") { msg = ""; rq.str(""); } else ok = false; }
  else exp = "nv " + std::to_string(pos.size()) + " | capnet ok | tris " + canonTris(named);
  // ---- analytic oracle (planar side walls only: no twist)
  Verdict V;
  // side quads are planar (so the solid is exactly the scaled prism) only without twist and with uniform scale
  if (ok && twist == 0.0 && sT.x == sT.y && m.Status() == Manifold::Error::NoError) {
    vec3 lo = {1e300, 1e300, -0.2 * height}, hi = {-1e300, -1e300, 1.2 * height};
    for (auto& p : polys) for (auto& v : p) { lo.x = std::min(lo.x, v.x * 1.6 - 1); lo.y = std::min(lo.y, v.y * 1.6 - 1); hi.x = std::max(hi.x, v.x * 1.6 + 1); hi.y = std::max(hi.y, v.y * 1.6 + 1); }
    for (auto& p : polys) for (auto& v : p) { lo.x = std::min(lo.x, -v.x); lo.y = std::min(lo.y, -v.y); hi.x = std::max(hi.x, -v.x); hi.y = std::max(hi.y, -v.y); }
    auto want = [&](ld x, ld y, ld z) -> int {
      ld a = z / height; if (fabsl(z) < 1e-7L * height || fabsl(z - height) < 1e-7L * height) return -1;
      if (a < 0 || a > 1) return 0;
      ld sx = 1 + (sT.x - 1) * a, sy = 1 + (sT.y - 1) * a; if (sx < 1e-6L || sy < 1e-6L) return -1;
      ld u = x / sx, w = y / sy; if (distPolys(polys, u, w) < 1e-6L) return -1;
      return inPolys(polys, u, w) ? 1 : 0; };
    classify(V, e, r, lo, hi, hz::thorough() ? 60 : 12, want, "Extrude");
    ld polyA = 0; for (auto& p : polys) for (size_t i = 0; i < p.size(); i++) { auto u = p[i], v = p[(i + 1) % p.size()]; polyA += ((ld)u.x * v.y - (ld)v.x * u.y) / 2; }
    ld volExp = polyA * height * ((ld)1 + ((ld)sT.x - 1) / 2 + ((ld)sT.y - 1) / 2 + ((ld)sT.x - 1) * ((ld)sT.y - 1) / 3);
    ld vol = signedVolume(e);
    if (V.ok && fabsl(vol - volExp) > 1e-9L * fabsl(volExp)) { V.ok = false; char b[200]; snprintf(b, sizeof b, "Extrude: signed volume %.12Lg, prism/frustum formula %.12Lg", vol, volExp); V.msg = b; }
  }
  if (ok && !V.ok) { ok = false; msg = V.msg; }
  char tg[200]; snprintf(tg, sizeof tg, "%s extrude polys=%zu nC=%d nDiv=%d cone=%d twist=%g tested=%d", id.c_str(), polys.size(), nC, nDiv, (int)isCone, twist, V.tested);
  hz::emit(tg, rq.str(), exp, ok, msg);
  printMesh(std::string("extrude") + (isCone ? "-cone" : ""), m, e);
}

// ================================================================== (a) Revolve
#include <time.h>
static void revolveCase(Rng& r, int t, int forced = -1) {
  Polygons cs; std::string kindName = "revolve";
  int kind = forced >= 0 ? forced : (int)r.below(6);
  if (kind == 0) { int h; cs = genPolys(r, 14.0, h); kindName = "revolve-off-axis"; }                          // entirely x > 0
  else if (kind == 1) { int h; cs = genPolys(r, 3.0, h); kindName = "revolve-crossing"; }                    // crosses the axis
  else if (kind == 2) {  // profile touching the axis in two vertices
    int n = 2 + (int)r.below(6); SimplePolygon p; p.push_back({0.0, -5.0});
    for (int i = 0; i < n; i++) p.push_back({rnd(r, 1, 9), -5.0 + 10.0 * (i + 0.5) / n}); p.push_back({0.0, 5.0}); cs.push_back(p); kindName = "revolve-axis2";
  } else if (kind == 3) { cs.push_back({{0.0, 0.0}, {rnd(r, 1, 5), rnd(r, 0.5, 1)}, {rnd(r, 1, 5), rnd(r, 2, 3)}}); kindName = "revolve-axis1"; }  // one vertex on the axis
  else if (kind == 4) { cs.push_back({{1.0, 0.0}, {1.0, 1.0}, {0.0, 2.0}, {0.0, 1.0}, {0.0, 0.0}}); kindName = "revolve-axis-run3"; }  // three consecutive axis vertices
  else { cs.push_back({{1.0, 0.0}, {1.0, 1.0}, {0.0, 1.0}, {-1.0, 0.5}}); kindName = "revolve-axis-clipdup"; }  // axis vertex next to a clipped one
  static const double degs[] = {360.0, 270.0, 90.0, 33.3, 360.0, 400.0, 180.0};
  double deg = degs[r.below(7)];
  int seg = r.below(4) == 0 ? 0 : 3 + (int)r.below(12);
  if (forced >= 0) { deg = 360.0; seg = 8; }  // the six kinds once as a full revolution
  Manifold m = Manifold::Revolve(cs, seg, deg);
  Mesh e = exportMesh(m);
  std::string id = nextId("r");
  // ---- documented construction (constructors.cpp:320-389)
  Polygons polygons; double radius = 0;
  for (const SimplePolygon& poly : cs) {
    size_t i = 0; while (i < poly.size() && poly[i].x < 0) ++i;
    if (i == poly.size()) continue;
    polygons.push_back({}); const size_t start = i;
    do { if (poly[i].x >= 0) { polygons.back().push_back(poly[i]); radius = std::max(radius, poly[i].x); }
      const size_t next = i + 1 == poly.size() ? 0 : i + 1;
      if ((poly[next].x < 0) != (poly[i].x < 0)) { const double y = poly[next].y - poly[next].x * (poly[i].y - poly[next].y) / (poly[i].x - poly[next].x); polygons.back().push_back({0, y}); }
      i = next; } while (i != start);
  }
  double d = deg > 360.0 ? 360.0 : deg; bool isFull = d == 360.0;
  const int nDivisions = seg > 2 ? seg : std::max(1, static_cast<int>(Quality::GetCircularSegments(radius) * d / 360));
  if (nDivisions < 1) {  // the default segment count times deg/360 truncates to zero: nothing can be built
    char tg0[240]; snprintf(tg0, sizeof tg0, "%s %s-zero-divisions seg=%d deg=%g radius=%g", id.c_str(), kindName.c_str(), seg, deg, radius);
    bool ok0 = m.Status() == Manifold::Error::InvalidConstruction || (m.Status() == Manifold::Error::NoError && m.Volume() > 0);
    char b0[240]; snprintf(b0, sizeof b0, "Revolve(valid profile of radius %g, segments=%d, degrees=%g): zero divisions, result has status %d and %zu triangles", radius, seg, deg, (int)m.Status(), m.NumTri());
    hz::emit(tg0, "", "", ok0, ok0 ? "" : b0); return; }
  const double dPhi = d / nDivisions; const int nSlices = isFull ? nDivisions : nDivisions + 1;
  std::vector<vec3> pos;
  for (auto& poly : polygons) for (auto& pv : poly) for (int s = 0; s < nSlices; ++s) { const double phi = s * dPhi; if (s == 0 || pv.x > 0) pos.push_back({pv.x * cosd(phi), pv.x * sind(phi), pv.y}); }
  std::vector<ivec3> front; if (!isFull) front = Triangulate(polygons, -1);
  else front = Triangulate(polygons, -1);  // the model needs no cap for a full revolution; sent anyway (capnet is then checked too)
  std::ostringstream rq; rq << "ctor revolve " << polygons.size();
  for (auto& p : polygons) { rq << " " << p.size(); for (auto& v : p) rq << " " << (v.x > 0 ? 1 : 0); }
  rq << " " << nDivisions << " " << (isFull ? 1 : 0) << " " << front.size(); for (auto& tr : front) rq << " " << tr[0] << " " << tr[1] << " " << tr[2];
  std::vector<std::array<long, 3>> named; std::string msg, exp; bool ok = true, compared = false;
  auto noFix = [](const std::array<long, 3>&, int) -> long { return -1; };
  if (m.Status() != Manifold::Error::NoError) { ok = false; msg = "Revolve of a valid polygon set returned an error status"; }
  else if (!renameExport(e, pos, noFix, named, msg)) { if (msg == "ambiguous") { msg = ""; rq.str(""); } else ok = false; }
  else { compared = true; exp = "nv " + std::to_string(pos.size()) + " | capnet ok | tris " + canonTris(named); }
  // ---- analytic oracle: (rho, z) in the clipped polygons and 0 < angle < deg, outside the faceting band
  Verdict V;
  if (ok) {
    ld rmax = radius, band = rmax * (1 - cosl((ld)dPhi * M_PIl / 360)) + 1e-7L * (rmax + 1);
    vec3 lo = {-1.2 * radius - 1, -1.2 * radius - 1, 1e300}, hi = {1.2 * radius + 1, 1.2 * radius + 1, -1e300};
    for (auto& p : polygons) for (auto& v : p) { lo.z = std::min(lo.z, v.y - 1); hi.z = std::max(hi.z, v.y + 1); }
    auto want = [&](ld x, ld y, ld z) -> int {
      ld rho = sqrtl(x * x + y * y), ang = atan2l(y, x) * 180 / M_PIl; if (ang < 0) ang += 360;
      if (rho < 1e-6L * (rmax + 1)) return -1;
      if (distPolys(polygons, rho, z) <= band) return -1;
      if (!isFull) { ld margin = 1e-6L + (ld)0; if (fabsl(ang) < margin || fabsl(ang - d) < margin || fabsl(ang - 360) < margin) return -1;
        // near the end caps the facet chord can stick out of / fall short of the wedge by the band as well
        ld da = std::min(std::min(fabsl(ang), fabsl(ang - 360)), fabsl(ang - (ld)d)) * M_PIl / 180; if (rho * sinl(std::min(da, (ld)1.5)) <= band) return -1;
        if (ang > d) return 0; }
      return inPolys(polygons, rho, z) ? 1 : 0; };
    classify(V, e, r, lo, hi, hz::thorough() ? 60 : 14, want, "Revolve");
    if (!V.ok) { ok = false; msg = V.msg; }
  }
  char tg[240]; snprintf(tg, sizeof tg, "%s %s polys=%zu seg=%d deg=%g nDiv=%d full=%d tested=%d cmp=%d", id.c_str(), kindName.c_str(), polygons.size(), seg, deg, nDivisions, (int)isFull, V.tested, (int)compared);
  hz::emit(tg, rq.str(), exp, ok, msg);
  printMesh(kindName, m, e);
}

// ================================================================== (c) primitives
static void primitiveCases(Rng& r, int T) {
  for (int t = 0; t < T; t++) {
    {  // Cube
      vec3 size = {rnd(r, 0.1, 10), rnd(r, 0.1, 10), rnd(r, 0.1, 10)}; if (t % 5 == 0) size.x = 0;  // a flat box is still valid
      bool center = r.below(2); Manifold m = Manifold::Cube(size, center); Mesh e = exportMesh(m); Verdict V;
      vec3 o = center ? -size / 2.0 : vec3(0.0);
      bool ok = m.Status() == Manifold::Error::NoError; std::string msg = ok ? "" : "Cube with valid size returned an error";
      if (ok && size.x > 0) {
        auto want = [&](ld x, ld y, ld z) -> int { ld q[3] = {x - o.x, y - o.y, z - o.z}, s[3] = {size.x, size.y, size.z}; bool in = true;
          for (int k = 0; k < 3; k++) { if (fabsl(q[k]) < 1e-9L * s[k] || fabsl(q[k] - s[k]) < 1e-9L * s[k]) return -1; if (q[k] < 0 || q[k] > s[k]) in = false; } return in ? 1 : 0; };
        classify(V, e, r, o - size * 0.3, o + size * 1.3, 20, want, "Cube");
        ld vol = signedVolume(e), ve = (ld)size.x * size.y * size.z;
        if (V.ok && (fabsl(vol - ve) > 1e-12L * ve || e.v.size() != 8 || e.t.size() != 12)) { V.ok = false; V.msg = "Cube: volume or counts differ from the box"; }
        ok = V.ok; msg = V.msg;
      }
      hz::emit(nextId("p") + " cube center=" + std::to_string(center) + " tested=" + std::to_string(V.tested), "", "", ok, msg);
      if (size.x > 0) printMesh("cube", m, e);
    }
    {  // Tetrahedron: |x|+... the regular tetrahedron with corners (1,1,1),(1,-1,-1),(-1,1,-1),(-1,-1,1)
      Manifold m = Manifold::Tetrahedron(); Mesh e = exportMesh(m); Verdict V;
      auto want = [&](ld x, ld y, ld z) -> int { ld f[4] = {x + y + z, x - y - z, -x + y - z, -x - y + z}; bool in = true;  // inside iff every f_k < 1 … faces: -x-y-z<1 etc.
        ld g[4] = {-x - y - z, -x + y + z, x - y + z, x + y - z};
        for (int k = 0; k < 4; k++) { (void)f; if (fabsl(g[k] - 1) < 1e-9L) return -1; if (g[k] > 1) in = false; } return in ? 1 : 0; };
      classify(V, e, r, vec3(-1.5), vec3(1.5), 20, want, "Tetrahedron");
      ld vol = signedVolume(e); if (V.ok && fabsl(vol - 8.0L / 3) > 1e-12L) { V.ok = false; V.msg = "Tetrahedron: volume is not 8/3"; }
      hz::emit(nextId("p") + " tetrahedron tested=" + std::to_string(V.tested), "", "", V.ok, V.msg);
      if (t == 0) printMesh("tetrahedron", m, e);
    }
    {  // Sphere
      double rad = rnd(r, 0.2, 20); int segs = r.below(3) == 0 ? 0 : 4 + (int)r.below(40);
      Manifold m = Manifold::Sphere(rad, segs); Mesh e = exportMesh(m); Verdict V;
      int n = segs > 0 ? (segs + 3) / 4 : (Quality::GetCircularSegments(rad) + 3) / 4;
      ld thetaMax = 1.6L * (M_PIl / 2) / n, rin = rad * cosl(std::min(thetaMax, (ld)1.2));
      bool ok = m.Status() == Manifold::Error::NoError; std::string msg = ok ? "" : "Sphere with positive radius returned an error";
      for (auto& v : e.v) { ld d = sqrtl((ld)v.x * v.x + (ld)v.y * v.y + (ld)v.z * v.z); if (ok && fabsl(d - rad) > 1e-12L * rad) { ok = false; msg = "Sphere: a vertex is not on the sphere"; } }
      for (auto& tr : e.t) { if (!ok) break; const vec3 &a = e.v[tr[0]], &b = e.v[tr[1]], &c = e.v[tr[2]];
        ld ux = b.x - a.x, uy = b.y - a.y, uz = b.z - a.z, vx = c.x - a.x, vy = c.y - a.y, vz = c.z - a.z, nx = uy * vz - uz * vy, ny = uz * vx - ux * vz, nz = ux * vy - uy * vx, nl = sqrtl(nx * nx + ny * ny + nz * nz);
        ld dist = (nx * a.x + ny * a.y + nz * a.z) / nl; if (dist < rin) { ok = false; msg = "Sphere: a facet lies deeper than the faceting band of its segment count"; } }
      if (ok) { auto want = [&](ld x, ld y, ld z) -> int { ld d = sqrtl(x * x + y * y + z * z); if (d >= rin - 1e-9L * rad && d <= rad * (1 + 1e-9L)) return -1; return d < rad ? 1 : 0; };
        classify(V, e, r, vec3(-1.3 * rad), vec3(1.3 * rad), 16, want, "Sphere"); ok = V.ok; msg = V.msg; }
      if (ok && (long)e.t.size() != 8L * n * n) { ok = false; msg = "Sphere: NumTri is not 8 n^2"; }
      hz::emit(nextId("p") + " sphere segs=" + std::to_string(segs) + " n=" + std::to_string(n) + " tested=" + std::to_string(V.tested), "", "", ok, msg);
      if (n <= 6) printMesh("sphere", m, e);
    }
    {  // Cylinder / frustum / cones
      double h = rnd(r, 0.2, 10), rl = rnd(r, 0.2, 5), rh = r.below(4) == 0 ? -1.0 : (r.below(4) == 0 ? 0.0 : rnd(r, 0.2, 5));
      if (t % 6 == 5) { rl = 0.0; rh = rnd(r, 0.2, 5); }  // apex at the bottom (mirrored cone)
      int segs = r.below(3) == 0 ? 0 : 3 + (int)r.below(30); bool center = r.below(2);
      Manifold m = Manifold::Cylinder(h, rl, rh, segs, center); Mesh e = exportMesh(m); Verdict V;
      double rhE = rh < 0 ? rl : rh; double rmax = std::max(rl, rhE);
      int n = segs > 2 ? segs : Quality::GetCircularSegments(rl == 0.0 ? rh : std::fmax(rl, rh));
      ld z0 = center ? -h / 2 : 0, c = cosl(M_PIl / n);
      bool ok = m.Status() == Manifold::Error::NoError; std::string msg = ok ? "" : "Cylinder with valid arguments returned an error";
      if (ok) { auto want = [&](ld x, ld y, ld z) -> int { ld a = (z - z0) / h; if (fabsl(z - z0) < 1e-9L * h || fabsl(z - z0 - h) < 1e-9L * h) return -1; if (a < 0 || a > 1) return 0;
          ld R = rl + (rhE - rl) * a, rho = sqrtl(x * x + y * y); if (rho >= R * c - 1e-9L * rmax && rho <= R + 1e-9L * rmax) return -1; return rho < R ? 1 : 0; };
        classify(V, e, r, {-1.3 * rmax, -1.3 * rmax, (double)z0 - 0.2 * h}, {1.3 * rmax, 1.3 * rmax, (double)z0 + 1.2 * h}, 16, want, "Cylinder"); ok = V.ok; msg = V.msg; }
      bool cone = (rl == 0.0 || rhE == 0.0);
      if (ok && (long)e.t.size() != (cone ? 2L * n - 2 : 4L * n - 4)) { ok = false; msg = "Cylinder: NumTri differs from the n-gon prism/cone count"; }
      ld area = 0.5L * n * sinl(2 * M_PIl / n), volE = area * h * ((ld)rl * rl + (ld)rl * rhE + (ld)rhE * rhE) / 3, vol = signedVolume(e);
      if (ok && fabsl(vol - volE) > 1e-9L * volE) { ok = false; char b[160]; snprintf(b, sizeof b, "Cylinder: signed volume %.12Lg, n-gon frustum %.12Lg", vol, volE); msg = b; }
      char tg[200]; snprintf(tg, sizeof tg, "%s cylinder n=%d cone=%d center=%d lowApex=%d tested=%d", nextId("p").c_str(), n, (int)cone, (int)center, (int)(rl == 0.0), V.tested);
      hz::emit(tg, "", "", ok, msg);
      if (n <= 12) printMesh(cone ? "cylinder-cone" : "cylinder", m, e);
    }
  }
}

// ================================================================== (c) LevelSet
static ld sdSphere(ld x, ld y, ld z, ld cx, ld cy, ld cz, ld rad) { return rad - sqrtl((x - cx) * (x - cx) + (y - cy) * (y - cy) + (z - cz) * (z - cz)); }
static ld sdBox(ld x, ld y, ld z, ld hx, ld hy, ld hz_) {  // positive inside
  ld qx = fabsl(x) - hx, qy = fabsl(y) - hy, qz = fabsl(z) - hz_;
  ld ox = std::max(qx, (ld)0), oy = std::max(qy, (ld)0), oz = std::max(qz, (ld)0);
  return -(sqrtl(ox * ox + oy * oy + oz * oz) + std::min(std::max(qx, std::max(qy, qz)), (ld)0));
}
static void levelSetCases(Rng& r, int T) {
  for (int t = 0; t < T; t++) {
    int shape = t % 4; double a = rnd(r, 0.8, 1.3), b = rnd(r, 0.3, 0.7), off = rnd(r, 0.2, 0.6);
    std::function<ld(ld, ld, ld)> f;
    if (shape == 0) f = [=](ld x, ld y, ld z) { return std::max(sdSphere(x, y, z, 0, 0, 0, a), sdBox(x - off, y, z, b, b, 1.4 * a)); };       // union
    else if (shape == 1) f = [=](ld x, ld y, ld z) { return std::min(sdSphere(x, y, z, 0, 0, 0, a), sdBox(x, y, z, 2, 2, b)); };                // intersection
    else if (shape == 2) f = [=](ld x, ld y, ld z) { return std::min(sdSphere(x, y, z, 0, 0, 0, a), -sdSphere(x, y, z, off, 0, 0, b)); };       // difference
    else f = [=](ld x, ld y, ld z) { return std::max(sdSphere(x, y, z, -off, 0, 0, b), sdSphere(x, y, z, off, 0.1, 0, b)); };                   // two balls
    double level = (t % 3 == 0) ? 0.0 : (t % 3 == 1 ? 0.07 : -0.07);
    double edge = rnd(r, 0.12, 0.2); double tol = (t % 2) ? edge * 1e-3 : -1;
    Box bounds({-2.6, -2.6, -2.6}, {2.6, 2.6, 2.6});
    auto sdf = [f](vec3 p) { return (double)f(p.x, p.y, p.z); };
    Manifold m = Manifold::LevelSet(sdf, bounds, edge, level, tol, false); Mesh e = exportMesh(m);
    bool ok = m.Status() == Manifold::Error::NoError && e.t.size() > 0; std::string msg = ok ? "" : "LevelSet returned an error or an empty mesh";
    ivec3 gs(bounds.Size() / edge + 1.0); vec3 sp = bounds.Size() / vec3(gs - 1); ld cell = sqrtl((ld)sp.x * sp.x + (ld)sp.y * sp.y + (ld)sp.z * sp.z);
    Verdict V;
    if (ok) { auto want = [&](ld x, ld y, ld z) -> int { ld d = f(x, y, z) - level; if (fabsl(d) <= cell) return -1; return d > 0 ? 1 : 0; };
      classify(V, e, r, vec3(-2.2), vec3(2.2), hz::thorough() ? 60 : 14, want, "LevelSet"); ok = V.ok; msg = V.msg; }
    if (ok) for (auto& v : e.v) { ld d = fabsl((ld)sdf(v) - level); if (d > cell) { ok = false; char bb[200]; snprintf(bb, sizeof bb, "LevelSet: vertex (%.9g %.9g %.9g) is %.3Lg from the level set, more than one grid cell (%.3Lg)", v.x, v.y, v.z, d, cell); msg = bb; break; }
        if (tol > 0 && d > (ld)tol * (1 + 1e-6L) + 1e-12L) { ok = false; char bb[200]; snprintf(bb, sizeof bb, "LevelSet: vertex (%.9g %.9g %.9g) is %.3Lg from the level set, tolerance %.3g", v.x, v.y, v.z, d, tol); msg = bb; break; } }
    char tg[200]; snprintf(tg, sizeof tg, "%s levelset shape=%d level=%g tol=%g tris=%zu tested=%d", nextId("l").c_str(), shape, level, tol, e.t.size(), V.tested);
    hz::emit(tg, "", "", ok, msg);
    printMesh("levelset", m, e);
  }
}

// ================================================================== (c) transforms
static void invert3(const ld A[3][3], ld I[3][3], ld& det) {
  det = A[0][0] * (A[1][1] * A[2][2] - A[1][2] * A[2][1]) - A[0][1] * (A[1][0] * A[2][2] - A[1][2] * A[2][0]) + A[0][2] * (A[1][0] * A[2][1] - A[1][1] * A[2][0]);
  I[0][0] = (A[1][1] * A[2][2] - A[1][2] * A[2][1]) / det; I[0][1] = (A[0][2] * A[2][1] - A[0][1] * A[2][2]) / det; I[0][2] = (A[0][1] * A[1][2] - A[0][2] * A[1][1]) / det;
  I[1][0] = (A[1][2] * A[2][0] - A[1][0] * A[2][2]) / det; I[1][1] = (A[0][0] * A[2][2] - A[0][2] * A[2][0]) / det; I[1][2] = (A[0][2] * A[1][0] - A[0][0] * A[1][2]) / det;
  I[2][0] = (A[1][0] * A[2][1] - A[1][1] * A[2][0]) / det; I[2][1] = (A[0][1] * A[2][0] - A[0][0] * A[2][1]) / det; I[2][2] = (A[0][0] * A[1][1] - A[0][1] * A[1][0]) / det;
}
static void transformCases(Rng& r, int T) {
  for (int t = 0; t < T; t++) {
    vec3 size = {rnd(r, 0.5, 3), rnd(r, 0.5, 3), rnd(r, 0.5, 3)}; vec3 shift = {rnd(r, -2, 2), rnd(r, -2, 2), rnd(r, -2, 2)};
    Manifold base = Manifold::Cube(size).Translate(shift);
    auto inBase = [&](ld x, ld y, ld z) -> int { ld q[3] = {x - shift.x, y - shift.y, z - shift.z}, s[3] = {size.x, size.y, size.z}; bool in = true;
      for (int k = 0; k < 3; k++) { if (fabsl(q[k]) < 1e-6L || fabsl(q[k] - s[k]) < 1e-6L) return -1; if (q[k] < 0 || q[k] > s[k]) in = false; } return in ? 1 : 0; };
    // ---- random affine map, |det| in [0.1, 10], mirrors included
    ld A[3][3], I[3][3], det; mat3x4 M;
    do { for (int i = 0; i < 3; i++) for (int j = 0; j < 3; j++) A[i][j] = rnd(r, -2, 2); if (t % 4 == 1) { A[0][1] = A[0][2] = A[1][0] = A[1][2] = A[2][0] = A[2][1] = 0; }  // pure (possibly negative) scale
      invert3(A, I, det); } while (fabsl(det) < 0.1L || fabsl(det) > 10 || (t % 4 == 3 && det < 0));  // Warp cannot know about orientation: orientation-preserving maps only
    vec3 tr = {rnd(r, -3, 3), rnd(r, -3, 3), rnd(r, -3, 3)};
    for (int j = 0; j < 3; j++) M[j] = {(double)A[0][j], (double)A[1][j], (double)A[2][j]}; M[3] = tr;
    int how = t % 4; Manifold m; const char* hw;
    if (how == 1) { m = base.Scale({(double)A[0][0], (double)A[1][1], (double)A[2][2]}).Translate(tr); hw = "scale+translate"; }
    else if (how == 2) { mat3x4 M1 = M; M1[3] = vec3(0.0); m = base.Transform(M1).Translate(tr); hw = "transform+translate"; }
    else if (how == 3) { mat3x4 Mc = M; m = base.Warp([Mc](vec3& p) { p = Mc * vec4(p, 1.0); }); hw = "warp"; }
    else { m = base.Transform(M); hw = "transform"; }
    Mesh e = exportMesh(m); Verdict V; bool ok = m.Status() == Manifold::Error::NoError; std::string msg = ok ? "" : "transform of a valid solid returned an error";
    ld v0 = (ld)size.x * size.y * size.z, vol = signedVolume(e), absdet = fabsl(det);
    {
      if (ok && fabsl(vol - absdet * v0) > 1e-9L * absdet * v0) { ok = false; char b[200]; snprintf(b, sizeof b, "%s: signed volume %.12Lg, |det|·V = %.12Lg (det %.6Lg)", hw, vol, absdet * v0, det); msg = b; }
      if (ok && fabsl((ld)m.Volume() - absdet * v0) > 1e-9L * absdet * v0) { ok = false; msg = std::string(hw) + ": Volume() does not scale by |det|"; }
      if (ok) { vec3 lo(1e300), hi(-1e300); for (auto& v : e.v) { lo = la::min(lo, v); hi = la::max(hi, v); } vec3 ext = hi - lo;
        auto want = [&](ld x, ld y, ld z) -> int { ld q[3] = {x - tr.x, y - tr.y, z - tr.z}, p[3]; for (int i = 0; i < 3; i++) p[i] = I[i][0] * q[0] + I[i][1] * q[1] + I[i][2] * q[2]; return inBase(p[0], p[1], p[2]); };
        classify(V, e, r, lo - ext * 0.2, hi + ext * 0.2, 14, want, hw); if (!V.ok) { ok = false; msg = V.msg; } }
    }
    char tg[200]; snprintf(tg, sizeof tg, "%s transform %s det=%.3Lg tested=%d", nextId("t").c_str(), hw, det, V.tested);
    hz::emit(tg, "", "", ok, msg); printMesh(det < 0 ? "transform-mirror" : "transform", m, e);
    // ---- Mirror over a random plane through the origin
    { vec3 n = {rnd(r, -1, 1), rnd(r, -1, 1), rnd(r, -1, 1)}; if (la::length(n) < 0.1) n = {0, 0, 1};
      Manifold mm = base.Mirror(n); Mesh em = exportMesh(mm); Verdict V2; bool ok2 = mm.Status() == Manifold::Error::NoError; std::string msg2 = ok2 ? "" : "Mirror returned an error";
      ld nl = sqrtl((ld)n.x * n.x + (ld)n.y * n.y + (ld)n.z * n.z), u[3] = {n.x / nl, n.y / nl, n.z / nl}, vm = signedVolume(em);
      if (ok2 && fabsl(vm - v0) > 1e-9L * v0) { ok2 = false; char b[160]; snprintf(b, sizeof b, "Mirror: signed volume %.12Lg instead of %.12Lg (orientation must stay outward)", vm, v0); msg2 = b; }
      if (ok2) { vec3 lo(1e300), hi(-1e300); for (auto& v : em.v) { lo = la::min(lo, v); hi = la::max(hi, v); } vec3 ext = hi - lo;
        auto want = [&](ld x, ld y, ld z) -> int { ld dd = 2 * (x * u[0] + y * u[1] + z * u[2]); return inBase(x - dd * u[0], y - dd * u[1], z - dd * u[2]); };
        classify(V2, em, r, lo - ext * 0.2, hi + ext * 0.2, 10, want, "Mirror"); if (!V2.ok) { ok2 = false; msg2 = V2.msg; } }
      hz::emit(nextId("t") + " mirror tested=" + std::to_string(V2.tested), "", "", ok2, msg2); if (t < 4) printMesh("mirror", mm, em); }
    // ---- Rotate: documented order (about global X, then Y, then Z), against long double and against three single-axis calls
    { double ax = rnd(r, -200, 200), ay = rnd(r, -200, 200), az = rnd(r, -200, 200);
      Manifold mr = base.Rotate(ax, ay, az), ms = base.Rotate(ax, 0, 0).Rotate(0, ay, 0).Rotate(0, 0, az); Mesh er = exportMesh(mr), es = exportMesh(ms), eb = exportMesh(base);
      bool ok3 = er.v.size() == eb.v.size() && es.v.size() == eb.v.size(); std::string msg3 = ok3 ? "" : "Rotate changed the vertex count";
      auto rot = [&](const vec3& p, ld out[3]) { ld cx = cosl(ax * M_PIl / 180), sx = sinl(ax * M_PIl / 180), cy = cosl(ay * M_PIl / 180), sy = sinl(ay * M_PIl / 180), cz = cosl(az * M_PIl / 180), sz = sinl(az * M_PIl / 180);
        ld x = p.x, y = p.y, z = p.z, y1 = cx * y - sx * z, z1 = sx * y + cx * z; ld x2 = cy * x + sy * z1, z2 = -sy * x + cy * z1; out[0] = cz * x2 - sz * y1; out[1] = sz * x2 + cz * y1; out[2] = z2; };
      auto has = [&](const Mesh& mm2, ld q[3]) { for (auto& v : mm2.v) if (fabsl(v.x - q[0]) + fabsl(v.y - q[1]) + fabsl(v.z - q[2]) < 1e-11L) return true; return false; };
      for (auto& v : eb.v) { if (!ok3) break; ld q[3]; rot(v, q); if (!has(er, q)) { ok3 = false; msg3 = "Rotate(x,y,z) is not Rz·Ry·Rx (rotation about global X, then Y, then Z)"; } else if (!has(es, q)) { ok3 = false; msg3 = "Rotate(x,0,0).Rotate(0,y,0).Rotate(0,0,z) differs from the documented composition"; } }
      if (ok3 && fabsl(signedVolume(er) - v0) > 1e-9L * v0) { ok3 = false; msg3 = "Rotate changed the volume"; }
      hz::emit(nextId("t") + " rotate-order", "", "", ok3, msg3); }
    // ---- quarter turns are exact: integer points stay integer and equal the model's integer rotation
    { int ka = (int)r.below(9) - 4, kb = (int)r.below(9) - 4, kc = (int)r.below(9) - 4;
      std::vector<vec3> pts; SimplePolygon tri = {{1.0 + (double)r.below(5), 0.0}, {7.0, 2.0 + (double)r.below(4)}, {-2.0, 9.0}};
      Manifold b2 = Manifold::Extrude({tri}, 3.0 + (double)r.below(5)).Translate({(double)r.range(-9, 9), (double)r.range(-9, 9), (double)r.range(-9, 9)});
      Mesh e0 = exportMesh(b2), e1 = exportMesh(b2.Rotate(90.0 * ka, 90.0 * kb, 90.0 * kc));
      std::ostringstream rq; rq << "ctor rot90 " << ka << " " << kb << " " << kc; for (auto& v : e0.v) rq << " " << (long)v.x << " " << (long)v.y << " " << (long)v.z;
      std::vector<std::array<long, 3>> got; bool ok4 = true; std::string msg4;
      for (auto& v : e1.v) { long x = lround(v.x), y = lround(v.y), z = lround(v.z); if ((double)x != v.x || (double)y != v.y || (double)z != v.z) { ok4 = false; msg4 = "a multiple-of-90-degree rotation moved an integer point off the lattice"; } got.push_back({x, y, z}); }
      std::sort(got.begin(), got.end()); std::string ex; for (auto& g : got) { if (!ex.empty()) ex += ' '; ex += std::to_string(g[0]) + " " + std::to_string(g[1]) + " " + std::to_string(g[2]); }
      if (ok4 && fabsl(signedVolume(e1) - signedVolume(e0)) != 0) { ok4 = false; msg4 = "quarter-turn rotation changed the signed volume"; }
      hz::emit(nextId("t") + " rot90 " + std::to_string(ka) + " " + std::to_string(kb) + " " + std::to_string(kc), rq.str(), ex, ok4, msg4); }
  }
  // sind / cosd at quarter turns: bit-exact 0, ±1
  for (int k = -17; k <= 17; k++) { double s = sind(90.0 * k), c = cosd(90.0 * k); bool ok = (s == 0 || s == 1 || s == -1) && (c == 0 || c == 1 || c == -1);
    hz::emit(nextId("t") + " sind k=" + std::to_string(k), "ctor sind " + std::to_string(k), std::to_string((long)s) + " " + std::to_string((long)c), ok, ok ? "" : "sind/cosd of a multiple of 90 degrees is not exactly 0 or ±1"); }
  for (double big : {90.0 * 1048576, 90.0 * 4194305, -90.0 * 33554431.0}) { double s = sind(big), c = cosd(big); long k = (long)(big / 90); bool ok = (s == 0 || s == 1 || s == -1) && (c == 0 || c == 1 || c == -1);
    hz::emit(nextId("t") + " sind-big", "ctor sind " + std::to_string(k), std::to_string((long)s) + " " + std::to_string((long)c), ok, ok ? "" : "sind/cosd of a large multiple of 90 degrees is not exact"); }
}

// ================================================================== (d) invalid arguments, each in a forked child
struct ChildOut { bool crashed = false; int sig = 0; int status = -1; long nv = 0, nt = 0; double vol = 0; bool badIdx = false; };
// Runs every constructor call of `fs` in a forked child (one child for as many calls as survive; a call that
// kills the child is marked crashed and a new child continues after it), so that a crash of the real code
// is a verdict on that call and not the end of the harness.
static std::vector<ChildOut> inChildren(const std::vector<std::function<Manifold()>>& fs) {
  std::vector<ChildOut> res(fs.size()); size_t next = 0;
  while (next < fs.size()) {
    int fd[2]; if (pipe(fd) != 0) { for (size_t k = next; k < fs.size(); k++) res[k].crashed = true; break; }
    fflush(stdout); pid_t pid = fork();
    if (pid == 0) { close(fd[0]); alarm(120);
      for (size_t k = next; k < fs.size(); k++) { Manifold m = fs[k](); MeshGL64 g = m.GetMeshGL64(); long nv = g.numProp ? (long)(g.vertProperties.size() / g.numProp) : 0; bool bad = false;
        for (auto i : g.triVerts) if ((long)i >= nv) bad = true;
        char b[200]; int n = snprintf(b, sizeof b, "%zu %d %ld %ld %.17g %d\n", k, (int)m.Status(), nv, (long)(g.triVerts.size() / 3), m.Volume(), (int)bad); if (write(fd[1], b, n) < 0) _exit(3); }
      _exit(0); }
    close(fd[1]); std::string buf; char b[4096]; ssize_t n; while ((n = read(fd[0], b, sizeof b)) > 0) buf.append(b, n); close(fd[0]); int st = 0; waitpid(pid, &st, 0);
    std::istringstream is(buf); std::string line; size_t done = next;
    while (std::getline(is, line)) { size_t k; ChildOut o; int bad = 0; if (sscanf(line.c_str(), "%zu %d %ld %ld %lf %d", &k, &o.status, &o.nv, &o.nt, &o.vol, &bad) == 6 && k == done) { o.badIdx = bad; res[k] = o; done = k + 1; } }
    if (done < fs.size()) { res[done].crashed = true; res[done].sig = WIFSIGNALED(st) ? WTERMSIG(st) : -1; done++; }
    next = done;
  }
  return res;
}
static ChildOut inChild(const std::function<Manifold()>& f) { return inChildren({f})[0]; }
static const double kVals[4] = {-1.5, 0.0, 2.0, NAN}; static const char* kCls = "nzpx";
static void invalidCases() {
  const int IC = (int)Manifold::Error::InvalidConstruction;
  // mode 0: decision-table entry (documentedInvalid: the documentation calls the combination invalid; NaN counts as
  // "not positive / not non-negative"); mode 1: arguments the guards do not look at: InvalidConstruction or a solid
  struct Item { std::string what, req; bool documentedInvalid, checkSolid; int mode; std::string kind; };
  std::vector<Item> items; std::vector<std::function<Manifold()>> fs;
  for (int a = 0; a < 4; a++) for (int b = 0; b < 4; b++) for (int c = 0; c < 4; c++) {
    vec3 s = {kVals[a], kVals[b], kVals[c]}; bool nan = a == 3 || b == 3 || c == 3, inv = nan || a == 0 || b == 0 || c == 0 || (a == 1 && b == 1 && c == 1);
    fs.push_back([=] { return Manifold::Cube(s); });
    items.push_back({std::string("Cube ") + kCls[a] + kCls[b] + kCls[c], std::string("ctor invalid cube ") + kCls[a] + " " + kCls[b] + " " + kCls[c], inv, !(a == 1 || b == 1 || c == 1), 0, "invalid"});
  }
  for (int a = 0; a < 4; a++) for (int b = 0; b < 4; b++) for (int c = 0; c < 4; c++) {
    bool inv = a == 3 || b == 3 || a <= 1 || b == 0 || (b == 1 && c != 2);  // a NaN or negative radiusHigh means 'same as radiusLow'
    double h = kVals[a], lo = kVals[b], hi = kVals[c];
    fs.push_back([=] { return Manifold::Cylinder(h, lo, hi, 8); });
    items.push_back({std::string("Cylinder ") + kCls[a] + kCls[b] + kCls[c], std::string("ctor invalid cylinder ") + kCls[a] + " " + kCls[b] + " " + kCls[c], inv, true, 0, "invalid"});
  }
  for (int a = 0; a < 4; a++) { double rr = kVals[a]; fs.push_back([=] { return Manifold::Sphere(rr, 8); });
    items.push_back({std::string("Sphere ") + kCls[a], std::string("ctor invalid sphere ") + kCls[a], a != 2, true, 0, "invalid"}); }
  SimplePolygon sq = {{0, 0}, {1, 0}, {1, 1}, {0, 1}};
  static const int kDiv[3] = {-2, 0, 2};
  for (int np = 0; np < 2; np++) for (int a = 0; a < 4; a++) for (int dv = 0; dv < 3; dv++) { double h = kVals[a]; int nd = kDiv[dv]; Polygons ps; if (np) ps.push_back(sq);
    fs.push_back([=] { return Manifold::Extrude(ps, h, nd); });
    items.push_back({"Extrude polys=" + std::to_string(np) + " h=" + kCls[a] + " nDiv=" + kCls[dv], "ctor invalid extrude " + std::to_string(np) + " " + kCls[a] + " " + kCls[dv], np == 0 || a != 2 || dv == 0, true, 0, "invalid"}); }
  { std::vector<std::pair<Polygons, std::string>> rs;
    rs.push_back({{}, ""}); rs.push_back({{{{-1, 0}, {-2, 0}, {-2, 1}}}, "0"}); rs.push_back({{{{1, 0}, {2, 0}, {2, 1}}}, "1"});
    rs.push_back({{{{-1, 0}, {-2, 0}, {-2, 1}}, {{1, 0}, {2, 0}, {2, 1}}}, "0 1"}); rs.push_back({{{{-1, 0}, {1, 0}, {1, 1}, {-1, 1}}}, "1"});
    static const double kDeg[4] = {-90.0, 0.0, 90.0, NAN};
    for (auto& pr : rs) for (int dg = 0; dg < 4; dg++) { Polygons ps = pr.first; double deg = kDeg[dg]; fs.push_back([=] { return Manifold::Revolve(ps, 8, deg); }); bool any = pr.second.find('1') != std::string::npos;
      items.push_back({std::string("Revolve deg=") + kCls[dg] + " polys=[" + pr.second + "]", std::string("ctor invalid revolve ") + kCls[dg] + (pr.second.empty() ? "" : " " + pr.second), !any || dg != 2, true, 0, "invalid"}); } }
  // default segment count (no decision-table entry): InvalidConstruction or a solid
  { auto tri = SimplePolygon{{0, 0}, {1, 0}, {0, 1}}; Polygons ps{tri}; Polygons rp{{{1, 0}, {2, 0}, {2, 1}}};
    for (int nd : {-1, -5}) { fs.push_back([=] { return Manifold::Extrude(ps, 1.0, nd); });
      items.push_back({"negative nDivisions " + std::to_string(nd), "", false, true, 1, "extrude-negative-divisions"}); }
    for (double dg : {-90.0, 0.0, 1e-9, (double)NAN}) { fs.push_back([=] { return Manifold::Revolve(rp, 0, dg); });
      char b[100]; snprintf(b, sizeof b, "Revolve(degrees=%g, segments=0)", dg); items.push_back({b, "", false, true, 1, "revolve-degenerate-angle"}); } }
  std::vector<ChildOut> outs = inChildren(fs);
  for (size_t k = 0; k < items.size(); k++) { const Item& it = items[k]; const ChildOut& o = outs[k]; bool ok = true; std::string msg, exp;
    std::string got = "status " + std::to_string(o.status) + " nv " + std::to_string(o.nv) + " nt " + std::to_string(o.nt) + " volume " + std::to_string(o.vol) + (o.badIdx ? " with triangle indices out of range" : "");
    if (it.mode == 0) { exp = o.crashed ? "crash" : (o.status == IC ? "invalid" : "ok");  // "ok" = passed the guards (a later NonFiniteVertex is not a guard)
      if (o.crashed) { ok = false; msg = "crashed (signal " + std::to_string(o.sig) + ") on " + it.what; }
      else if (it.documentedInvalid && o.status != IC) { ok = false; msg = "invalid-argument " + it.what + " accepted: " + got; }
      else if (!it.documentedInvalid && o.status != 0) { ok = false; msg = "valid arguments rejected: " + it.what; }
      else if (!it.documentedInvalid && it.checkSolid && (o.badIdx || !(o.vol > 0))) { ok = false; msg = "valid arguments gave no solid: " + it.what + " " + got; }
    } else { ok = !o.crashed && (o.status == IC || (o.status == 0 && !o.badIdx && o.vol > 0));
      if (!ok) msg = o.crashed ? it.what + ": crashed (signal " + std::to_string(o.sig) + ")" : it.what + ": neither InvalidConstruction nor a solid (" + got + ")"; }
    // a crashed call has no guard verdict to compare with the table: oracle failure only
    hz::emit(nextId("i") + " " + it.kind + " " + it.what, o.crashed ? std::string() : it.req, o.crashed ? std::string() : exp, ok, msg); }
}

// ================================================================== (e) Quality
static void qualityCases(Rng& r, int T) {
  int circ = 0; double ang = 10.0, len = 1.0;  // DEFAULT_SEGMENTS / DEFAULT_ANGLE / DEFAULT_LENGTH
  Quality::ResetToDefaults();
  for (int t = 0; t < T; t++) {
    int what = (int)r.below(5);
    if (what == 0) { static const int ns[] = {0, 3, 4, 7, 30, 100, 2, 1, -3, 0, 0}; int n = ns[r.below(11)]; Quality::SetCircularSegments(n);
      std::string rq = "ctor setseg " + std::to_string(circ) + " " + std::to_string(n); if (!(n < 3 && n != 0)) circ = n;
      hz::emit(nextId("q") + " setseg", rq, std::to_string(circ), true); }
    else if (what == 1) { static const double as[] = {10, 1, 0.5, 45, 90, 120, 3.7, 0, -5, 359, 1e-3}; double a = as[r.below(11)]; Quality::SetMinCircularAngle(a); if (a > 0) ang = a; }
    else if (what == 2) { static const double ls[] = {1, 0.1, 0.01, 3, 10, 0, -1, 0.37}; double l = ls[r.below(8)]; Quality::SetMinCircularEdgeLength(l); if (l > 0) len = l; }
    double rad = std::pow(10.0, rnd(r, -2, 2));
    int nSegA = (int)(360.0 / ang); double nSegL = 2.0 * std::abs(rad) * kPi / len; long fl = nSegL > 1e9 ? 1000000000L : (long)std::floor(nSegL);
    int got = Quality::GetCircularSegments(rad);
    std::string cfg = std::to_string(circ) + " " + std::to_string(nSegA) + " " + std::to_string(fl);
    bool ok = got >= 3 && (circ > 0 || got % 4 == 0); hz::emit(nextId("q") + " segments", "ctor segments " + cfg, std::to_string(got), ok, ok ? "" : "segment count not a multiple of four / below 3");
    if (got <= 400) { int sa = r.below(3) == 0 ? 3 + (int)r.below(20) : (r.below(2) ? 0 : (int)r.below(3)); bool cone = r.below(3) == 0;
      Manifold c = Manifold::Cylinder(1.0, rad, cone ? 0.0 : rad, sa);
      hz::emit(nextId("q") + " numtri-cylinder", "ctor numtri cylinder " + std::to_string(sa) + " " + cfg + " " + (cone ? "1" : "0"), std::to_string(c.NumTri()), true);
      int ss = r.below(3) == 0 ? 1 + (int)r.below(30) : (r.below(2) ? 0 : -(int)r.below(3)); if (got <= 120 && got / 4 == 0 && ss <= 0) { auto o = inChild([=] { return Manifold::Sphere(rad, ss); }); bool okc = !o.crashed && o.status == 0 && o.vol > 0;
        hz::emit(nextId("q") + " sphere-few-default-segments", "", "", okc, okc ? "" : "SetCircularSegments(" + std::to_string(circ) + ") then Sphere(r): " + (o.crashed ? "crashed with signal " + std::to_string(o.sig) : "no solid")); }
      else if (got <= 120) { Manifold s = Manifold::Sphere(rad, ss);
        hz::emit(nextId("q") + " numtri-sphere", "ctor numtri sphere " + std::to_string(ss) + " " + cfg, std::to_string(s.NumTri()), true); } }
  }
  Quality::ResetToDefaults();
  // out-of-range float->int: the documented rule (min of the angle and length bounds, rounded up to a multiple of 4) in a child
  for (double a : {1e-300, 1e-12}) { int fd[2]; if (pipe(fd)) continue; fflush(stdout); pid_t pid = fork();
    if (pid == 0) { close(fd[0]); Quality::SetMinCircularAngle(a); int g = Quality::GetCircularSegments(1.0); if (write(fd[1], &g, sizeof g) < 0) _exit(3); _exit(0); }
    close(fd[1]); int g = -1; ssize_t n = read(fd[0], &g, sizeof g); close(fd[0]); int st; waitpid(pid, &st, 0);
    int want = 8;  // min(360/a, floor(2π)) = 6 -> +3 -> 9 -> 8
    bool ok = n == (ssize_t)sizeof g && WIFEXITED(st) && g == want; char b[200]; snprintf(b, sizeof b, "SetMinCircularAngle(%g): GetCircularSegments(1) = %d, the documented rule (length bound 2*pi/1 rounded up to a multiple of 4) gives %d", a, g, want);
    hz::emit(nextId("q") + " tiny-angle", "", "", ok, ok ? "" : b); }
}

// ================================================================== (f) grid index
static void gridCases(Rng& r, int T) {
  for (int t = 0; t < T; t++) {
    ivec3 gs = {1 + (int)r.below(t % 3 ? 60 : 5000), 1 + (int)r.below(60), 1 + (int)r.below(t % 5 ? 60 : 100000)};
    ivec3 pw = ComputeGridPow(gs);
    ivec4 p = {(int)r.below(gs.x + 3), (int)r.below(gs.y + 3), (int)r.below(gs.z + 3), (int)r.below(2)};
    if (t % 7 == 0) p = {gs.x + 2, gs.y + 2, gs.z + 2, 1};
    uint64_t e = EncodeIndex(p, pw); ivec4 d = DecodeIndex(e, pw);
    std::ostringstream rq, ex; rq << "ctor grid " << p.x << " " << p.y << " " << p.z << " " << p.w << " " << gs.x << " " << gs.y << " " << gs.z;
    ex << pw.x << " " << pw.y << " " << pw.z << " " << e << " " << d.x << " " << d.y << " " << d.z << " " << d.w;
    bool ok = d == p; hz::emit(nextId("g") + " grid", rq.str(), ex.str(), ok, ok ? "" : "DecodeIndex(EncodeIndex(p)) != p");
  }
}

int main(int argc, char** argv) {
  Rng r(hz::envSeed()); int T = argc > 1 ? atoi(argv[1]) : 40;
  auto lap = [](const char* w) { static double t0 = 0; struct timespec ts; clock_gettime(CLOCK_MONOTONIC, &ts); double t = ts.tv_sec + 1e-9 * ts.tv_nsec; if (getenv("C17_TIMING")) fprintf(stderr, "%s %.2fs\n", w, t0 ? t - t0 : 0.0); t0 = t; };
  lap("start");
  // C17_ONLY=<section names> restricts the run (used by the focused search after a broken proof gate)
  auto on = [](const char* sec) { const char* e = getenv("C17_ONLY"); return !e || strstr(e, sec) != nullptr; };
  if (on("extrude")) for (int t = 0; t < T; t++) extrudeCase(r, t);
  lap("extrude");
  if (on("revolve")) { for (int k = 0; k < 6; k++) revolveCase(r, k, k); for (int t = 0; t < T; t++) revolveCase(r, t); }
  lap("revolve");
  if (on("primitives")) primitiveCases(r, std::max(3, T / 6));
  lap("primitives");
  if (on("levelset")) levelSetCases(r, hz::thorough() ? 16 : 6);
  lap("levelset");
  if (on("transforms")) transformCases(r, std::max(4, T / 4));
  lap("transforms");
  if (on("invalid")) invalidCases();
  lap("invalid");
  if (on("quality")) qualityCases(r, 3 * T);
  lap("quality");
  if (on("grid")) gridCases(r, 4 * T);
  lap("grid");
  printf("STATS cases=%d\n", gCase);
  return 0;
}
