#include "vtbb_core.h"
