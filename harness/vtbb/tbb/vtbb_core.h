// "Virtual TBB": header-only stand-ins for the TBB entry points Manifold uses.
// Everything runs on one OS thread.  Range splitting, chunk execution order, the
// body split/join tree, the pre-scan/final-scan assignment, the virtual worker id seen
// by combinable::local() and the order of task_group tasks are drawn from a seeded PRNG
// within TBB's documented contract (see CONTRACT.md).  Every parallel_reduce /
// parallel_scan / parallel_for call records the schedule it used as a term
// (`L` | `N k stolen left right`, chunks `b e ...`) so that the Lean model can be run on
// the SAME schedule.
#pragma once
#include <algorithm>
#include <cstddef>
#include <cstdint>
#include <functional>
#include <map>
#include <memory>
#include <string>
#include <unordered_map>
#include <utility>
#include <vector>

namespace tbb {
struct split {};
namespace vt {
struct Ctl {
  uint64_t s = 0x9E3779B97F4A7C15ull;
  int worker = 0;
  int nworkers = 5;
  bool record = false;
  // 0: every divisible range is split with prob 3/4 at a random point or the middle
  // 1: never split (serial schedule)   2: always split down to grain (max parallel)
  int mode = 0;
  std::vector<std::string> log;  // one entry per tbb call when record is on
  size_t calls = 0, leaves = 0, steals = 0;
};
inline Ctl& ctl() { static Ctl c; return c; }
inline void seed(uint64_t x) { ctl().s = x * 0x9E3779B97F4A7C15ull + 0x1234567ull; if (!ctl().s) ctl().s = 1; }
inline uint64_t rnd() { uint64_t& x = ctl().s; x ^= x << 13; x ^= x >> 7; x ^= x << 17; return x; }
inline size_t below(size_t n) { return n ? rnd() % n : 0; }

struct Tree {  // schedule term over a range of `n` elements
  bool leaf = true; size_t k = 0; bool stolen = false;
  std::unique_ptr<Tree> l, r;
};
inline std::unique_ptr<Tree> gen(size_t n, size_t grain) {
  auto t = std::make_unique<Tree>();
  Ctl& c = ctl();
  const bool divisible = n > grain && n >= 2;
  bool doSplit = divisible && (c.mode == 2 || (c.mode == 0 && below(4) != 0));
  if (!doSplit) { c.leaves++; return t; }
  t->leaf = false;
  t->k = (below(2) == 0) ? n / 2 : 1 + below(n - 1);
  t->stolen = c.mode == 2 ? (below(4) != 0) : (below(2) == 0);
  if (t->stolen) c.steals++;
  t->l = gen(t->k, grain);
  t->r = gen(n - t->k, grain);
  return t;
}
inline void print(const Tree& t, std::string& out) {
  if (t.leaf) { out += "L"; return; }
  out += "N " + std::to_string(t.k) + (t.stolen ? " 1 " : " 0 ");
  print(*t.l, out); out += " "; print(*t.r, out);
}
inline void logTree(const Tree& t) { if (ctl().record) { std::string s; print(t, s); ctl().log.push_back(s); } }
}  // namespace vt

template <typename T>
class blocked_range {
 public:
  using const_iterator = T;
  using size_type = size_t;
  blocked_range(T b, T e, size_t g = 1) : b_(b), e_(e), g_(g ? g : 1) {}
  T begin() const { return b_; }
  T end() const { return e_; }
  size_t size() const { return size_t(e_ - b_); }
  size_t grainsize() const { return g_; }
  bool empty() const { return !(b_ < e_); }
  bool is_divisible() const { return g_ < size(); }
  blocked_range sub(size_t off, size_t len) const { return blocked_range(b_ + off, b_ + off + len, g_); }
 private:
  T b_, e_; size_t g_;
};

struct auto_partitioner {};
struct simple_partitioner {};
struct static_partitioner {};
struct affinity_partitioner {};

// ---- parallel_for: the leaves, in any order ---------------------------------------
namespace vt {
template <typename R> void leavesOf(const R& r, const Tree& t, std::vector<R>& out) {
  if (t.leaf) { out.push_back(r); return; }
  leavesOf(r.sub(0, t.k), *t.l, out);
  leavesOf(r.sub(t.k, r.size() - t.k), *t.r, out);
}
}
template <typename R, typename F, typename P = auto_partitioner>
void parallel_for(const R& range, const F& f, P&& = P()) {
  if (range.empty()) return;
  vt::ctl().calls++;
  auto t = vt::gen(range.size(), range.grainsize());
  std::vector<R> ls; vt::leavesOf(range, *t, ls);
  if (vt::ctl().mode != 1)
    for (size_t i = ls.size(); i > 1; --i) std::swap(ls[i - 1], ls[vt::below(i)]);
  if (vt::ctl().record) {
    std::string s = "chunks";
    for (auto& l : ls) s += " " + std::to_string(size_t(l.begin() - range.begin())) + " " + std::to_string(size_t(l.end() - range.begin()));
    vt::ctl().log.push_back(s);
  }
  for (auto& l : ls) { vt::ctl().worker = (int)vt::below(vt::ctl().nworkers); f(l); }
}
template <typename I, typename F>
void parallel_for(I first, I last, const F& f) {
  parallel_for(blocked_range<I>(first, last), [&](const blocked_range<I>& r) { for (I i = r.begin(); i != r.end(); ++i) f(i); });
}

// ---- parallel_reduce ---------------------------------------------------------------
namespace vt {
template <typename R, typename T, typename F, typename J>
T reduceFn(const R& r, const Tree& t, T v, const T& id, const F& f, const J& j) {
  if (t.leaf) { ctl().worker = (int)below(ctl().nworkers); return f(r, v); }
  T a = reduceFn(r.sub(0, t.k), *t.l, v, id, f, j);
  if (!t.stolen) return reduceFn(r.sub(t.k, r.size() - t.k), *t.r, a, id, f, j);
  T b = reduceFn(r.sub(t.k, r.size() - t.k), *t.r, id, id, f, j);
  return j(a, b);
}
template <typename R, typename B>
void reduceBody(const R& r, const Tree& t, B& body) {
  if (t.leaf) { ctl().worker = (int)below(ctl().nworkers); body(r); return; }
  reduceBody(r.sub(0, t.k), *t.l, body);
  if (!t.stolen) { reduceBody(r.sub(t.k, r.size() - t.k), *t.r, body); return; }
  B rb(body, split());
  reduceBody(r.sub(t.k, r.size() - t.k), *t.r, rb);
  body.join(rb);
}
}
template <typename R, typename T, typename F, typename J, typename P = auto_partitioner>
T parallel_reduce(const R& range, const T& id, const F& f, const J& j, P&& = P()) {
  if (range.empty()) return id;
  vt::ctl().calls++;
  auto t = vt::gen(range.size(), range.grainsize());
  vt::logTree(*t);
  return vt::reduceFn(range, *t, id, id, f, j);
}
template <typename R, typename B>
void parallel_reduce(const R& range, B& body) {
  if (range.empty()) return;
  vt::ctl().calls++;
  auto t = vt::gen(range.size(), range.grainsize());
  vt::logTree(*t);
  vt::reduceBody(range, *t, body);
}

// ---- parallel_scan -----------------------------------------------------------------
struct pre_scan_tag { static bool is_final_scan() { return false; } operator bool() const { return false; } };
struct final_scan_tag { static bool is_final_scan() { return true; } operator bool() const { return true; } };
namespace vt {
template <typename R, typename B>
void preScan(const R& r, const Tree& t, B& body) {
  if (t.leaf) { ctl().worker = (int)below(ctl().nworkers); body(r, pre_scan_tag()); return; }
  preScan(r.sub(0, t.k), *t.l, body);
  if (!t.stolen) { preScan(r.sub(t.k, r.size() - t.k), *t.r, body); return; }
  B rb(body, split());
  preScan(r.sub(t.k, r.size() - t.k), *t.r, rb);
  rb.reverse_join(body);
  body.assign(rb);
}
// `body` holds the summary of everything to the left of `r` when called and the summary
// of everything up to the end of `r` when it returns.
template <typename R, typename B>
void finalScan(const R& r, const Tree& t, B& body) {
  if (t.leaf) { ctl().worker = (int)below(ctl().nworkers); body(r, final_scan_tag()); return; }
  R left = r.sub(0, t.k), right = r.sub(t.k, r.size() - t.k);
  if (!t.stolen) { finalScan(left, *t.l, body); finalScan(right, *t.r, body); return; }
  // the left part is pre-scanned by a split body; its summary, reverse_join'ed with the
  // incoming carry, is the carry of the right part (TBB's sum_node protocol)
  B pre(body, split());
  preScan(left, *t.l, pre);
  pre.reverse_join(body);           // pre.sum = f(carry, summary(left))
  finalScan(left, *t.l, body);      // final pass over the left part (its end value is dropped)
  finalScan(right, *t.r, pre);
  body.assign(pre);
}
template <typename R, typename T, typename S, typename C>
T preScanFn(const R& r, const Tree& t, T v, const T& id, const S& scan, const C& comb) {
  if (t.leaf) return scan(r, v, false);
  T a = preScanFn(r.sub(0, t.k), *t.l, v, id, scan, comb);
  if (!t.stolen) return preScanFn(r.sub(t.k, r.size() - t.k), *t.r, a, id, scan, comb);
  T b = preScanFn(r.sub(t.k, r.size() - t.k), *t.r, id, id, scan, comb);
  return comb(a, b);
}
template <typename R, typename T, typename S, typename C>
T finalScanFn(const R& r, const Tree& t, T carry, const T& id, const S& scan, const C& comb) {
  if (t.leaf) return scan(r, carry, true);
  R left = r.sub(0, t.k), right = r.sub(t.k, r.size() - t.k);
  if (!t.stolen) { T a = finalScanFn(left, *t.l, carry, id, scan, comb); return finalScanFn(right, *t.r, a, id, scan, comb); }
  T sum = preScanFn(left, *t.l, id, id, scan, comb);
  T c2 = comb(carry, sum);
  (void)finalScanFn(left, *t.l, carry, id, scan, comb);
  return finalScanFn(right, *t.r, c2, id, scan, comb);
}
}
template <typename R, typename B>
void parallel_scan(const R& range, B& body) {
  if (range.empty()) return;
  vt::ctl().calls++;
  auto t = vt::gen(range.size(), range.grainsize());
  vt::logTree(*t);
  vt::finalScan(range, *t, body);
}
template <typename R, typename T, typename S, typename C>
T parallel_scan(const R& range, const T& id, const S& scan, const C& comb) {
  if (range.empty()) return id;
  vt::ctl().calls++;
  auto t = vt::gen(range.size(), range.grainsize());
  vt::logTree(*t);
  return vt::finalScanFn(range, *t, id, id, scan, comb);
}

// ---- parallel_invoke / task_group: any order ---------------------------------------
template <typename F0, typename F1>
void parallel_invoke(const F0& a, const F1& b) {
  if (vt::ctl().mode != 1 && vt::below(2)) { b(); a(); } else { a(); b(); }
}
template <typename F0, typename F1, typename F2>
void parallel_invoke(const F0& a, const F1& b, const F2& c) {
  std::function<void()> fs[3] = {a, b, c};
  int order[3] = {0, 1, 2};
  if (vt::ctl().mode != 1) for (int i = 3; i > 1; --i) std::swap(order[i - 1], order[vt::below(i)]);
  for (int i : order) fs[i]();
}
enum task_group_status { not_complete, complete, canceled };
class task_group {
  std::vector<std::function<void()>> q_;
 public:
  template <typename F> void run(F&& f) { q_.emplace_back(std::forward<F>(f)); }
  task_group_status wait() {
    while (!q_.empty()) {
      size_t i = vt::ctl().mode == 1 ? 0 : vt::below(q_.size());
      auto f = std::move(q_[i]); q_.erase(q_.begin() + i);
      vt::ctl().worker = (int)vt::below(vt::ctl().nworkers);
      f();
    }
    return complete;
  }
  template <typename F> task_group_status run_and_wait(F&& f) { run(std::forward<F>(f)); return wait(); }
  ~task_group() { wait(); }
};

// ---- combinable --------------------------------------------------------------------
template <typename T>
class combinable {
  // one lazily created slot per virtual worker; T need not be copyable or movable
  mutable std::vector<std::unique_ptr<T>> slots_;
  std::function<T*()> make_;
 public:
  combinable() : make_([] { return new T(); }) { reset(); }
  template <typename F, typename = decltype(std::declval<F>()())>
  explicit combinable(F f) : make_([f] { return new T(f()); }) { reset(); }
  combinable(const combinable&) = delete;
  combinable& operator=(const combinable&) = delete;
  void clear() { reset(); }
  void reset() { slots_.clear(); slots_.resize(vt::ctl().nworkers > 0 ? vt::ctl().nworkers : 1); }
  T& local() {
    if ((int)slots_.size() <= vt::ctl().worker) slots_.resize(vt::ctl().worker + 1);
    auto& s = slots_[vt::ctl().worker];
    if (!s) s.reset(make_());
    return *s;
  }
  T& local(bool& exists) {
    if ((int)slots_.size() <= vt::ctl().worker) slots_.resize(vt::ctl().worker + 1);
    exists = (bool)slots_[vt::ctl().worker]; return local();
  }
  template <typename F> void combine_each(F f) const {
    std::vector<size_t> order;
    for (size_t i = 0; i < slots_.size(); i++) if (slots_[i]) order.push_back(i);
    if (vt::ctl().mode != 1) for (size_t i = order.size(); i > 1; --i) std::swap(order[i - 1], order[vt::below(i)]);
    for (size_t i : order) f(*slots_[i]);
  }
  template <typename F> T combine(F f) const {
    bool any = false; std::unique_ptr<T> acc;
    combine_each([&](const T& x) { if (!any) { acc.reset(new T(x)); any = true; } else *acc = f(*acc, x); });
    if (!any) acc.reset(make_());
    return *acc;
  }
};
template <typename T> using enumerable_thread_specific = combinable<T>;

namespace this_task_arena {
template <typename F> auto isolate(F&& f) -> decltype(f()) { return f(); }
inline int max_concurrency() { return vt::ctl().nworkers; }
inline int current_thread_index() { return vt::ctl().worker; }
}
class task_arena {
 public:
  static const int automatic = -1;
  explicit task_arena(int = automatic, unsigned = 1) {}
  template <typename F> auto execute(F&& f) -> decltype(f()) { return f(); }
  int max_concurrency() const { return vt::ctl().nworkers; }
};
class global_control {
 public:
  enum parameter { max_allowed_parallelism, thread_stack_size };
  global_control(parameter, size_t) {}
  static size_t active_value(parameter) { return (size_t)vt::ctl().nworkers; }
};

template <typename K, typename V, typename C = std::less<K>> using concurrent_map = std::map<K, V, C>;
template <typename K, typename V, typename H = std::hash<K>> using concurrent_unordered_map = std::unordered_map<K, V, H>;
}  // namespace tbb
namespace oneapi { namespace tbb = ::tbb; }
