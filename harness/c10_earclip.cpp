// C10 correspondence harness: the real Triangulate/TriangulateIdx (libmanifold built with
// -DMANIFOLD_VERIF); the hook log of ClipEar/JoinPolygons decisions is replayed on the Lean
// model, whose triangle list must equal the real one; the convex fast path is compared with
// the model's strip; every result is also checked geometrically (count, orientation, area).
#include <cmath>
#include <sstream>
#include <set>
#include <map>
#include "manifold/polygon.h"
#include "polygon_internal.h"
#include "verif_hooks.h"
#include "common.h"
using namespace manifold;
using hz::Rng;

static std::string gOps; static int gStarts = 0;
static double area2(const std::vector<vec2>& p) { long double a = 0; for (size_t i = 0; i < p.size(); i++) { auto u = p[i], v = p[(i + 1) % p.size()]; a += (long double)u.x * v.y - (long double)v.x * u.y; } return (double)a; }

static SimplePolygon star(Rng& r, double cx, double cy, double rad, int n, bool cw, double jag) {
  SimplePolygon p; double ph = r.below(1000) * 0.00628;
  for (int i = 0; i < n; i++) { double a = ph + 2 * M_PI * i / n; double rr = rad * (1.0 - jag * (r.below(1000) / 1000.0)); p.push_back({cx + rr * cos(a), cy + rr * sin(a)}); }
  if (cw) std::reverse(p.begin(), p.end());
  return p;
}
// rectilinear lattice polygon with many collinear points (staircase), always simple
static SimplePolygon stairs(Rng& r, double x0, double y0, int steps, double s) {
  SimplePolygon p; p.push_back({x0, y0});
  for (int i = 0; i < steps; i++) { p.push_back({x0 + s * (i + 1), y0 + s * i}); p.push_back({x0 + s * (i + 1), y0 + s * (i + 1)}); }
  p.push_back({x0, y0 + s * steps});
  // extra collinear points on the left edge
  int extra = (int)r.below(4); for (int k = extra; k >= 1; k--) p.push_back({x0, y0 + s * steps * k / (extra + 1.0)});
  return p;
}
static void addCollinear(Rng& r, SimplePolygon& p) {
  SimplePolygon q;
  for (size_t i = 0; i < p.size(); i++) { q.push_back(p[i]); if (r.below(4) == 0) { vec2 a = p[i], b = p[(i + 1) % p.size()]; q.push_back({(a.x + b.x) / 2, (a.y + b.y) / 2}); } if (r.below(9) == 0) q.push_back(p[i]); }
  p = q;
}

int main(int argc, char** argv) {
  uint64_t seed = hz::envSeed(); Rng r(seed);
  int T = argc > 1 ? atoi(argv[1]) : 300;
  verif::hooks().onEarStart = [] { gStarts++; };
  verif::hooks().onEarClip = [](int e) { gOps += " ; c " + std::to_string(e); };
  verif::hooks().onEarJoin = [](int s, int c) { gOps += " ; j " + std::to_string(s) + " " + std::to_string(c); };
  PolygonTriangulator reused;   // one triangulator object reused across ALL cases (scales 1e-6..1e6)
  for (int t = 0; t < T; t++) {
    Polygons polys; int holes = 0, outers = 0;
    int kind = (int)r.below(7);   // 6: hole-free polygons whose REFLEX corners are all exactly duplicated consecutive vertices
    int no = 1 + (int)r.below(kind == 5 ? 3 : 1);
    for (int o = 0; o < no; o++) {
      double cx = 30.0 * o, cy = 0;
      if (kind == 4 || (kind == 6 && r.below(2))) { polys.push_back(stairs(r, cx, cy, 2 + (int)r.below(6), 1.0)); outers++; continue; }
      // kinds with holes: the holes (centres at distance 2.55, radius <= 1.2) must lie inside the star, whose vertices have radius >= 5.5 at
      // equally spaced angles and which therefore contains the disc of radius 5.5 cos(pi/n): n >= 5 (n = 3, 4 gave holes outside a thin outer ring)
      int n = (kind >= 2 && kind != 6 ? 5 : 3) + (int)r.below(kind == 0 ? 4 : kind == 6 ? 6 : 18);
      polys.push_back(star(r, cx, cy, 10, n, false, kind == 0 ? 0.0 : 0.45)); outers++;
      if (kind >= 2 && kind != 6) {  // holes on a 2x2 grid well inside the kernel disc (radius 5.5) of the star
        int nh = (int)r.below(5);
        for (int h = 0; h < nh; h++) {
          double hx = cx + (h % 2 ? 1.8 : -1.8), hy = cy + (h / 2 ? 1.8 : -1.8);
          if (h == 4) break;
          polys.push_back(star(r, hx, hy, 1.2, 3 + (int)r.below(6), true, 0.3)); holes++;
          if (kind == 3 && r.below(2)) { polys.push_back(star(r, hx, hy, 0.4, 3 + (int)r.below(4), false, 0.2)); outers++; }  // island in the hole
        }
      }
    }
    if (kind == 6) {
      for (auto& p : polys) { SimplePolygon q; const size_t n = p.size();
        for (size_t i = 0; i < n; i++) { vec2 a = p[(i + n - 1) % n], b = p[i], c = p[(i + 1) % n]; const double cr = (b.x - a.x) * (c.y - b.y) - (b.y - a.y) * (c.x - b.x);
          q.push_back(b); if (cr < 0 || r.below(8) == 0) { q.push_back(b); if (r.below(4) == 0) q.push_back(b); } }
        p = q; }
    } else
    if (r.below(3) == 0) for (auto& p : polys) addCollinear(r, p);
    // similarity transform: scales 1e-6 .. 1e6
    double sc = std::pow(10.0, (int)r.below(13) - 6), th = r.below(1000) * 0.00628, tx = (r.below(2001) - 1000.0) * sc, ty = (r.below(2001) - 1000.0) * sc;
    for (auto& p : polys) for (auto& v : p) { double x = v.x, y = v.y; v = {sc * (x * cos(th) - y * sin(th)) + tx, sc * (x * sin(th) + y * cos(th)) + ty}; }
    bool allowConvex = r.below(2);
    gOps.clear(); gStarts = 0;
    std::vector<ivec3> tris = Triangulate(polys, -1, allowConvex);
    std::vector<ivec3> tris2 = Triangulate(polys, -1, !allowConvex);   // result must not depend on the fast path being allowed ... as a triangulation
    std::string ops1 = gOps;
    // request line
    std::ostringstream in; int idx = 0; size_t V = 0; std::vector<vec2> pos;
    bool usedEar = gStarts > 0 && !ops1.empty();
    in << "earclip" << ((gStarts == 0 || (allowConvex && ops1.empty() && gStarts < 2)) ? " convex ;" : "");
    bool first = true;
    for (auto& p : polys) { in << (first ? " " : " ; ") << "poly"; first = false; for (auto& v : p) { in << " " << idx++; pos.push_back(v); V++; } }
    // which call used the ear clipper? the hooks fire for both calls; split the log at the second onEarStart
    (void)usedEar;
    std::ostringstream out; out << "tris"; bool f = true;
    for (auto& tr : tris) { out << (f ? " " : " , ") << tr[0] << " " << tr[1] << " " << tr[2]; f = false; }
    // geometric oracle on the real output
    bool ok = true; std::string msg;
    long double polyA = 0; for (auto& p : polys) polyA += area2(p);
    auto check = [&](const std::vector<ivec3>& T2, const char* which) {
      long double sum = 0, absum = 0; double scale2 = sc * sc * 100;
      for (auto& tr : T2) {
        for (int k = 0; k < 3; k++) if (tr[k] < 0 || tr[k] >= (int)V) { ok = false; msg = std::string(which) + ": index out of range"; return; }
        vec2 a = pos[tr[0]], b = pos[tr[1]], c = pos[tr[2]];
        long double ar = ((long double)(b.x - a.x) * (c.y - a.y) - (long double)(b.y - a.y) * (c.x - a.x));
        sum += ar; absum += fabsl(ar);
        if (ar < -1e-9 * scale2) { ok = false; msg = std::string(which) + ": clockwise triangle beyond epsilon"; }
      }
      if (fabsl(sum - polyA) > 1e-9 * (fabsl(polyA) + absum)) { ok = false; msg = std::string(which) + ": triangle areas do not sum to the polygon area"; }
      if ((long)T2.size() > (long)V + 2 * holes - 2 * outers) { ok = false; msg = std::string(which) + ": more triangles than V-2+2h-2(o-1)"; }
    };
    check(tris, "requested path"); check(tris2, "other path");
    {  // reuse clause: a triangulator that has seen other inputs before must give the fresh result
      PolygonsIdx pi; int id3 = 0; for (auto& p : polys) { SimplePolygonIdx q; for (auto& v : p) q.push_back({v, id3++}); pi.push_back(q); }
      PolygonTriangulator fresh;
      auto a = TriangulateIdxHalfedges(pi, -1, allowConvex, fresh).Triangles();
      auto b = TriangulateIdxHalfedges(pi, -1, allowConvex, reused).Triangles();
      if (a != b) { ok = false; msg = "reused triangulator object gives a different triangulation than a fresh one (epsilon fresh=" + std::to_string(fresh.GetPrecision()) + " reused=" + std::to_string(reused.GetPrecision()) + ")"; }
      if (a != tris) { ok = false; msg = "TriangulateIdxHalfedges differs from Triangulate on the same input"; }
    }
    // the decision log of the FIRST call only (second call's hooks come after a second onEarStart)
    std::string tag = "c" + std::to_string(t) + " " + (ops1.empty() ? "convex" : "earclip") + " V=" + std::to_string(V) + " h=" + std::to_string(holes) + " o=" + std::to_string(outers);
    if (!ok && getenv("C10_DEBUG")) { fprintf(stderr, "DEBUG %s kind=%d allowConvex=%d sc=%g : %s\n", tag.c_str(), kind, (int)allowConvex, sc, msg.c_str());
      for (auto& p : polys) { fprintf(stderr, "  ring"); for (auto& v : p) fprintf(stderr, " (%.17g,%.17g)", v.x, v.y); fprintf(stderr, "\n"); }
      for (auto* T2 : {&tris, &tris2}) for (auto& tr : *T2) { vec2 a = pos[tr[0]], b = pos[tr[1]], c = pos[tr[2]]; long double ar = ((long double)(b.x - a.x) * (c.y - a.y) - (long double)(b.y - a.y) * (c.x - a.x)); if (ar < -1e-9 * sc * sc * 100) fprintf(stderr, "  cw tri %d %d %d area2=%Lg (%s)\n", tr[0], tr[1], tr[2], ar, T2 == &tris ? "requested" : "other"); } }
    hz::emit(tag, "", "", ok, msg);
    // separate, unambiguous correspondence runs (one Triangulate call each)
    for (int pass = 0; pass < 2; pass++) {
      gOps.clear(); gStarts = 0;
      auto T3 = Triangulate(polys, -1, pass == 1);
      std::ostringstream rq; rq << "earclip"; if (gStarts == 0) rq << " convex ;";
      int id2 = 0; bool ff = true;
      for (auto& p : polys) { rq << (ff ? " " : " ; ") << "poly"; ff = false; for (size_t k = 0; k < p.size(); k++) rq << " " << id2++; }
      if (gStarts > 0) rq << " ; ops" << gOps;
      std::ostringstream ex; ex << "tris"; bool g = true;
      for (auto& tr : T3) { ex << (g ? " " : " , ") << tr[0] << " " << tr[1] << " " << tr[2]; g = false; }
      // the model appends verdicts; the real side states what must hold
      ex << (gStarts > 0 ? " | rings done | net ok | paired ok" : " | net ok | paired ok");
      hz::emit(tag + (pass ? " allowConvex" : " earOnly") + " count=" + std::to_string(T3.size()) + " expect=" + std::to_string((long)V + 2 * holes - 2 * outers), rq.str(), ex.str(), true);
    }
  }
  return 0;
}
