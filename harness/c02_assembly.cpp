// C02b: assembly of the Boolean result (PairUp / AppendPartialEdges / AppendNewEdges / AppendWholeEdges /
// SizeOutput / Winding03) against MV/Model/BoolAssembly.lean (engine `boolasm`).  Library variant "ser".
//
// boolean_result.cpp is #included so that the anonymous-namespace template `PairUp` and `struct EdgePos`
// can be called directly; all external symbols of boolean_result.o (Boolean3::Result) are therefore defined
// HERE and the archive member is never pulled in: the Booleans below run the code of this translation unit.
//
//   c02_assembly pairup N   N seeded vector<EdgePos> (ties in edgePos/collisionId, duplicated vertices,
//                           balanced and unbalanced) through the REAL PairUp; REQ = the vector, EXP = the
//                           halfedges its callback received
//   c02_assembly bool N     N operand pairs (general position, lattice boxes and lattice Boolean results,
//                           self-overlapping composites) x 3 OpTypes with the MANIFOLD_VERIF hook
//                           `onBoolAsm` installed.  Per Boolean with <= 400 halfedges per operand:
//                             united/winding  the unite() calls and the flood fill of both Winding03_ calls
//                             asm             the whole assembly: REQ = operand halfedges, w03/w30, x12/x21 and
//                                             the edgePos oracle; EXP = faceEdge, facePQ2R, every vector handed
//                                             to PairUp, final facePtrR, faceHalfedges
//                             mesh            the result through the verified mesh checker
//                           PROP (evaluated on the real code's records): every slot of faceHalfedges written
//                           exactly once, facePtrR ends at the next face's start (reserved == written), pairing is
//                           an involution with reversed ends, every PairUp vector has #starts == #ends, every
//                           face's boundary is closed (in-degree == out-degree at every vertex).
#include "boolean_result.cpp"
//
#include <cmath>
#include <cstring>
#include <map>
#include <mutex>
#include <set>
#include <sstream>

#include "common.h"
#include "manifold/manifold.h"
using hz::Rng;

static std::map<std::string, long> stats;
static double rnd01(Rng& r) { return (double)(r.next() >> 11) / 9007199254740992.0; }
static double rndIn(Rng& r, double lo, double hi) { return lo + (hi - lo) * rnd01(r); }

// order-preserving integer image of a (non-NaN) double; -0.0 and +0.0 compare equal in C++ and map to 0
static bool keyOf(double d, int64_t& k) {
  if (std::isnan(d)) return false;
  if (d == 0) { k = 0; return true; }
  uint64_t u; memcpy(&u, &d, 8);
  int64_t mag = (int64_t)(u & 0x7fffffffffffffffull);
  k = (u >> 63) ? -mag : mag;
  return true;
}
static bool keyOfBits(int64_t bits, int64_t& k) { double d; memcpy(&d, &bits, 8); return keyOf(d, k); }

// ------------------------------------------------------------------------------------------------ pairup
static void pairupMode(int n, Rng& r) {
  for (int c = 0; c < n; c++) {
    int style = (int)r.below(6);
    int nE = (int)r.below(style == 5 ? 14 : 9);
    std::vector<EdgePos> v;
    int nextVert = (int)r.below(50);
    int keyRange = style == 0 ? 1 : style == 1 ? 2 : style == 2 ? 3 : 1000;      // few distinct positions => ties
    int cidRange = style <= 2 ? 2 : style == 3 ? 4 : 100;
    auto pos = [&](void) { int k = (int)r.below((size_t)keyRange); double d = (k - keyRange / 2) * 0.37; if (r.below(11) == 0) d = -0.0; return d; };
    // groups of duplicated vertices (same position, same collisionId, consecutive verts), like |inclusion| > 1
    int starts = 0, ends = 0;
    while ((int)v.size() < 2 * nE) {
      int mult = 1 + (r.below(3) == 0 ? (int)r.below(3) : 0);
      bool isStart = r.below(2) == 0;
      if (style != 4) { if (starts >= nE) isStart = false; else if (ends >= nE) isStart = true; }
      double p = pos(); int cid = r.below(5) == 0 ? std::numeric_limits<int>::max() : (int)r.below((size_t)cidRange);
      for (int j = 0; j < mult && (int)v.size() < 2 * nE; j++) {
        if (style != 4) { if (isStart && starts >= nE) break; if (!isStart && ends >= nE) break; }
        v.push_back({p, nextVert++, cid, isStart}); (isStart ? starts : ends)++;
      }
      nextVert += (int)r.below(3);
    }
    if (style == 4 && r.below(3) == 0 && !v.empty()) { v.pop_back(); }      // odd size: DEBUG_ASSERT is compiled out
    // shuffle (the order in which AddNewEdgeVerts / the end-vertex loops append is arbitrary for PairUp)
    for (size_t i = v.size(); i > 1; i--) std::swap(v[i - 1], v[r.below(i)]);
    std::ostringstream req; req << "boolasm pairup " << v.size();
    int st = 0; std::set<std::pair<int64_t, int>> distinctKeys;
    for (auto& e : v) { int64_t k; keyOf(e.edgePos, k); req << " " << k << " " << e.vert << " " << e.collisionId << " " << (e.isStart ? 1 : 0); st += e.isStart; distinctKeys.insert({k, e.collisionId}); }
    bool pre = v.size() % 2 == 0 && (size_t)st == v.size() / 2;
    std::vector<EdgePos> w = v; std::vector<std::pair<int, int>> out;
    PairUp(w, [&](Halfedge e) { out.push_back({e.startVert, e.endVert}); });
    std::ostringstream exp; exp << (pre ? 1 : 0) << " " << out.size();
    for (auto& p : out) exp << " " << p.first << " " << p.second;
    // property (only under the precondition): every entry used exactly once, start -> end
    bool ok = true; std::string msg;
    if (pre) {
      std::multiset<int> sv, ev, os, oe; for (auto& e : v) (e.isStart ? sv : ev).insert(e.vert);
      for (auto& p : out) { os.insert(p.first); oe.insert(p.second); }
      if (sv != os || ev != oe) { ok = false; msg = "PairUp did not use every start as a start and every end as an end exactly once"; }
    }
    bool ties = distinctKeys.size() < v.size();
    hz::emit("p" + std::to_string(c) + " pairup style=" + std::to_string(style) + " n=" + std::to_string(v.size()) + (pre ? " balanced" : " unbalanced") + (ties ? " ties" : ""), req.str(), exp.str(), ok, msg);
    stats["pairup_vectors"]++; if (ties) stats["pairup_with_ties"]++; if (!pre) stats["pairup_unbalanced"]++;
  }
}

// ------------------------------------------------------------------------------------------------ records
struct Rec { int kind; std::vector<int64_t> d; };
static std::vector<Rec> recs; static std::mutex recMx;
// A record that already shows the assembly going wrong (an unbalanced vector about to enter PairUp, a slot outside
// faceHalfedges or obtained twice) stops the Boolean by an exception thrown from the hook BEFORE the real code
// writes through the bad index: the oracle gets to report what it saw instead of a heap corruption.
struct AsmAbort { std::string what; };
static int64_t asmTotal = -1; static std::vector<char> asmWritten;
static void install() {
  manifold::verif::hooks().onBoolAsm = [](int kind, const std::vector<int64_t>& d) {
    std::lock_guard<std::mutex> l(recMx); recs.push_back({kind, d});
    using namespace manifold::verif;
    if (kind == kAsmBegin) { asmTotal = -1; asmWritten.clear(); }
    else if (kind == kAsmSized) { asmTotal = d[(size_t)d[0]]; asmWritten.assign((size_t)std::max<int64_t>(asmTotal, 0), 0); }
    else if (kind == kAsmEdgeList) { int64_t n = d[5], st = 0; for (int64_t i = 0; i < n; i++) st += d[(size_t)(6 + 4 * i + 3)];
      if (2 * st != n) throw AsmAbort{"PairUp precondition fails: a vector (which=" + std::to_string(d[0]) + " key=" + std::to_string(d[1]) + "," + std::to_string(d[2]) + ") with " + std::to_string(st) + " starts among " + std::to_string(n) + " entries is about to be paired"}; }
    else if (kind == kAsmEmit || kind == kAsmWhole) { size_t o = kind == kAsmEmit ? 0 : 2;
      for (size_t j = o; j < o + 2; j++) { int64_t slot = d[j];
        if (slot < 0 || slot >= asmTotal) throw AsmAbort{"a halfedge is about to be written to slot " + std::to_string(slot) + " of a faceHalfedges of size " + std::to_string(asmTotal) + " (SizeOutput reserved too little)"};
        if (asmWritten[(size_t)slot]++) throw AsmAbort{"slot " + std::to_string(slot) + " of faceHalfedges is about to be written a second time (a face received more halfedges than SizeOutput reserved)"}; } }
  };
}

static Manifold genericXf(Rng& r, const Manifold& m, double spread) {
  return m.Rotate(rndIn(r, -180, 180), rndIn(r, -180, 180), rndIn(r, -180, 180)).Scale(vec3(rndIn(r, 0.7, 1.3), rndIn(r, 0.7, 1.3), rndIn(r, 0.7, 1.3)))
      .Rotate(rndIn(r, -180, 180), rndIn(r, -180, 180), rndIn(r, -180, 180)).Translate(vec3(rndIn(r, -spread, spread), rndIn(r, -spread, spread), rndIn(r, -spread, spread)));
}
static Manifold genSolid(Rng& r, std::string& desc) {
  int k = (int)r.below(6); Manifold m;
  if (k == 0) { int s = 4 * r.range(1, 3); m = Manifold::Sphere(rndIn(r, 0.6, 1.2), s); desc = "sphere" + std::to_string(s); }
  else if (k == 1) { int s = r.range(3, 12); m = Manifold::Cylinder(rndIn(r, 0.8, 2.0), rndIn(r, 0.4, 1.0), rndIn(r, 0.3, 1.0), s, true); desc = "cyl" + std::to_string(s); }
  else if (k == 2) { m = Manifold::Cube(vec3(rndIn(r, 0.8, 2), rndIn(r, 0.8, 2), rndIn(r, 0.8, 2)), true); desc = "cube"; }
  else if (k == 3) { m = Manifold::Tetrahedron(); desc = "tet"; }
  else if (k == 4) { std::vector<vec3> p; int n = r.range(5, 14); for (int i = 0; i < n; i++) p.push_back(vec3(rndIn(r, -1, 1), rndIn(r, -1, 1), rndIn(r, -1, 1))); m = Manifold::Hull(p); desc = "hull" + std::to_string(n); }
  else { m = Manifold::Cube(vec3(1.6, 1.6, 1.6), true) - Manifold::Cylinder(3, 0.45, 0.45, r.range(4, 7), true).Rotate(rndIn(r, -20, 20), rndIn(r, -20, 20), 0); desc = "drilled"; }
  return genericXf(r, m, 0.8);
}
static Manifold latticeBox(Rng& r, std::string& desc, int span) {
  int lo[3], hi[3];
  for (int a = 0; a < 3; a++) { lo[a] = r.range(0, span - 1); hi[a] = r.range(lo[a] + 1, span); }
  char b[80]; snprintf(b, sizeof b, "B%d%d%d%d%d%d", lo[0], lo[1], lo[2], hi[0], hi[1], hi[2]); desc = b;
  return Manifold::Cube(vec3(hi[0] - lo[0], hi[1] - lo[1], hi[2] - lo[2])).Translate(vec3(lo[0], lo[1], lo[2]));
}
static Manifold latticeSolid(Rng& r, std::string& desc) {
  std::string d1; Manifold m = latticeBox(r, d1, 3); desc = d1;
  if (r.below(3) == 0) { std::string d2; Manifold n = latticeBox(r, d2, 3); int o = (int)r.below(3); m = m.Boolean(n, o == 0 ? OpType::Add : o == 1 ? OpType::Subtract : OpType::Intersect); desc = "(" + d1 + "+-^"[o] + d2 + ")"; }
  return m;
}

static Manifold concatMeshes(const Manifold& a, const Manifold& b) {
  MeshGL64 ga = a.GetMeshGL64(), gb = b.GetMeshGL64(), g; g.numProp = 3;
  for (size_t v = 0; v < ga.NumVert(); v++) for (int k = 0; k < 3; k++) g.vertProperties.push_back(ga.vertProperties[v * ga.numProp + k]);
  for (size_t v = 0; v < gb.NumVert(); v++) for (int k = 0; k < 3; k++) g.vertProperties.push_back(gb.vertProperties[v * gb.numProp + k]);
  for (auto t : ga.triVerts) g.triVerts.push_back(t);
  for (auto t : gb.triVerts) g.triVerts.push_back(t + ga.NumVert());
  return Manifold(g);
}
static std::string meshReq(const Manifold& m) {
  MeshGL64 g = m.GetMeshGL64(); std::ostringstream rq; size_t nv = g.NumVert(), nt = g.NumTri(); bool merged = !g.mergeFromVert.empty();
  rq << "mesh " << (merged ? "checkmerge " : "check ") << nv << " " << nt;
  for (size_t i = 0; i < 3 * nt; i++) rq << " " << g.triVerts[i];
  if (merged) { rq << " " << g.mergeFromVert.size(); for (auto x : g.mergeFromVert) rq << " " << x; for (auto x : g.mergeToVert) rq << " " << x; }
  return rq.str();
}

struct Cursor { const std::vector<int64_t>& d; size_t i = 0; int64_t get() { return d.at(i++); } };

static void oneBoolean(const std::string& id, const std::string& fam, const Manifold& A, const Manifold& B, int op) {
  A.NumTri(); B.NumTri();
  if (A.Status() != Manifold::Error::NoError || B.Status() != Manifold::Error::NoError) { stats["skipped_bad_operand"]++; return; }
  { std::lock_guard<std::mutex> l(recMx); recs.clear(); }
  Manifold R = A.Boolean(B, op == 0 ? OpType::Add : op == 1 ? OpType::Subtract : OpType::Intersect);
  try { R.NumTri(); }
  catch (const AsmAbort& a) { stats["booleans"]++; stats["assembly_aborted"]++; hz::emit(id + " asm-abort " + fam, "", "", false, a.what); return; }
  std::vector<Rec> rs; { std::lock_guard<std::mutex> l(recMx); rs.swap(recs); }
  stats["booleans"]++;
  const char* opn = op == 0 ? "add" : op == 1 ? "subtract" : "intersect";
  std::string tag0 = id + " ";
  if (R.Status() != Manifold::Error::NoError) { hz::emit(tag0 + "status " + fam, "", "", false, "Boolean of two valid operands returned Status " + std::to_string((int)R.Status())); return; }
  const Rec *begin = nullptr, *sized = nullptr, *end = nullptr; std::vector<const Rec*> wind, lists, wholes; std::vector<std::vector<const Rec*>> emits;
  int nBegin = 0;
  for (auto& x : rs) {
    if (x.kind == manifold::verif::kAsmBegin) { begin = &x; nBegin++; }
    else if (x.kind == manifold::verif::kAsmSized) sized = &x;
    else if (x.kind == manifold::verif::kAsmEnd) end = &x;
    else if (x.kind == manifold::verif::kAsmWinding) wind.push_back(&x);
    else if (x.kind == manifold::verif::kAsmEdgeList) { lists.push_back(&x); emits.emplace_back(); }
    else if (x.kind == manifold::verif::kAsmEmit) { if (!emits.empty()) emits.back().push_back(&x); }
    else if (x.kind == manifold::verif::kAsmWhole) wholes.push_back(&x);
  }
  if (nBegin == 0) { stats["no_boolean3_result"]++; return; }        // empty operand / trivially disjoint leaves handled above Boolean3
  if (nBegin > 1) { stats["several_results"]++; return; }
  // ---- sizes
  Cursor cb{begin->d}; int64_t c1 = cb.get(), c2 = cb.get(), c3 = cb.get(); (void)c2;
  int opFromC = (c1 == 0) ? 2 : (c2 == 1 ? 0 : 1); (void)c3;
  std::vector<int64_t> hs[2];
  size_t nH[2];
  std::ostringstream body;        // everything after "boolasm asm <op>"
  for (int s = 0; s < 2; s++) { nH[s] = (size_t)cb.get(); body << " " << nH[s]; for (size_t h = 0; h < 2 * nH[s]; h++) { int64_t v = cb.get(); hs[s].push_back(v); body << " " << v; } }
  if (nH[0] > 400 || nH[1] > 400) { stats["skipped_too_large"]++; return; }
  std::vector<int64_t> w[2];
  for (int s = 0; s < 2; s++) { size_t n = (size_t)cb.get(); body << " " << n; for (size_t i = 0; i < n; i++) { int64_t v = cb.get(); w[s].push_back(v); body << " " << v; } }
  std::vector<std::array<int64_t, 3>> x[2];
  for (int s = 0; s < 2; s++) { size_t n = (size_t)cb.get(); body << " " << n; for (size_t i = 0; i < n; i++) { std::array<int64_t, 3> t = {cb.get(), cb.get(), cb.get()}; x[s].push_back(t); body << " " << t[0] << " " << t[1] << " " << t[2]; } }
  long maxMult = 0; for (int s = 0; s < 2; s++) { for (auto v : w[s]) { long i = std::labs((long)((s == 0 ? c1 : c2) + c3 * v)); maxMult = std::max(maxMult, i); } for (auto& t : x[s]) maxMult = std::max(maxMult, std::labs((long)(c3 * t[2]))); }
  char szb[200]; snprintf(szb, sizeof szb, "%s %s hP=%zu hQ=%zu n12=%zu n21=%zu lists=%zu maxmult=%ld", opn, fam.c_str(), nH[0], nH[1], x[0].size(), x[1].size(), lists.size(), maxMult);
  std::string sz = szb;
  if (maxMult > 1) stats["booleans_with_multiplicity_gt1"]++;
  if (!x[0].empty() || !x[1].empty()) stats["booleans_with_intersections"]++;
  // ---- Winding03: united edges and flood fill
  for (const Rec* wr : wind) {
    Cursor c{wr->d}; int fwd = (int)c.get(); size_t nV = (size_t)c.get(), nU = (size_t)c.get(); int s = fwd ? 0 : 1;
    std::vector<int64_t> un; for (size_t i = 0; i < 2 * nU; i++) un.push_back(c.get());
    std::vector<int64_t> root, w03; for (size_t i = 0; i < nV; i++) root.push_back(c.get()); for (size_t i = 0; i < nV; i++) w03.push_back(c.get());
    // (1) the unite() calls recomputed by the model from the halfedges and the broken-edge column of p1q2
    { std::ostringstream rq, ex; rq << "boolasm united " << nH[s]; for (auto v : hs[s]) rq << " " << v; rq << " " << x[s].size(); for (auto& t : x[s]) rq << " " << t[s == 0 ? 0 : 1];
      ex << nU; for (auto v : un) ex << " " << v;
      hz::emit(tag0 + "united " + sz + " side=" + (s ? "Q" : "P") + " united=" + std::to_string(nU), rq.str(), ex.str(), true); stats["united_cases"]++; }
    // (2) flood fill from the seeds at the roots
    { std::ostringstream rq, ex; rq << "boolasm winding " << nV << " " << nU; for (auto v : un) rq << " " << v; for (auto v : root) rq << " " << v;
      std::set<int64_t> comps; bool same = true;
      for (size_t i = 0; i < nV; i++) { rq << " " << (root[i] == (int64_t)i ? w03[i] : 0); comps.insert(root[i]); }
      for (size_t i = 0; i + 1 < 2 * nU; i += 2) if (w03[(size_t)un[i]] != w03[(size_t)un[i + 1]]) same = false;
      ex << "ok"; for (auto v : w03) ex << " " << v;
      // the record must agree with what Result consumed
      bool agree = w03 == w[s];
      hz::emit(tag0 + "winding " + sz + " side=" + (s ? "Q" : "P") + " comps=" + std::to_string(comps.size()), rq.str(), ex.str(), same && agree,
               !same ? "w03 differs across an unbroken edge" : !agree ? "Winding03's result is not the w03 Result used" : "");
      stats["winding_cases"]++; if (comps.size() > 1) stats["winding_multi_component"]++; }
  }
  if (!sized || !end) { stats["empty_result_no_assembly"]++; hz::emit(tag0 + "mesh-empty " + sz, "", "", R.IsEmpty(), R.IsEmpty() ? "" : "Result returned before the assembly but the Boolean is not empty"); return; }
  // ---- asm
  bool nanKey = false;
  std::ostringstream keys, L; keys << " " << lists.size(); L << "L " << lists.size();
  bool balanced = true; std::string propMsg;
  for (size_t li = 0; li < lists.size(); li++) {
    Cursor c{lists[li]->d}; int64_t which = c.get(), k0 = c.get(), k1 = c.get(), fl = c.get(), fr = c.get(); size_t n = (size_t)c.get(); (void)fl; (void)fr;
    keys << " " << n; L << " " << n; int st = 0;
    for (size_t i = 0; i < n; i++) { int64_t bits = c.get(), vert = c.get(), cid = c.get(), isS = c.get(); int64_t k; if (!keyOfBits(bits, k)) { nanKey = true; k = 0; }
      keys << " " << k; L << " " << k << " " << vert << " " << cid << " " << isS; st += (int)isS; }
    if (2 * (size_t)st != n && balanced) { balanced = false; char b[200]; snprintf(b, sizeof b, "PairUp precondition fails: vector %zu (which=%lld key=%lld,%lld) has %d starts among %zu entries", li, (long long)which, (long long)k0, (long long)k1, st, n); propMsg = b; }
    if (emits[li].size() != n / 2 && propMsg.empty()) propMsg = "PairUp emitted " + std::to_string(emits[li].size()) + " halfedge pairs for a vector of " + std::to_string(n);
  }
  if (nanKey) { stats["inconclusive_nan_edgepos"]++; return; }
  Cursor cs{sized->d}; size_t nFE = (size_t)cs.get(); std::vector<int64_t> FE; for (size_t i = 0; i < nFE; i++) FE.push_back(cs.get());
  size_t nF2R = (size_t)cs.get(); std::vector<int64_t> F2R; for (size_t i = 0; i < nF2R; i++) F2R.push_back(cs.get());
  Cursor ce{end->d}; size_t nPtr = (size_t)ce.get(); std::vector<int64_t> PTR; for (size_t i = 0; i < nPtr; i++) PTR.push_back(ce.get());
  size_t nHE = (size_t)ce.get(); std::vector<std::array<int64_t, 3>> HE; for (size_t i = 0; i < nHE; i++) { std::array<int64_t, 3> t = {ce.get(), ce.get(), ce.get()}; HE.push_back(t); }
  // slots written (from the emit / whole records)
  std::vector<int> writes(nHE, 0); long over = 0;
  auto wr = [&](int64_t slot) { if (slot < 0 || (size_t)slot >= nHE) over++; else if (writes[(size_t)slot]++) over++; };
  for (auto& ev : emits) for (auto e : ev) { wr(e->d[0]); wr(e->d[1]); }
  for (auto e : wholes) { wr(e->d[2]); wr(e->d[3]); }
  long unwritten = 0; for (auto c : writes) if (!c) unwritten++;
  std::ostringstream ex;
  ex << "FE"; for (auto v : FE) ex << " " << v; ex << " | F2R"; for (auto v : F2R) ex << " " << v; ex << " | " << L.str() << " | PTR"; for (auto v : PTR) ex << " " << v;
  ex << " | HE " << nHE; for (size_t i = 0; i < nHE; i++) { if (writes[i]) ex << " " << HE[i][0] << " " << HE[i][1] << " " << HE[i][2]; else ex << " -1 -1 -1"; }
  ex << " | over " << over << " unwritten " << unwritten << " badkeys 0";
  // ---- property oracle on the real records
  if (propMsg.empty() && (over || unwritten)) propMsg = "faceHalfedges: " + std::to_string(unwritten) + " slots never written, " + std::to_string(over) + " written twice/out of range";
  if (propMsg.empty()) for (size_t f = 0; f + 1 < FE.size(); f++) if (PTR[f] != FE[f + 1]) { propMsg = "face " + std::to_string(f) + ": SizeOutput reserved " + std::to_string(FE[f + 1] - FE[f]) + " halfedges, " + std::to_string(PTR[f] - FE[f]) + " were written"; break; }
  if (propMsg.empty()) for (size_t k = 0; k < nHE; k++) { int64_t p = HE[k][2]; if (p < 0 || (size_t)p >= nHE || HE[(size_t)p][2] != (int64_t)k || HE[(size_t)p][0] != HE[k][1] || HE[(size_t)p][1] != HE[k][0]) { propMsg = "halfedge " + std::to_string(k) + " is not paired with its reverse"; break; } }
  if (propMsg.empty()) for (size_t f = 0; f + 1 < FE.size(); f++) { std::map<int64_t, int> deg; for (int64_t k = FE[f]; k < FE[f + 1]; k++) { deg[HE[(size_t)k][0]]++; deg[HE[(size_t)k][1]]--; }
      for (auto& kv : deg) if (kv.second) { propMsg = "face " + std::to_string(f) + ": boundary not closed at vertex " + std::to_string(kv.first); break; } if (!propMsg.empty()) break; }
  hz::emit(tag0 + "asm " + sz, "boolasm asm " + std::to_string(opFromC) + body.str() + keys.str(), ex.str(), propMsg.empty(), propMsg);
  stats["asm_cases"]++; stats["pairup_vectors_in_booleans"] += (long)lists.size(); stats["halfedges_written"] += (long)nHE; stats["whole_edge_pairs"] += (long)wholes.size();
  // ---- the final result through the verified mesh checker
  { MeshGL64 g = R.GetMeshGL64(); std::ostringstream e2; e2 << "ok genus " << R.Genus() << " edges " << 3 * g.NumTri() / 2 << " verts " << R.NumVert();
    if (g.NumTri() > 0) { hz::emit(tag0 + "mesh " + sz + " nt=" + std::to_string(g.NumTri()), meshReq(R), e2.str(), true); stats["meshes"]++; } }
}

static void boolMode(int n, Rng& r) {
  install();
  for (int c = 0; c < n; c++) {
    int fam = (int)r.below(10); std::string da, db, f; Manifold A, B;
    try {
      if (fam < 4) { A = genSolid(r, da); B = genSolid(r, db); f = "general:" + da + "/" + db; }
      else if (fam < 8) { A = latticeSolid(r, da); B = latticeSolid(r, db); f = "lattice:" + da + "/" + db; }
      else if (fam == 8) {      // self-overlapping composite (winding 2 inside the overlap) against a generic solid
        std::string d1; Manifold c1 = Manifold::Cube(vec3(1.2, 1.2, 1.2), true); Manifold c2 = c1.Translate(vec3(rndIn(r, 0.2, 0.6), rndIn(r, 0.2, 0.6), rndIn(r, 0.2, 0.6))).Rotate(rndIn(r, 0, 30), rndIn(r, 0, 30), 0);
        Manifold comp = concatMeshes(c1, c2); /* ONE mesh, two overlapping components: winding 2 inside the overlap (Compose would union them) */ Manifold g = genSolid(r, d1);
        if (r.below(4) != 0) { Box ob = c1.BoundingBox(); Box o2 = c2.BoundingBox(); vec3 cen = (la::max(ob.min, o2.min) + la::min(ob.max, o2.max)) * 0.5;      // a small solid with vertices inside the doubly covered region
          g = g.Translate(-g.BoundingBox().Center()).Scale(vec3(rndIn(r, 0.3, 0.7))).Translate(cen + vec3(rndIn(r, -0.3, 0.3), rndIn(r, -0.3, 0.3), rndIn(r, -0.3, 0.3))); d1 += "s"; }
        if (r.below(2)) { A = comp; B = g; f = "overlap:comp/" + d1; } else { A = g; B = comp; f = "overlap:" + d1 + "/comp"; } }
      else { A = genSolid(r, da); B = A.Translate(vec3(rndIn(r, 0.05, 0.4), rndIn(r, 0.05, 0.4), rndIn(r, 0.05, 0.4))); f = "shifted-copy:" + da; }
      for (int op = 0; op < 3; op++) oneBoolean("b" + std::to_string(c) + "." + std::to_string(op), f, A, B, op);
    } catch (const AsmAbort& a) { hz::emit("b" + std::to_string(c) + " asm-abort-operand " + f, "", "", false, a.what);
    } catch (const std::exception& ex) { hz::emit("b" + std::to_string(c) + " exception " + f, "", "", false, std::string("exception thrown by a Boolean: ") + ex.what()); }
  }
}

int main(int argc, char** argv) {
  std::string mode = argc > 1 ? argv[1] : ""; Rng r(hz::envSeed()); int n = argc > 2 ? atoi(argv[2]) : 10;
  if (mode == "pairup") pairupMode(n, r);
  else if (mode == "bool") boolMode(n, r);
  else { fprintf(stderr, "usage: c02_assembly pairup|bool N\n"); return 2; }
  printf("STATS"); for (auto& kv : stats) printf(" %s=%ld", kv.first.c_str(), kv.second); printf("\n");
  return 0;
}
