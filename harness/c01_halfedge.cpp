// Impl::CreateHalfedges on seeded triangle soups versus the Lean model (exact arrays).
#include "impl.h"
#include <sstream>
#include <algorithm>
#include "common.h"
using namespace manifold;
using hz::Rng;
int main(int argc, char** argv) {
  uint64_t seed = hz::envSeed(); Rng r(seed); int T = argc > 1 ? atoi(argv[1]) : 300;
  for (int t = 0; t < T; t++) {
    // balanced soup: a union of closed surfaces (tetrahedra, octahedra on few vertices), plus opposed pairs
    int nV = 4 + (int)r.below(t % 10 == 0 ? 40 : 6);
    std::vector<ivec3> tris;
    int pieces = 1 + (int)r.below(4);
    for (int p = 0; p < pieces; p++) {
      int v[4]; for (int& x : v) x = (int)r.below(nV);
      std::sort(v, v + 4); if (std::unique(v, v + 4) != v + 4) { p--; continue; }
      for (int i = 4; i > 1; --i) std::swap(v[i - 1], v[r.below(i)]);
      bool flip = r.below(2);
      int f[4][3] = {{0, 2, 1}, {0, 1, 3}, {1, 2, 3}, {2, 0, 3}};
      for (auto& q : f) tris.push_back(flip ? ivec3(v[q[0]], v[q[2]], v[q[1]]) : ivec3(v[q[0]], v[q[1]], v[q[2]]));
    }
    if (r.below(3) == 0) { int a = (int)r.below(nV), b = (int)r.below(nV), c = (int)r.below(nV); if (a != b && b != c && a != c) { tris.push_back({a, b, c}); tris.push_back({b, a, c}); } }
    for (size_t i = tris.size(); i > 1; --i) std::swap(tris[i - 1], tris[r.below(i)]);
    for (auto& q : tris) { int k = (int)r.below(3); ivec3 o = q; for (int i = 0; i < 3; i++) q[i] = o[(i + k) % 3]; }
    Vec<ivec3> tv(tris);
    Manifold::Impl impl; impl.vertPos_.resize(nV);
    impl.CreateHalfedges(tv);
    std::ostringstream rq, ex; rq << "mesh halfedges " << nV << " " << tris.size(); for (auto& q : tris) rq << " " << q[0] << " " << q[1] << " " << q[2];
    const int n = impl.halfedge_.size();
    ex << "start"; for (int e = 0; e < n; ++e) ex << " " << impl.halfedge_.Start(e);
    ex << " | paired"; for (int e = 0; e < n; ++e) ex << " " << impl.halfedge_.Pair(e);
    ex << " | prop"; for (int e = 0; e < n; ++e) ex << " " << impl.halfedge_.Prop(e);
    // property: paired is an involution joining opposite directed edges (or tombstone)
    bool ok = true; std::string msg;
    for (int e = 0; e < n && ok; e++) { int pr = impl.halfedge_.Pair(e); if (pr < 0) { if (impl.halfedge_.Start(e) != -1) { ok = false; msg = "tombstone with a start vertex"; } continue; }
      if (pr >= n || impl.halfedge_.Pair(pr) != e) { ok = false; msg = "paired is not an involution"; break; }
      if (impl.halfedge_.Start(pr) != impl.halfedge_.End(e) || impl.halfedge_.End(pr) != impl.halfedge_.Start(e)) { ok = false; msg = "paired halfedge is not the opposite directed edge"; } }
    hz::emit("h" + std::to_string(t) + " halfedges nT=" + std::to_string(tris.size()), rq.str(), ex.str(), ok, msg);
  }
  return 0;
}
