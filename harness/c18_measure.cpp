// C18 - measurements and queries agree with their brute-force definitions.
//
//   c18_measure <N>     N rounds (VERIF_SEED seeds everything; VERIF_TIER=thorough enlarges sizes)
//
// Every case prints CASE/REQ/EXP/PROP (harness/common.h):
//   REQ  = request for `mvdriver measure …` (lean/Driver/Measure.lean): the INTERNAL arrays of the
//          Manifold::Impl the real query ran on (vertPos_, vertNormal_, faceNormal_, halfedge_), as
//          IEEE bit patterns, plus the query arguments;
//   EXP  = what the REAL library returned (Volume, SurfaceArea, BoundingBox, counts, RayCast,
//          WindingNumber, Slice, Impl::MinGap, DistanceTriangleTriangleSquared, Decompose), same form;
//          the model runs the same operation order at Float, so the comparison is bit for bit - and
//          since the model takes EVERY triangle / every triangle pair as a candidate, equality also
//          says the collider lost no candidate;
//   PROP = independent long-double oracles on the real outputs, only at arguments in general position
//          (>= 10 x tolerance and >= 1e-6 x scale away from every surface / edge / vertex height):
//          signed-tetrahedron and triangle-area sums of the EXPORTED mesh, tight box of the exported
//          vertices, counts against the export, Moeller-Trumbore on all triangles (hit set, order,
//          positions, parity = change of solid-angle winding), solid-angle winding number, 2-D winding
//          of Slice(z) against the 3-D winding on the plane, Project() under the positive fill rule
//          against the union of the projected triangles, all-pairs segment/point-triangle distance
//          for MinGap (0 for overlapping solids, clamp at searchLength), Decompose components.
// kinds: measure, gap, tritri, decomp, edge (degenerate arguments)
#include "progs.h"
#include "tri_dist.h"
#include <cstdarg>

using namespace manifold;
using pg::bits;
using pg::implOf;
using pg::ld;
using hz::Rng;

static const ld PI_L = 3.141592653589793238462643383279502884L;

// ---------------------------------------------------------------- dumps
static std::string hexd(double d) {
  if (std::isnan(d)) return "nan";
  char b[20]; snprintf(b, sizeof b, "%016llx", (unsigned long long)bits(d)); return b;
}
static void put3(std::string& s, const vec3& v) { s += ' '; s += hexd(v.x); s += ' '; s += hexd(v.y); s += ' '; s += hexd(v.z); }
static std::string dumpImpl(const Manifold::Impl& I) {
  const size_t nv = I.NumVert(), nt = I.NumTri();
  std::string s = "M " + std::to_string(nv) + " " + std::to_string(nt);
  for (size_t v = 0; v < nv; v++) put3(s, I.vertPos_[v]);
  for (size_t v = 0; v < nv; v++) put3(s, v < I.vertNormal_.size() ? I.vertNormal_[v] : vec3(0.0));
  for (size_t t = 0; t < nt; t++) put3(s, t < I.faceNormal_.size() ? I.faceNormal_[t] : vec3(0.0));
  for (size_t h = 0; h < 3 * nt; h++) { s += ' '; s += std::to_string(I.halfedge_.Start(h)); }
  for (size_t h = 0; h < 3 * nt; h++) { s += ' '; s += std::to_string(I.halfedge_.Pair(h)); }
  return s;
}
static bool dumpable(const Manifold::Impl& I) {  // the driver's `valid`: every index in range
  const int nv = I.NumVert(), nh = 3 * I.NumTri();
  for (int h = 0; h < nh; h++) if (I.halfedge_.Start(h) < 0 || I.halfedge_.Start(h) >= nv || I.halfedge_.Pair(h) < 0 || I.halfedge_.Pair(h) >= nh) return false;
  return I.vertNormal_.size() == I.vertPos_.size() && I.faceNormal_.size() == I.NumTri();
}

// ---------------------------------------------------------------- long-double geometry
struct P3 { ld x, y, z; };
static P3 operator-(P3 a, P3 b) { return {a.x - b.x, a.y - b.y, a.z - b.z}; }
static P3 operator+(P3 a, P3 b) { return {a.x + b.x, a.y + b.y, a.z + b.z}; }
static P3 operator*(P3 a, ld s) { return {a.x * s, a.y * s, a.z * s}; }
static ld dotl(P3 a, P3 b) { return a.x * b.x + a.y * b.y + a.z * b.z; }
static P3 crossl(P3 a, P3 b) { return {a.y * b.z - a.z * b.y, a.z * b.x - a.x * b.z, a.x * b.y - a.y * b.x}; }
static ld norml(P3 a) { return sqrtl(dotl(a, a)); }
static P3 toP(const vec3& v) { return {(ld)v.x, (ld)v.y, (ld)v.z}; }

struct TM { std::vector<P3> v; std::vector<std::array<int, 3>> t; };
static TM fromImpl(const Manifold::Impl& I) {
  TM m; for (size_t i = 0; i < I.NumVert(); i++) m.v.push_back(toP(I.vertPos_[i]));
  for (size_t t = 0; t < I.NumTri(); t++) m.t.push_back({I.halfedge_.Start(3 * t), I.halfedge_.Start(3 * t + 1), I.halfedge_.Start(3 * t + 2)});
  return m;
}
static TM fromExport(const MeshGL64& g) {
  TM m; for (size_t i = 0; i < g.NumVert(); i++) m.v.push_back({(ld)g.vertProperties[i * g.numProp], (ld)g.vertProperties[i * g.numProp + 1], (ld)g.vertProperties[i * g.numProp + 2]});
  for (size_t t = 0; t < g.NumTri(); t++) m.t.push_back({(int)g.triVerts[3 * t], (int)g.triVerts[3 * t + 1], (int)g.triVerts[3 * t + 2]});
  return m;
}
// generalised winding number: sum of signed solid angles / 4 pi (van Oosterom-Strackee)
static ld solidWinding(const TM& m, P3 p) {
  ld tot = 0;
  for (auto& t : m.t) {
    P3 a = m.v[t[0]] - p, b = m.v[t[1]] - p, c = m.v[t[2]] - p;
    ld la = norml(a), lb = norml(b), lc = norml(c);
    ld num = dotl(a, crossl(b, c));
    ld den = la * lb * lc + dotl(a, b) * lc + dotl(b, c) * la + dotl(c, a) * lb;
    tot += 2 * atan2l(num, den);
  }
  return tot / (4 * PI_L);
}
static ld ptSegDist(P3 p, P3 a, P3 b) {
  P3 ab = b - a; ld l2 = dotl(ab, ab); ld t = l2 > 0 ? dotl(p - a, ab) / l2 : 0; t = t < 0 ? 0 : t > 1 ? 1 : t;
  return norml(p - (a + ab * t));
}
static ld ptTriDist(P3 p, P3 a, P3 b, P3 c) {
  ld d = std::min(ptSegDist(p, a, b), std::min(ptSegDist(p, b, c), ptSegDist(p, c, a)));
  P3 n = crossl(b - a, c - a); ld n2 = dotl(n, n);
  if (n2 > 0) {
    ld s = dotl(p - a, n) / n2; P3 q = p - n * s;  // projection on the plane
    if (dotl(crossl(b - a, q - a), n) >= 0 && dotl(crossl(c - b, q - b), n) >= 0 && dotl(crossl(a - c, q - c), n) >= 0) d = std::min(d, fabsl(s) * sqrtl(n2));
  }
  return d;
}
static ld ptMeshDist(const TM& m, P3 p) {
  ld d = INFINITY; for (auto& t : m.t) d = std::min(d, ptTriDist(p, m.v[t[0]], m.v[t[1]], m.v[t[2]])); return d;
}
// closest distance between segments p1q1 and p2q2 (Ericson, Real-Time Collision Detection 5.1.9)
static ld segSegDist(P3 p1, P3 q1, P3 p2, P3 q2) {
  P3 d1 = q1 - p1, d2 = q2 - p2, r = p1 - p2; ld a = dotl(d1, d1), e = dotl(d2, d2), f = dotl(d2, r), s, t;
  if (a <= 0 && e <= 0) return norml(r);
  if (a <= 0) { s = 0; t = f / e; t = t < 0 ? 0 : t > 1 ? 1 : t; }
  else { ld c = dotl(d1, r);
    if (e <= 0) { t = 0; s = -c / a; s = s < 0 ? 0 : s > 1 ? 1 : s; }
    else { ld b = dotl(d1, d2), den = a * e - b * b;
      s = den > 0 ? (b * f - c * e) / den : 0; s = s < 0 ? 0 : s > 1 ? 1 : s;
      t = (b * s + f) / e;
      if (t < 0) { t = 0; s = -c / a; s = s < 0 ? 0 : s > 1 ? 1 : s; } else if (t > 1) { t = 1; s = (b - c) / a; s = s < 0 ? 0 : s > 1 ? 1 : s; } } }
  ld best = norml((p1 + d1 * s) - (p2 + d2 * t));
  // the clamped solution above is exact for non-parallel segments; for (nearly) parallel ones also try the endpoints
  best = std::min(best, std::min(std::min(ptSegDist(p1, p2, q2), ptSegDist(q1, p2, q2)), std::min(ptSegDist(p2, p1, q1), ptSegDist(q2, p1, q1))));
  return best;
}
// does segment pq meet triangle abc (closed)?  plane crossing + inside test
static bool segHitsTri(P3 p, P3 q, P3 a, P3 b, P3 c) {
  P3 n = crossl(b - a, c - a); ld dp = dotl(p - a, n), dq = dotl(q - a, n);
  if ((dp > 0 && dq > 0) || (dp < 0 && dq < 0)) return false;
  if (dp == dq) return false;  // parallel (coplanar contact is found by the edge-edge distances)
  ld s = dp / (dp - dq); P3 x = p + (q - p) * s;
  return dotl(crossl(b - a, x - a), n) >= 0 && dotl(crossl(c - b, x - b), n) >= 0 && dotl(crossl(a - c, x - c), n) >= 0;
}
static ld triTriDistOracle(const P3 A[3], const P3 B[3]) {
  for (int i = 0; i < 3; i++) { if (segHitsTri(A[i], A[(i + 1) % 3], B[0], B[1], B[2])) return 0; if (segHitsTri(B[i], B[(i + 1) % 3], A[0], A[1], A[2])) return 0; }
  ld d = INFINITY;
  for (int i = 0; i < 3; i++) for (int j = 0; j < 3; j++) d = std::min(d, segSegDist(A[i], A[(i + 1) % 3], B[j], B[(j + 1) % 3]));
  for (int i = 0; i < 3; i++) { d = std::min(d, ptTriDist(A[i], B[0], B[1], B[2])); d = std::min(d, ptTriDist(B[i], A[0], A[1], A[2])); }
  return d;
}
// 2-D winding number of closed loops around (px,py); minDist = distance to the nearest loop edge
static int wind2(const Polygons& ps, ld px, ld py, ld* minDist) {
  int w = 0; ld md = INFINITY;
  for (auto& lp : ps) { const size_t n = lp.size();
    for (size_t i = 0; i < n; i++) {
      ld ax = lp[i].x - px, ay = lp[i].y - py, bx = lp[(i + 1) % n].x - px, by = lp[(i + 1) % n].y - py;
      ld cr = ax * by - ay * bx;
      if (ay <= 0) { if (by > 0 && cr > 0) w++; } else { if (by <= 0 && cr < 0) w--; }
      ld dx = bx - ax, dy = by - ay, l2 = dx * dx + dy * dy, t = l2 > 0 ? -(ax * dx + ay * dy) / l2 : 0; t = t < 0 ? 0 : t > 1 ? 1 : t;
      md = std::min(md, hypotl(ax + t * dx, ay + t * dy));
    } }
  if (minDist) *minDist = md; return w;
}

// ---------------------------------------------------------------- statistics
static std::map<std::string, long> ST;
static int caseNo = 0;
static std::string nextId(const char* k) { return "c" + std::to_string(caseNo++) + " " + k; }
static std::string fmt(const char* f, ...) { char b[700]; va_list ap; va_start(ap, f); vsnprintf(b, sizeof b, f, ap); va_end(ap); return b; }

static double unit(Rng& r) { return pg::unit(r); }
static double sym(Rng& r, double a) { return pg::sym(r, a); }

// ---------------------------------------------------------------- shapes
static Manifold torus(Rng& r, std::string& d) {
  const int n = 5 + (int)r.below(6), seg = 5 + (int)r.below(8); const double R = 1.0 + 0.5 * unit(r), a = 0.2 + 0.3 * unit(r);
  SimplePolygon c; for (int i = 0; i < n; i++) { double t = 2 * kPi * i / n; c.push_back({R + a * cos(t), a * sin(t)}); }
  d += "torus" + std::to_string(n) + "x" + std::to_string(seg); return Manifold::Revolve({c}, seg);
}
static Manifold shell(Rng& r, std::string& d) {  // a solid with a cavity
  d += "shell"; return Manifold::Cube(vec3(2.0), true) - Manifold::Sphere(0.6 + 0.2 * unit(r), 8 + 4 * (int)r.below(2));
}
static Manifold pickShape(Rng& r, pg::Registry& reg, std::string& d, int maxTri) {
  for (int tries = 0; tries < 20; tries++) {
    d.clear(); Manifold m;
    switch (r.below(8)) {
      case 0: m = pg::randomTransform(r, torus(r, d), d); break;
      case 1: m = pg::randomTransform(r, shell(r, d), d); break;
      case 2: { Manifold t = torus(r, d); std::string e; m = pg::randomTransform(r, t - Manifold::Cube(vec3(3.0, 3.0, 0.35), true).Rotate(sym(r, 30), sym(r, 30), 0), e); d += "-slab" + e; break; }  // genus change / several components
      case 3: { std::string e; Manifold a = pg::primitive(r, d); d += "+far"; m = Manifold::Compose({pg::randomTransform(r, a, e), pg::primitive(r, d).Translate(vec3(4, 0.3, 0.2)), torus(r, d).Translate(vec3(0, 5, 0))}); break; }
      default: { pg::GenOpts o; o.maxTri = maxTri; pg::Prog P = pg::randomProgram(r, reg, o); m = P.result; d = P.desc; break; }
    }
    if (m.Status() == Manifold::Error::NoError && !m.IsEmpty() && (int)m.NumTri() <= maxTri) return m;
  }
  d = "cube(fallback)"; return Manifold::Cube(vec3(1.0), true);
}

// ---------------------------------------------------------------- one "measure" case
struct Cfg { int rays = 6, pts = 24, slices = 2, samples2d = 30; };

static void measureCase(Rng& r, const Manifold& m, const std::string& desc, const Cfg& cfg) {
  auto I = implOf(m);
  const std::string tag = nextId("measure") + " " + desc + " nt=" + std::to_string(I->NumTri());
  if (!dumpable(*I)) { ST["undumpable"]++; return; }
  const Box bb = m.BoundingBox(); const double scale = std::max(bb.Scale(), 1e-30);
  const ld margin = std::max<ld>(10 * (ld)m.GetTolerance(), 1e-6L * scale);
  std::string req = dumpImpl(*I) + " Q vol area bbox counts", exp;
  std::string fail;
  auto bad = [&](const std::string& s) { if (fail.empty()) fail = s; };
  TM tm = fromImpl(*I);

  // ---- Volume / SurfaceArea / BoundingBox / counts
  const double vol = m.Volume(), area = m.SurfaceArea();
  exp = hexd(vol) + " | " + hexd(area) + " | " + hexd(bb.min.x) + " " + hexd(bb.min.y) + " " + hexd(bb.min.z) + " " + hexd(bb.max.x) + " " + hexd(bb.max.y) + " " + hexd(bb.max.z);
  exp += " | " + std::to_string(m.NumVert()) + " " + std::to_string(m.NumEdge()) + " " + std::to_string(m.NumTri()) + " " + std::to_string(m.Genus());
  {
    MeshGL64 g = m.GetMeshGL64(); TM e = fromExport(g);
    ld v = 0, a = 0, vabs = 0; P3 lo = {INFINITY, INFINITY, INFINITY}, hi = {-INFINITY, -INFINITY, -INFINITY};
    for (auto& t : e.t) { P3 A = e.v[t[0]], B = e.v[t[1]], C = e.v[t[2]]; ld d = dotl(A, crossl(B, C)) / 6; v += d; vabs += fabsl(d); a += norml(crossl(B - A, C - A)) / 2; }
    for (auto& p : e.v) { lo = {std::min(lo.x, p.x), std::min(lo.y, p.y), std::min(lo.z, p.z)}; hi = {std::max(hi.x, p.x), std::max(hi.y, p.y), std::max(hi.z, p.z)}; }
    if (fabsl(v - vol) > 1e-9L * std::max<ld>(vabs, 1e-300L)) bad(fmt("Volume() = %.17g but the signed-tetrahedron sum of the exported mesh is %.17Lg", vol, v));
    if (fabsl(a - area) > 1e-9L * std::max<ld>(a, 1e-300L)) bad(fmt("SurfaceArea() = %.17g but the triangle-area sum of the exported mesh is %.17Lg", area, a));
    if (!(lo.x == bb.min.x && lo.y == bb.min.y && lo.z == bb.min.z && hi.x == bb.max.x && hi.y == bb.max.y && hi.z == bb.max.z))
      bad(fmt("BoundingBox() = [%.17g %.17g %.17g]-[%.17g %.17g %.17g] is not the tight box of the exported vertices [%.17Lg %.17Lg %.17Lg]-[%.17Lg %.17Lg %.17Lg]", bb.min.x, bb.min.y, bb.min.z, bb.max.x, bb.max.y, bb.max.z, lo.x, lo.y, lo.z, hi.x, hi.y, hi.z));
    std::set<uint64_t> mergedAway(g.mergeFromVert.begin(), g.mergeFromVert.end());
    if (m.IsEmpty() != (g.NumTri() == 0)) bad("IsEmpty() disagrees with the export");
    if (m.NumTri() != g.NumTri()) bad(fmt("NumTri() = %zu, export has %zu triangles", m.NumTri(), (size_t)g.NumTri()));
    if (m.NumProp() + 3 != g.numProp) bad(fmt("NumProp() = %zu, export numProp = %zu", m.NumProp(), (size_t)g.numProp));
    if (m.NumVert() != g.NumVert() - mergedAway.size()) bad(fmt("NumVert() = %zu, export has %zu property vertices of which %zu are merged away", m.NumVert(), (size_t)g.NumVert(), mergedAway.size()));
  }

  auto randPoint = [&](double infl) { vec3 c = bb.Center(), s = bb.Size() * (0.5 * infl); return vec3(c.x + sym(r, s.x), c.y + sym(r, s.y), c.z + sym(r, s.z)); };
  auto windAt = [&](const vec3& p, bool* clear) { P3 q = toP(p); *clear = ptMeshDist(tm, q) >= margin; return solidWinding(tm, q); };

  // ---- WindingNumber
  {
    std::vector<vec3> pts; for (int i = 0; i < cfg.pts; i++) pts.push_back(randPoint(i % 4 == 0 ? 1.4 : 1.0));
    // a few points exactly above/below vertices and edge midpoints (the symbolic tie-breaks), still off the surface
    for (int i = 0; i < 4 && I->NumVert() > 0; i++) { vec3 v = I->vertPos_[r.below(I->NumVert())]; pts.push_back(vec3(v.x, v.y, v.z + sym(r, 0.3) * bb.Size().z)); }
    for (int i = 0; i < 4 && I->NumTri() > 0; i++) { size_t h = r.below(3 * I->NumTri()); vec3 a = I->vertPos_[I->halfedge_.Start(h)], b = I->vertPos_[I->halfedge_.End(h)]; pts.push_back(vec3((a.x + b.x) / 2, (a.y + b.y) / 2, (a.z + b.z) / 2 + sym(r, 0.3) * bb.Size().z)); }
    std::vector<int> w = m.WindingNumber(pts);
    req += " wind " + std::to_string(pts.size()); for (auto& p : pts) put3(req, p);
    exp += " |"; for (int x : w) exp += " " + std::to_string(x); if (w.empty()) exp += " ";
    for (size_t i = 0; i < pts.size(); i++) { bool clear; ld sw = windAt(pts[i], &clear);
      if (!clear) { ST["wind_skipped_near_surface"]++; continue; }
      ST["wind_classified"]++; if (lroundl(sw) != 0) ST["wind_inside"]++;
      if (fabsl(sw - lroundl(sw)) > 1e-6L) { bad("the mesh is not a closed surface (non-integer solid-angle winding)"); break; }
      if (w[i] != (int)lroundl(sw)) bad(fmt("WindingNumber at (%.17g %.17g %.17g) = %d, solid-angle winding of the mesh = %.6Lf (distance to the surface %.3Lg)", pts[i].x, pts[i].y, pts[i].z, w[i], sw, ptMeshDist(tm, toP(pts[i])))); }
  }

  // ---- RayCast
  for (int k = 0; k < cfg.rays; k++) {
    vec3 o = randPoint(k % 3 == 0 ? 1.5 : 1.0), e = randPoint(k % 3 == 1 ? 1.5 : 1.0);
    if (k == cfg.rays - 1) { e = o; e[r.below(3)] += (r.below(2) ? 1.5 : -1.5) * scale; }  // axis-parallel ray (exercises the x/y ties of the kernels)
    std::vector<RayHit> hits = m.RayCast(o, e);
    req += " ray"; put3(req, o); put3(req, e);
    // canonical order of equal distances: by triangle (std::sort leaves it unspecified)
    std::vector<RayHit> hs = hits; std::stable_sort(hs.begin(), hs.end(), [](const RayHit& a, const RayHit& b) { return a.distance < b.distance || (a.distance == b.distance && a.faceID < b.faceID); });
    exp += " | " + std::to_string(hs.size()); for (auto& h : hs) { exp += " " + std::to_string(h.faceID) + " " + hexd(h.distance); put3(exp, h.position); }
    // oracle
    for (size_t i = 1; i < hits.size(); i++) if (hits[i].distance < hits[i - 1].distance) bad("RayCast hits are not sorted by distance");
    P3 O = toP(o), D = toP(e) - toP(o); const ld dl = norml(D); bool generic = dl > 0; std::vector<std::pair<ld, int>> want;
    for (size_t t = 0; t < tm.t.size() && generic; t++) {
      P3 A = tm.v[tm.t[t][0]], B = tm.v[tm.t[t][1]], C = tm.v[tm.t[t][2]], E = O + D; P3 n = crossl(B - A, C - A); const ld nl = norml(n);
      if (nl <= 0) { generic = false; break; }
      // generic = the segment stays >= margin away from the triangle's boundary and its ends >= margin away from the triangle
      if (std::min(segSegDist(O, E, A, B), std::min(segSegDist(O, E, B, C), segSegDist(O, E, C, A))) < margin || ptTriDist(O, A, B, C) < margin || ptTriDist(E, A, B, C) < margin) { generic = false; break; }
      const ld h0 = dotl(O - A, n), h1 = dotl(E - A, n);
      if (!((h0 > 0 && h1 < 0) || (h0 < 0 && h1 > 0))) continue;  // both ends on one side of the plane
      const ld tt = h0 / (h0 - h1); P3 X = O + D * tt;
      if (dotl(crossl(B - A, X - A), n) > 0 && dotl(crossl(C - B, X - B), n) > 0 && dotl(crossl(A - C, X - C), n) > 0) want.push_back({tt, (int)t});
    }
    if (!generic) { ST["ray_skipped_not_generic"]++; continue; }
    ST["ray_classified"]++; ST["ray_hits"] += want.size(); if (want.size() >= 4) ST["ray_4plus_hits"]++;
    std::sort(want.begin(), want.end());
    // same triangles (as sets: crossings of coincident or nearly coincident sheets have equal distances, their mutual
    // order is not determined), and for every reported hit the oracle's parameter of that triangle
    std::vector<int> gotT, wntT; std::map<int, ld> tOf; for (auto& h : hits) gotT.push_back((int)h.faceID); for (auto& h : want) { wntT.push_back(h.second); tOf[h.second] = h.first; }
    std::sort(gotT.begin(), gotT.end()); std::sort(wntT.begin(), wntT.end());
    std::string gotd, wntd; for (auto& h : hits) gotd += fmt(" %llu@%.17g", (unsigned long long)h.faceID, h.distance); for (auto& h : want) wntd += fmt(" %d@%.17Lg", h.second, h.first);
    if (gotT != wntT) { bad(fmt("RayCast (%.17g %.17g %.17g)->(%.17g %.17g %.17g) reports triangles [%s ], Moeller-Trumbore on all triangles finds [%s ]", o.x, o.y, o.z, e.x, e.y, e.z, gotd.c_str(), wntd.c_str())); continue; }
    for (size_t i = 0; i < hits.size(); i++) { const ld tw = tOf[(int)hits[i].faceID]; P3 X = O + D * tw;
      if (fabsl(hits[i].distance - tw) > 1e-9L || norml(toP(hits[i].position) - X) > 1e-9L * scale) bad(fmt("RayCast hit %zu: distance %.17g position (%.17g %.17g %.17g), expected t = %.17Lg on the segment", i, hits[i].distance, hits[i].position.x, hits[i].position.y, hits[i].position.z, tw));
      if (!(hits[i].distance >= 0 && hits[i].distance <= 1)) bad("RayCast hit outside the segment");
      const vec3 fn = I->faceNormal_[hits[i].faceID]; if (!(hits[i].normal == fn)) bad("RayCast hit normal is not the face normal"); }
    bool c0, c1; ld w0 = windAt(o, &c0), w1 = windAt(e, &c1);
    if (c0 && c1) { ST["ray_parity_checked"]++; if ((((long)lroundl(w0) - (long)lroundl(w1)) % 2 != 0) != (hits.size() % 2 != 0)) bad(fmt("RayCast parity: %zu hits but the winding changes from %ld to %ld between the ends", hits.size(), (long)lroundl(w0), (long)lroundl(w1))); }
  }

  // ---- Slice
  for (int k = 0; k < cfg.slices; k++) {
    double h = bb.min.z + unit(r) * (bb.max.z - bb.min.z);
    if (k == 1 && r.below(3) == 0 && I->NumVert() > 0) h = I->vertPos_[r.below(I->NumVert())].z;  // exactly at a vertex height: model comparison only
    Polygons ps = m.Slice(h);
    req += " slice " + hexd(h);
    exp += " | ok " + std::to_string(ps.size()); for (auto& lp : ps) { exp += " " + std::to_string(lp.size()); for (auto& p : lp) { exp += " " + hexd(p.x) + " " + hexd(p.y); } }
    bool generic = true; for (auto& v : tm.v) if (fabsl(v.z - (ld)h) < margin) { generic = false; break; }
    if (!generic) { ST["slice_skipped_vertex_height"]++; continue; }
    ST["slice_classified"]++; ST["slice_loops"] += ps.size();
    for (int s = 0; s < cfg.samples2d; s++) { vec3 p = randPoint(1.1); p.z = h; ld md; int w2 = wind2(ps, p.x, p.y, &md); bool clear; ld w3 = windAt(p, &clear);
      if (!clear || md < margin) continue; ST["slice_points"]++; if (w2 != 0) ST["slice_points_inside"]++;
      if (w2 != (int)lroundl(w3)) bad(fmt("Slice(%.17g): 2-D winding %d at (%.17g %.17g) but the solid's winding there is %.6Lf", h, w2, p.x, p.y, w3)); }
  }

  // ---- Project
  {
    Polygons ps = m.Project(); ST["project_loops"] += ps.size();
    for (int s = 0; s < cfg.samples2d; s++) { vec3 p = randPoint(1.15); ld px = p.x, py = p.y; bool generic = true, shadow = false;
      for (auto& t : tm.t) { P3 A = tm.v[t[0]], B = tm.v[t[1]], C = tm.v[t[2]]; A.z = B.z = C.z = 0; P3 q = {px, py, 0};
        if (std::min(ptSegDist(q, A, B), std::min(ptSegDist(q, B, C), ptSegDist(q, C, A))) < margin) { generic = false; break; }
        ld c1 = (B.x - A.x) * (py - A.y) - (B.y - A.y) * (px - A.x), c2 = (C.x - B.x) * (py - B.y) - (C.y - B.y) * (px - B.x), c3 = (A.x - C.x) * (py - C.y) - (A.y - C.y) * (px - C.x);
        if ((c1 > 0 && c2 > 0 && c3 > 0) || (c1 < 0 && c2 < 0 && c3 < 0)) shadow = true; }
      if (!generic) continue; ld md; int w2 = wind2(ps, px, py, &md); if (md < margin) continue;
      ST["project_points"]++; if (shadow) ST["project_points_in_shadow"]++;
      if ((w2 > 0) != shadow) bad(fmt("Project(): winding %d at (%.17g %.17g) but the point is %s the union of the projected triangles", w2, (double)px, (double)py, shadow ? "inside" : "outside")); }
  }
  ST["measure_tris"] += I->NumTri(); if (m.Genus() > 0) ST["measure_genus_pos"]++; if (m.Genus() < 0) ST["measure_multi_component"]++;
  hz::emit(tag, "measure " + req, exp, fail.empty(), fail);
}

// ---------------------------------------------------------------- Decompose
static void decompCase(Rng& r, const Manifold& m, const std::string& desc) {
  auto I = implOf(m); const std::string tag = nextId("decomp") + " " + desc + " nt=" + std::to_string(I->NumTri());
  std::string fail; auto bad = [&](const std::string& s) { if (fail.empty()) fail = s; };
  std::vector<Manifold> comps = m.Decompose();
  // triangle keys: the three positions' bit patterns, rotated so that the smallest comes first (orientation kept)
  typedef std::array<uint64_t, 9> Key;
  auto keyOf = [](const vec3& a, const vec3& b, const vec3& c) { std::array<std::array<uint64_t, 3>, 3> p = {{{bits(a.x), bits(a.y), bits(a.z)}, {bits(b.x), bits(b.y), bits(b.z)}, {bits(c.x), bits(c.y), bits(c.z)}}};
    int s = 0; for (int i = 1; i < 3; i++) if (p[i] < p[s]) s = i; Key k; for (int i = 0; i < 3; i++) for (int j = 0; j < 3; j++) k[3 * i + j] = p[(s + i) % 3][j]; return k; };
  std::map<Key, std::vector<int>> where; bool dupKeys = false;
  for (size_t t = 0; t < I->NumTri(); t++) { auto& v = where[keyOf(I->vertPos_[I->halfedge_.Start(3 * t)], I->vertPos_[I->halfedge_.Start(3 * t + 1)], I->vertPos_[I->halfedge_.Start(3 * t + 2)])]; v.push_back((int)t); if (v.size() > 1) dupKeys = true; }
  std::vector<int> label(I->NumTri(), -1); size_t nt = 0; ld vsum = 0; bool mapped = true;
  for (size_t c = 0; c < comps.size(); c++) { auto J = implOf(comps[c]); nt += J->NumTri(); vsum += comps[c].Volume();
    if (comps.size() > 1 && comps[c].Decompose().size() != 1) bad(fmt("component %zu of Decompose() is not connected", c));
    if (comps[c].IsEmpty()) bad("Decompose() returned an empty component");
    for (size_t t = 0; t < J->NumTri(); t++) { auto it = where.find(keyOf(J->vertPos_[J->halfedge_.Start(3 * t)], J->vertPos_[J->halfedge_.Start(3 * t + 1)], J->vertPos_[J->halfedge_.Start(3 * t + 2)]));
      if (it == where.end() || it->second.empty()) { mapped = false; continue; } int o = it->second.back(); if (!dupKeys) { if (label[o] != -1) mapped = false; label[o] = (int)c; } } }
  if (nt != I->NumTri()) bad(fmt("Decompose(): components have %zu triangles in total, the whole has %zu", nt, I->NumTri()));
  if (!mapped) bad("Decompose(): a component triangle is not a triangle of the whole (or one is used twice)");
  const double vol = m.Volume(); ld vabs = 0; { TM tm = fromImpl(*I); for (auto& t : tm.t) vabs += fabsl(dotl(tm.v[t[0]], crossl(tm.v[t[1]], tm.v[t[2]])) / 6); }
  if (fabsl(vsum - vol) > 1e-9L * std::max<ld>(vabs, 1e-300L)) bad(fmt("Decompose(): component volumes sum to %.17Lg, the whole has %.17g", vsum, vol));
  // two triangles sharing a vertex must be in the same component (brute force over the labelling found)
  if (!dupKeys && mapped) { std::vector<int> vl(I->NumVert(), -1); for (size_t h = 0; h < 3 * I->NumTri(); h++) { int v = I->halfedge_.Start(h), l = label[h / 3]; if (vl[v] == -1) vl[v] = l; else if (vl[v] != l) { bad("Decompose(): two triangles sharing a vertex are in different components"); break; } } }
  ST["decomp_components"] += comps.size(); if (comps.size() > 1) ST["decomp_multi"]++;
  std::string req, exp;
  if (!dupKeys && mapped && fail.empty()) {
    req = "measure decomp " + std::to_string(I->NumVert()) + " " + std::to_string(I->NumTri()); for (size_t h = 0; h < 3 * I->NumTri(); h++) req += " " + std::to_string(I->halfedge_.Start(h));
    exp = std::to_string(comps.size()) + " F"; for (int l : label) exp += " " + std::to_string(l);
  } else if (dupKeys) ST["decomp_dup_triangles_no_model_compare"]++;
  hz::emit(tag, req, exp, fail.empty(), fail);
}

// ---------------------------------------------------------------- MinGap
static void gapCase(Rng& r, int kind) {
  std::string d; Manifold A, B; double L = 0.2 + unit(r);
  auto small = [&](std::string& dd) { Manifold x; switch (r.below(5)) { case 0: x = Manifold::Sphere(0.5, 8); dd += "sphere8"; break; case 1: x = torus(r, dd).Scale(vec3(0.5)); break; case 2: x = Manifold::Cylinder(1.0, 0.4, 0.2, 7, true); dd += "cone7"; break; case 3: x = Manifold::Tetrahedron().Scale(vec3(0.6)); dd += "tet"; break; default: x = Manifold::Cube(vec3(0.9, 0.7, 0.8), true); dd += "cube"; } return x.Rotate(sym(r, 180), sym(r, 180), sym(r, 180)); };
  const char* kn[] = {"near", "far", "touching", "intersecting", "nested-cavity", "nested-solid", "mirrored-near", "L0"};
  A = small(d); d += " vs "; B = small(d);
  vec3 dir = la::normalize(vec3(sym(r, 1), sym(r, 1), sym(r, 1) + 1e-3));
  switch (kind) {
    case 0: B = B.Translate(dir * (1.3 + 0.6 * unit(r))); L = 1.5; break;
    case 1: B = B.Translate(dir * (3.0 + unit(r))); L = 0.3 + 0.5 * unit(r); break;
    case 2: A = Manifold::Cube(vec3(1.0)); B = Manifold::Cube(vec3(1.0)).Translate(vec3(1.0, sym(r, 0.5), sym(r, 0.5))); d = "cube|cube face contact"; break;
    case 3: B = B.Translate(dir * (0.2 + 0.3 * unit(r))); break;
    case 4: A = Manifold::Cube(vec3(3.0), true) - Manifold::Sphere(1.2, 12); B = B.Scale(vec3(0.5)).Translate(dir * (0.3 * unit(r))); d = "cube-sphere cavity vs " + d; L = 2.0; break;
    case 5: A = Manifold::Sphere(2.0, 12); B = B.Scale(vec3(0.5)); d = "sphere12 contains " + d; break;
    case 6: B = B.Mirror(vec3(1, 0.3, 0.2)).Translate(dir * (1.4 + 0.4 * unit(r))); L = 1.2; break;
    default: B = B.Translate(dir * 1.5); L = 0.0; break;
  }
  // the same configuration at another length scale (every tolerance of the routines under test must be relative)
  static const double kScales[] = {1, 1, 1, 1e-2, 1e-3, 3e-4, 1e-4, 1e3};
  const double gs = kScales[r.below(8)];
  if (gs != 1) { A = A.Scale(vec3(gs)); B = B.Scale(vec3(gs)); L *= gs; d += " x" + fmt("%g", gs); }
  auto IA = implOf(A), IB = implOf(B);
  const std::string tag = nextId("gap") + " " + kn[kind] + " " + d + " nt=" + std::to_string(IA->NumTri()) + "x" + std::to_string(IB->NumTri());
  if (!dumpable(*IA) || !dumpable(*IB)) { ST["undumpable"]++; return; }
  std::string fail; auto bad = [&](const std::string& s) { if (fail.empty()) fail = s; };
  const double implGap = IA->MinGap(*IB, L), pub = A.MinGap(B, L);
  std::string req = "measure " + dumpImpl(*IA) + " " + dumpImpl(*IB) + " Q gap " + hexd(L), exp = hexd(implGap);
  // oracle
  TM a = fromImpl(*IA), b = fromImpl(*IB); ld best = INFINITY;
  for (auto& ta : a.t) for (auto& tb : b.t) { P3 X[3] = {a.v[ta[0]], a.v[ta[1]], a.v[ta[2]]}, Y[3] = {b.v[tb[0]], b.v[tb[1]], b.v[tb[2]]}; best = std::min(best, triTriDistOracle(X, Y)); }
  const double scale = std::max(A.BoundingBox().Scale(), B.BoundingBox().Scale()); const ld margin = std::max<ld>(10 * std::max(A.GetTolerance(), B.GetTolerance()), 1e-6L * scale);
  if (!(pub >= 0 && pub <= L)) bad(fmt("MinGap = %.17g is outside [0, searchLength = %.17g]", pub, L));
  if (best <= margin) { ST["gap_surfaces_meet"]++; if (!(pub <= 2 * (double)margin)) bad(fmt("MinGap = %.17g but the surfaces meet (all-pairs distance %.3Lg)", pub, best)); }
  else {
    bool nested = false; for (auto& p : a.v) if (lroundl(solidWinding(b, p)) != 0) { nested = true; break; } if (!nested) for (auto& p : b.v) if (lroundl(solidWinding(a, p)) != 0) { nested = true; break; }
    const ld want = nested ? 0 : std::min<ld>(L, best);
    if (nested) ST["gap_nested"]++; else if (best >= L) ST["gap_clamped"]++; else ST["gap_measured"]++;
    if (fabsl(pub - want) > 1e-9L * scale) bad(fmt("MinGap = %.17g, all-pairs triangle distance %.17Lg, searchLength %.17g, solids %s: expected %.17Lg", pub, best, L, nested ? "overlap" : "disjoint", want));
    if (fabsl(implGap - std::min<ld>(L, best)) > 1e-9L * scale) bad(fmt("Impl::MinGap = %.17g, all-pairs triangle distance %.17Lg, searchLength %.17g", implGap, best, L));
  }
  hz::emit(tag, req, exp, fail.empty(), fail);
}

// ---------------------------------------------------------------- DistanceTriangleTriangleSquared, unit level
static void triTriCase(Rng& r) {
  std::array<vec3, 3> p, q; const int kind = (int)r.below(10); const char* kn[] = {"random", "random", "lattice", "lattice", "parallel", "coplanar", "shared-vertex", "piercing", "degenerate", "far-face"};
  auto rv = [&](double a) { return vec3(sym(r, a), sym(r, a), sym(r, a)); }; auto lv = [&]() { return vec3((double)r.range(-2, 2), (double)r.range(-2, 2), (double)r.range(-2, 2)); };
  switch (kind) {
    case 0: case 1: for (int i = 0; i < 3; i++) { p[i] = rv(1); q[i] = rv(1) + vec3(kind ? 1.5 : 0.0, 0, 0); } break;
    case 2: case 3: for (int i = 0; i < 3; i++) { p[i] = lv(); q[i] = lv(); } break;
    case 4: { for (int i = 0; i < 3; i++) p[i] = vec3(sym(r, 1), sym(r, 1), 0); vec3 o = vec3(sym(r, 1), sym(r, 1), 0.5 + unit(r)); for (int i = 0; i < 3; i++) q[i] = p[i] + o; break; }
    case 5: for (int i = 0; i < 3; i++) { p[i] = vec3(sym(r, 1), sym(r, 1), 0); q[i] = vec3(sym(r, 1) + (r.below(2) ? 2.5 : 0.0), sym(r, 1), 0); } break;
    case 6: for (int i = 0; i < 3; i++) { p[i] = rv(1); q[i] = rv(1); } q[r.below(3)] = p[r.below(3)]; break;
    case 7: { p = {vec3(-1, -1, 0), vec3(1, -1, 0), vec3(0, 1.5, 0)}; q = {vec3(sym(r, 0.3), sym(r, 0.3), -0.5 - unit(r)), vec3(sym(r, 0.3), sym(r, 0.3), 0.5 + unit(r)), vec3(2, 2, sym(r, 1))}; break; }
    case 8: { for (int i = 0; i < 3; i++) { p[i] = rv(1); q[i] = rv(1) + vec3(0, 2, 0); } int w = (int)r.below(3); if (w == 0) p[1] = p[0]; else if (w == 1) { p[1] = p[0]; p[2] = p[0]; } else q[2] = q[0] + (q[1] - q[0]) * 0.5; break; }
    default: { p = {vec3(-2, -2, 0), vec3(2, -2, 0), vec3(0, 3, 0)}; vec3 c(sym(r, 0.4), sym(r, 0.4), 0.3 + unit(r)); q = {c, c + vec3(0.1 * unit(r), 0.1, 0.2 * unit(r) + 0.05), c + vec3(-0.1, 0.1 * unit(r), 0.3)}; break; }
  }
  static const double kScales[] = {1, 1, 1, 1e-2, 1e-3, 3e-4, 1e-4, 1e3};
  const double ts = kScales[r.below(8)];
  if (ts != 1) for (int i = 0; i < 3; i++) { p[i] *= ts; q[i] *= ts; }
  const double dd = DistanceTriangleTriangleSquared(p, q);
  std::string req = "measure tritri"; for (auto& v : p) put3(req, v); for (auto& v : q) put3(req, v);
  P3 X[3] = {toP(p[0]), toP(p[1]), toP(p[2])}, Y[3] = {toP(q[0]), toP(q[1]), toP(q[2])}; const ld want = triTriDistOracle(X, Y);
  std::string fail;
  // general position only: when the triangles meet, the oracle classifies the pair only if some edge of one PROPERLY crosses the
  // other (both ends >= delta off its plane on opposite sides, crossing point >= delta inside it).  Grazing contact (a vertex or an
  // edge exactly in the other's plane) is an exact tie of the separating-slab tests of the PhysX routine, where rounding decides.
  auto properCross = [&](const P3 S[3], const P3 T[3]) { const ld delta = 1e-6L * ts; P3 n = crossl(T[1] - T[0], T[2] - T[0]); const ld nl = norml(n); if (nl <= 0) return false;
    for (int i = 0; i < 3; i++) { P3 a = S[i], b = S[(i + 1) % 3]; ld ha = dotl(a - T[0], n) / nl, hb = dotl(b - T[0], n) / nl; if (!((ha > delta && hb < -delta) || (ha < -delta && hb > delta))) continue;
      P3 x = a + (b - a) * (ha / (ha - hb)); bool in = true; for (int k = 0; k < 3; k++) { P3 e = T[(k + 1) % 3] - T[k]; ld el = norml(e); if (el <= 0 || dotl(crossl(e, x - T[k]), n) / (nl * el) < delta) in = false; } if (in) return true; }
    return false; };
  if (want == 0 && !properCross(X, Y) && !properCross(Y, X)) { ST["tritri_grazing_not_classified"]++; if (fabsl(sqrtl((ld)dd)) > 1e-7L * ts) ST["tritri_grazing_reported_apart(info)"]++; }
  else {
    if (fabsl(sqrtl((ld)dd) - want) > 1e-7L * ts) fail = fmt("DistanceTriangleTriangleSquared = %.17g (distance %.17Lg) but the all-features distance is %.17Lg (scale %g)", dd, sqrtl((ld)dd), want, ts);
    ST[std::string("tritri_") + (want == 0 ? "crossing" : "apart")]++;
  }
  hz::emit(nextId("tritri") + " " + kn[kind] + (ts != 1 ? " x" + fmt("%g", ts) : std::string()), req, hexd(dd), fail.empty(), fail);
}

// ---------------------------------------------------------------- degenerate arguments
static void edgeCases(Rng& r) {
  {  // empty manifold: every query
    Manifold e; auto I = implOf(e); std::string fail;
    std::vector<vec3> pts = {vec3(0.0), vec3(1, 2, 3)};
    if (e.Volume() != 0 || e.SurfaceArea() != 0 || !e.IsEmpty() || e.NumVert() != 0 || e.NumTri() != 0 || !e.RayCast(vec3(0.0), vec3(1.0)).empty() || e.WindingNumber(pts) != std::vector<int>{0, 0} || !e.Slice(0).empty() || !e.Project().empty() || !e.Decompose().empty())
      fail = "a query on the empty Manifold is not empty/zero";
    hz::emit(nextId("edge") + " empty", "measure M 0 0 Q vol area ray 0000000000000000 0000000000000000 0000000000000000 3ff0000000000000 3ff0000000000000 3ff0000000000000 wind 1 0000000000000000 0000000000000000 0000000000000000 slice 0000000000000000", hexd(e.Volume()) + " | " + hexd(e.SurfaceArea()) + " | 0 | 0 | ok 0", fail.empty(), fail);
  }
  for (int k = 0; k < 4; k++) {  // zero-length ray, ray ending exactly on a vertex, points outside the box, slices outside / at the box faces
    std::string d; Manifold m = k % 2 ? torus(r, d) : Manifold::Cube(vec3(1.0, 2.0, 0.5), true).Rotate(0, 0, 90.0 * (double)r.below(4)); auto I = implOf(m); if (!dumpable(*I)) continue;
    const Box bb = m.BoundingBox(); std::string req = "measure " + dumpImpl(*I) + " Q", exp; bool first = true; std::string fail;
    auto ray = [&](vec3 o, vec3 e) { auto hs = m.RayCast(o, e); std::stable_sort(hs.begin(), hs.end(), [](const RayHit& a, const RayHit& b) { return a.distance < b.distance || (a.distance == b.distance && a.faceID < b.faceID); });
      req += " ray"; put3(req, o); put3(req, e); exp += (first ? "" : " | ") + std::to_string(hs.size()); first = false; for (auto& h : hs) { exp += " " + std::to_string(h.faceID) + " " + hexd(h.distance); put3(exp, h.position); } return hs.size(); };
    vec3 c = bb.Center();
    if (ray(c, c) != 0) fail = "zero-length ray reports hits";
    ray(c + vec3(0, 0, 2 * bb.Size().z), c - vec3(0, 0, 2 * bb.Size().z));                      // through the centre along -z
    ray(vec3(bb.min.x, bb.min.y, bb.max.z + 1), vec3(bb.min.x, bb.min.y, bb.min.z - 1));      // along a box edge (model comparison only)
    ray(I->vertPos_[0] + vec3(0.3, 0.2, 1.0), I->vertPos_[0]);                                  // ends exactly on a vertex (model comparison only)
    std::vector<vec3> pts = {bb.max + vec3(1.0), bb.min - vec3(1.0), vec3(bb.max.x, c.y, c.z), I->vertPos_[0] + vec3(0, 0, 0.25 * bb.Size().z), I->vertPos_[0] - vec3(0, 0, 0.25 * bb.Size().z)};
    auto w = m.WindingNumber(pts); req += " wind " + std::to_string(pts.size()); for (auto& p : pts) put3(req, p); exp += " |"; for (int x : w) exp += " " + std::to_string(x);
    if (w[0] != 0 || w[1] != 0) fail = "WindingNumber is non-zero outside the bounding box";
    for (double h : {bb.min.z - 1, bb.max.z + 1, bb.max.z, bb.min.z}) { Polygons ps = m.Slice(h); req += " slice " + hexd(h); exp += " | ok " + std::to_string(ps.size()); for (auto& lp : ps) { exp += " " + std::to_string(lp.size()); for (auto& p : lp) exp += " " + hexd(p.x) + " " + hexd(p.y); }
      if ((h < bb.min.z || h >= bb.max.z) && !ps.empty()) fail = fmt("Slice(%.17g) is not empty outside [min.z, max.z)", h); }
    hz::emit(nextId("edge") + " degenerate-arguments " + (k % 2 ? d : "cube"), req, exp, fail.empty(), fail);
  }
}

int main(int argc, char** argv) {
  const int N = argc > 1 ? atoi(argv[1]) : 20; const bool th = hz::thorough();
  Rng r(hz::envSeed()); pg::Registry reg; Cfg cfg; const int maxTri = th ? 900 : 420;
  if (th) { cfg.rays = 10; cfg.pts = 40; cfg.slices = 3; cfg.samples2d = 50; }
  edgeCases(r);
  for (int i = 0; i < N; i++) {
    std::string d; Manifold m = pickShape(r, reg, d, maxTri);
    measureCase(r, m, d, cfg);
    if (i % 2 == 0) decompCase(r, m, d);
    if (i % 3 == 0) gapCase(r, (i / 3) % 8);
    for (int k = 0; k < 6; k++) triTriCase(r);
  }
  std::string s = "STATS"; for (auto& kv : ST) s += " " + kv.first + "=" + std::to_string(kv.second); printf("%s\n", s.c_str());
  return 0;
}
