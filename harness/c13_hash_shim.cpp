// Controlled-atomics shim used to validate MV/Model/HashT.lean against the real /repo/src/hashtable.h.
// build: sed -e 's/const uint64_t found = AtomicCAS(k, kOpen, key);/const uint64_t found = ShimCAS(k, kOpen, key);/' -e 's/AtomicLoad(keys_\[idx\])/ShimLoad(keys_[idx])/g' -e 's/used_.load(std::memory_order_relaxed)/ShimUsedLoad(used_)/g' -e 's/used_.fetch_add(1, std::memory_order_relaxed);/ShimFetchAdd(used_);/' -e 's/values_\[idx\] = val;/ShimStore(values_, idx, val);/' /repo/src/hashtable.h > hashtable_shim.h
//        g++ -std=c++17 -O1 -pthread -DMANIFOLD_PAR=-1 -I/repo/src -I/repo/include -I. hash_shim.cpp -o hash_shim
// run:   ./hash_shim <seed> <logSize> <step> <threads> <maxOps> <keyRange> [id|h64]   (a run that never ends = operator[] spinning on a full table)
// controlled-atomics shim for HashTableD: every shared-memory op is a yield point
#include <atomic>
#include <condition_variable>
#include <cstdint>
#include <cstdio>
#include <mutex>
#include <random>
#include <string>
#include <thread>
#include <vector>
static std::string g_log, g_sched;
static std::mutex g_mu;
static std::condition_variable g_cv;
static int g_turn = -1;
static std::vector<int> g_state;  // 0 running, 1 waiting, 2 finished
static thread_local int t_id = -1;
static thread_local unsigned long long t_lastK = 0; static thread_local char t_last = 0; static thread_local long t_lastIdx = 0; static thread_local int t_lastFull = 0, t_lastPresent = 0;
static const uint64_t* g_keys = nullptr;
static void acquire() {
  if (t_id < 0) return;
  std::unique_lock<std::mutex> lk(g_mu);
  g_state[t_id] = 1; g_cv.notify_all();
  g_cv.wait(lk, [] { return g_turn == t_id; });
}
static void release() {
  if (t_id < 0) return;
  std::unique_lock<std::mutex> lk(g_mu);
  g_turn = -1; g_state[t_id] = 0; g_cv.notify_all();
}
static void logf(const char* fmt, unsigned long long a, unsigned long long b, unsigned long long c) {
  char buf[200]; snprintf(buf, 200, fmt, t_id, a, b, c); g_log += buf;
}
static size_t g_size = 0;
static uint64_t ShimCAS(uint64_t& k, uint64_t cmp, uint64_t val) {
  acquire(); uint64_t found = k; if (found == cmp) k = val;
  if (t_id >= 0) { logf(" C %d %llu %llu %llu", &k - g_keys, val, found); t_last = 'C'; t_lastIdx = &k - g_keys; t_lastPresent = (found == val && found != cmp); }
  release(); return found;
}
static uint64_t ShimLoad(const uint64_t& k) {
  acquire(); uint64_t v = k;
  if (t_id >= 0) { char buf[100]; snprintf(buf, 100, " K %d %ld %llu", t_id, (long)(&k - g_keys), (unsigned long long)v); g_log += buf; t_lastK = v; }
  release(); return v;
}
static size_t ShimUsedLoad(const std::atomic<size_t>& u) {
  acquire(); size_t v = u.load();
  if (t_id >= 0) { char buf[100]; snprintf(buf, 100, " U %d %zu", t_id, v); g_log += buf; t_last = 'U'; t_lastFull = v * 2 > g_size; }
  release(); return v;
}
static void ShimFetchAdd(std::atomic<size_t>& u) {
  acquire(); size_t v = u.fetch_add(1);
  if (t_id >= 0) { char buf[100]; snprintf(buf, 100, " A %d %zu", t_id, v); g_log += buf; t_last = 'A'; }
  release();
}
template <typename VV, typename T>
static void ShimStore(VV& values, uint32_t idx, const T& val) {
  acquire(); values[idx] = val;
  if (t_id >= 0) { char buf[100]; snprintf(buf, 100, " S %d %u %llu", t_id, idx, (unsigned long long)val); g_log += buf; t_last = 'S'; t_lastIdx = idx; }
  release();
}
#include "hashtable_shim.h"
using namespace manifold;
uint64_t idh(uint64_t x) { return x; }
struct OpT { int k; uint64_t key, val; };
template <hash_fun_t H>
int runit(int seed, int logSize, int step, int T, int m, int keyRange, const char* hk) {
  std::mt19937 g(seed);
  size_t size = 1u << logSize; g_size = size;
  Vec<uint64_t> keysV(size, kOpen); Vec<uint64_t> vals(size, 0); std::atomic<size_t> used{0};
  HashTableD<uint64_t, H> d(keysV, vals, used, step);
  g_keys = &keysV[0];
  std::vector<std::vector<OpT>> progs(T);
  std::vector<std::string> res(T);
  printf("hash %d %d %s", logSize, step, hk);
  std::vector<uint64_t> insKeys;
  for (int t = 0; t < T; t++) {
    printf(" ;");
    int mm = g() % (m + 1);
    for (int i = 0; i < mm; i++) {
      uint64_t key = g() % keyRange, val = g() % 1000; int k = g() % 3;
      if (i) printf(" ,");
      if (k <= 1) { printf(" i %llu %llu", (unsigned long long)key, (unsigned long long)val);
        bool seen = false; for (auto x : insKeys) seen |= x == key; if (!seen) insKeys.push_back(key); }
      else printf(" g %llu", (unsigned long long)key);
      progs[t].push_back({k, key, val});
    }
  }
  g_state.assign(T, 0);
  std::vector<std::thread> th;
  for (int t = 0; t < T; t++) th.emplace_back([&, t] {
    t_id = t;
    HashTableD<uint64_t, H> dd(keysV, vals, used, step);
    for (auto& o : progs[t]) {
      char buf[100];
      if (o.k <= 1) {
        dd.Insert(o.key, o.val);
        if (t_last == 'U') snprintf(buf, 100, " F");
        else if (t_last == 'S') snprintf(buf, 100, " I %ld", t_lastIdx);
        else snprintf(buf, 100, " P %ld", t_lastIdx);
      } else {
        uint64_t& ref = dd[o.key];
        long idx = &ref - &vals[0];
        acquire(); uint64_t v = ref; { char b2[100]; snprintf(b2, 100, " V %d %ld %llu", t_id, idx, (unsigned long long)v); g_log += b2; }
        release();
        int hit = t_lastK == o.key;
        snprintf(buf, 100, " G %d %ld %llu", hit, idx, (unsigned long long)v);
      }
      res[t] += buf;
    }
    std::unique_lock<std::mutex> lk(g_mu); g_state[t] = 2; g_cv.notify_all();
  });
  for (;;) {
    std::unique_lock<std::mutex> lk(g_mu);
    g_cv.wait(lk, [&] { if (g_turn != -1) return false; for (int s : g_state) if (s == 0) return false; return true; });
    std::vector<int> live; for (int t = 0; t < T; t++) if (g_state[t] == 1) live.push_back(t);
    if (live.empty()) break;
    int t = live[g() % live.size()];
    g_turn = t; g_cv.notify_all();
    g_cv.wait(lk, [&] { return g_turn == -1; });
    g_sched += " " + std::to_string(t);
  }
  for (auto& x : th) x.join();
  printf(" ; sched%s\n", g_sched.c_str());
  printf("%s | keys", g_log.empty() ? "-" : g_log.c_str() + 1);
  for (size_t i = 0; i < size; i++) printf(" %llu", (unsigned long long)g_keys[i]);
  printf(" | vals");
  for (size_t i = 0; i < size; i++) printf(" %llu", (unsigned long long)vals[i]);
  printf(" | used %zu | res", used.load());
  for (int t = 0; t < T; t++) { if (t) printf(" ;"); printf("%s", res[t].empty() ? " -" : res[t].c_str()); }
  printf(" | q 1");
  {
    printf(" | look");
    for (auto key : insKeys) {
      bool present = false; for (size_t i = 0; i < size; i++) present |= g_keys[i] == key;
      if (present) { uint64_t& ref = d[key]; long idx = &ref - &vals[0]; printf(" %llu 1 %ld %llu", (unsigned long long)key, idx, (unsigned long long)ref); }
      else printf(" %llu 0 0 0", (unsigned long long)key);
    }
  }
  printf("\n");
  return 0;
}
int main(int argc, char** argv) {
  int seed = atoi(argv[1]), logSize = atoi(argv[2]), step = atoi(argv[3]), T = atoi(argv[4]), m = atoi(argv[5]), kr = atoi(argv[6]);
  bool h64 = argc > 7 && argv[7][0] == 'h';
  // need keys base: take it from a D() KeyAt reference -- KeyAt returns by value, so reach the Vec via a tiny friend hack below
  return h64 ? runit<hash64bit>(seed, logSize, step, T, m, kr, "h64") : runit<idh>(seed, logSize, step, T, m, kr, "id");
}
