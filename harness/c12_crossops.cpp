// C12 harness: Offset, Hull, Decompose and Simplify of CrossSections.
//   unit ties : the REAL HullImpl / SimplifyRing (anonymous namespace of cross_section.cpp), CCW, SignedArea,
//               EpsilonFromScale, PointInRing, DecomposeByContainment, OutwardNormal, MiterPoint, AppendSquareJoin,
//               AppendRoundJoin and OffsetContour (anonymous namespace of boolean2_offset.cpp) - both files are
//               #included - against the Lean model MV/Model/CrossOps.lean run at Float: vertices compared as IEEE
//               bit patterns, structure exactly.
//   oracles   : evaluated on the real outputs (unit calls and the public API):
//               hull      - exact (int64) on lattice inputs: strictly convex, contains every input point, vertices
//                           are input points, equal to a brute-force gift wrapping; tolerance-band version on doubles
//               simplify  - output ring is an in-order subsequence of the input ring; if more than 3 vertices are
//                           left every vertex deviates >= tol from the line through its neighbours (long double,
//                           with a rounding-error allowance computed from the operands)
//               decompose - nested-ring forests with known structure: components = the expected partition; areas sum;
//                           each hole strictly inside its outline; public Decompose() agrees
//               offset    - signed-distance oracle (long double) on sample points away from every band:
//                           round joins: {s <= delta - chord - m} inside, {s >= delta + chord + m} outside;
//                           every join: contains the input dilated along its edges, stays within the miter-limit
//                           distance, monotone in delta (containment sampling), regular (no proper crossing,
//                           winding 0/1)
// usage: c12_crossops <nUnit> <nOffset> <nApi>
#include <algorithm>
#include <cmath>
#include <cstdint>
#include <cstdlib>
#include <cstring>
#include <functional>
#include <limits>
#include <map>
#include <numeric>
#include <set>
#include <sstream>
#include <string>
#include <vector>

#include "manifold/cross_section.h"
#include "manifold/optional_assert.h"
#include "boolean2.h"
#include "common.h"
// reach the anonymous namespaces; every external symbol these files define is then defined by this
// translation unit, so the archive members cross_section.cpp.o / boolean2_offset.cpp.o are never pulled in
#include "cross_section.cpp"
#include "boolean2_offset.cpp"

using namespace manifold;
using hz::Rng;
typedef long double LD;

static std::map<std::string, long> gStat;
static void stat(const std::string& k, long n = 1) { gStat[k] += n; }

// ------------------------------------------------------------------------------------------ formatting
static std::string hx(double d) {
  if (std::isnan(d)) return "nan";
  uint64_t u; memcpy(&u, &d, 8);
  char b[24]; snprintf(b, sizeof b, "%016llx", (unsigned long long)u);
  return b;
}
static std::string hp(vec2 p) { return hx(p.x) + " " + hx(p.y); }
static std::string hpts(const SimplePolygon& ps) {
  std::string s;
  for (size_t i = 0; i < ps.size(); i++) { if (i) s += ' '; s += hp(ps[i]); }
  return s;
}
static std::string showPts(const SimplePolygon& ps) { return ps.empty() ? "0" : std::to_string(ps.size()) + " " + hpts(ps); }
static std::string fmtPoly(const SimplePolygon& l, size_t limit = 1500) {
  std::string s = "["; char buf[80];
  for (auto& v : l) { snprintf(buf, sizeof buf, "(%.17g,%.17g)", v.x, v.y); s += buf; if (s.size() > limit) return s + "...]"; }
  return s + "]";
}
static std::string fmtPolys(const Polygons& ps, size_t limit = 2500) {
  std::string s;
  for (auto& l : ps) { s += fmtPoly(l, limit); if (s.size() > limit) return s + "..."; }
  return s;
}
static double rnd01(Rng& r) { return (double)(r.next() >> 11) * (1.0 / 9007199254740992.0); }
static double rndIn(Rng& r, double lo, double hi) { return lo + (hi - lo) * rnd01(r); }

// ------------------------------------------------------------------------------------------ long-double geometry
static LD orientLD(const vec2& a, const vec2& b, const vec2& c) { return ((LD)b.x - a.x) * ((LD)c.y - a.y) - ((LD)b.y - a.y) * ((LD)c.x - a.x); }
static LD lenLD(const vec2& a, const vec2& b) { return hypotl((LD)b.x - a.x, (LD)b.y - a.y); }
static int windingAt(const Polygons& ps, LD px, LD py) {
  int w = 0;
  for (auto& l : ps) {
    size_t n = l.size();
    for (size_t i = 0; i < n; i++) {
      const vec2 &a = l[i], &b = l[(i + 1) % n];
      bool ua = (LD)a.y <= py, ub = (LD)b.y <= py;
      if (ua == ub) continue;
      LD cr = ((LD)b.x - a.x) * (py - a.y) - ((LD)b.y - a.y) * (px - a.x);
      if (ua) { if (cr > 0) w++; } else { if (cr < 0) w--; }
    }
  }
  return w;
}
static LD distSeg(LD px, LD py, const vec2& a, const vec2& b) {
  LD dx = (LD)b.x - a.x, dy = (LD)b.y - a.y, l2 = dx * dx + dy * dy;
  LD t = l2 > 0 ? ((px - a.x) * dx + (py - a.y) * dy) / l2 : 0;
  t = t < 0 ? 0 : t > 1 ? 1 : t;
  LD qx = a.x + t * dx - px, qy = a.y + t * dy - py;
  return sqrtl(qx * qx + qy * qy);
}
static LD minDist(const Polygons& ps, LD px, LD py) {
  LD d = std::numeric_limits<LD>::infinity();
  for (auto& l : ps) for (size_t i = 0; i < l.size(); i++) d = std::min(d, distSeg(px, py, l[i], l[(i + 1) % l.size()]));
  return d;
}
static LD areaLD(const SimplePolygon& l) {
  if (l.empty()) return 0;
  LD s = 0;  // relative to the first vertex: differences of doubles are exact in long double
  for (size_t i = 0; i < l.size(); i++) { const vec2 &a = l[i], &b = l[(i + 1) % l.size()]; s += ((LD)a.x - l[0].x) * ((LD)b.y - l[0].y) - ((LD)a.y - l[0].y) * ((LD)b.x - l[0].x); }
  return s / 2;
}
static void bounds(const Polygons& ps, LD& x0, LD& y0, LD& x1, LD& y1) {
  x0 = y0 = std::numeric_limits<LD>::infinity(); x1 = y1 = -x0;
  for (auto& l : ps) for (auto& v : l) { x0 = std::min<LD>(x0, v.x); y0 = std::min<LD>(y0, v.y); x1 = std::max<LD>(x1, v.x); y1 = std::max<LD>(y1, v.y); }
}
// no two edges crossing properly with every endpoint farther than `margin` from the other edge's line
static std::string crossingFree(const Polygons& out, LD margin) {
  struct E { vec2 a, b; };
  std::vector<E> es;
  for (auto& l : out) { if (l.size() < 3) return "loop with fewer than 3 vertices"; for (size_t i = 0; i < l.size(); i++) es.push_back({l[i], l[(i + 1) % l.size()]}); }
  std::vector<int> ord(es.size()); std::iota(ord.begin(), ord.end(), 0);
  auto mnx = [&](int i) { return std::min(es[i].a.x, es[i].b.x); };
  auto mxx = [&](int i) { return std::max(es[i].a.x, es[i].b.x); };
  std::sort(ord.begin(), ord.end(), [&](int i, int j) { return mnx(i) < mnx(j); });
  for (size_t oi = 0; oi < ord.size(); oi++) {
    int i = ord[oi];
    for (size_t oj = oi + 1; oj < ord.size(); oj++) {
      int j = ord[oj];
      if (mnx(j) > mxx(i)) break;
      const E &e = es[i], &f = es[j];
      if (std::max(e.a.y, e.b.y) < std::min(f.a.y, f.b.y) || std::max(f.a.y, f.b.y) < std::min(e.a.y, e.b.y)) continue;
      LD o1 = orientLD(e.a, e.b, f.a), o2 = orientLD(e.a, e.b, f.b), o3 = orientLD(f.a, f.b, e.a), o4 = orientLD(f.a, f.b, e.b);
      LD le = lenLD(e.a, e.b), lf = lenLD(f.a, f.b);
      if (fabsl(o1) <= margin * le || fabsl(o2) <= margin * le || fabsl(o3) <= margin * lf || fabsl(o4) <= margin * lf) continue;
      if ((o1 > 0) != (o2 > 0) && (o3 > 0) != (o4 > 0)) {
        char b[400];
        snprintf(b, sizeof b, "output edges cross: (%.17g,%.17g)-(%.17g,%.17g) x (%.17g,%.17g)-(%.17g,%.17g)", e.a.x, e.a.y, e.b.x, e.b.y, f.a.x, f.a.y, f.b.x, f.b.y);
        return b;
      }
    }
  }
  return "";
}

// ========================================================================================== HULL
// exact oracle on integer coordinates (|c| < 2^24): the property itself
static std::string hullExact(const SimplePolygon& in, const SimplePolygon& hull) {
  auto O = [](const vec2& a, const vec2& b, const vec2& c) -> long long {
    return ((long long)b.x - (long long)a.x) * ((long long)c.y - (long long)a.y) - ((long long)b.y - (long long)a.y) * ((long long)c.x - (long long)a.x);
  };
  // expected: gift wrapping from the lex-min point, strictly extreme points only, counter-clockwise
  std::vector<std::pair<long long, long long>> pts;
  for (auto& p : in) pts.push_back({(long long)p.x, (long long)p.y});
  std::sort(pts.begin(), pts.end()); pts.erase(std::unique(pts.begin(), pts.end()), pts.end());
  SimplePolygon expect;
  if (pts.size() >= 3) {
    auto V = [&](size_t i) { return vec2((double)pts[i].first, (double)pts[i].second); };
    size_t start = 0, cur = 0;
    do {
      expect.push_back(V(cur));
      size_t nxt = (cur + 1) % pts.size();
      for (size_t k = 0; k < pts.size(); k++) {
        if (k == cur) continue;
        long long o = O(V(cur), V(nxt), V(k));
        // more clockwise, or collinear and farther
        if (o < 0 || (o == 0 && std::llabs(pts[k].first - pts[cur].first) + std::llabs(pts[k].second - pts[cur].second) >
                                     std::llabs(pts[nxt].first - pts[cur].first) + std::llabs(pts[nxt].second - pts[cur].second))) nxt = k;
      }
      cur = nxt;
    } while (cur != start && expect.size() <= pts.size());
    if (expect.size() < 3) expect.clear();
  }
  size_t n = hull.size();
  if (n >= 3) {
    for (size_t i = 0; i < n; i++) {
      const vec2 &a = hull[i], &b = hull[(i + 1) % n], &c = hull[(i + 2) % n];
      if (O(a, b, c) <= 0) return "hull triple does not turn strictly left at " + fmtPoly({a, b, c});
      for (auto& q : in) if (O(a, b, q) < 0) return "input point outside hull edge: " + fmtPoly({a, b, q});
      bool found = false;
      for (auto& q : in) if (q.x == a.x && q.y == a.y) found = true;
      if (!found) return "hull vertex is not an input point " + fmtPoly({a});
    }
  }
  SimplePolygon got = n >= 3 ? hull : SimplePolygon{};
  if (got.size() != expect.size()) return "hull has " + std::to_string(got.size()) + " vertices, the convex hull has " + std::to_string(expect.size()) + ": got " + fmtPoly(got) + " expected " + fmtPoly(expect);
  if (!got.empty()) {
    size_t k = 0;
    for (size_t i = 0; i < got.size(); i++) if (got[i].x == expect[0].x && got[i].y == expect[0].y) k = i;
    for (size_t i = 0; i < got.size(); i++) { const vec2& g = got[(k + i) % got.size()]; if (g.x != expect[i].x || g.y != expect[i].y) return "hull differs from the convex hull: got " + fmtPoly(got) + " expected " + fmtPoly(expect); }
  }
  return "";
}
// tolerance-band oracle on doubles: the rounding error of the code's predicate is < 8u*S^2 on the doubled area
static std::string hullBand(const SimplePolygon& in, const SimplePolygon& hull) {
  LD S = 0;
  for (auto& p : in) for (auto& q : {in.front(), in.back()}) S = std::max(S, lenLD(p, q));
  S *= 2;
  const LD tolA = 1e-13L * S * S;
  size_t n = hull.size();
  if (n < 3) {
    // an empty answer is right only if the input is (nearly) collinear
    for (size_t i = 0; i < in.size(); i++) for (size_t j = i + 1; j < in.size(); j++) for (size_t k = j + 1; k < in.size() && in.size() <= 40; k++)
      if (fabsl(orientLD(in[i], in[j], in[k])) > 1e-6L * S * S) return "empty hull of a point set that is not collinear: " + fmtPoly({in[i], in[j], in[k]});
    return "";
  }
  for (size_t i = 0; i < n; i++) {
    const vec2 &a = hull[i], &b = hull[(i + 1) % n], &c = hull[(i + 2) % n];
    if (orientLD(a, b, c) < -tolA) return "hull triple turns right: " + fmtPoly({a, b, c});
    for (auto& q : in) if (orientLD(a, b, q) < -tolA) return "input point outside hull edge: " + fmtPoly({a, b, q});
    bool found = false;
    for (auto& q : in) if (hx(q.x) == hx(a.x) && hx(q.y) == hx(a.y)) found = true;
    if (!found) return "hull vertex is not an input point " + fmtPoly({a});
  }
  if (areaLD(hull) < -tolA * (LD)n) return "hull is not counter-clockwise";
  return "";
}

static SimplePolygon genPoints(Rng& r, int flavour, bool& lattice) {
  SimplePolygon p;
  lattice = false;
  int n = r.range(0, 60);
  switch (flavour) {
    case 0: { lattice = true; int R = r.range(1, 6); n = r.range(0, 40); for (int i = 0; i < n; i++) p.push_back({(double)r.range(-R, R), (double)r.range(-R, R)}); break; }          // dense lattice: duplicates, collinear
    case 1: { lattice = true; int R = 1 << r.range(3, 22); for (int i = 0; i < n; i++) p.push_back({(double)r.range(-R, R), (double)r.range(-R, R)}); break; }                       // sparse lattice
    case 2: { lattice = true; int k = r.range(1, 9), dx = r.range(-3, 3), dy = r.range(-3, 3); n = r.range(3, 30); for (int i = 0; i < n; i++) { int t = r.range(-k, k); p.push_back({(double)(t * dx), (double)(t * dy)}); } if (r.below(3) == 0) p.push_back({(double)r.range(-5, 5), (double)r.range(-5, 5)}); break; } // collinear (+ maybe one off)
    case 3: { lattice = true; n = r.range(3, 24); int R = r.range(2, 30); for (int i = 0; i < n; i++) { int s = (int)r.below(4), t = r.range(0, R); p.push_back(s == 0 ? vec2(t, 0) : s == 1 ? vec2(R, t) : s == 2 ? vec2(R - t, R) : vec2(0, R - t)); } break; } // on a square's boundary
    case 4: { double s = std::ldexp(1.0, r.range(-20, 20)); for (int i = 0; i < n; i++) p.push_back({rndIn(r, -s, s), rndIn(r, -s, s)}); break; }                                   // random doubles
    case 5: { n = r.range(3, 80); double R = rndIn(r, 0.1, 100), cx = rndIn(r, -50, 50), cy = rndIn(r, -50, 50); for (int i = 0; i < n; i++) { double a = rndIn(r, 0, 6.283185307179586); p.push_back({cx + R * std::cos(a), cy + R * std::sin(a)}); } break; } // on a circle
    case 6: { int k = r.range(1, 4); for (int c = 0; c < k; c++) { double cx = rndIn(r, -10, 10), cy = rndIn(r, -10, 10), e = std::ldexp(1.0, -r.range(5, 45)); int m = r.range(1, 15); for (int i = 0; i < m; i++) p.push_back({cx + rndIn(r, -e, e), cy + rndIn(r, -e, e)}); } break; } // clusters
    case 7: { n = r.range(3, 20); double dx = rndIn(r, -1, 1), dy = rndIn(r, -1, 1); for (int i = 0; i < n; i++) { double t = rndIn(r, -5, 5); p.push_back({t * dx, t * dy}); } break; }   // nearly collinear doubles
    default: { n = r.range(1, 12); vec2 q(rndIn(r, -3, 3), rndIn(r, -3, 3)); for (int i = 0; i < n; i++) p.push_back(r.below(4) ? q : vec2(rndIn(r, -3, 3), rndIn(r, -3, 3))); if (r.below(3) == 0) for (auto& v : p) if (v.x == 0) v.x = -0.0; break; } // many copies of one point
  }
  if (!p.empty() && r.below(4) == 0) { size_t k = r.below(p.size()); for (int i = 0; i < 3; i++) p.push_back(p[k]); }
  for (size_t i = p.size(); i > 1; i--) std::swap(p[i - 1], p[r.below(i)]);
  return p;
}

static void hullCases(Rng& r, int count) {
  for (int it = 0; it < count; it++) {
    int fl = (int)r.below(9);
    bool lattice;
    SimplePolygon in = genPoints(r, fl, lattice);
    bool nonfinite = false;
    if (r.below(25) == 0 && !in.empty()) { in[r.below(in.size())].x = r.below(2) ? NAN : INFINITY; nonfinite = true; lattice = false; }
    SimplePolygon work = in;
    SimplePolygon hull = HullImpl(work);
    std::string msg;
    if (nonfinite || in.size() < 3) { if (!hull.empty()) msg = "non-finite or < 3 points must give an empty hull"; }
    else if (lattice) msg = hullExact(in, hull);
    else msg = hullBand(in, hull);
    stat(lattice ? "hull_exact" : "hull_band"); if (hull.size() >= 3) stat("hull_nonempty");
    hz::emit("c12 hull-" + std::to_string(fl) + " n=" + std::to_string(in.size()) + " out=" + std::to_string(hull.size()), "crossops hull " + hpts(in), showPts(hull), msg.empty(),
             msg.empty() ? "" : msg + " input " + fmtPoly(in));
    // the public entry points on the same points
    if (!nonfinite && it % 3 == 0) {
      Polygons got = CrossSection::Hull(in).ToPolygons();
      SimplePolygon g = got.empty() ? SimplePolygon{} : got[0];
      std::string m2 = got.size() > 1 ? "Hull returned more than one contour" : lattice ? hullExact(in, g) : (in.size() >= 3 ? hullBand(in, g) : (g.empty() ? "" : "hull of < 3 points not empty"));
      // Hull(Polygons) and Hull(vector<CrossSection>) of the same points split in two
      Polygons split(2);
      for (size_t i = 0; i < in.size(); i++) split[i % 2].push_back(in[i]);
      Polygons got2 = CrossSection::Hull(split).ToPolygons();
      SimplePolygon g2 = got2.empty() ? SimplePolygon{} : got2[0];
      if (m2.empty() && lattice) m2 = hullExact(in, g2);
      stat("hull_api");
      hz::emit("c12 hullapi-" + std::to_string(fl) + " n=" + std::to_string(in.size()), "", "", m2.empty(), m2.empty() ? "" : m2 + " input " + fmtPoly(in));
    }
  }
}

// ========================================================================================== SIMPLIFY
static SimplePolygon genRing(Rng& r, int flavour) {
  SimplePolygon p;
  int n = r.range(0, 70);
  double sc = std::ldexp(1.0, r.range(-6, 8));
  switch (flavour) {
    case 0: { n = r.range(3, 120); double R = rndIn(r, 0.5, 5) * sc; for (int i = 0; i < n; i++) { double a = 6.283185307179586 * i / n; p.push_back({R * std::cos(a), R * std::sin(a)}); } break; }        // circle
    case 1: { n = r.range(4, 60); for (int i = 0; i < n; i++) { double a = 6.283185307179586 * i / n, R = sc * rndIn(r, 0.3, 1.0); p.push_back({R * std::cos(a), R * std::sin(a)}); } break; }                // star-shaped noise
    case 2: { int k = r.range(1, 12); double W = sc * r.range(1, 6), H = sc * r.range(1, 6);                                                                                                                  // rectangle with collinear runs
      for (int i = 0; i < k; i++) p.push_back({W * i / k, 0}); for (int i = 0; i < k; i++) p.push_back({W, H * i / k}); for (int i = 0; i < k; i++) p.push_back({W - W * i / k, H}); for (int i = 0; i < k; i++) p.push_back({0, H - H * i / k}); break; }
    case 3: { n = r.range(4, 50); for (int i = 0; i < n; i++) { double a = 6.283185307179586 * i / n, R = sc * (1 + rndIn(r, -1, 1) * std::ldexp(1.0, -r.range(3, 40))); p.push_back({R * std::cos(a), R * std::sin(a)}); } break; } // tiny radial noise
    case 4: { int R = r.range(1, 8); n = r.range(4, 40); for (int i = 0; i < n; i++) p.push_back({(double)r.range(-R, R), (double)r.range(-R, R)}); break; }                                                  // lattice scribble: exact ties, duplicates
    case 5: { n = r.range(4, 40); for (int i = 0; i < n; i++) { double a = 6.283185307179586 * i / n; p.push_back({sc * std::cos(a), sc * std::sin(a)}); if (r.below(3) == 0) p.push_back(p.back()); if (r.below(5) == 0) p.push_back({p.back().x * (1 + 1e-12), p.back().y}); } break; } // duplicates
    case 6: { n = r.range(0, 3); for (int i = 0; i < n; i++) p.push_back({rndIn(r, -1, 1), rndIn(r, -1, 1)}); break; }                                                                                          // n <= 3
    default: { for (int i = 0; i < n; i++) p.push_back({sc * rndIn(r, -1, 1), sc * rndIn(r, -1, 1)}); break; }                                                                                                // scribble
  }
  return p;
}
// is `out` an in-order subsequence of `in` (bitwise vertices)? greedy leftmost matching is complete
static bool subsequence(const SimplePolygon& out, const SimplePolygon& in) {
  size_t j = 0;
  for (auto& v : out) {
    while (j < in.size() && !(hx(in[j].x) == hx(v.x) && hx(in[j].y) == hx(v.y))) j++;
    if (j == in.size()) return false;
    j++;
  }
  return true;
}
// exit condition on the real output: more than 3 vertices => every vertex is at least tol from the line through
// its neighbours.  The code compares the double value cross^2/len2 with tol^2; the allowance is the rounding
// error of that computation (8 ulp of the products involved), so a vertex is reported only if it is below the
// tolerance by more than rounding.
static std::string exitCondition(const SimplePolygon& out, double tol) {
  size_t n = out.size();
  if (n <= 3 || !(tol > 0) || !std::isfinite(tol)) return "";
  for (size_t i = 0; i < n; i++) {
    const vec2 &P = out[(i + n - 1) % n], &V = out[i], &N = out[(i + 1) % n];
    LD pnx = (LD)N.x - P.x, pny = (LD)N.y - P.y, ax = (LD)V.x - P.x, ay = (LD)V.y - P.y;
    LD len2 = pnx * pnx + pny * pny;
    if (!(len2 > 0)) return "neighbours coincide but the vertex survived with more than 3 left: " + fmtPoly({P, V, N});
    LD cr = ax * pny - ay * pnx;
    LD err = 16 * 1.1102230246251565e-16L * (fabsl(ax * pny) + fabsl(ay * pnx));
    LD lo = fabsl(cr) + err;
    if (lo * lo / len2 < (LD)tol * tol * (1 - 1e-12L)) {
      char b[200]; snprintf(b, sizeof b, "vertex closer than tol to the line through its neighbours: dev=%.6Lg tol=%.6g at ", sqrtl(cr * cr / len2), tol);
      return b + fmtPoly({P, V, N});
    }
  }
  return "";
}
static std::string simplifyOracle(const SimplePolygon& in, const SimplePolygon& out, double tol) {
  if (in.size() <= 3) { if (hpts(in) != hpts(out)) return "ring with <= 3 vertices changed"; return ""; }
  if (out.size() < 3) return "fewer than 3 vertices left";
  if (!subsequence(out, in)) return "output is not an in-order subset of the input";
  return exitCondition(out, tol);
}
static double genTol(Rng& r, double scale) {
  switch (r.below(8)) {
    case 0: return 0;
    case 1: return scale * std::ldexp(1.0, -r.range(30, 50));
    case 2: return scale * rndIn(r, 0.5, 3);
    case 3: return (double)r.range(1, 3);
    default: return scale * std::ldexp(1.0, -r.range(1, 14));
  }
}
static void simplifyCases(Rng& r, int count) {
  for (int it = 0; it < count; it++) {
    int fl = (int)r.below(8);
    SimplePolygon in = genRing(r, fl);
    double sc = 0; for (auto& v : in) sc = std::max({sc, std::fabs(v.x), std::fabs(v.y)});
    double tol = genTol(r, sc > 0 ? sc : 1);
    if (r.below(40) == 0) tol = r.below(2) ? INFINITY : -tol;
    SimplePolygon out = SimplifyRing(in, tol);
    std::string msg = simplifyOracle(in, out, tol);
    stat("simplify"); if (out.size() < in.size()) stat("simplify_removed", (long)(in.size() - out.size())); if (out.size() > 3 && out.size() < in.size()) stat("simplify_break_exit");
    hz::emit("c12 simplify-" + std::to_string(fl) + " n=" + std::to_string(in.size()) + " out=" + std::to_string(out.size()), "crossops simplify " + hx(tol) + " " + hpts(in), showPts(out), msg.empty(),
             msg.empty() ? "" : msg + " tol=" + std::to_string(tol) + " input " + fmtPoly(in));
  }
}

// ========================================================================================== PRIMITIVES
static void primitiveCases(Rng& r, int count) {
  for (int it = 0; it < count; it++) {
    // CCW with tolerance
    double s = std::ldexp(1.0, r.range(-10, 10));
    vec2 a(rndIn(r, -s, s), rndIn(r, -s, s)), b(rndIn(r, -s, s), rndIn(r, -s, s)), c;
    if (r.below(2)) { double t = rndIn(r, -2, 3); c = a + (b - a) * t; if (r.below(2)) c.y += s * std::ldexp(1.0, -r.range(20, 52)); } else c = vec2(rndIn(r, -s, s), rndIn(r, -s, s));
    if (r.below(6) == 0) { a = vec2(r.range(-3, 3), r.range(-3, 3)); b = vec2(r.range(-3, 3), r.range(-3, 3)); c = vec2(r.range(-3, 3), r.range(-3, 3)); }
    double tol = r.below(3) == 0 ? 0.0 : EpsilonFromScale(s);
    hz::emit("c12 ccw", "crossops ccw " + hp(a) + " " + hp(b) + " " + hp(c) + " " + hx(tol), std::to_string(CCW(a, b, c, tol)), true);
    double L = r.below(10) == 0 ? 0.0 : std::ldexp(rndIn(r, 0.5, 1.0), r.range(-60, 60));
    int k = r.below(2) ? 1000 : (int)r.below(3);
    hz::emit("c12 eps", "crossops eps " + std::to_string(k) + " " + hx(L), hx(EpsilonFromScale(L, k)), true);
    SimplePolygon ring = genRing(r, (int)r.below(8));
    hz::emit("c12 area n=" + std::to_string(ring.size()), "crossops area " + hpts(ring), hx(SignedArea(ring)), true);
    if (ring.size() >= 3) {
      Rect box; for (auto& v : ring) box.Union(v);
      double eps = EpsilonFromScale(BoxScale(box));
      vec2 p = r.below(3) == 0 ? ring[r.below(ring.size())] : r.below(2) ? (ring[0] + ring[ring.size() / 2]) * 0.5 : vec2(rndIn(r, box.min.x, box.max.x), rndIn(r, box.min.y, box.max.y));
      hz::emit("c12 pir n=" + std::to_string(ring.size()), "crossops pir " + hx(eps) + " " + hp(p) + " " + hpts(ring), PointInRing(p, ring, eps) ? "1" : "0", true);
    }
    stat("primitive", 4);
  }
}

// ========================================================================================== DECOMPOSE
static SimplePolygon ngon(Rng& r, vec2 c, double R, bool ccw, int n = 0) {
  if (!n) n = r.range(3, 14);
  SimplePolygon p; double a0 = rndIn(r, 0, 6.28);
  for (int i = 0; i < n; i++) { double a = a0 + 6.283185307179586 * i / n; p.push_back({c.x + R * std::cos(a), c.y + R * std::sin(a)}); }
  if (!ccw) std::reverse(p.begin(), p.end());
  return p;
}
struct Forest { Polygons rings; std::vector<int> parent; std::vector<int> depth; };
// discs nested inside discs, well separated: ring k at depth d is counter-clockwise iff d is even
static void growForest(Rng& r, Forest& f, int parent, int depth, vec2 c, double R, int maxDepth) {
  int me = (int)f.rings.size();
  f.rings.push_back(ngon(r, c, R, depth % 2 == 0, r.range(5, 16)));
  f.parent.push_back(parent); f.depth.push_back(depth);
  if (depth >= maxDepth) return;
  int kids = (int)r.below(4);
  // children on a circle of radius R/2 with radius <= R/5 (inscribed polygon radius >= R cos(pi/5) > 0.8 R)
  double a0 = rndIn(r, 0, 6.28);
  for (int k = 0; k < kids; k++) {
    double a = a0 + 6.283185307179586 * k / kids;
    growForest(r, f, me, depth + 1, {c.x + 0.45 * R * std::cos(a), c.y + 0.45 * R * std::sin(a)}, R * rndIn(r, 0.08, 0.18), maxDepth);
  }
}
static std::string ringKey(const SimplePolygon& l) { return hpts(l); }
static std::string showDecompose(const Polygons& in, const std::vector<Polygons>& comps) {
  // number of kept rings: recomputed by the same filter through the real Summarize
  size_t kept = 0;
  for (auto& l : in) { if (l.size() < 3) continue; RingInfo ri = Summarize(l); const vec2 size = ri.box.Size(); if (std::fabs(ri.area) <= la::maxelem(size) * ri.eps) continue; kept++; }
  std::string s = std::to_string(kept) + " " + std::to_string(comps.size());
  for (auto& c : comps) { s += " C " + std::to_string(c.size()); for (auto& l : c) s += " R " + showPts(l); }
  return s;
}
static std::string reqDecompose(const Polygons& in) {
  std::string s = "crossops decompose";
  for (auto& l : in) s += " P" + (l.empty() ? std::string() : " " + hpts(l));
  return s;
}
static std::string decomposeOracleForest(const Forest& f, const std::vector<int>& order, const std::vector<Polygons>& comps) {
  // expected: every even-depth ring is a component holding exactly its odd-depth children, in input order
  std::map<std::string, int> id;
  for (size_t i = 0; i < f.rings.size(); i++) id[ringKey(f.rings[i])] = (int)i;
  std::vector<std::vector<int>> got;
  for (auto& c : comps) { std::vector<int> g; for (auto& l : c) { auto itr = id.find(ringKey(l)); if (itr == id.end()) return "component holds a ring that is not an input ring"; g.push_back(itr->second); } got.push_back(g); }
  std::vector<std::vector<int>> expect;
  for (int i : order) if (f.depth[i] % 2 == 0) { std::vector<int> e{i}; for (int j : order) if (f.parent[j] == i) e.push_back(j); expect.push_back(e); }
  if (got != expect) {
    std::ostringstream o; o << "components differ from the nesting: got";
    for (auto& g : got) { o << " {"; for (int x : g) o << x << " "; o << "}"; }
    o << " expected";
    for (auto& g : expect) { o << " {"; for (int x : g) o << x << " "; o << "}"; }
    return o.str();
  }
  LD total = 0, sum = 0;
  for (auto& l : f.rings) total += areaLD(l);
  for (auto& c : comps) for (auto& l : c) sum += areaLD(l);
  if (fabsl(total - sum) > 1e-9L * fabsl(total)) return "component areas do not sum to the whole";
  for (auto& c : comps) for (size_t k = 1; k < c.size(); k++) {
    if (areaLD(c[k]) >= 0) return "attached ring is not a hole";
    for (auto& v : c[k]) if (windingAt({c[0]}, v.x, v.y) != 1) return "hole vertex outside its outline";
  }
  return "";
}
static void decomposeCases(Rng& r, int count) {
  for (int it = 0; it < count; it++) {
    int fl = (int)r.below(6);
    Polygons in; std::string msg; std::vector<Polygons> comps;
    if (fl <= 2) {
      Forest f; int roots = r.range(1, 4);
      double sc = std::ldexp(1.0, r.range(-4, 6));
      for (int k = 0; k < roots; k++) growForest(r, f, -1, 0, {sc * 3.0 * k, sc * rndIn(r, -1, 1)}, sc * rndIn(r, 0.8, 1.2), r.range(0, 4));
      std::vector<int> order(f.rings.size()); std::iota(order.begin(), order.end(), 0);
      if (fl >= 1) for (size_t i = order.size(); i > 1; i--) std::swap(order[i - 1], order[r.below(i)]);
      for (int i : order) in.push_back(f.rings[i]);
      comps = DecomposeByContainment(in);
      msg = decomposeOracleForest(f, order, comps);
      stat("decompose_forest"); stat("decompose_rings", (long)in.size());
      if (it % 2 == 0) {
        // the public API on the regularised section: one outline per piece, areas sum to the whole
        CrossSection cs(in);
        auto pieces = cs.Decompose();
        LD sum = 0; std::string m2;
        for (auto& pc : pieces) { sum += pc.Area(); int pos = 0; for (auto& l : pc.ToPolygons()) if (areaLD(l) > 0) pos++; if (pos != 1) m2 = "a piece of Decompose() has " + std::to_string(pos) + " outlines"; }
        if (m2.empty() && fabsl(sum - (LD)cs.Area()) > 1e-9L * fabsl((LD)cs.Area())) m2 = "areas of Decompose() do not sum to Area()";
        size_t even = 0; for (int d : f.depth) if (d % 2 == 0) even++;
        if (m2.empty() && pieces.size() != even) m2 = "Decompose() returned " + std::to_string(pieces.size()) + " pieces for " + std::to_string(even) + " outlines";
        stat("decompose_api");
        hz::emit("c12 decomposeapi rings=" + std::to_string(in.size()), "", "", m2.empty(), m2.empty() ? "" : m2 + " input " + fmtPolys(in));
      }
    } else {
      // raw, possibly not regularised input: orphan holes, positive in positive, slivers, tiny rings, < 3 vertices
      int k = r.range(0, 7);
      for (int i = 0; i < k; i++) {
        switch (r.below(7)) {
          case 0: in.push_back(ngon(r, {rndIn(r, -2, 2), rndIn(r, -2, 2)}, rndIn(r, 0.1, 3), r.below(2))); break;
          case 1: in.push_back(ngon(r, {0, 0}, std::ldexp(1.0, r.range(-3, 2)), r.below(2))); break;                       // concentric
          case 2: in.push_back({{0, 0}, {1, 0}, {2, std::ldexp(1.0, -r.range(30, 60))}}); break;                            // sliver
          case 3: { SimplePolygon l; int m = (int)r.below(3); for (int j = 0; j < m; j++) l.push_back({rndIn(r, -1, 1), rndIn(r, -1, 1)}); in.push_back(l); break; }
          case 4: { double x = r.range(-2, 2), y = r.range(-2, 2), w = r.range(1, 3); SimplePolygon l{{x, y}, {x + w, y}, {x + w, y + w}, {x, y + w}}; if (r.below(2)) std::reverse(l.begin(), l.end()); in.push_back(l); break; } // lattice squares: touching / identical
          case 5: if (!in.empty()) in.push_back(in[r.below(in.size())]); break;
          default: in.push_back(genRing(r, 7)); break;
        }
      }
      comps = DecomposeByContainment(in);
      // weak oracle (the input is not regular): every component starts with a positive ring followed by non-positive rings, no ring used twice
      std::multiset<std::string> avail; for (auto& l : in) avail.insert(ringKey(l));
      for (auto& c : comps) {
        if (c.empty() || !(SignedArea(c[0]) > 0)) msg = "component does not start with a positive ring";
        for (size_t j = 0; j < c.size(); j++) { if (j > 0 && SignedArea(c[j]) > 0) msg = "positive ring attached as a hole"; auto itr = avail.find(ringKey(c[j])); if (itr == avail.end()) msg = "a ring is output more often than it was input"; else avail.erase(itr); }
      }
      size_t pos = 0; for (auto& l : in) { if (l.size() < 3) continue; RingInfo ri = Summarize(l); if (std::fabs(ri.area) <= la::maxelem(ri.box.Size()) * ri.eps) continue; if (ri.area > 0) pos++; }
      if (msg.empty() && pos != comps.size()) msg = "number of components differs from the number of positive rings";
      stat("decompose_raw");
    }
    size_t nr = 0; for (auto& c : comps) nr += c.size();
    hz::emit("c12 decompose-" + std::to_string(fl) + " rings=" + std::to_string(in.size()) + " comps=" + std::to_string(comps.size()) + " placed=" + std::to_string(nr), reqDecompose(in), showDecompose(in, comps), msg.empty(),
             msg.empty() ? "" : msg + " input " + fmtPolys(in));
  }
}

// ========================================================================================== JOINS and OFFSETCONTOUR
static const char* jtName(JoinType jt) { return jt == JoinType::Round ? "round" : jt == JoinType::Miter ? "miter" : jt == JoinType::Square ? "square" : "bevel"; }
// the angle schedule of AppendRoundJoin (l.70-77), with the real degrees/cosd/sind: the rotations the model is given
static std::string roundArc(vec2 nPrev, vec2 nNext, double delta, int segments, int* count = nullptr) {
  const double rotSign = (delta >= 0) ? 1.0 : -1.0;
  const double fullStep = 360.0 / segments;
  const double sweep = degrees(std::acos(std::clamp(dot(nPrev, nNext), -1.0, 1.0)));
  const int nSub = std::max(1, static_cast<int>(std::ceil(sweep / fullStep)));
  const double subStep = sweep / nSub;
  std::string s;
  for (int i = 1; i < nSub; ++i) { double ang = rotSign * i * subStep; s += " " + hx(cosd(ang)) + " " + hx(sind(ang)); }
  if (count) *count = nSub - 1;
  return s;
}
static vec2 randUnit(Rng& r) {
  for (;;) { vec2 e(rndIn(r, -1, 1), rndIn(r, -1, 1)); if (r.below(6) == 0) e = vec2(r.range(-2, 2), r.range(-2, 2)); vec2 n = OutwardNormal(e); if (!(n == vec2(0, 0))) return n; }
}
static void joinCases(Rng& r, int count) {
  for (int it = 0; it < count; it++) {
    vec2 V(rndIn(r, -10, 10), rndIn(r, -10, 10));
    vec2 nP = randUnit(r), nN = randUnit(r);
    switch (r.below(6)) { case 0: nN = nP; break; case 1: nN = -nP; break; case 2: nN = vec2(-nP.y, nP.x); break;
      case 3: { double a = std::ldexp(1.0, -r.range(3, 30)); vec2 e(-nP.x + a * nP.y, -nP.y - a * nP.x); nN = OutwardNormal(vec2(-e.y, e.x)); break; } default: break; }
    double delta = (r.below(2) ? 1 : -1) * std::ldexp(rndIn(r, 0.5, 1), r.range(-8, 4));
    // MiterPoint
    vec2 M = MiterPoint(V, nP, nN, delta);
    std::string msg;
    LD d = (LD)nP.x * nN.x + (LD)nP.y * nN.y;
    if (1 + d > 1e-3L) {
      LD a = ((LD)M.x - V.x) * nP.x + ((LD)M.y - V.y) * nP.y, b = ((LD)M.x - V.x) * nN.x + ((LD)M.y - V.y) * nN.y;
      if (fabsl(a - delta) > 1e-9L * fabsl(delta) / (1 + d) || fabsl(b - delta) > 1e-9L * fabsl(delta) / (1 + d)) msg = "miter point is not on both offset lines";
    }
    hz::emit("c12 miter", "crossops miter " + hp(V) + " " + hp(nP) + " " + hp(nN) + " " + hx(delta), hp(M), msg.empty(), msg);
    // AppendSquareJoin
    SimplePolygon sq; AppendSquareJoin(sq, V, nP, nN, delta);
    msg.clear();
    for (auto& p : sq) { LD dist = lenLD(p, V); if (dist > sqrtl(2.0L) * fabsl(delta) * (1 + 1e-9L) || dist < fabsl(delta) * (1 - 1e-9L)) msg = "square cap point not between |delta| and sqrt2 |delta| from the vertex"; }
    hz::emit("c12 square n=" + std::to_string(sq.size()), "crossops square " + hp(V) + " " + hp(nP) + " " + hp(nN) + " " + hx(delta), showPts(sq), msg.empty(), msg);
    // AppendRoundJoin
    int seg = r.below(3) == 0 ? r.range(3, 8) : r.range(3, 200);
    SimplePolygon rd; AppendRoundJoin(rd, V, nP, nN, delta, seg);
    int cnt = 0; std::string arc = roundArc(nP, nN, delta, seg, &cnt);
    msg.clear();
    if ((int)rd.size() != cnt) msg = "round join pushed a different number of points than its angle schedule";
    for (auto& p : rd) if (fabsl(lenLD(p, V) - fabsl(delta)) > 1e-9L * fabsl(delta)) msg = "round join point not at distance |delta|";
    if (((LD)nP.x * nN.y - (LD)nP.y * nN.x) * (delta >= 0 ? 1 : -1) > 1e-9L) {
      // convex corner (the only kind OffsetContour rounds): consecutive directions (nPrev, samples, nNext) are at most 360/segments apart
      SimplePolygon dirs; dirs.push_back(nP); for (auto& p : rd) dirs.push_back((p - V) / delta); dirs.push_back(nN);
      for (size_t i = 0; i + 1 < dirs.size(); i++) { LD c = (LD)dirs[i].x * dirs[i + 1].x + (LD)dirs[i].y * dirs[i + 1].y; if (c < cosl(2 * 3.14159265358979323846L / seg) - 1e-7L) msg = "round join chord spans more than 360/segments"; }  // 1e-7: acos of a rounded dot product near +-1 is only accurate to sqrt(ulp) ~ 1.5e-8 rad
    }
    hz::emit("c12 round n=" + std::to_string(rd.size()) + " seg=" + std::to_string(seg), "crossops round " + hp(V) + " " + hp(nP) + " " + hx(delta) + arc, showPts(rd), msg.empty(), msg);
    vec2 e(rndIn(r, -3, 3) * std::ldexp(1.0, r.range(-40, 40)), r.below(5) ? rndIn(r, -3, 3) : 0.0);
    if (r.below(20) == 0) e = vec2(0, 0);
    vec2 no = OutwardNormal(e);
    hz::emit("c12 normal", "crossops normal " + hp(e), hp(no), true);
    stat("join", 4);
  }
}
static SimplePolygon genContour(Rng& r, int flavour) {
  SimplePolygon p;
  double sc = std::ldexp(1.0, r.range(-3, 5));
  switch (flavour) {
    case 0: return ngon(r, {rndIn(r, -3, 3), rndIn(r, -3, 3)}, sc, r.below(4) != 0);
    case 1: { int n = 2 * r.range(3, 9); double a0 = rndIn(r, 0, 6.28), ri = rndIn(r, 0.05, 0.9); for (int i = 0; i < n; i++) { double a = a0 + 6.283185307179586 * i / n, R = sc * (i % 2 ? ri : 1.0); p.push_back({R * std::cos(a), R * std::sin(a)}); } break; } // star: reflex corners, spikes
    case 2: { double w = sc * r.range(1, 4), h = sc * r.range(1, 4); int k = r.range(1, 4); for (int i = 0; i < k; i++) p.push_back({w * i / k, 0}); p.push_back({w, 0}); p.push_back({w, h}); for (int i = 0; i < k; i++) p.push_back({w - w * (i + 1) / (k + 1), h}); p.push_back({0, h}); break; } // collinear vertices
    case 3: { p = {{0, 0}, {sc * 4, 0}, {sc * 4, sc}, {sc, sc}, {sc, sc * 3}, {0, sc * 3}}; break; }                                                  // L
    case 4: { p = {{0, 0}, {sc * 5, sc * 0.01}, {sc * 5, -sc * 0.01}}; if (r.below(2)) p = {{0, 0}, {sc, 0}, {sc * 2, 0}, {sc, 0}, {sc, sc}}; break; } // needle / exact reversal spike
    case 5: { int n = r.range(3, 12); int R = r.range(2, 6); for (int i = 0; i < n; i++) p.push_back({(double)r.range(-R, R), (double)r.range(-R, R)}); break; } // lattice scribble (self-intersecting, duplicates)
    default: { p = ngon(r, {0, 0}, sc, true); if (p.size() > 3) { size_t k = r.below(p.size()); p.insert(p.begin() + k, p[k]); } break; }              // duplicate vertex: zero-length edge
  }
  if (r.below(4) == 0) std::reverse(p.begin(), p.end());
  return p;
}
static void contourCases(Rng& r, int count) {
  const JoinType jts[4] = {JoinType::Round, JoinType::Miter, JoinType::Square, JoinType::Bevel};
  for (int it = 0; it < count; it++) {
    int fl = (int)r.below(7);
    SimplePolygon in = genContour(r, fl);
    JoinType jt = jts[r.below(4)];
    double sc = 0; for (auto& v : in) sc = std::max({sc, std::fabs(v.x), std::fabs(v.y)});
    double delta = (r.below(2) ? 1 : -1) * sc * std::ldexp(rndIn(r, 0.5, 1), -r.range(0, 8));
    if (r.below(30) == 0) delta = 0;
    double ml = r.below(3) == 0 ? 2.0 : r.below(2) ? rndIn(r, 2, 8) : (r.below(4) == 0 ? NAN : r.below(3) == 0 ? INFINITY : rndIn(r, -1, 2));
    int seg = r.range(3, 40);
    SimplePolygon out = OffsetContour(in, delta, jt, ml, seg);
    std::string req = "crossops offset " + std::string(jtName(jt)) + " " + hx(delta) + " " + hx(ml) + " " + std::to_string(in.size()) + (in.empty() ? "" : " " + hpts(in));
    if (jt == JoinType::Round) {
      const int n = (int)in.size();
      for (int i = 0; i < n; i++) {
        vec2 V = in[i], P = in[(i + n - 1) % n], N = in[(i + 1) % n];
        vec2 nP = OutwardNormal(V - P), nN = OutwardNormal(N - V);
        req += " A";
        if (!(nP == vec2(0, 0)) && !(nN == vec2(0, 0))) req += roundArc(nP, nN, delta, seg);
      }
    }
    // per-point oracle: every pushed point lies within L |delta| of some input vertex (L: the join's bound)
    std::string msg;
    double L = jt == JoinType::Miter ? ValidMiterLimit(ml) : jt == JoinType::Square ? std::sqrt(2.0) : 1.0;
    if (in.size() >= 3 && delta != 0)
      for (auto& p : out) { LD best = 1e300L; for (auto& v : in) best = std::min(best, lenLD(p, v)); if (best > L * fabsl(delta) * (1 + 1e-6L) + 1e-12L * sc) { char b[200]; snprintf(b, sizeof b, "offset point (%.17g,%.17g) farther than %.3g |delta| from every vertex (%.6Lg)", p.x, p.y, L, best / fabsl(delta)); msg = b; } }
    stat(std::string("contour_") + jtName(jt));
    hz::emit("c12 contour-" + std::string(jtName(jt)) + "-" + std::to_string(fl) + " n=" + std::to_string(in.size()) + " out=" + std::to_string(out.size()), req, showPts(out), msg.empty(), msg.empty() ? "" : msg + " input " + fmtPoly(in));
  }
}

// ========================================================================================== public Offset / Simplify oracles
static CrossSection genSection(Rng& r, int flavour, std::string& desc) {
  double sc = std::ldexp(1.0, r.range(-2, 4));
  CrossSection cs;
  switch (flavour) {
    case 0: cs = CrossSection(ngon(r, {0, 0}, sc, true)); desc = "convex"; break;
    case 1: { SimplePolygon p; int n = 2 * r.range(3, 8); double a0 = rndIn(r, 0, 6.28), ri = rndIn(r, 0.15, 0.8); for (int i = 0; i < n; i++) { double a = a0 + 6.283185307179586 * i / n, R = sc * (i % 2 ? ri : 1.0); p.push_back({R * std::cos(a), R * std::sin(a)}); } cs = CrossSection(p); desc = "star"; break; }
    case 2: { SimplePolygon p = {{0, 0}, {sc * 4, 0}, {sc * 4, sc}, {sc, sc}, {sc, sc * 3}, {0, sc * 3}}; cs = CrossSection(p); desc = "L"; break; }
    case 3: { cs = CrossSection(ngon(r, {0, 0}, sc * 2, true, r.range(4, 12))) - CrossSection(ngon(r, {sc * rndIn(r, -0.5, 0.5), sc * rndIn(r, -0.5, 0.5)}, sc * rndIn(r, 0.2, 0.8), true)); desc = "holed"; break; }
    case 4: { cs = CrossSection::Square({sc * 3, sc * 2}) + CrossSection::Square({sc, sc}).Translate({sc * rndIn(r, 3.2, 5), sc * rndIn(r, -1, 1)}); desc = "two-pieces"; break; }
    case 5: { SimplePolygon p = {{0, 0}, {sc * 6, sc * 0.05}, {sc * 6, -sc * 0.05}}; cs = CrossSection(p); if (r.below(2)) cs = cs + CrossSection::Square({sc, sc}, true); desc = "needle"; break; }
    case 6: { int k = r.range(1, 3); SimplePolygon p; double w = sc * 4, h = sc * 2; for (int i = 0; i <= k; i++) p.push_back({w * i / (k + 1), 0}); p.push_back({w, 0}); p.push_back({w, h}); p.push_back({0, h}); cs = CrossSection(p); desc = "rect+collinear"; break; }
    case 7: { cs = CrossSection::Square({sc * 4, sc * 4}, true) - CrossSection::Square({sc * 2, sc * 2}, true) + CrossSection::Circle(sc * 0.5, r.range(5, 12)); desc = "ring+island"; break; }
    default: { cs = CrossSection::Square({sc * 3, sc * 3}) + CrossSection::Square({sc * 3, sc * 3}).Translate({sc * 2, sc * 2}) - CrossSection::Circle(sc, r.range(6, 16)).Translate({sc * 2.5, sc * 2.5}); desc = "union-minus-disc"; break; }
  }
  if (r.below(2)) cs = cs.Rotate(rndIn(r, 0, 360));
  if (r.below(3) == 0) cs = cs.Translate({rndIn(r, -20, 20), rndIn(r, -20, 20)});
  return cs;
}
// signed distance to the region bounded by `A` (negative inside)
static LD signedDist(const Polygons& A, LD px, LD py) { LD d = minDist(A, px, py); return windingAt(A, px, py) != 0 ? -d : d; }
// is p inside the band swept by moving an edge by |delta| along its outward (delta>0) / inward (delta<0) normal,
// at least m away from the band's border?  (the "input dilated along its edges")
static bool inEdgeBand(const Polygons& A, LD px, LD py, LD delta, LD m) {
  for (auto& l : A) for (size_t i = 0; i < l.size(); i++) {
    const vec2 &a = l[i], &b = l[(i + 1) % l.size()];
    LD ex = (LD)b.x - a.x, ey = (LD)b.y - a.y, len = hypotl(ex, ey);
    if (!(len > 4 * m)) continue;
    LD tx = ex / len, ty = ey / len, nx = ty, ny = -tx;  // outward normal = right of the edge direction
    LD u = (px - a.x) * tx + (py - a.y) * ty, w = (px - a.x) * nx + (py - a.y) * ny;
    if (u < m || u > len - m) continue;
    if (delta > 0 ? (w > m && w < delta - m) : (w < -m && w > delta + m)) return true;
  }
  return false;
}
struct OffsetJob { JoinType jt; double delta, ml; int seg; };
static std::string offsetOracle(Rng& r, const Polygons& A, const Polygons& P, const OffsetJob& j, LD scale, LD m, long& used) {
  const LD ad = fabsl((LD)j.delta);
  const LD L = j.jt == JoinType::Miter ? ValidMiterLimit(j.ml) : j.jt == JoinType::Square ? sqrtl(2.0L) : 1.0L;
  // chordal error of a round join: the sampled points are on the circle, consecutive ones at most 360/seg apart
  const LD chord = j.jt == JoinType::Round ? ad * (1 - cosl(3.14159265358979323846L / j.seg)) : 0;
  std::string v = crossingFree(P, m);
  if (!v.empty()) return v;
  LD x0, y0, x1, y1; bounds(A, x0, y0, x1, y1);
  LD pad = L * ad * 1.3L + 0.05L * scale;
  std::vector<std::pair<LD, LD>> samples;
  for (int k = 0; k < 220; k++) samples.push_back({x0 - pad + (x1 - x0 + 2 * pad) * rnd01(r), y0 - pad + (y1 - y0 + 2 * pad) * rnd01(r)});
  // targeted: around every vertex at radii near |delta|, and beside every edge
  for (auto& l : A) for (size_t i = 0; i < l.size(); i++) {
    const vec2 &a = l[i], &b = l[(i + 1) % l.size()];
    for (int k = 0; k < 6; k++) { LD ang = 6.283185307179586L * rnd01(r), rad = ad * (LD)rndIn(r, 0.3, 1.05 * (double)L + 0.2); samples.push_back({a.x + rad * cosl(ang), a.y + rad * sinl(ang)}); }
    LD ex = (LD)b.x - a.x, ey = (LD)b.y - a.y, len = hypotl(ex, ey);
    if (len > 0) for (int k = 0; k < 3; k++) { LD t = rnd01(r), w = (LD)j.delta * (LD)rndIn(r, 0.1, 1.3); samples.push_back({a.x + t * ex + w * ey / len, a.y + t * ey - w * ex / len}); }
  }
  for (auto& sp : samples) {
    LD px = sp.first, py = sp.second;
    if (!P.empty() && minDist(P, px, py) < m) continue;  // too close to the output boundary to classify
    int w = windingAt(P, px, py);
    if (w != 0 && w != 1) { char b[200]; snprintf(b, sizeof b, "winding %d of the offset result at (%.17Lg,%.17Lg)", w, px, py); return b; }
    bool inP = w == 1;
    LD s = signedDist(A, px, py);
    if (fabsl(s) < m) continue;
    used++;
    char b[300];
    // (1) contains the input dilated along its edges / excludes the complement dilated along its edges
    if (j.delta > 0) {
      if ((s < -m || inEdgeBand(A, px, py, j.delta, m)) && !inP) { snprintf(b, sizeof b, "point (%.17Lg,%.17Lg) of the input dilated along its edges (s=%.6Lg, delta=%.6g) is outside the offset", px, py, s, j.delta); return b; }
      // (2) stays within the miter-limit distance
      if (s > L * ad + chord + m && inP) { snprintf(b, sizeof b, "point (%.17Lg,%.17Lg) at distance %.6Lg > %.4Lg*|delta| (delta=%.6g) is inside the offset", px, py, s, L, j.delta); return b; }
      // (3) round joins: exactly the points within delta, up to the chordal error
      if (j.jt == JoinType::Round && s < (LD)j.delta - chord - m && !inP) { snprintf(b, sizeof b, "round offset misses point (%.17Lg,%.17Lg) at distance %.6Lg < delta=%.6g (chord %.3Lg)", px, py, s, j.delta, chord); return b; }
    } else {
      if ((s > m || inEdgeBand(A, px, py, j.delta, m)) && inP) { snprintf(b, sizeof b, "point (%.17Lg,%.17Lg) outside the input eroded along its edges (s=%.6Lg, delta=%.6g) is inside the offset", px, py, s, j.delta); return b; }
      if (s < -(L * ad + chord + m) && !inP) { snprintf(b, sizeof b, "point (%.17Lg,%.17Lg) deeper than %.4Lg*|delta| inside the input (s=%.6Lg, delta=%.6g) is outside the offset", px, py, L, s, j.delta); return b; }
      if (j.jt == JoinType::Round && s > (LD)j.delta + chord + m && inP) { snprintf(b, sizeof b, "round inset keeps point (%.17Lg,%.17Lg) with s=%.6Lg > delta=%.6g (chord %.3Lg)", px, py, s, j.delta, chord); return b; }
    }
  }
  return "";
}
// P(d1) subset of P(d2) for d1 < d2, by sampling: a point at least m inside P1 and at least m away from P2's boundary must be in P2
static std::string monotoneOracle(Rng& r, const Polygons& P1, const Polygons& P2, LD m, long& used) {
  if (P1.empty()) return "";
  LD x0, y0, x1, y1; bounds(P1, x0, y0, x1, y1);
  std::vector<std::pair<LD, LD>> samples;
  for (int k = 0; k < 150; k++) samples.push_back({x0 + (x1 - x0) * rnd01(r), y0 + (y1 - y0) * rnd01(r)});
  for (auto& l : P1) for (size_t i = 0; i < l.size(); i++) {  // just inside every vertex and edge midpoint of P1
    const vec2 &a = l[i], &b = l[(i + 1) % l.size()], &c = l[(i + 2) % l.size()];
    LD gx = ((LD)a.x + b.x + c.x) / 3, gy = ((LD)a.y + b.y + c.y) / 3;
    samples.push_back({b.x + (gx - b.x) * 0.02L, b.y + (gy - b.y) * 0.02L});
    LD ex = (LD)b.x - a.x, ey = (LD)b.y - a.y, len = hypotl(ex, ey);
    if (len > 0) samples.push_back({(a.x + b.x) / 2.0L - 3 * m * ey / len, (a.y + b.y) / 2.0L + 3 * m * ex / len});
  }
  for (auto& sp : samples) {
    LD px = sp.first, py = sp.second;
    if (windingAt(P1, px, py) == 0 || minDist(P1, px, py) < m) continue;
    if (!P2.empty() && minDist(P2, px, py) < m) continue;
    used++;
    if (windingAt(P2, px, py) == 0) { char b[200]; snprintf(b, sizeof b, "point (%.17Lg,%.17Lg) is inside the smaller offset but outside the larger one", px, py); return b; }
  }
  return "";
}
static void offsetCases(Rng& r, int count) {
  const JoinType jts[4] = {JoinType::Round, JoinType::Miter, JoinType::Square, JoinType::Bevel};
  for (int it = 0; it < count; it++) {
    int fl = (int)r.below(9);
    std::string desc;
    CrossSection cs = genSection(r, fl, desc);
    Polygons A = cs.ToPolygons();
    if (A.empty()) continue;
    LD x0, y0, x1, y1; bounds(A, x0, y0, x1, y1);
    LD scale = std::max(x1 - x0, y1 - y0);
    LD absScale = std::max({fabsl(x0), fabsl(x1), fabsl(y0), fabsl(y1)});
    OffsetJob j;
    j.jt = jts[r.below(4)];
    LD rel = r.below(3) == 0 ? (LD)rndIn(r, 0.15, 0.6) : (LD)rndIn(r, 0.005, 0.15);
    j.delta = (double)((r.below(2) ? 1 : -1) * rel * scale);
    j.ml = r.below(3) == 0 ? 2.0 : r.below(3) ? rndIn(r, 2, 6) : (r.below(2) ? 1.0 : NAN);
    j.seg = r.below(4) == 0 ? 0 : r.below(3) == 0 ? r.range(3, 6) : r.range(7, 64);
    int segEff = j.seg >= 3 ? j.seg : Quality::GetCircularSegments(std::fabs(j.delta));
    OffsetJob je = j; je.seg = std::max(3, segEff);
    CrossSection res = cs.Offset(j.delta, j.jt, j.ml, j.seg);
    Polygons P = res.ToPolygons();
    LD m = std::max<LD>(1e-7L * std::max(scale, absScale), 10 * (LD)std::max(res.GetTolerance(), cs.GetTolerance()));
    long used = 0;
    std::string msg = offsetOracle(r, A, P, je, scale, m, used);
    stat("offset_samples", used); stat(std::string("offset_") + jtName(j.jt)); stat(j.delta > 0 ? "offset_pos" : "offset_neg");
    char tag[300];
    snprintf(tag, sizeof tag, "c12 offset-%s-%s delta=%.6g ml=%.4g seg=%d rings=%zu->%zu samples=%ld", jtName(j.jt), desc.c_str(), j.delta, j.ml, j.seg, A.size(), P.size(), used);
    hz::emit(tag, "", "", msg.empty(), msg.empty() ? "" : msg + " input " + fmtPolys(A));
    // monotone in delta: a second offset with a larger delta (beyond the chordal error for round joins)
    if (it % 2 == 0) {
      LD k = j.jt == JoinType::Round ? 1 / cosl(3.14159265358979323846L / je.seg) + 0.15L : 1 + (LD)rndIn(r, 0.05, 0.8);
      double d1, d2;
      switch (r.below(3)) {
        case 0: d1 = j.delta; d2 = j.delta > 0 ? (double)(j.delta * k) : (double)(j.delta / k); break;  // same sign
        case 1: d1 = -std::fabs(j.delta); d2 = std::fabs(j.delta) * rndIn(r, 0.2, 1.5); break;            // across zero
        default: d1 = j.delta > 0 ? 0.0 : j.delta; d2 = j.delta > 0 ? j.delta : 0.0; break;                // against the input itself
      }
      int seg2 = je.seg;
      Polygons P1 = d1 == j.delta ? P : cs.Offset(d1, j.jt, j.ml, seg2).ToPolygons();
      Polygons P2 = d2 == j.delta ? P : cs.Offset(d2, j.jt, j.ml, seg2).ToPolygons();
      if (j.seg < 3 && (d1 == j.delta || d2 == j.delta)) { P1 = cs.Offset(d1, j.jt, j.ml, seg2).ToPolygons(); P2 = cs.Offset(d2, j.jt, j.ml, seg2).ToPolygons(); }
      long used2 = 0;
      std::string m2 = monotoneOracle(r, P1, P2, m, used2);
      stat("monotone_samples", used2); stat("monotone");
      snprintf(tag, sizeof tag, "c12 monotone-%s-%s d1=%.6g d2=%.6g ml=%.4g seg=%d samples=%ld", jtName(j.jt), desc.c_str(), d1, d2, j.ml, seg2, used2);
      hz::emit(tag, "", "", m2.empty(), m2.empty() ? "" : m2 + " input " + fmtPolys(A));
    }
  }
  // non-finite and zero delta
  CrossSection sq = CrossSection::Square({2, 3});
  bool ok = sq.Offset(NAN).IsEmpty() && sq.Offset(INFINITY).IsEmpty() && sq.Offset(-INFINITY).IsEmpty() && hpts(sq.Offset(0).ToPolygons()[0]) == hpts(sq.ToPolygons()[0]);
  hz::emit("c12 offset-nonfinite", "", "", ok, ok ? "" : "Offset(NaN/inf) must be empty and Offset(0) the input");
}
static void simplifyApiCases(Rng& r, int count) {
  for (int it = 0; it < count; it++) {
    int fl = (int)r.below(9);
    std::string desc;
    CrossSection cs = genSection(r, fl, desc);
    if (r.below(2)) cs = cs.Offset((r.below(2) ? 1 : -1) * rndIn(r, 0.02, 0.3), JoinType::Round, 2.0, r.range(8, 40));
    Polygons A = cs.ToPolygons();
    if (A.empty()) continue;
    LD x0, y0, x1, y1; bounds(A, x0, y0, x1, y1);
    double scale = (double)std::max(x1 - x0, y1 - y0);
    double tol = r.below(5) == 0 ? 0.0 : scale * std::ldexp(1.0, -r.range(2, 16));
    CrossSection res = cs.Simplify(tol);
    Polygons S = res.ToPolygons();
    double effTol = tol == 0 ? cs.GetTolerance() : tol;
    std::string msg;
    std::vector<bool> taken(A.size(), false);
    for (auto& out : S) {
      int match = -1;
      for (size_t k = 0; k < A.size() && match < 0; k++) if (!taken[k] && subsequence(out, A[k])) match = (int)k;
      if (match < 0) { msg = "a ring of Simplify() is not an in-order subset of an input ring: " + fmtPoly(out); break; }
      taken[match] = true;
      std::string e = exitCondition(out, effTol);
      if (!e.empty()) { msg = e; break; }
    }
    stat("simplify_api");
    char tag[200]; snprintf(tag, sizeof tag, "c12 simplifyapi-%s tol=%.6g rings=%zu->%zu", desc.c_str(), tol, A.size(), S.size());
    hz::emit(tag, "", "", msg.empty(), msg.empty() ? "" : msg + " input " + fmtPolys(A));
  }
}


// ------------------------------------------------------------------------------------------------ lazy transform histories
// Offset / Hull / Decompose / Simplify "mean what they say" whatever the history of the object: a CrossSection whose
// transform is still pending (never looked at) must give bit for bit the result of an equal CrossSection whose transform
// was materialised first (NumVert(), GetTolerance(), ToPolygons() called on it), and Simplify() with the default
// tolerance must leave no vertex closer than the object's OWN (rescaled) tolerance to the line through its neighbours.
static uint64_t bitsOf(double d) { uint64_t u; memcpy(&u, &d, 8); return u; }
static bool samePolys(const Polygons& a, const Polygons& b) {
  if (a.size() != b.size()) return false;
  for (size_t i = 0; i < a.size(); i++) { if (a[i].size() != b[i].size()) return false; for (size_t j = 0; j < a[i].size(); j++) if (memcmp(&a[i][j], &b[i][j], sizeof(vec2)) != 0) return false; }
  return true;
}
static void lazyApiCases(Rng& r, int count) {
  for (int it = 0; it < count; it++) {
    std::string desc; CrossSection base = genSection(r, (int)r.below(9), desc);
    Polygons B0 = base.ToPolygons(); if (B0.empty()) continue;
    LD x0, y0, x1, y1; bounds(B0, x0, y0, x1, y1); const double scale0 = (double)std::max(x1 - x0, y1 - y0);
    const int pre = (int)r.below(3); const double t0 = scale0 * std::ldexp(1.0, -r.range(4, 12));
    if (pre == 1) base = base.Simplify(t0); else if (pre == 2) base = base.SetTolerance(t0);
    const double sx = r.below(2) ? rndIn(r, 2, 60) : rndIn(r, 0.05, 1), sy = r.below(2) ? rndIn(r, 2, 60) : rndIn(r, 0.05, 1), ang = r.below(2) ? 90.0 * r.below(4) : rndIn(r, -180, 180);
    const vec2 tr(rndIn(r, -5, 5) * scale0, rndIn(r, -5, 5) * scale0); const int nx = (int)r.below(4);
    auto xf = [&](const CrossSection& c) { CrossSection x = c.Scale({sx, sy}); if (nx >= 1) x = x.Rotate(ang); if (nx >= 2) x = x.Translate(tr); if (nx >= 3) x = x.Mirror({1.0, 0.3}); return x; };
    CrossSection lazyIn = xf(base), matIn = xf(base);
    const size_t nv = matIn.NumVert(); const double tm = matIn.GetTolerance(); Polygons PM = matIn.ToPolygons(); (void)nv;
    LD a0, b0, a1, b1; if (PM.empty()) continue; bounds(PM, a0, b0, a1, b1); const double scale = (double)std::max(a1 - a0, b1 - b0);
    const int op = (int)r.below(6); const double t = scale * std::ldexp(1.0, -r.range(3, 12)), dlt = (r.below(2) ? 1 : -1) * scale * rndIn(r, 0.01, 0.1); const int jt = (int)r.below(4), seg = r.range(6, 24);
    auto apply = [&](const CrossSection& c) -> CrossSection {
      switch (op) { case 0: case 1: return c.Simplify(0.0); case 2: return c.Simplify(t); case 3: return c.Offset(dlt, (JoinType)jt, 2.0, seg); case 4: return c.Hull();
        default: { auto v = c.Decompose(); return v.empty() ? CrossSection() : v[0]; } } };
    static const char* on[] = {"Simplify()", "Simplify()", "Simplify(t)", "Offset", "Hull", "Decompose[0]"};
    CrossSection rl = apply(lazyIn), rm = apply(matIn);
    Polygons RL = rl.ToPolygons(), RM = rm.ToPolygons();
    std::string msg; char b[400];
    if (!samePolys(RL, RM)) { snprintf(b, sizeof b, "%s of a CrossSection with a pending transform differs from %s of the same CrossSection after its transform was materialised (%zu vs %zu contours, %zu vs %zu vertices)", on[op], on[op], RL.size(), RM.size(), (size_t)rl.NumVert(), (size_t)rm.NumVert()); msg = b; }
    else if (bitsOf(rl.GetTolerance()) != bitsOf(rm.GetTolerance())) { snprintf(b, sizeof b, "%s: GetTolerance() %.17g (pending transform) vs %.17g (materialised first)", on[op], rl.GetTolerance(), rm.GetTolerance()); msg = b; }
    if (msg.empty() && op <= 1) for (auto& out : RL) { std::string e = exitCondition(out, tm); if (!e.empty()) { msg = "Simplify() with the default tolerance on a CrossSection with a pending transform (own tolerance " + std::to_string(tm) + "): " + e; break; } }
    stat("lazy_api"); stat(std::string("lazy_api_") + on[op]);
    char tag[240]; snprintf(tag, sizeof tag, "c12 lazyapi-%s pre=%d scale=(%.3g,%.3g) xf=%d op=%s", desc.c_str(), pre, sx, sy, nx, on[op]);
    hz::emit(tag, "", "", msg.empty(), msg.empty() ? "" : msg + " base " + fmtPolys(B0));
  }
}

int main(int argc, char** argv) {
  int nUnit = argc > 1 ? atoi(argv[1]) : 100, nOffset = argc > 2 ? atoi(argv[2]) : 60, nApi = argc > 3 ? atoi(argv[3]) : 40;
  Rng r(hz::envSeed());
  hullCases(r, nUnit);
  simplifyCases(r, nUnit);
  primitiveCases(r, nUnit / 2);
  decomposeCases(r, nUnit / 2);
  joinCases(r, nUnit / 2);
  contourCases(r, nUnit);
  offsetCases(r, nOffset);
  simplifyApiCases(r, nApi);
  lazyApiCases(r, nApi);
  printf("STATS");
  for (auto& kv : gStat) printf(" %s=%ld", kv.first.c_str(), kv.second);
  printf("\n");
  return 0;
}
