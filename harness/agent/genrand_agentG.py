import random, itertools, sys
random.seed(int(sys.argv[1])); N=int(sys.argv[2])
def tetra(vs, flip):
    a,b,c,d=vs
    ts=[(a,c,b),(a,b,d),(b,c,d),(c,a,d)]
    if flip: ts=[(x,z,y) for (x,y,z) in ts]
    return ts
def pillow(vs, flip):
    a,b,c=vs
    return [(a,b,c),(b,a,c)]
def bipyr(vs, flip):
    # triangular bipyramid: apexes p,q over triangle a,b,c
    p,q,a,b,c=vs
    ts=[(p,a,b),(p,b,c),(p,c,a),(q,b,a),(q,c,b),(q,a,c)]
    if flip: ts=[(x,z,y) for (x,y,z) in ts]
    return ts
for _ in range(N):
    nV=random.randint(3,7)
    ts=[]
    for _ in range(random.randint(1,6)):
        kind=random.random()
        if kind<0.5 and nV>=4:
            ts+=tetra(random.sample(range(nV),4), random.random()<0.5)
        elif kind<0.7 and nV>=5:
            ts+=bipyr(random.sample(range(nV),5), random.random()<0.5)
        else:
            ts+=pillow(random.sample(range(nV),3), False)
    random.shuffle(ts)
    out=[]
    for t in ts:
        r=random.randint(0,2); t=t[r:]+t[:r]; out+=list(t)
    print(nV,len(ts)," ".join(map(str,out)))
