#!/bin/bash
# Build the two shims (see the header of each .cpp), then: ./runtests.sh [path to mvdriver]
# Every output line of the real C++ run must equal the driver's output line.
DRV=${1:-../.lake/build/bin/mvdriver}
set -e
sed 's/std::vector<std::atomic<uint64_t>>/std::vector<LogAtomic>/' /repo/src/disjoint_sets.h > ds_shim.h
g++ -std=c++17 -O1 -pthread -I/repo/src -I/repo/include -I. dsu_shim.cpp -o dsu_shim
sed -e 's/const uint64_t found = AtomicCAS(k, kOpen, key);/const uint64_t found = ShimCAS(k, kOpen, key);/' -e 's/AtomicLoad(keys_\[idx\])/ShimLoad(keys_[idx])/g' -e 's/used_.load(std::memory_order_relaxed)/ShimUsedLoad(used_)/g' -e 's/used_.fetch_add(1, std::memory_order_relaxed);/ShimFetchAdd(used_);/' -e 's/values_\[idx\] = val;/ShimStore(values_, idx, val);/' /repo/src/hashtable.h > hashtable_shim.h
g++ -std=c++17 -O1 -pthread -DMANIFOLD_PAR=-1 -I/repo/src -I/repo/include -I. hash_shim.cpp -o hash_shim
set +e
rm -f in.txt want_all.txt
for seed in $(seq 1 60); do for cfg in "4 3 4" "8 3 12" "12 4 10" "16 2 30"; do set -- $cfg
  ./dsu_shim $seed $1 $2 $3 > out.txt; head -1 out.txt >> in.txt; tail -1 out.txt >> want_all.txt; done; done
for seed in $(seq 1 40); do for cfg in "2 1 3 4 5 id" "3 3 4 4 20 id" "3 1 3 6 30 h64" "2 2 3 4 9 id"; do set -- $cfg
  # a timeout = operator[] spinning on a full table / Insert cycling with an even step (real livelock)
  timeout 20 ./hash_shim $seed $1 $2 $3 $4 $5 $6 > out.txt || continue
  head -1 out.txt >> in.txt; tail -1 out.txt >> want_all.txt; done; done
$DRV < in.txt > got_all.txt
echo "lines: $(wc -l < in.txt)"; cmp got_all.txt want_all.txt && echo ALL-MATCH
