// Controlled-atomics shim used to validate MV/Model/Dsu.lean against the real /repo/src/disjoint_sets.h.
// build: sed 's/std::vector<std::atomic<uint64_t>>/std::vector<LogAtomic>/' /repo/src/disjoint_sets.h > ds_shim.h
//        g++ -std=c++17 -O1 -pthread -I/repo/src -I/repo/include -I. dsu_shim.cpp -o dsu_shim
// run:   ./dsu_shim <seed> <n> <threads> <maxOpsPerThread>   prints: line 1 = driver input, line 2 = expected driver output
// controlled-atomics shim: threads run real DisjointSets code; every atomic op is a yield point
#include <atomic>
#include <condition_variable>
#include <cstdint>
#include <cstdio>
#include <mutex>
#include <random>
#include <string>
#include <thread>
#include <vector>
struct LogAtomic;
static LogAtomic* g_base = nullptr;
static std::string g_log, g_sched;
static std::mutex g_mu;
static std::condition_variable g_cv;
static int g_turn = -1;                 // thread allowed to perform one op
static bool g_spur = false;
static std::vector<int> g_state;        // 0 running, 1 waiting at op, 2 finished
static thread_local int t_id = -1;
static bool g_ctl = false;
static void acquire() {
  if (!g_ctl || t_id < 0) return;
  std::unique_lock<std::mutex> lk(g_mu);
  g_state[t_id] = 1; g_cv.notify_all();
  g_cv.wait(lk, [] { return g_turn == t_id; });
}
static void release() {
  if (!g_ctl || t_id < 0) return;
  std::unique_lock<std::mutex> lk(g_mu);
  g_turn = -1; g_state[t_id] = 0; g_cv.notify_all();
}
struct LogAtomic {
  uint64_t v = 0;
  LogAtomic() {}
  LogAtomic(const LogAtomic& o) : v(o.v) {}
  long idx() const { return this - g_base; }
  void operator=(uint64_t x) { v = x; }
  operator uint64_t() const {
    acquire();
    if (g_ctl && t_id >= 0) { char b[100]; snprintf(b, 100, " L %d %ld %llu", t_id, idx(), (unsigned long long)v); g_log += b; }
    uint64_t r = v; release(); return r;
  }
  uint64_t load() const { return v; }
  bool cas(uint64_t& e, uint64_t d, char k) {
    acquire();
    bool ok = v == e && !(k == 'W' && g_spur);
    if (g_ctl && t_id >= 0) { char b[160]; snprintf(b, 160, " %c %d %ld %llu %llu %d", k, t_id, idx(), (unsigned long long)e, (unsigned long long)d, ok); g_log += b; }
    if (ok) v = d; else e = v;
    release(); return ok;
  }
  bool compare_exchange_strong(uint64_t& e, uint64_t d) { return cas(e, d, 'C'); }
  bool compare_exchange_weak(uint64_t& e, uint64_t d) { return cas(e, d, 'W'); }
};
#include "ds_shim.h"
struct OpT { int k, a, b; };
int main(int argc, char** argv) {
  int seed = atoi(argv[1]); int n = atoi(argv[2]); int T = atoi(argv[3]); int m = atoi(argv[4]);
  std::mt19937 g(seed);
  DisjointSets d(n);
  g_base = d.mData.data();
  std::vector<std::vector<OpT>> progs(T);
  std::vector<std::vector<long>> res(T);
  printf("dsu %d", n);
  for (int t = 0; t < T; t++) {
    printf(" ;");
    int mm = g() % (m + 1);
    for (int i = 0; i < mm; i++) {
      int a = g() % n, b = g() % n; int k = g() % 4;
      if (i) printf(" ,");
      if (k <= 1) printf(" u %d %d", a, b); else if (k == 2) printf(" f %d", a); else printf(" s %d %d", a, b);
      progs[t].push_back({k, a, b});
    }
  }
  g_state.assign(T, 0); g_ctl = true;
  std::vector<std::thread> th;
  for (int t = 0; t < T; t++) th.emplace_back([&, t] {
    t_id = t;
    for (auto& o : progs[t]) {
      if (o.k <= 1) res[t].push_back(d.unite(o.a, o.b));
      else if (o.k == 2) res[t].push_back(d.find(o.a));
      else res[t].push_back(d.same(o.a, o.b));
    }
    std::unique_lock<std::mutex> lk(g_mu); g_state[t] = 2; g_cv.notify_all();
  });
  // scheduler
  for (;;) {
    std::unique_lock<std::mutex> lk(g_mu);
    g_cv.wait(lk, [&] { if (g_turn != -1) return false; for (int s : g_state) if (s == 0) return false; return true; });
    std::vector<int> live; for (int t = 0; t < T; t++) if (g_state[t] == 1) live.push_back(t);
    if (live.empty()) break;
    int t = live[g() % live.size()];
    g_spur = (g() % 3 == 0);
    size_t before = g_log.size();
    g_turn = t; g_cv.notify_all();
    g_cv.wait(lk, [&] { return g_turn == -1; });
    // was this a W op? then record '!' if spurious
    bool wasW = g_log.size() > before && g_log[before + 1] == 'W';
    g_sched += " " + std::to_string(t) + ((wasW && g_spur) ? "!" : "");
  }
  for (auto& x : th) x.join();
  g_ctl = false;
  printf(" ; sched%s\n", g_sched.c_str());
  printf("ok | log%s | mem", g_log.c_str());
  for (int i = 0; i < n; i++) printf(" %llu", (unsigned long long)d.mData[i].load());
  printf(" | res");
  for (int t = 0; t < T; t++) { printf(" T%d", t); for (auto r : res[t]) printf(" %ld", r); }
  std::vector<int> comp; int k = d.connectedComponents(comp);
  printf(" | q 1 | cc %d", k);
  for (int c : comp) printf(" %d", c);
  // independent sequential reference: label = least element of the class
  std::vector<int> lab(n); for (int i = 0; i < n; i++) lab[i] = i;
  for (int t = 0; t < T; t++) for (auto& o : progs[t]) if (o.k <= 1) {
    int la = lab[o.a], lb = lab[o.b]; int lo = la < lb ? la : lb, hi = la < lb ? lb : la;
    for (int i = 0; i < n; i++) if (lab[i] == hi) lab[i] = lo;
  }
  printf(" | seq"); for (int i = 0; i < n; i++) printf(" %d", lab[i]);
  printf("\n");
}
