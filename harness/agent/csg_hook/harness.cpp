// Replays the `csg` line protocol on the real library (patched scratch copy) and prints the
// evaluator's events in the driver's output format, plus the oracle bits of every force.
#include <iostream>
#include <map>
#include <sstream>
#include <string>
#include <vector>

#include "../src/csg_tree.h"
#include "../src/impl.h"
#include "manifold/manifold.h"

using namespace manifold;

static std::map<const Manifold::Impl*, std::string> names;
static std::vector<std::shared_ptr<const Manifold::Impl>> keep;
static int nextRes = 0;

static std::string matStr(const mat3x4& m) {
  std::ostringstream o;
  for (int r = 0; r < 3; r++)
    for (int c = 0; c < 4; c++) {
      if (r || c) o << " ";
      o << (long long)m[c][r];
    }
  return o.str();
}

static std::string nameOf(const std::shared_ptr<CsgLeafNode>& l, bool isResult) {
  auto impl = l->RawImpl();
  auto it = names.find(impl.get());
  if (it == names.end()) {
    if (!isResult) return "?";
    keep.push_back(impl);
    std::string n = "r" + std::to_string(nextRes++);
    names[impl.get()] = n;
    return n;  // new mesh: identity transform
  }
  std::string s = it->second + ":" + matStr(l->RawTransform());
  return s;
}

static void reg(const Manifold& m, const std::string& n) {
  auto leaf = std::static_pointer_cast<CsgLeafNode>(m.RootForTest());
  auto impl = leaf->RawImpl();
  keep.push_back(impl);
  names[impl.get()] = n;
}

static OpType parseOp(const std::string& s) {
  if (s == "add") return OpType::Add;
  if (s == "sub") return OpType::Subtract;
  return OpType::Intersect;
}

int main() {
  std::string line;
  while (std::getline(std::cin, line)) {
    names.clear();
    keep.clear();
    nextRes = 0;
    g_csgTestLog.bits.clear();
    g_csgTestLog.events.clear();
    g_csgTestLog.name = nameOf;
    std::map<int, Manifold> H;
    std::vector<std::string> out;
    std::vector<std::string> bitsOut;
    std::istringstream ls(line);
    std::vector<std::string> toks;
    for (std::string t; ls >> t;) toks.push_back(t);
    size_t i = 0;
    if (!toks.empty() && toks[0] == "csg") i = 1;
    while (i < toks.size()) {
      std::vector<std::string> it;
      while (i < toks.size() && toks[i] != ";") it.push_back(toks[i++]);
      i++;
      if (it.empty()) continue;
      if (it[0] == "leaf") {
        int h = std::stoi(it[1]);
        // distinct, overlapping boxes
        Manifold m = Manifold::Cube(vec3(2.0 + 0.1 * h, 2.0, 2.0), true)
                         .Translate(vec3(0.05 * h, 0.03 * h, 0.01 * h));
        m.NumTri();  // make it a plain leaf with baked transform
        m = Manifold(m.GetMeshGL64());  // fresh Impl, identity transform
        H.erase(h);
        H.emplace(h, m);
        reg(H.at(h), std::to_string(h));
      } else if (it[0] == "bool") {
        int h = std::stoi(it[1]);
        Manifold r = H.at(std::stoi(it[3])).Boolean(H.at(std::stoi(it[4])), parseOp(it[2]));
        H.erase(h);
        H.emplace(h, r);
      } else if (it[0] == "batch") {
        int h = std::stoi(it[1]);
        std::vector<Manifold> v;
        for (size_t k = 3; k < it.size(); k++) v.push_back(H.at(std::stoi(it[k])));
        Manifold r = Manifold::BatchBoolean(v, parseOp(it[2]));
        v.clear();
        H.erase(h);
        H.emplace(h, r);
        if (it.size() == 3) reg(H.at(h), "e");
      } else if (it[0] == "xf") {
        int h = std::stoi(it[1]);
        mat3x4 m;
        for (int r = 0; r < 3; r++)
          for (int c = 0; c < 4; c++) m[c][r] = std::stod(it[3 + r * 4 + c]);
        Manifold r = H.at(std::stoi(it[2])).Transform(m);
        H.erase(h);
        H.emplace(h, r);
      } else if (it[0] == "drop") {
        H.erase(std::stoi(it[1]));
      } else if (it[0] == "force") {
        int h = std::stoi(it[1]);
        g_csgTestLog.bits.clear();
        g_csgTestLog.events.clear();
        H.at(h).ForceEvalForTest();
        for (auto& e : g_csgTestLog.events) out.push_back(e);
        auto leaf = std::static_pointer_cast<CsgLeafNode>(H.at(h).RootForTest());
        out.push_back("ret " + nameOf(leaf, false) + " bits-used " +
                      std::to_string(g_csgTestLog.bits.size()));
        std::string b;
        for (int x : g_csgTestLog.bits) b += (b.empty() ? "" : " ") + std::to_string(x);
        bitsOut.push_back(b);
      }
    }
    std::string o;
    for (size_t k = 0; k < out.size(); k++) o += (k ? " | " : "") + out[k];
    std::cout << o << "\n";
    std::string bo;
    for (size_t k = 0; k < bitsOut.size(); k++) bo += (k ? " ; " : "") + bitsOut[k];
    std::cout << "BITS " << bo << "\n";
  }
}
