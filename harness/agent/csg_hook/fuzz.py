import random, subprocess, sys
MATS = [
 "1 0 0 1 0 1 0 0 0 0 1 0", "1 0 0 0 0 1 0 -1 0 0 1 0", "2 0 0 0 0 2 0 0 0 0 2 0",
 "0 -1 0 0 1 0 0 0 0 0 1 0", "-1 0 0 0 0 1 0 0 0 0 1 0", "1 0 0 0 0 1 0 0 0 0 1 1",
 "1 0 0 0 0 1 0 0 0 0 1 0",
]
def gen(rng, nleaf, ncmd, pforce):
    items=[]; live=[]
    for h in range(1,nleaf+1):
        items.append(("leaf",f"leaf {h}")); live.append(h)
    nxt=nleaf+1
    forces=0
    for _ in range(ncmd):
        r=rng.random()
        if r < 0.40:
            a=rng.choice(live); b=rng.choice(live)
            op=rng.choice(["add","add","sub","sub","int"])
            if rng.random()<0.3: h=rng.choice([x for x in live if x>nleaf] or [nxt])
            else: h=nxt
            if h==nxt: nxt+=1
            items.append(("x",f"bool {h} {op} {a} {b}"))
            if h not in live: live.append(h)
        elif r < 0.50:
            k=rng.choice([0,1,2,3,3,4])
            ops=[rng.choice(live) for _ in range(k)]
            op=rng.choice(["add","sub","int"])
            h=nxt; nxt+=1
            items.append(("x",(f"batch {h} {op} "+" ".join(map(str,ops))).strip()))
            live.append(h)
        elif r < 0.70:
            a=rng.choice(live); h=nxt; nxt+=1
            items.append(("x",f"xf {h} {a} {rng.choice(MATS)}"))
            live.append(h)
        elif r < 0.80:
            cands=[x for x in live if x>nleaf]
            if cands and len(live)>2:
                h=rng.choice(cands); live.remove(h)
                items.append(("x",f"drop {h}"))
        else:
            if rng.random()<pforce:
                h=rng.choice(live)
                items.append(("force",h)); forces+=1
    h=rng.choice(live); items.append(("force",h))
    return items
def line(items,bits=None):
    out=[]; k=0
    for kind,x in items:
        if kind=="force":
            b = (" "+bits[k]) if (bits is not None and bits[k]) else ""
            out.append(f"force {x}{b}"); k+=1
        else: out.append(x)
    return "csg "+" ; ".join(out)
def main():
    seed=int(sys.argv[1]); n=int(sys.argv[2])
    rng=random.Random(seed)
    progs=[gen(rng, rng.randint(2,6), rng.randint(3,int(sys.argv[3]) if len(sys.argv)>3 else 22), 0.8) for _ in range(n)]
    inp="\n".join(line(p) for p in progs)+"\n"
    r=subprocess.run(["/tmp/agE_repo/harness/harness"],input=inp,capture_output=True,text=True)
    ls=r.stdout.strip("\n").split("\n")
    assert len(ls)==2*n,(len(ls),r.stderr[:500])
    cpp=[ls[2*i] for i in range(n)]
    bits=[ls[2*i+1][5:].split(" ; ") if ls[2*i+1][5:]!="" else [""] for i in range(n)]
    dl=[]
    for p,b in zip(progs,bits):
        nf=sum(1 for k,_ in p if k=="force")
        b=[x.strip() for x in b]
        while len(b)<nf: b.append("")
        dl.append(line(p,b))
    r2=subprocess.run(["/tmp/agE/.lake/build/bin/mvdriver"],input="\n".join(dl)+"\n",capture_output=True,text=True)
    lean=r2.stdout.strip("\n").split("\n")
    bad=0; nev=0
    for i in range(n):
        nev+=cpp[i].count("fin ")
        if cpp[i]!=lean[i]:
            bad+=1
            if bad<=3:
                print("MISMATCH\n prog:",dl[i],"\n cpp :",cpp[i],"\n lean:",lean[i])
    print(f"seed {seed}: {n} programs, {nev} finalize events, {bad} mismatches")
main()
