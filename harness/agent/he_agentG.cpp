#include "../../../../repo/src/impl.h"
#include <iostream>
#include <sstream>
using namespace manifold;
int main() {
  std::string line;
  while (std::getline(std::cin, line)) {
    std::istringstream is(line);
    int nV, nT; is >> nV >> nT;
    Vec<ivec3> tv(nT);
    for (int t = 0; t < nT; ++t) { is >> tv[t][0] >> tv[t][1] >> tv[t][2]; }
    Manifold::Impl impl;
    impl.vertPos_.resize(nV);
    impl.CreateHalfedges(tv);
    const int n = impl.halfedge_.size();
    std::cout << "start";
    for (int e = 0; e < n; ++e) std::cout << " " << impl.halfedge_.Start(e);
    std::cout << " | paired";
    for (int e = 0; e < n; ++e) std::cout << " " << impl.halfedge_.Pair(e);
    std::cout << " | prop";
    for (int e = 0; e < n; ++e) std::cout << " " << impl.halfedge_.Prop(e);
    std::cout << "\n";
  }
}
