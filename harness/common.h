// shared helpers for the correspondence harnesses
#pragma once
#include <cstdint>
#include <cstdio>
#include <cstdlib>
#include <string>
#include <vector>
namespace hz {
struct Rng {
  uint64_t s;
  explicit Rng(uint64_t seed) : s(seed * 0x9E3779B97F4A7C15ull + 0xD1B54A32D192ED03ull) { if (!s) s = 1; }
  uint64_t next() { s ^= s << 13; s ^= s >> 7; s ^= s << 17; return s; }
  size_t below(size_t n) { return n ? next() % n : 0; }
  int range(int lo, int hi) { return lo + (int)below((size_t)(hi - lo + 1)); }
};
inline uint64_t envSeed() { const char* e = getenv("VERIF_SEED"); return e ? strtoull(e, nullptr, 10) : 1; }
inline bool thorough() { const char* e = getenv("VERIF_TIER"); return e && std::string(e) == "thorough"; }
template <typename V> std::string join(const V& v) {
  std::string s; bool first = true;
  for (auto& x : v) { if (!first) s += ' '; first = false; s += std::to_string(x); }
  return s;
}
// one correspondence case: the request sent to the Lean driver, the implementation's
// answer in the same canonical form, and the verdict of the property oracle
inline void emit(const std::string& tag, const std::string& req, const std::string& exp, bool propOk, const std::string& propMsg = "") {
  printf("CASE %s\nREQ %s\nEXP %s\nPROP %s%s%s\n", tag.c_str(), req.c_str(), exp.c_str(), propOk ? "ok" : "FAIL", propMsg.empty() ? "" : " ", propMsg.c_str());
}
}
