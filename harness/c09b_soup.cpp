// C09b: the import gate `CreateHalfedges` + `IsManifold()` on ARBITRARY triangle soups that the
// validation ladder accepts (indices < nV, no repeated vertex in a triangle, even count, >= 4
// triangles, >= 4 vertices) but that are mostly NOT manifolds.
//   (1) the REAL Impl::CreateHalfedges + Impl::IsManifold (under ASan+UBSan) versus the Lean model
//       (`mesh soup`): the three arrays and the verdict, exactly;
//       oracle on the real output: the verdict equals an independent evaluation of "paired is a
//       fixed-point-free involution joining opposite directed edges, tombstones by whole triangles".
//   (2) the REAL constructor Manifold(MeshGL) on the same soup with generic positions: its Status is
//       NoError iff (1) said manifold, NotManifold otherwise; a NoError result is exported and goes
//       through the verified mesh checker (`mesh checkmerge`).
// usage: c09b_soup <cases>
#include "impl.h"
#include "manifold/manifold.h"
#include <algorithm>
#include <map>
#include <sstream>
#include "common.h"
using namespace manifold;
using hz::Rng;

typedef std::vector<ivec3> Tris;
static ivec3 flipT(ivec3 t) { return ivec3(t[1], t[0], t[2]); }
static void pick(Rng& r, int nV, int* v, int n) {  // n distinct vertices
  for (int i = 0; i < n; i++) { bool again = true; while (again) { v[i] = (int)r.below(nV); again = false; for (int j = 0; j < i; j++) if (v[j] == v[i]) again = true; } }
}
static void addTet(Tris& ts, const int* v, bool flip) {
  int f[4][3] = {{0, 2, 1}, {0, 1, 3}, {1, 2, 3}, {2, 0, 3}};
  for (auto& q : f) { ivec3 t(v[q[0]], v[q[1]], v[q[2]]); ts.push_back(flip ? flipT(t) : t); }
}
static void addOcta(Tris& ts, const int* v, bool flip) {  // v[0..3] equator, v[4] top, v[5] bottom
  for (int i = 0; i < 4; i++) { int a = v[i], b = v[(i + 1) % 4]; ivec3 t1(a, b, v[4]), t2(b, a, v[5]); ts.push_back(flip ? flipT(t1) : t1); ts.push_back(flip ? flipT(t2) : t2); }
}
static void closedPieces(Rng& r, int nV, Tris& ts, int pieces) {
  for (int p = 0; p < pieces; p++) {
    int v[6];
    if (nV >= 6 && r.below(3) == 0) { pick(r, nV, v, 6); addOcta(ts, v, r.below(2)); } else { pick(r, nV, v, 4); addTet(ts, v, r.below(2)); }
  }
}
static ivec3 randTri(Rng& r, int nV) { int v[3]; pick(r, nV, v, 3); return ivec3(v[0], v[1], v[2]); }

static const char* KINDS[] = {"balanced", "flip1", "fan", "ascending", "dupSame", "dupOpp", "tetShare", "moebius", "random", "flipMany", "dupOppMulti", "dropPair"};
static const int NK = 12;

static void gen(Rng& r, int kind, int& nV, Tris& ts) {
  nV = 4 + (int)r.below(r.below(8) == 0 ? 40 : 7); ts.clear();
  switch (kind) {
    case 0: closedPieces(r, nV, ts, 1 + (int)r.below(4)); if (r.below(3) == 0) { ivec3 t = randTri(r, nV); ts.push_back(t); ts.push_back(flipT(t)); } break;
    case 1: { closedPieces(r, nV, ts, 1 + (int)r.below(3)); size_t i = r.below(ts.size()); ts[i] = flipT(ts[i]); break; }
    case 2: {  // k triangles around one edge, random orientations, padded with a closed piece
      nV = std::max(nV, 9); int k = 3 + (int)r.below(4); int v[8]; pick(r, nV, v, 2 + k);
      for (int i = 0; i < k; i++) { ivec3 t(v[0], v[1], v[2 + i]); ts.push_back(r.below(2) ? t : flipT(t)); }
      if (r.below(2)) closedPieces(r, nV, ts, 1); break; }
    case 3: { int n = 4 + 2 * (int)r.below(6); for (int i = 0; i < n; i++) { ivec3 t = randTri(r, nV); int a[3] = {t[0], t[1], t[2]}; std::sort(a, a + 3); ts.push_back(ivec3(a[0], a[1], a[2])); } break; }
    case 4: { closedPieces(r, nV, ts, 1 + (int)r.below(2)); int d = 1 + (int)r.below(3); for (int i = 0; i < d; i++) ts.push_back(ts[r.below(ts.size())]); break; }
    case 5: { closedPieces(r, nV, ts, 1 + (int)r.below(2)); int d = 1 + (int)r.below(3); for (int i = 0; i < d; i++) ts.push_back(flipT(ts[r.below(ts.size())])); break; }
    case 6: {  // two tetrahedra sharing 1, 2 or 3 vertices by index
      nV = std::max(nV, 8); int sh = 1 + (int)r.below(3); int v[8]; pick(r, nV, v, 8 - sh); int a[4], b[4];
      for (int i = 0; i < 4; i++) a[i] = v[i];
      for (int i = 0; i < sh; i++) b[i] = v[i];
      for (int i = sh; i < 4; i++) b[i] = v[4 + i - sh];
      for (int i = 4; i > 1; --i) std::swap(b[i - 1], b[r.below(i)]);
      addTet(ts, a, r.below(2)); addTet(ts, b, r.below(2)); break; }
    case 7: {  // Moebius strip with n segments, its boundary coned to an apex: a closed non-orientable surface
      int n = 3 + (int)r.below(5); nV = 2 * n + 1; int apex = 2 * n;
      auto B = [&](int i) { return i % n; }; auto T = [&](int i) { return n + i % n; };
      for (int i = 0; i < n; i++) {
        int b0 = B(i), t0 = T(i), b1, t1; if (i + 1 < n) { b1 = B(i + 1); t1 = T(i + 1); } else { b1 = T(0); t1 = B(0); }  // the twist
        ts.push_back(ivec3(b0, b1, t0)); ts.push_back(ivec3(b1, t1, t0));
      }
      // boundary loop: bottom 0..n-1, then top 0..n-1 (after the twist bottom n-1 -> top 0, top n-1 -> bottom 0)
      std::vector<int> loop; for (int i = 0; i < n; i++) loop.push_back(B(i)); for (int i = 0; i < n; i++) loop.push_back(T(i));
      for (size_t i = 0; i < loop.size(); i++) ts.push_back(ivec3(loop[(i + 1) % loop.size()], loop[i], apex));
      if (r.below(2)) for (auto& t : ts) if (r.below(4) == 0) t = flipT(t);
      break; }
    case 8: { int n = 4 + 2 * (int)r.below(8); for (int i = 0; i < n; i++) ts.push_back(randTri(r, nV)); break; }
    case 9: { closedPieces(r, nV, ts, 2 + (int)r.below(2)); for (auto& t : ts) if (r.below(3) == 0) t = flipT(t); break; }
    case 10: {  // several copies of a triangle in both orientations on top of a closed piece: the re-pairing loop
      closedPieces(r, nV, ts, 1 + (int)r.below(2)); ivec3 t = ts[r.below(ts.size())]; int a = 1 + (int)r.below(3), b = 1 + (int)r.below(3);
      for (int i = 0; i < a; i++) ts.push_back(t); for (int i = 0; i < b; i++) ts.push_back(flipT(t));
      if (r.below(2)) { ivec3 u = ts[r.below(ts.size())]; ts.push_back(flipT(u)); ts.push_back(u); } break; }
    case 11: { closedPieces(r, nV, ts, 2); size_t i = r.below(ts.size()); ts.erase(ts.begin() + i); i = r.below(ts.size()); ts.erase(ts.begin() + i); break; }
  }
  while (ts.size() < 4 || ts.size() % 2) ts.push_back(r.below(2) ? randTri(r, nV) : ts[r.below(ts.size())]);
  for (size_t i = ts.size(); i > 1; --i) if (r.below(4)) std::swap(ts[i - 1], ts[r.below(i)]);
  for (auto& q : ts) { int k = (int)r.below(3); ivec3 o = q; for (int i = 0; i < 3; i++) q[i] = o[(i + k) % 3]; }
}

// independent evaluation of the gate predicate on the real arrays
static bool pairInv(const Halfedges& h, std::string& why) {
  const int n = h.size(); if (n % 3) { why = "size % 3"; return false; }
  for (int e = 0; e < n; e++) {
    int s = h.Start(e), en = h.Start(NextHalfedge(e)), p = h.Pair(e);
    int s1 = h.Start(NextHalfedge(e)), s2 = h.Start(NextHalfedge(NextHalfedge(e)));
    if (s == -1 && en == -1 && p == -1) continue;
    if (s == -1 || s1 == -1 || s2 == -1) { why = "partial tombstone at " + std::to_string(e); return false; }
    if (p < 0 || p >= n) { why = "pair out of range at " + std::to_string(e); return false; }
    if (h.Pair(p) != e) { why = "not an involution at " + std::to_string(e); return false; }
    if (s == en) { why = "degenerate edge"; return false; }
    if (h.Start(p) != en || h.Start(NextHalfedge(p)) != s) { why = "pair is not the opposite edge at " + std::to_string(e); return false; }
  }
  return true;
}

int main(int argc, char** argv) {
  uint64_t seed = hz::envSeed(); Rng r(seed); int T = argc > 1 ? atoi(argv[1]) : 600;
  std::map<std::string, int> nMan, nAll; int maxT = 0, removedCases = 0;
  for (int t = 0; t < T; t++) {
    int kind = t % NK, nV; Tris ts; gen(r, kind, nV, ts);
    maxT = std::max(maxT, (int)ts.size());
    std::ostringstream body; body << nV << " " << ts.size(); for (auto& q : ts) body << " " << q[0] << " " << q[1] << " " << q[2];
    // (1) the two functions by themselves
    Vec<ivec3> tv(ts);
    Manifold::Impl impl; impl.vertPos_.resize(nV);
    impl.CreateHalfedges(tv);
    const bool man = impl.IsManifold();
    const int n = impl.halfedge_.size();
    std::ostringstream ex;
    ex << "start"; for (int e = 0; e < n; ++e) ex << " " << impl.halfedge_.Start(e);
    ex << " | paired"; for (int e = 0; e < n; ++e) ex << " " << impl.halfedge_.Pair(e);
    ex << " | prop"; for (int e = 0; e < n; ++e) ex << " " << impl.halfedge_.Prop(e);
    ex << " | manifold " << (man ? 1 : 0);
    bool anyRemoved = false; for (int e = 0; e < n; ++e) if (impl.halfedge_.Pair(e) == -1) anyRemoved = true;
    removedCases += anyRemoved;
    std::string why; bool ind = pairInv(impl.halfedge_, why); bool ok = ind == man; std::string msg;
    if (!ok) msg = man ? "IsManifold() accepted a structure that is not a paired halfedge structure: " + why : "IsManifold() rejected a structure that is one";
    std::string tag = "s" + std::to_string(t) + " " + KINDS[kind] + " nT=" + std::to_string(ts.size()) + " man=" + std::to_string(man);
    hz::emit(tag, "mesh soup " + body.str(), ex.str(), ok, msg);
    nAll[KINDS[kind]]++; nMan[KINDS[kind]] += man;
    // (2) the constructor
    MeshGL g; g.numProp = 3; g.vertProperties.resize(3 * nV);
    for (int v = 0; v < nV; v++) for (int j = 0; j < 3; j++) g.vertProperties[3 * v + j] = (float)((double)(r.below(2000001)) / 1000.0 - 1000.0);
    for (auto& q : ts) for (int j = 0; j < 3; j++) g.triVerts.push_back(q[j]);
    Manifold m(g);
    int st = (int)m.Status(); bool ok2 = true; std::string msg2;
    if (st != 0 && st != (int)Manifold::Error::NotManifold) { ok2 = false; msg2 = "a ladder-accepted soup gave Status " + std::to_string(st); }
    else if ((st == 0) != man) { ok2 = false; msg2 = std::string("constructor Status ") + (st == 0 ? "NoError" : "NotManifold") + " disagrees with CreateHalfedges+IsManifold run directly"; }
    if (st != 0) { if (!m.IsEmpty() || m.NumTri() != 0) { ok2 = false; msg2 = "non-NoError Status but not empty"; } hz::emit("c" + std::to_string(t) + " ctor-" + KINDS[kind] + " status=" + std::to_string(st), "", "", ok2, msg2); continue; }
    MeshGL64 o = m.GetMeshGL64(); size_t oT = o.NumTri(), oV = o.NumVert();
    for (double v : o.vertProperties) if (!std::isfinite(v)) { ok2 = false; msg2 = "non-finite vertex"; break; }
    if (oT == 0) { hz::emit("c" + std::to_string(t) + " ctor-" + KINDS[kind] + " empty", "", "", ok2, msg2); continue; }
    std::ostringstream rq; rq << "mesh checkmerge " << oV << " " << oT; for (auto v : o.triVerts) rq << " " << v;
    rq << " " << o.mergeFromVert.size(); for (auto v : o.mergeFromVert) rq << " " << v; for (auto v : o.mergeToVert) rq << " " << v;
    std::ostringstream ex2; ex2 << "ok genus " << m.Genus() << " edges " << m.NumEdge() << " verts " << m.NumVert();
    hz::emit("c" + std::to_string(t) + " ctor-" + KINDS[kind] + " nT=" + std::to_string(oT), rq.str(), ex2.str(), ok2, msg2);
  }
  printf("STATS cases=%d maxTris=%d withRemoval=%d", T, maxT, removedCases);
  for (auto& kv : nAll) printf(" %s=%d/%d", kv.first.c_str(), nMan[kv.first], kv.second);
  printf("\n");
  return 0;
}
