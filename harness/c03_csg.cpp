// C03 correspondence + property harness.
// (a) evaluator tie: seeded API programs (leaf/bool/batch/xf/drop/force) run on the real
//     library; the MANIFOLD_VERIF hooks log the use-count bit of every frame visit and the
//     positive/negative leaf lists of every finalize; the Lean model is run on the same
//     program WITH THOSE BITS and must produce the same events (leaf identity = original
//     handle or r<k>, transforms as integer matrices).
// (b) property: the same lattice expression evaluated under different forcing histories
//     (eager after every step / only at the end / shared sub-expressions first) classifies
//     every voxel centre identically and has the same Status and volume.
#include <map>
#include <sstream>
#include "csg_tree.h"
#include "impl.h"
#include "manifold/manifold.h"
#include "verif_hooks.h"
#include "common.h"
using namespace manifold;
using hz::Rng;

static std::map<const Manifold::Impl*, std::string> names;
static std::vector<std::shared_ptr<const Manifold::Impl>> keep;
static int nextRes = 0;
static std::vector<int> gBits; static std::vector<std::string> gEvents; static std::string gCur;

static std::string matStr(const mat3x4& m) { std::ostringstream o; for (int r = 0; r < 3; r++) for (int c = 0; c < 4; c++) { if (r || c) o << " "; o << (long long)m[c][r]; } return o.str(); }
static std::string nameOf(const std::shared_ptr<CsgLeafNode>& l, bool isResult) {
  auto impl = l->VerifRawImpl(); auto it = names.find(impl.get());
  if (it == names.end()) { if (!isResult) return "?"; keep.push_back(impl); std::string n = "r" + std::to_string(nextRes++); names[impl.get()] = n; return n; }
  return it->second + ":" + matStr(l->VerifRawTransform());
}
static void reg(const Manifold& m, const std::string& n) { auto leaf = std::static_pointer_cast<CsgLeafNode>(m.VerifRoot()); auto impl = leaf->VerifRawImpl(); keep.push_back(impl); names[impl.get()] = n; }
static OpType parseOp(const std::string& s) { return s == "add" ? OpType::Add : s == "sub" ? OpType::Subtract : OpType::Intersect; }
static const char* MATS[] = {"1 0 0 1 0 1 0 0 0 0 1 0", "1 0 0 0 0 1 0 -1 0 0 1 0", "2 0 0 0 0 2 0 0 0 0 2 0", "0 -1 0 0 1 0 0 0 0 0 1 0", "-1 0 0 0 0 1 0 0 0 0 1 0", "1 0 0 0 0 1 0 0 0 0 1 1", "1 0 0 0 0 1 0 0 0 0 1 0"};

struct Item { std::string text; int force = -1; };
static std::vector<Item> genProg(Rng& r, int nleaf, int ncmd, bool temporaries = false) {
  std::vector<Item> items; std::vector<int> live;
  // in `temporaries` mode the non-leaf operands of an operation are dropped right after it,
  // as the temporaries of a C++ expression are: this is what makes op nodes uniquely held
  // and lets nested collapses (with their transforms) happen
  auto dropTemps = [&](std::initializer_list<int> hs) { if (!temporaries) return; for (int h : hs) if (h > nleaf && r.below(10) < 8) { auto it = std::find(live.begin(), live.end(), h); if (it != live.end() && live.size() > 2) { live.erase(it); items.push_back({"drop " + std::to_string(h)}); } } };
  for (int h = 1; h <= nleaf; h++) { items.push_back({"leaf " + std::to_string(h)}); live.push_back(h); }
  int nxt = nleaf + 1;
  auto pick = [&] { return live[r.below(live.size())]; };
  for (int k = 0; k < ncmd; k++) {
    int x = (int)r.below(100);
    if (x < 40) { int a = pick(), b = pick(); const char* ops[] = {"add", "add", "sub", "sub", "int"}; int h = nxt;
      if (r.below(10) < 3) { std::vector<int> c; for (int v : live) if (v > nleaf) c.push_back(v); if (!c.empty()) h = c[r.below(c.size())]; }
      if (h == nxt) nxt++;
      items.push_back({"bool " + std::to_string(h) + " " + ops[r.below(5)] + " " + std::to_string(a) + " " + std::to_string(b)});
      if (std::find(live.begin(), live.end(), h) == live.end()) live.push_back(h); if (a != h && b != h) dropTemps({a, b}); }
    else if (x < 50) { static const int ks[] = {0, 1, 2, 3, 3, 4}; int kk = ks[r.below(6)]; const char* ops[] = {"add", "sub", "int"}; std::string t = "batch " + std::to_string(nxt) + " " + ops[r.below(3)];
      for (int i = 0; i < kk; i++) t += " " + std::to_string(pick()); items.push_back({t}); live.push_back(nxt++); }
    else if (x < 70) { int a = pick(); items.push_back({"xf " + std::to_string(nxt) + " " + std::to_string(a) + " " + MATS[r.below(7)]}); live.push_back(nxt++); dropTemps({a}); }
    else if (x < 80) { std::vector<int> c; for (int v : live) if (v > nleaf) c.push_back(v); if (!c.empty() && live.size() > 2) { int h = c[r.below(c.size())]; live.erase(std::find(live.begin(), live.end(), h)); items.push_back({"drop " + std::to_string(h)}); } }
    else if (r.below(10) < (temporaries ? 2 : 8)) { Item it; it.force = pick(); items.push_back(it); }
  }
  Item it; it.force = pick(); items.push_back(it);
  return items;
}

// nested same-op chains with a transform at every level and all intermediates dropped: the
// shape in which collapsed frames inherit and compose transforms over several levels
static std::vector<Item> genChain(Rng& r, int nleaf, int depth) {
  std::vector<Item> items; for (int h = 1; h <= nleaf; h++) items.push_back({"leaf " + std::to_string(h)});
  int nxt = nleaf + 1; auto leaf = [&] { return 1 + (int)r.below(nleaf); };
  const char* ops[] = {"add", "int", "sub"}; std::string op = ops[r.below(3)];
  int cur = nxt++; items.push_back({"bool " + std::to_string(cur) + " " + op + " " + std::to_string(leaf()) + " " + std::to_string(leaf())});
  for (int d = 0; d < depth; d++) {
    if (r.below(10) < 8) { int x = nxt++; items.push_back({"xf " + std::to_string(x) + " " + std::to_string(cur) + " " + MATS[r.below(7)]}); if (r.below(10) < 9) items.push_back({"drop " + std::to_string(cur)}); cur = x; }
    if (r.below(12) == 0) { Item f; f.force = cur; items.push_back(f); }
    std::string o = r.below(10) < 8 ? op : ops[r.below(3)];
    int b = nxt++; bool first = o == "sub" || r.below(2);
    if (r.below(4) == 0) {  // batch form
      std::string t = "batch " + std::to_string(b) + " " + o + " " + (first ? std::to_string(cur) + " " + std::to_string(leaf()) : std::to_string(leaf()) + " " + std::to_string(cur)) + " " + std::to_string(leaf()); items.push_back({t}); }
    else items.push_back({"bool " + std::to_string(b) + " " + o + " " + (first ? std::to_string(cur) + " " + std::to_string(leaf()) : std::to_string(leaf()) + " " + std::to_string(cur))});
    if (r.below(10) < 9) items.push_back({"drop " + std::to_string(cur)}); cur = b;
  }
  Item f; f.force = cur; items.push_back(f); return items;
}

static void runTie(const std::string& tag, const std::vector<Item>& items) {
  names.clear(); keep.clear(); nextRes = 0;
  std::map<int, Manifold> H; std::vector<std::string> out; std::string req = "csg";
  bool first = true;
  for (auto& itx : items) {
    std::string seg;
    if (itx.force >= 0) {
      gBits.clear(); gEvents.clear();
      H.at(itx.force).VerifForce();
      for (auto& e : gEvents) out.push_back(e);
      auto leaf = std::static_pointer_cast<CsgLeafNode>(H.at(itx.force).VerifRoot());
      out.push_back("ret " + nameOf(leaf, false) + " bits-used " + std::to_string(gBits.size()));
      seg = "force " + std::to_string(itx.force); for (int b : gBits) seg += " " + std::to_string(b);
    } else {
      seg = itx.text; std::istringstream ls(itx.text); std::vector<std::string> it; for (std::string t; ls >> t;) it.push_back(t);
      if (it[0] == "leaf") { int h = std::stoi(it[1]);
        Manifold m = Manifold::Cube(vec3(2.0 + 0.1 * h, 2.0, 2.0), true).Translate(vec3(0.05 * h, 0.03 * h, 0.01 * h)); m = Manifold(m.GetMeshGL64());
        H.erase(h); H.emplace(h, m); reg(H.at(h), std::to_string(h)); }
      else if (it[0] == "bool") { int h = std::stoi(it[1]); Manifold rr = H.at(std::stoi(it[3])).Boolean(H.at(std::stoi(it[4])), parseOp(it[2])); H.erase(h); H.emplace(h, rr); }
      else if (it[0] == "batch") { int h = std::stoi(it[1]); std::vector<Manifold> v; for (size_t k = 3; k < it.size(); k++) v.push_back(H.at(std::stoi(it[k])));
        Manifold rr = Manifold::BatchBoolean(v, parseOp(it[2])); v.clear(); H.erase(h); H.emplace(h, rr); if (it.size() == 3) reg(H.at(h), "e"); }
      else if (it[0] == "xf") { int h = std::stoi(it[1]); mat3x4 m; for (int rr = 0; rr < 3; rr++) for (int c = 0; c < 4; c++) m[c][rr] = std::stod(it[3 + rr * 4 + c]);
        Manifold res = H.at(std::stoi(it[2])).Transform(m); H.erase(h); H.emplace(h, res); }
      else if (it[0] == "drop") H.erase(std::stoi(it[1]));
    }
    req += (first ? " " : " ; ") + seg; first = false;
  }
  std::string o; for (size_t k = 0; k < out.size(); k++) o += (k ? " | " : "") + out[k];
  hz::emit(tag, req, o, true);
}

// ---- (b) semantic history independence on the lattice -------------------------------------
struct LNode { int kind; int a = -1, b = -1; int op = 0; int t[3] = {0, 0, 0}; int flip = -1; int box[6]; };  // kind 0 leaf box, 1 bool, 2 xf (translate + optional axis flip)
static Manifold build(const std::vector<LNode>& ns, std::vector<Manifold>& made, int i, bool eager) {
  const LNode& n = ns[i]; Manifold m;
  if (n.kind == 0) m = Manifold::Cube(vec3(n.box[3] - n.box[0], n.box[4] - n.box[1], n.box[5] - n.box[2])).Translate(vec3(n.box[0], n.box[1], n.box[2]));
  else if (n.kind == 1) m = made[n.a].Boolean(made[n.b], (OpType)n.op);
  else { m = made[n.a].Translate(vec3(n.t[0], n.t[1], n.t[2])); if (n.flip >= 0) { vec3 s(1.0); s[n.flip] = -1; m = m.Scale(s).Translate(vec3(n.flip == 0 ? 4 : 0, n.flip == 1 ? 4 : 0, n.flip == 2 ? 4 : 0)); } }
  if (eager) (void)m.Status();
  return m;
}
// the same expression built as a C++ expression tree: intermediates are temporaries (uniquely
// held op nodes => collapses, incl. nested transformed ones); evaluated only at the root
static Manifold buildTree(const std::vector<LNode>& ns, int i) {
  const LNode& n = ns[i];
  if (n.kind == 0) return Manifold::Cube(vec3(n.box[3] - n.box[0], n.box[4] - n.box[1], n.box[5] - n.box[2])).Translate(vec3(n.box[0], n.box[1], n.box[2]));
  if (n.kind == 1) return buildTree(ns, n.a).Boolean(buildTree(ns, n.b), (OpType)n.op);
  Manifold m = buildTree(ns, n.a).Translate(vec3(n.t[0], n.t[1], n.t[2]));
  if (n.flip >= 0) { vec3 s(1.0); s[n.flip] = -1; return m.Scale(s).Translate(vec3(n.flip == 0 ? 4 : 0, n.flip == 1 ? 4 : 0, n.flip == 2 ? 4 : 0)); }
  return m;
}
static std::string classify(const Manifold& m) {
  std::vector<vec3> pts; for (int x = -2; x < 7; x++) for (int y = -2; y < 7; y++) for (int z = -2; z < 7; z++) pts.push_back(vec3(x + 0.5, y + 0.5, z + 0.5));
  auto w = m.WindingNumber(pts); std::string s; for (int v : w) s += (v != 0 ? '1' : '0'); return s;
}
static void runSem(const std::string& tag, Rng& r) {
  std::vector<LNode> ns; int nleaf = 2 + (int)r.below(4);
  for (int i = 0; i < nleaf; i++) { LNode n; n.kind = 0; for (int k = 0; k < 3; k++) { int lo = (int)r.below(3), hi = lo + 1 + (int)r.below(3); n.box[k] = lo; n.box[k + 3] = hi; } ns.push_back(n); }
  int nops = 2 + (int)r.below(8); const bool chain = r.below(2); const int chainOp = (int)r.below(3);
  for (int i = 0; i < nops; i++) { LNode n;
    if (chain) {  // alternate transform / same-op Boolean on the most recent node
      if (i % 2 == 0) { n.kind = 2; n.a = (int)ns.size() - 1; for (int k = 0; k < 3; k++) n.t[k] = (int)r.below(3) - 1; n.flip = r.below(3) ? (int)r.below(3) : -1; }
      else { n.kind = 1; n.a = (int)ns.size() - 1; n.b = (int)r.below(nleaf); n.op = r.below(8) ? chainOp : (int)r.below(3); if (n.op != 1 && r.below(2)) std::swap(n.a, n.b); }
      ns.push_back(n); continue; } if (r.below(5) < 2) { n.kind = 2; n.a = r.below(2) ? (int)ns.size() - 1 : (int)r.below(ns.size()); for (int k = 0; k < 3; k++) n.t[k] = (int)r.below(3) - 1; n.flip = r.below(2) == 0 ? (int)r.below(3) : -1; }
    else { n.kind = 1; n.a = r.below(2) ? (int)ns.size() - 1 : (int)r.below(ns.size()); n.b = (int)r.below(ns.size()); n.op = (int)r.below(3); } ns.push_back(n); }
  std::string ref; double refVol = 0; int refStatus = 0; bool ok = true; std::string msg;
  for (int hist = 0; hist < 6 && ok; hist++) {
    std::vector<Manifold> made;
    if (hist == 4) { made.push_back(buildTree(ns, (int)ns.size() - 1)); }
    else if (hist == 5) {
      // everything lazy; then the handles of all intermediate nodes are given up in a random order, and next to some of them an
      // extra derived expression is built on a transformed view and destroyed WITHOUT ever being forced; only then the root is forced
      for (size_t i = 0; i < ns.size(); i++) made.push_back(build(ns, made, (int)i, false));
      std::vector<size_t> ord; for (size_t k = 0; k + 1 < made.size(); k++) ord.push_back(k);
      for (size_t k = ord.size(); k > 1; --k) std::swap(ord[k - 1], ord[r.below(k)]);
      for (size_t k : ord) {
        if (ns[k].kind != 0 && r.below(2)) { Manifold tmp = r.below(2) ? made[k].Translate(vec3(1, 0, 0)) + made[r.below(nleaf)] : made[k] - made[r.below(nleaf)].Translate(vec3(0, 1, 0)); (void)tmp; }
        made[k] = Manifold();
      }
    }
    else for (size_t i = 0; i < ns.size(); i++) {
      made.push_back(build(ns, made, (int)i, hist == 1));
      if (hist == 2 && r.below(3) == 0) (void)made[r.below(made.size())].NumTri();       // random forcing history
      if (hist == 3 && ns[i].kind == 2) (void)made[ns[i].a].Status();                      // shared sub-expression first
    }
    const Manifold& root = made.back();
    std::string c = classify(root); double vol = root.Volume(); int st = (int)root.Status();
    if (hist == 0) { ref = c; refVol = vol; refStatus = st; }
    else { if (c != ref) { ok = false; msg = "voxel classification differs between forcing histories 0 and " + std::to_string(hist) + (hist == 5 ? " (intermediate handles and unforced derived temporaries dropped before forcing the root)" : ""); }
      if (st != refStatus) { ok = false; msg = "Status differs between forcing histories"; }
      if (std::fabs(vol - refVol) > 1e-9 * (1 + std::fabs(refVol))) { ok = false; msg = "volume differs between forcing histories"; } }
  }
  std::ostringstream d; for (auto& n : ns) { if (n.kind == 0) d << " box(" << n.box[0] << "," << n.box[1] << "," << n.box[2] << ".." << n.box[3] << "," << n.box[4] << "," << n.box[5] << ")"; else if (n.kind == 1) d << " op" << n.op << "(" << n.a << "," << n.b << ")"; else d << " xf(" << n.a << ";" << n.t[0] << "," << n.t[1] << "," << n.t[2] << ";flip" << n.flip << ")"; }
  hz::emit(tag + d.str(), "", "", ok, msg);
}

int main(int argc, char** argv) {
  uint64_t seed = hz::envSeed(); Rng r(seed);
  int N = argc > 1 ? atoi(argv[1]) : 300, M = argc > 2 ? atoi(argv[2]) : 100;
  verif::hooks().onCsgVisit = [](bool u) { gBits.push_back(u ? 1 : 0); };
  verif::hooks().onCsgFinalize = [](int op, const std::vector<std::shared_ptr<CsgLeafNode>>& pos, const std::vector<std::shared_ptr<CsgLeafNode>>& neg) {
    gCur = std::string("fin ") + (op == 0 ? "add" : op == 1 ? "sub" : "int") + " pos"; for (auto& l : pos) gCur += " " + nameOf(l, false); gCur += " neg"; for (auto& l : neg) gCur += " " + nameOf(l, false); };
  verif::hooks().onCsgFinalized = [](const std::shared_ptr<CsgLeafNode>& res) { gEvents.push_back(gCur + " => " + nameOf(res, true)); };
  for (int i = 0; i < N; i++) {
    if (i % 3 == 2) runTie("t" + std::to_string(i) + " evaluator-chain", genChain(r, 2 + (int)r.below(4), 1 + (int)r.below(6)));
    else runTie("t" + std::to_string(i) + (i % 3 ? " evaluator-temps" : " evaluator"), genProg(r, 2 + (int)r.below(5), 3 + (int)r.below(i % 10 == 0 ? 60 : 22), i % 3 == 1));
  }
  verif::hooks().onCsgVisit = nullptr; verif::hooks().onCsgFinalize = nullptr; verif::hooks().onCsgFinalized = nullptr;
  for (int i = 0; i < M; i++) runSem("s" + std::to_string(i) + " histories", r);
  return 0;
}
