// C03 (deepening): BatchUnion / BatchBoolean of src/csg_tree.cpp, run for real through the public
// API (Manifold::BatchBoolean, += chains, the negative side of Subtract) on lattice layouts whose
// union is known exactly, with N in {0..6, 998..1003, 1100, 2001} operands (the 1000-chunk rule).
// (a) tie: the MANIFOLD_VERIF hooks onBatchUnionRound / onBatchBoolean / onBatchBooleanPop /
//     onBatchBooleanPush report, per round, the whole children vector, `start`, the disjoint sets and
//     what was pushed into `impls`, and per heap step the popped pair and the pushed result.  One
//     request per BatchUnion call goes to the Lean model (engine `csgbatch`): the children's real
//     bounding boxes and NumVert, plus the NumVert of every leaf created (size oracle); the model
//     must reproduce every round: same start, same chunk, same sets, same impls, same pops.
// (b) property oracle on the REAL result: exact volume (inclusion-exclusion on the layout + voxel
//     count of the clusters), every operand's OriginalID present in runOriginalID (and no other),
//     point membership at lattice cell centres (>= 1/8 away from every face).
// argv: K grp (kMaxUnionSize and the pop-group width, extracted from the source by checks/c03.py)
#include <algorithm>
#include <chrono>
#include <cmath>
#include <map>
#include <set>
#include <sstream>
#include "csg_tree.h"
#include "impl.h"
#include "manifold/manifold.h"
#include "verif_hooks.h"
#include "common.h"
using namespace manifold;
using hz::Rng;
typedef std::shared_ptr<CsgLeafNode> LeafP;

static int gK = 1000, gGrp = 4;
static const double SC = 4;  // all coordinates are multiples of 1/4

// ---------------------------------------------------------------- hook recorder
struct CallRec {
  bool open = false, isUnion = true, bad = false;
  const std::vector<LeafP>* vec = nullptr;
  std::map<const CsgLeafNode*, int> ids;
  std::vector<LeafP> keep;  // no address is reused while a call is open
  int n = 0;
  std::vector<size_t> created;
  std::string inputs;
  std::vector<std::string> rounds;
  std::string cur;               // the round being recorded
  std::vector<std::string> evs;  // its BatchBoolean events
  std::string badWhy;
};
static CallRec g;
struct Done { std::string req, exp, kind; int n; };
static std::vector<Done> gDone;
static long long gRounds = 0, gMultiRound = 0, gSingletons = 0, gSingletonsOffset = 0, gComposeSets = 0, gPops = 0, gCalls = 0, gMaxSets = 0;

static std::string boxStr(const Box& b) {
  if (!(std::isfinite(b.min.x) && std::isfinite(b.max.x))) return "E";
  std::ostringstream o; const double v[6] = {b.min.x, b.min.y, b.min.z, b.max.x, b.max.y, b.max.z};
  for (int k = 0; k < 6; k++) { double s = v[k] * SC; if (s != std::floor(s) || std::fabs(s) > 1e9) { g.bad = true; g.badWhy = "bounding box off the quarter lattice"; } o << (k ? " " : "") << (long long)s; }
  return o.str();
}
static int idOf(const LeafP& l) {
  auto it = g.ids.find(l.get());
  if (it != g.ids.end()) return it->second;
  int id = g.n + (int)g.created.size();
  g.created.push_back(l->NumVert()); g.ids[l.get()] = id; g.keep.push_back(l);
  return id;
}
static void flushRound() {
  if (g.cur.empty()) return;
  std::string e; for (size_t i = 0; i < g.evs.size(); i++) e += (i ? " , " : "") + g.evs[i];
  g.rounds.push_back(g.cur + " b " + e); g.cur.clear(); g.evs.clear();
}
static void closeCall(const LeafP* standaloneResult = nullptr) {
  if (!g.open) return;
  std::string req, exp;
  if (g.isUnion) {
    flushRound();
    const LeafP& ret = g.vec->front();
    int rid = idOf(ret);
    for (auto& r : g.rounds) exp += r + " | ";
    exp += "ret " + std::to_string(rid) + " box " + boxStr(ret->GetBoundingBox()) + " next " + std::to_string(g.n + g.created.size()) + " ub 0";
    req = "csgbatch union " + std::to_string(gK) + " " + std::to_string(gGrp) + " ; " + g.inputs + " ;";
    for (size_t s : g.created) req += " " + std::to_string(s);
    if (g.rounds.size() > 1) gMultiRound++;
  } else {
    int rid = standaloneResult ? idOf(*standaloneResult) : -1;
    for (size_t i = 0; i < g.evs.size(); i++) exp += (i ? " , " : "") + g.evs[i];
    exp += " | ret " + std::to_string(rid) + " next " + std::to_string(g.n + g.created.size());
    req = "csgbatch bool " + std::to_string(gGrp) + " ; " + g.inputs + " ;";
    for (size_t s : g.created) req += " " + std::to_string(s);
  }
  if (g.bad) { req = ""; exp = "BAD " + g.badWhy; }
  gDone.push_back({req, exp, g.isUnion ? "union" : "inter", g.n}); gCalls++;
  g = CallRec();
}
static void installHooks() {
  auto& h = verif::hooks();
  h.onBatchUnionRound = [](const std::vector<LeafP>& children, size_t start, const std::vector<std::vector<size_t>>& sets, const std::vector<LeafP>& impls) {
    if (g.open && (!g.isUnion || g.vec != &children)) closeCall();
    if (!g.open) {
      g.open = true; g.isUnion = true; g.vec = &children; g.n = (int)children.size();
      std::ostringstream in;
      for (size_t i = 0; i < children.size(); i++) { g.ids[children[i].get()] = (int)i; g.keep.push_back(children[i]); in << (i ? " " : "") << children[i]->NumVert() << " " << boxStr(children[i]->GetBoundingBox()); }
      g.inputs = in.str();
    }
    flushRound();
    std::ostringstream o; o << "R " << start << " c";
    for (auto& c : children) o << " " << idOf(c);
    o << " s";
    for (size_t k = 0; k < sets.size(); k++) { o << (k ? " /" : ""); for (size_t j : sets[k]) o << " " << j; if (sets[k].size() == 1) { gSingletons++; if (start > 0) gSingletonsOffset++; } else gComposeSets++; }
    o << " i";
    for (auto& c : impls) o << " " << idOf(c);
    g.cur = o.str(); gRounds++; gMaxSets = std::max<long long>(gMaxSets, sets.size());
  };
  h.onBatchBoolean = [](int op, const std::vector<LeafP>& results) {
    if (op == 0 && g.open && g.isUnion && !g.cur.empty()) {
      std::string s = "st"; for (auto& r : results) s += " " + std::to_string(idOf(r)); g.evs.push_back(s); return;
    }
    closeCall();
    g.open = true; g.isUnion = false; g.n = (int)results.size();
    std::string s = "st", in;
    for (size_t i = 0; i < results.size(); i++) { g.ids[results[i].get()] = (int)i; g.keep.push_back(results[i]); s += " " + std::to_string(i); in += (i ? " " : "") + std::to_string(results[i]->NumVert()); }
    g.inputs = in; g.evs.push_back(s);
  };
  h.onBatchBooleanPop = [](const LeafP& a, uint64_t sa, const LeafP& b, uint64_t sb) {
    if (!g.open) return; gPops++;
    std::ostringstream o; o << "po " << idOf(a) << " " << a->NumVert() << " " << sa << " " << idOf(b) << " " << b->NumVert() << " " << sb; g.evs.push_back(o.str());
  };
  h.onBatchBooleanPush = [](const LeafP& r, uint64_t s) {
    if (!g.open) return;
    std::ostringstream o; o << "pu " << idOf(r) << " " << r->NumVert() << " " << s; g.evs.push_back(o.str());
  };
  h.onCsgFinalized = [](const LeafP& res) { if (g.open && !g.isUnion) closeCall(&res); else closeCall(); };
}

// ---------------------------------------------------------------- layouts
struct IB { int lo[3], hi[3]; };  // quarter units
// the cube's OriginalID is read BEFORE the translation (a transformed mesh is no longer an original, but its
// triangles keep the cube's ID in runOriginalID); the translation stays pending on the leaf
static Manifold mk(const IB& b, int* origId = nullptr) { Manifold c = Manifold::Cube(vec3((b.hi[0] - b.lo[0]) / SC, (b.hi[1] - b.lo[1]) / SC, (b.hi[2] - b.lo[2]) / SC)); if (origId) *origId = c.OriginalID(); return c.Translate(vec3(b.lo[0] / SC, b.lo[1] / SC, b.lo[2] / SC)); }
static double volOf(const IB& b) { return double(b.hi[0] - b.lo[0]) * (b.hi[1] - b.lo[1]) * (b.hi[2] - b.lo[2]) / (SC * SC * SC); }
static bool inside(const IB& b, const double p[3]) { for (int k = 0; k < 3; k++) if (!(p[k] * SC > b.lo[k] && p[k] * SC < b.hi[k])) return false; return true; }
struct Layout {
  std::vector<IB> boxes; std::vector<int> kind;  // 0 peg 1 plate 2 cluster
  int P = 0, Q = 0, R = 0; double volume = 0; IB hull;
  std::vector<std::array<double, 3>> pts;  // probe points (cell centres)
};
static const int GW = 40;  // pegs per row
// N operands: Q plates crossing every peg, R cluster boxes (mutually overlapping, away from the pegs), the rest pegs
static Layout makeLayout(Rng& r, int N, int Q, int R) {
  Layout L; Q = std::min(Q, N); R = std::min(R, N - Q); int P = N - Q - R; L.P = P; L.Q = Q; L.R = R;
  int rows = (P + GW - 1) / GW;
  for (int p = 0; p < P; p++) { int cx = p % GW, cy = p / GW; IB b{{16 * cx, 16 * cy, 0}, {16 * cx + 8, 16 * cy + 8, 40 + 4 * (p % 3)}}; L.boxes.push_back(b); L.kind.push_back(0); L.volume += volOf(b); }
  for (int q = 0; q < Q; q++) { IB b{{-4, -4, 5 + 8 * q}, {16 * GW + 4, 16 * std::max(rows, 1) + 4, 7 + 8 * q}}; L.boxes.push_back(b); L.kind.push_back(1); L.volume += volOf(b) - P * (8 * 8 * 2) / (SC * SC * SC); }
  // cluster: boxes in [-200,-160)^3 (quarter units), all face coordinates distinct per axis, each overlapping the previous one
  std::vector<IB> cl;
  if (R > 0) {
    std::vector<int> coord[3];
    // `core` mode: every box reaches from the lower half to the upper half of the region on every axis, so all of them
    // overlap one another (as many disjoint sets as boxes: the heap of BatchBoolean gets them all)
    const bool core = r.below(2) == 0;
    for (int k = 0; k < 3; k++) { for (int v = 0; v < 40; v++) coord[k].push_back(v); for (int i = 39; i > 0; i--) std::swap(coord[k][i], coord[k][r.below(i + 1)]);
      if (core) { std::vector<int> lo, hi, mix; for (int v : coord[k]) (v < 20 ? lo : hi).push_back(v); for (size_t i = 0; i < 20; i++) { mix.push_back(lo[i]); mix.push_back(hi[i]); } coord[k] = mix; } }
    size_t used[3] = {0, 0, 0};
    for (int c = 0; c < R; c++) { IB b; bool ok = false;
      for (int att = 0; att < 50 && !ok; att++) { ok = true;
        for (int k = 0; k < 3; k++) { if (used[k] + 2 > coord[k].size()) { ok = false; break; } int a = coord[k][used[k]], d = coord[k][used[k] + 1]; used[k] += 2; b.lo[k] = -200 + std::min(a, d); b.hi[k] = -200 + std::max(a, d); }
        if (!ok) break;
      }
      if (!ok) { b = IB{{-200 + c, -200 + c, -200 + c}, {-199 + c, -199 + c, -199 + c}}; }
      cl.push_back(b); L.boxes.push_back(b); L.kind.push_back(2); }
    // voxel count of the cluster union
    long long cnt = 0;
    for (int x = 0; x < 40; x++) for (int y = 0; y < 40; y++) for (int z = 0; z < 40; z++) { const double p[3] = {(-200 + x + 0.5) / SC, (-200 + y + 0.5) / SC, (-200 + z + 0.5) / SC}; for (auto& b : cl) if (inside(b, p)) { cnt++; break; } }
    L.volume += cnt / (SC * SC * SC);
  }
  // shuffle the operand order
  for (int i = (int)L.boxes.size() - 1; i > 0; i--) { int j = (int)r.below(i + 1); std::swap(L.boxes[i], L.boxes[j]); std::swap(L.kind[i], L.kind[j]); }
  L.hull = IB{{-220, -220, -220}, {16 * GW + 20, 16 * std::max(rows, 1) + 20, 80}};
  // probes: for a sample of pegs the peg centre above the plates, the gap next to it at plate height and above it
  for (int s = 0; s < 40 && P > 0; s++) { int p = (int)r.below(P); int cx = p % GW, cy = p / GW;
    L.pts.push_back({(16 * cx + 4.5) / SC, (16 * cy + 4.5) / SC, 38.5 / SC}); L.pts.push_back({(16 * cx + 12.5) / SC, (16 * cy + 4.5) / SC, 6.5 / SC}); L.pts.push_back({(16 * cx + 12.5) / SC, (16 * cy + 4.5) / SC, 3.5 / SC}); L.pts.push_back({(16 * cx + 4.5) / SC, (16 * cy + 4.5) / SC, 60.5 / SC}); }
  for (int s = 0; s < 120 && R > 0; s++) L.pts.push_back({(-200 + (int)r.below(40) + 0.5) / SC, (-200 + (int)r.below(40) + 0.5) / SC, (-200 + (int)r.below(40) + 0.5) / SC});
  return L;
}

// ---------------------------------------------------------------- one evaluation
static int gEval = 0;
static void runCase(Rng& r, const std::string& family, int N, int Q, int R) {
  auto t0 = std::chrono::steady_clock::now();
  struct Timer { std::chrono::steady_clock::time_point t0; std::string what; ~Timer() { if (getenv("VERIF_TIMING")) fprintf(stderr, "%s %.3f s\n", what.c_str(), std::chrono::duration<double>(std::chrono::steady_clock::now() - t0).count()); } } timer{t0, family + " N=" + std::to_string(N)};
  Layout L = makeLayout(r, N, Q, R);
  std::vector<Manifold> ops; std::vector<int> origIds;
  for (auto& b : L.boxes) { int id = -1; ops.push_back(mk(b, &id)); origIds.push_back(id); }
  gDone.clear(); g = CallRec();
  Manifold res; bool negative = false; Manifold big; int bigId = -1;
  if (family == "batch") res = Manifold::BatchBoolean(ops, OpType::Add);
  else if (family == "chain") { for (auto& m : ops) res += m; }
  else if (family == "tree") {  // balanced tree of binary unions, every intermediate a temporary
    std::vector<Manifold> lvl = ops; if (lvl.empty()) lvl.push_back(Manifold());
    while (lvl.size() > 1) { std::vector<Manifold> nx; for (size_t i = 0; i + 1 < lvl.size(); i += 2) nx.push_back(lvl[i] + lvl[i + 1]); if (lvl.size() % 2) nx.push_back(lvl.back()); lvl.swap(nx); }
    res = lvl[0]; }
  else { negative = true; big = mk(L.hull, &bigId);
    if (family == "subchain") { res = big; for (auto& m : ops) res -= m; }
    else { std::vector<Manifold> v{big}; v.insert(v.end(), ops.begin(), ops.end()); res = Manifold::BatchBoolean(v, OpType::Subtract); } }
  int status = (int)res.Status();  // forces the evaluation; the hooks fire here
  closeCall();
  // ---- property oracle on the real result
  bool ok = true; std::string msg;
  auto fail = [&](const std::string& m) { if (ok) { ok = false; msg = m; } };
  if (status != 0) fail("Status " + std::to_string(status));
  double want = negative ? volOf(L.hull) - L.volume : L.volume, got = res.Volume();
  if (!(std::fabs(got - want) <= 1e-9 * (1 + std::fabs(want)))) { std::ostringstream o; o.precision(17); o << "volume " << got << " expected " << want; fail(o.str()); }
  if (ok) {
    MeshGL mg = res.GetMeshGL(); std::set<int> have(mg.runOriginalID.begin(), mg.runOriginalID.end()), allowed(origIds.begin(), origIds.end());
    if (negative) allowed.insert(bigId);
    for (int id : have) if (!allowed.count(id)) fail("runOriginalID contains " + std::to_string(id) + ", which is no operand");
    for (size_t i = 0; i < L.boxes.size() && ok; i++) {
      bool contributes = L.kind[i] != 2;
      if (!contributes) {  // a cluster box contributes surface if one of its corners is outside every other cluster box
        for (int c = 0; c < 8 && !contributes; c++) { double p[3]; for (int k = 0; k < 3; k++) p[k] = ((c >> k & 1) ? L.boxes[i].hi[k] : L.boxes[i].lo[k]) / SC; bool in = false;
          for (size_t j = 0; j < L.boxes.size() && !in; j++) if (j != i && L.kind[j] == 2) { bool cl = true; for (int k = 0; k < 3; k++) if (!(p[k] * SC >= L.boxes[j].lo[k] && p[k] * SC <= L.boxes[j].hi[k])) cl = false; in = cl; }
          if (!in) contributes = true; } }
      if (contributes && !have.count(origIds[i])) fail("operand " + std::to_string(i) + " (kind " + std::to_string(L.kind[i]) + ") contributes surface but its OriginalID is not in runOriginalID");
    }
    if (negative && !have.count(bigId) && N >= 0) fail("the minuend's OriginalID is not in runOriginalID");
  }
  if (ok && !L.pts.empty()) {
    std::vector<vec3> pts; for (auto& p : L.pts) pts.push_back(vec3(p[0], p[1], p[2]));
    auto w = res.WindingNumber(pts);
    for (size_t i = 0; i < pts.size() && ok; i++) { bool in = false; for (auto& b : L.boxes) if (inside(b, L.pts[i].data())) { in = true; break; }
      bool expect = negative ? !in : in;
      if ((w[i] != 0) != expect) { std::ostringstream o; o << "point (" << pts[i].x << "," << pts[i].y << "," << pts[i].z << ") classified " << (w[i] != 0) << ", expected " << expect; fail(o.str()); } }
  }
  std::ostringstream tag; tag << "b" << gEval++ << " batch-" << family << " N=" << N << " pegs=" << L.P << " plates=" << L.Q << " cluster=" << L.R << " calls=" << gDone.size();
  hz::emit(tag.str(), "", "", ok, msg);
  int k = 0;
  for (auto& d : gDone) { std::ostringstream t; t << "b" << (gEval - 1) << "." << k++ << " tie-" << d.kind << " " << family << " N=" << N << " n=" << d.n;
    if (d.req.empty()) hz::emit(t.str(), "", "", false, "harness could not encode the call: " + d.exp); else hz::emit(t.str(), d.req, d.exp, true); }
  gDone.clear();
}

// BatchBoolean(Intersect): N boxes all containing a common core
static void runInter(Rng& r, int N) {
  std::vector<Manifold> ops; IB core{{0, 0, 0}, {8, 8, 8}}; std::vector<IB> bs;
  for (int i = 0; i < N; i++) { IB b; for (int k = 0; k < 3; k++) { b.lo[k] = -1 - (int)r.below(40) * 2 - (i % 2); b.hi[k] = 9 + (int)r.below(40) * 2 + (i % 2); } if (i == 0) b = core; bs.push_back(b); }
  // distinct face coordinates are not needed for correctness of the oracle; sizes differ by slicing one operand
  for (int i = 0; i < N; i++) { Manifold m = mk(bs[i]); if (i % 3 == 1) m = m.Refine(2); ops.push_back(m); }
  gDone.clear(); g = CallRec();
  Manifold res = Manifold::BatchBoolean(ops, OpType::Intersect); int status = (int)res.Status(); closeCall();
  bool ok = true; std::string msg; double want = N == 0 ? 0 : volOf(core), got = res.Volume();
  if (status != 0) { ok = false; msg = "Status " + std::to_string(status); }
  else if (!(std::fabs(got - want) <= 1e-9 * (1 + want))) { std::ostringstream o; o.precision(17); o << "volume " << got << " expected " << want; ok = false; msg = o.str(); }
  std::ostringstream tag; tag << "b" << gEval++ << " batch-inter N=" << N << " calls=" << gDone.size(); hz::emit(tag.str(), "", "", ok, msg);
  int k = 0; for (auto& d : gDone) { std::ostringstream t; t << "b" << (gEval - 1) << "." << k++ << " tie-" << d.kind << " inter N=" << N << " n=" << d.n; hz::emit(t.str(), d.req, d.exp, !d.req.empty(), d.req.empty() ? d.exp : ""); }
  gDone.clear();
}

int main(int argc, char** argv) {
  gK = argc > 1 ? atoi(argv[1]) : 1000; gGrp = argc > 2 ? atoi(argv[2]) : 4;
  Rng r(hz::envSeed()); const bool thorough = hz::thorough();
  installHooks();
  const char* fams[] = {"batch", "chain", "subchain", "subbatch", "tree"};
  // small operand counts: every family, several plate/cluster mixes
  for (int N = 0; N <= 6; N++) for (int f = 0; f < 5; f++) for (int v = 0; v < (thorough ? 6 : 2); v++) runCase(r, fams[f], N, (int)r.below(3), (int)r.below(4));
  for (int N : {8, 10, 13, 25}) for (int f = 0; f < 5; f++) runCase(r, fams[f], N, (int)r.below(4), (int)r.below(7));
  // nothing but mutually overlapping boxes: many sets, so BatchBoolean's heap (groups of four, ties, serials) does the work
  for (int N : {5, 7, 9, 12, 16, 20}) for (int f = 0; f < (thorough ? 5 : 2); f++) runCase(r, fams[(N + f) % 5], N, 0, N);
  // around the chunk size and beyond: exactly one plate (a singleton set that overlaps every peg), then mixes
  std::vector<int> big; for (int d = -2; d <= 3; d++) big.push_back(gK + d); big.push_back(gK + gK / 10); big.push_back(2 * gK + 1);
  if (gK < 50) { big.push_back(3 * gK + 2); big.push_back(5 * gK); }
  int fi = 0;
  for (int N : big) { if (N < 0) continue;
    // (a += chain of 2000 operands costs the real code ~8 s to build: thorough tier only)
    auto fam = [&]() { const char* f = fams[fi++ % 4]; return (!thorough && N > gK + gK / 2 && std::string(f).find("chain") != std::string::npos) ? "batch" : f; };
    runCase(r, fam(), N, 1, 0);
    runCase(r, fam(), N, 1, 2 + (int)r.below(5));
    if (thorough || N == 2 * gK + 1 || N == gK + 1) { runCase(r, fam(), N, 3, 6); runCase(r, "batch", N, 1, 3); runCase(r, "subbatch", N, 2, 5); }
    if (thorough) for (int f = 0; f < 5; f++) runCase(r, fams[f], N, (int)r.below(4), (int)r.below(9)); }
  for (int N : {0, 1, 2, 3, 4, 5, 6, 9, 20}) runInter(r, N);
  printf("STATS calls=%lld rounds=%lld multi_round_calls=%lld singleton_sets=%lld singleton_sets_with_start_gt_0=%lld compose_sets=%lld max_sets=%lld heap_pops=%lld K=%d grp=%d\n", gCalls, gRounds, gMultiRound, gSingletons, gSingletonsOffset, gComposeSets, gMaxSets, gPops, gK, gGrp);
  return 0;
}
