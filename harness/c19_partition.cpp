// C19 correspondence harness (pattern half): the REAL `Partition::GetPartition` / `Partition::Reindex`
// of src/subdivision.cpp (anonymous namespace, reached by #including the .cpp; linked with
// --gc-sections and without libmanifold: only the uncalled Impl methods refer to other translation
// units) versus the Lean model MV/Model/Partition.lean, plus an independent C++ oracle of the
// property itself on every pattern (every vertex used, every interior edge paired, boundary = the
// subdivided outer edges in order, F = b + 2i - 2, n*n triangles for uniform n, positive orientation
// and exact area sum in long double with a 1e-9 band — the exact-rational verdict is the Lean checker's).
// usage: c19_partition <NT> <NQ> <randomLarge> <reindexCases>
//   exhaustive: every triple in 1..NT (all orders), every quadruple in 1..NQ, plus the skipped
//   {0,*,*,*} side; random: divisions up to 200 (request `topo`: no barycentrics) and up to 40 (`part`).
#include "subdivision.cpp"
#include <map>
#include <set>
#include <sstream>
#include <cstring>
#include "common.h"
using namespace manifold;
using hz::Rng;

static uint64_t bits(double d) { uint64_t u; memcpy(&u, &d, 8); return u; }

static std::map<std::string, long> gStats;

// independent oracle on a partition returned by the real code
static std::string oracle(const Partition& p, bool geom) {
  const ivec4 n = p.sortedDivisions;
  const int k = n[3] > 0 ? 4 : 3;
  const int nV = p.vertBary.size(), nT = p.triVert.size();
  std::vector<int> bc;
  int off = k;
  for (int i = 0; i < k; i++) { bc.push_back(i); for (int j = 0; j < n[i] - 1; j++) bc.push_back(off + j); off += n[i] - 1; }
  if (off != p.InteriorOffset()) return "InteriorOffset != corners + edge verts";
  std::map<std::pair<int, int>, int> cnt;
  std::vector<char> used(nV, 0);
  for (int t = 0; t < nT; t++) for (int j = 0; j < 3; j++) {
    int a = p.triVert[t][j], b = p.triVert[t][(j + 1) % 3];
    if (a < 0 || a >= nV) return "index out of range";
    if (a == b) return "degenerate triangle";
    used[a] = 1; cnt[{a, b}]++;
  }
  for (int v = 0; v < nV; v++) if (!used[v]) return "vertex " + std::to_string(v) + " unused";
  for (auto& kv : cnt) if (kv.second != 1) return "directed edge used twice";
  std::set<std::pair<int, int>> be;
  for (size_t i = 0; i < bc.size(); i++) be.insert({bc[i], bc[(i + 1) % bc.size()]});
  for (auto& e : be) { if (!cnt.count(e)) return "boundary edge missing"; if (cnt.count({e.second, e.first})) return "boundary edge has a reverse"; }
  for (auto& kv : cnt) if (!be.count(kv.first) && !cnt.count({kv.first.second, kv.first.first})) return "interior edge unpaired";
  if (nT + (int)bc.size() + 2 != 2 * nV) return "F != b + 2i - 2";
  if (k == 3 && n[0] == n[1] && n[1] == n[2] && nT != n[0] * n[0]) return "uniform n: not n*n triangles";
  if (k == 4 && n[0] == n[1] && n[1] == n[2] && n[2] == n[3] && nT != 2 * n[0] * n[0]) return "uniform quad: not 2*n*n triangles";
  if (geom) {
    auto P = [&](int v) { vec4 b = p.vertBary[v]; return k == 4 ? std::pair<long double, long double>((long double)b.y + b.z, (long double)b.z + b.w) : std::pair<long double, long double>(b.y, b.z); };
    long double sum = 0, minA = 1e9;
    for (int t = 0; t < nT; t++) { auto a = P(p.triVert[t][0]), b = P(p.triVert[t][1]), c = P(p.triVert[t][2]);
      long double cr = (b.first - a.first) * (c.second - a.second) - (b.second - a.second) * (c.first - a.first); sum += cr; if (cr < minA) minA = cr; }
    if (minA < 1e-12L) return "sub-triangle not positively oriented";
    if (fabsl(sum - (k == 4 ? 2.0L : 1.0L)) > 1e-9L) return "areas do not sum to the whole";
    for (int v = 0; v < nV; v++) { vec4 b = p.vertBary[v]; if (fabs(b.x + b.y + b.z + b.w - 1) > 1e-12 || b.x < 0 || b.y < 0 || b.z < 0 || b.w < 0) return "barycentric not convex"; }
  }
  return "";
}

static void emitPart(const std::string& kind, ivec4 d, bool withBary, bool small) {
  Partition p = Partition::GetPartition(d);
  std::ostringstream rq, ex;
  rq << "partition " << (withBary ? "part" : "topo") << " " << d[0] << " " << d[1] << " " << d[2] << " " << d[3];
  if (d[0] == 0) {
    ex << "1 empty ; " << p.idx[0] << " " << p.idx[1] << " " << p.idx[2] << " " << p.idx[3] << " ; 0 0 0 0 ; " << p.vertBary.size() << " " << p.triVert.size() << " ; ;";
    // a default-constructed Partition: idx and sortedDivisions are ivec4() = 0
    bool ok = p.vertBary.size() == 0 && p.triVert.size() == 0;
    hz::emit("p" + std::to_string(gStats["cases"]++) + " " + kind, rq.str(), ex.str(), ok, ok ? "" : "skipped side is not empty");
    return;
  }
  std::string msg = oracle(p, withBary);
  ex << (small ? "1" : "*") << (p.vertBary.size() > 400 ? " big ; " : " ok ; ") << p.idx[0] << " " << p.idx[1] << " " << p.idx[2] << " " << p.idx[3] << " ; "
     << p.sortedDivisions[0] << " " << p.sortedDivisions[1] << " " << p.sortedDivisions[2] << " " << p.sortedDivisions[3]
     << " ; " << p.vertBary.size() << " " << p.triVert.size() << " ;";
  for (auto& t : p.triVert) ex << " " << t[0] << " " << t[1] << " " << t[2];
  if (withBary) { ex << " ;"; for (auto& b : p.vertBary) ex << " " << bits(b.x) << " " << bits(b.y) << " " << bits(b.z) << " " << bits(b.w); }
  gStats["tris"] += p.triVert.size(); gStats["maxTri"] = std::max<long>(gStats["maxTri"], p.triVert.size());
  gStats[d[3] > 0 ? "quads" : "triangles"]++;
  char tag[128]; snprintf(tag, sizeof tag, "p%ld %s d=%d,%d,%d,%d nT=%zu", gStats["cases"]++, kind.c_str(), d[0], d[1], d[2], d[3], p.triVert.size());
  hz::emit(tag, rq.str(), ex.str(), msg.empty(), msg);
}

// Reindex on a random but CONSISTENT embedding: corner vertices distinct, edge ranges pairwise
// disjoint and disjoint from the corners and the interior range; oracle: injective on the pattern's
// vertices, corners/edges/interior land in their ranges, every mesh edge is traversed by the
// boundary in mesh order (fwd: offset.., backward: offset+n-2 down), orientation preserved.
static void emitReindex(Rng& r, int maxDiv) {
  const bool quad = r.below(3) == 0;
  ivec4 d(0);
  const int flavour = r.below(4);
  for (int i = 0; i < (quad ? 4 : 3); i++) d[i] = flavour == 0 ? 1 + r.below(3) : flavour == 1 ? 1 + r.below(maxDiv) : (r.below(2) ? 1 : 1 + r.below(maxDiv));
  if (flavour == 3) { int v = 1 + r.below(maxDiv); for (int i = 0; i < (quad ? 4 : 3); i++) d[i] = v; }
  Partition p = Partition::GetPartition(d);
  const int k = quad ? 4 : 3;
  // layout: [corner ids] somewhere in 0..nv0, edge ranges after nv0 in a random order with random gaps
  int nv0 = 10 + r.below(50);
  ivec4 tv(-1), eo(0); bvec4 fw(false);
  std::set<int> cs; while ((int)cs.size() < k) cs.insert(r.below(nv0));
  std::vector<int> cv(cs.begin(), cs.end()); for (int i = k - 1; i > 0; i--) std::swap(cv[i], cv[r.below(i + 1)]);
  for (int i = 0; i < k; i++) tv[i] = cv[i];
  int cur = nv0; std::vector<int> order(k); for (int i = 0; i < k; i++) order[i] = i; for (int i = k - 1; i > 0; i--) std::swap(order[i], order[r.below(i + 1)]);
  for (int e : order) { cur += r.below(4); eo[e] = cur; cur += d[e] - 1; }
  for (int i = 0; i < k; i++) fw[i] = tv[i] < tv[(i + 1) % k];   // IsForward of the halfedge tv[i] -> tv[i+1]
  const int io = cur + r.below(5);
  Vec<ivec3> out = p.Reindex(tv, eo, fw, io);
  std::ostringstream rq, ex;
  rq << "partition reindex " << d[0] << " " << d[1] << " " << d[2] << " " << d[3] << " ; " << tv[0] << " " << tv[1] << " " << tv[2] << " " << tv[3]
     << " ; " << eo[0] << " " << eo[1] << " " << eo[2] << " " << eo[3] << " ; " << (int)fw[0] << " " << (int)fw[1] << " " << (int)fw[2] << " " << (int)fw[3] << " ; " << io;
  bool first = true; for (auto& t : out) { ex << (first ? "" : " ") << t[0] << " " << t[1] << " " << t[2]; first = false; }
  // oracle: mesh boundary cycle
  std::string msg;
  std::vector<int> mb;
  for (int i = 0; i < k; i++) { mb.push_back(tv[i]); for (int j = 0; j < d[i] - 1; j++) mb.push_back(fw[i] ? eo[i] + j : eo[i] + d[i] - 2 - j); }
  std::map<std::pair<int, int>, int> cnt; std::set<int> usedV;
  for (auto& t : out) for (int j = 0; j < 3; j++) { cnt[{t[j], t[(j + 1) % 3]}]++; usedV.insert(t[j]); }
  if ((int)usedV.size() != (int)p.vertBary.size()) msg = "Reindex is not injective on the pattern's vertices";
  for (auto& kv : cnt) if (kv.second != 1) msg = "directed edge twice after Reindex";
  std::set<std::pair<int, int>> be;
  for (size_t i = 0; i < mb.size(); i++) be.insert({mb[i], mb[(i + 1) % mb.size()]});
  for (auto& e : be) if (!cnt.count(e) || cnt.count({e.second, e.first})) msg = "mesh boundary edge not traversed in mesh order";
  for (auto& kv : cnt) if (!be.count(kv.first) && !cnt.count({kv.first.second, kv.first.first})) msg = "interior edge unpaired after Reindex";
  for (int v : usedV) { bool isC = false; for (int i = 0; i < k; i++) isC |= v == tv[i]; bool isE = false; for (int i = 0; i < k; i++) isE |= v >= eo[i] && v < eo[i] + d[i] - 1;
    bool isI = v >= io && v < io + p.NumInterior(); if (!isC && !isE && !isI) msg = "vertex outside the corner, edge and interior ranges"; }
  gStats[quad ? "reindexQuad" : "reindexTri"]++;
  if (!quad && p.idx[1] != Next3(p.idx[0])) gStats["reindexMirrored"]++;
  char tag[128]; snprintf(tag, sizeof tag, "p%ld reindex d=%d,%d,%d,%d", gStats["cases"]++, d[0], d[1], d[2], d[3]);
  hz::emit(tag, rq.str(), ex.str(), msg.empty(), msg);
}

int main(int argc, char** argv) {
  const int NT = argc > 1 ? atoi(argv[1]) : 8, NQ = argc > 2 ? atoi(argv[2]) : 5, NR = argc > 3 ? atoi(argv[3]) : 60, NX = argc > 4 ? atoi(argv[4]) : 200;
  Rng r(hz::envSeed());
  for (int a = 1; a <= NT; a++) for (int b = 1; b <= NT; b++) for (int c = 1; c <= NT; c++) emitPart("tri", {a, b, c, 0}, true, true);
  for (int a = 1; a <= NQ; a++) for (int b = 1; b <= NQ; b++) for (int c = 1; c <= NQ; c++) for (int d = 1; d <= NQ; d++) emitPart("quad", {a, b, c, d}, true, true);
  emitPart("skip", {0, 3, 2, 4}, true, true);
  emitPart("skip", {0, 0, 0, 0}, true, true);
  for (int i = 0; i < NR; i++) {
    const bool quad = r.below(3) == 0, big = r.below(3) == 0;
    const int M = big ? 200 : 40;
    ivec4 d(0);
    const int fl = r.below(5);
    for (int j = 0; j < (quad ? 4 : 3); j++) d[j] = fl == 0 ? 1 + r.below(M) : fl == 1 ? (r.below(2) ? 1 + r.below(3) : 1 + r.below(M)) : fl == 2 ? M - r.below(3) : 1 + r.below(M);
    if (fl == 3) { int v = 1 + r.below(M); for (int j = 0; j < (quad ? 4 : 3); j++) d[j] = v; }   // uniform
    if (fl == 4 && !quad) { d[0] = 2 + r.below(M); d[1] = 1 + r.below(std::max(1, d[0] / 2)); d[2] = 1 + r.below(std::max(1, d[0] - d[1])); std::swap(d[r.below(3)], d[r.below(3)]); }  // obtuse / degenerate strips
    if (quad && big) for (int j = 0; j < 4; j++) d[j] = 1 + d[j] % 90;   // quads up to 90
    emitPart(big ? "bigrand" : "rand", d, !big, false);
  }
  for (int i = 0; i < NX; i++) emitReindex(r, i % 3 == 0 ? 30 : 8);
  printf("STATS");
  for (auto& kv : gStats) printf(" %s=%ld", kv.first.c_str(), kv.second);
  printf("\n");
  return 0;
}
