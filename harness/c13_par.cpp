// C13 correspondence harness: the real templates of /repo/src/parallel.h, compiled with
// MANIFOLD_PAR=1 against virtual TBB, on (input, schedule) pairs; every case is also
// compared with the std:: algorithm (the property itself).
#include <algorithm>
#include <numeric>
#include <set>
#ifdef REAL_TBB
#include <tbb/tbb.h>
#include <string>
#include <vector>
namespace tbb { namespace vt {
struct Ctl { bool record = false; int mode = 0; std::vector<std::string> log; size_t calls = 0, leaves = 0, steals = 0; };
inline Ctl& ctl() { static Ctl c; return c; }
inline void seed(uint64_t) {}
} }
#else
#include "tbb/vtbb_core.h"
#endif
#include "parallel.h"
#include "common.h"
using namespace manifold;
using hz::Rng; using hz::join;
static void emit(const std::string& tag, const std::string& req, const std::string& exp, bool ok, const std::string& msg = "") {
#ifdef REAL_TBB
  hz::emit(tag, "", "", ok, msg);
#else
  hz::emit(tag, req, exp, ok, msg);
#endif
}
typedef long long i64;
static const i64 P = 65521;
struct Add { i64 operator()(i64 a, i64 b) const { return a + b; } };
struct AbsSum { i64 operator()(i64 a, i64 b) const { return std::llabs(a) + std::llabs(b); } };
struct Aff { i64 operator()(i64 x, i64 y) const { i64 a1 = x / P, b1 = x % P, a2 = y / P, b2 = y % P; return ((a1 * a2) % P) * P + ((a2 * b1 + b2) % P); } };
struct Max { i64 operator()(i64 a, i64 b) const { return a < b ? b : a; } };

static std::vector<std::string> takeLog() { auto l = std::move(tbb::vt::ctl().log); tbb::vt::ctl().log.clear(); return l; }
static std::string trees(const std::vector<std::string>& log, const char* sep = " ; ") {
  std::string s; bool first = true;
  for (auto& e : log) if (e.rfind("chunks", 0) != 0) { if (!first) s += sep; first = false; s += e; }
  return s;
}
static std::string firstTree(const std::vector<std::string>& log) { for (auto& e : log) if (e.rfind("chunks", 0) != 0) return e; return "L"; }
static std::string firstChunks(const std::vector<std::string>& log) { for (auto& e : log) if (e.rfind("chunks", 0) == 0) return e.substr(e.size() > 6 ? 7 : 6); return ""; }

static size_t pickLen(Rng& r, bool big) {
  static const size_t edges[] = {0, 1, 2, 3, 5, 8, 13, 33};
  switch (r.below(big ? 6 : 4)) {
    case 0: return edges[r.below(8)];
    case 1: return r.below(40);
    case 2: return 40 + r.below(400);
    case 3: return 9990 + r.below(30);           // kSeqThreshold +- a few
    case 4: return 20000 + r.below(15000);
    default: return 65530 + r.below(12);
  }
}
static std::vector<i64> genVals(Rng& r, size_t n, int kind) {
  std::vector<i64> v(n);
  for (size_t i = 0; i < n; i++) switch (kind) {
    case 0: v[i] = (i64)r.below(7) - 3; break;          // few distinct, signed
    case 1: v[i] = (i64)i; break;                       // sorted
    case 2: v[i] = (i64)(n - i); break;                 // reverse
    case 3: v[i] = 4; break;                            // all equal
    default: v[i] = (i64)r.below(2000001) - 1000000; break;
  }
  return v;
}
static bool predOf(const std::string& p, i64 x) {
  if (p == "pos") return x > 0; if (p == "odd") return x % 2 != 0; if (p == "nz") return x != 0; if (p == "eq3") return x == 3; return x < 5;
}
static const char* preds[] = {"pos", "odd", "nz", "lt5", "eq3"};

int main(int argc, char** argv) {
  uint64_t seed = hz::envSeed();
  int ncase = argc > 1 ? atoi(argv[1]) : 300;
  bool big = hz::thorough() || (argc > 2 && atoi(argv[2]));
  Rng r(seed);
  tbb::vt::ctl().record = true;
  for (int c = 0; c < ncase; c++) {
    tbb::vt::seed(seed * 1000003 + c);
    tbb::vt::ctl().mode = (c % 7 == 0) ? 2 : 0;
    int which = c % 14;
    size_t n = pickLen(r, big && (c % 5 == 0));
    std::string tag = "c" + std::to_string(c);
    takeLog();
    if (which == 0) {  // exclusive_scan
      const char* ops[] = {"add", "abs", "aff"}; int o = (int)r.below(3);
      auto in = genVals(r, n, o == 2 ? 4 : (int)r.below(5));
      if (o == 2) for (auto& x : in) x = ((x % P + P) % P) * P + (i64)r.below(P);
      i64 init = o == 2 ? (i64)(r.below(P) * P + r.below(P)) : (i64)r.below(9) - 2, idn = o == 2 ? P : 0;
      if (o == 1 && init < 0) init = -init;   // AbsSum: 0 is an identity only on non-negative values (op(x, 0) = |x|), and parallel.h requires an identity for init and every partial sum
      std::vector<i64> out(n, -1), ref(n, -1);
      if (o == 0) { exclusive_scan(ExecutionPolicy::Par, in.begin(), in.end(), out.begin(), init, Add(), idn); std::exclusive_scan(in.begin(), in.end(), ref.begin(), init, Add()); }
      if (o == 1) { exclusive_scan(ExecutionPolicy::Par, in.begin(), in.end(), out.begin(), init, AbsSum(), idn); std::exclusive_scan(in.begin(), in.end(), ref.begin(), init, AbsSum()); }
      if (o == 2) { exclusive_scan(ExecutionPolicy::Par, in.begin(), in.end(), out.begin(), init, Aff(), idn); std::exclusive_scan(in.begin(), in.end(), ref.begin(), init, Aff()); }
      auto log = takeLog();
      emit(tag + " exscan " + ops[o] + " n=" + std::to_string(n), std::string("par exscan ") + ops[o] + " " + std::to_string(init) + " " + std::to_string(idn) + " ; " + join(in) + " ; " + firstTree(log), join(out), out == ref, "exclusive_scan != std::exclusive_scan");
    } else if (which == 1) {  // inclusive_scan
      auto in = genVals(r, n, (int)r.below(5));
      std::vector<i64> out(n, -1), ref(n, -1);
      inclusive_scan(ExecutionPolicy::Par, in.begin(), in.end(), out.begin()); std::inclusive_scan(in.begin(), in.end(), ref.begin());
      auto log = takeLog();
      emit(tag + " inscan n=" + std::to_string(n), "par inscan add ; " + join(in) + " ; " + firstTree(log), join(out), out == ref, "inclusive_scan != std::inclusive_scan");
    } else if (which == 2) {  // reduce (init is an identity, as the documentation of TBB requires)
      const char* ops[] = {"add", "max", "aff"}; int o = (int)r.below(3);
      if (n < 10000 && r.below(2)) n = 10001 + r.below(30000);   // grain is kSeqThreshold
      auto in = genVals(r, n, o == 2 ? 4 : (int)r.below(5));
      if (o == 2) for (auto& x : in) x = ((x % P + P) % P) * P + (i64)r.below(P);
      i64 init = o == 0 ? 0 : o == 1 ? -1000000000000LL : P, got = 0, ref = 0;
      if (o == 0) { got = reduce(ExecutionPolicy::Par, in.begin(), in.end(), init, Add()); ref = std::accumulate(in.begin(), in.end(), init, Add()); }
      if (o == 1) { got = reduce(ExecutionPolicy::Par, in.begin(), in.end(), init, Max()); ref = std::accumulate(in.begin(), in.end(), init, Max()); }
      if (o == 2) { got = reduce(ExecutionPolicy::Par, in.begin(), in.end(), init, Aff()); ref = std::accumulate(in.begin(), in.end(), init, Aff()); }
      auto log = takeLog();
      // aff is associative but not commutative: std::reduce may reassociate, never reorder across the whole range in libstdc++; compare with the left fold
      emit(tag + " reduce " + ops[o] + " n=" + std::to_string(n), std::string("par reduce ") + ops[o] + " " + std::to_string(init) + " ; " + join(in) + " ; " + firstTree(log), std::to_string(got), o == 2 || got == ref, "reduce != left fold");
    } else if (which == 3) {  // all_of / count_if
      std::string p = preds[r.below(4)];
      auto in = genVals(r, n, (int)r.below(5));
      if (r.below(2)) for (auto& x : in) x = 1;  // make all_of true sometimes
      if (c % 2) {
        bool got = all_of(ExecutionPolicy::Par, in.begin(), in.end(), [&](i64 x) { return predOf(p, x); });
        bool ref = std::all_of(in.begin(), in.end(), [&](i64 x) { return predOf(p, x); });
        auto log = takeLog();
        emit(tag + " allof n=" + std::to_string(n), "par allof " + p + " ; " + join(in) + " ; " + firstTree(log), got ? "1" : "0", got == ref, "all_of != std::all_of");
      } else {
        if (n < 10000 && r.below(2)) { n = 10001 + r.below(30000); in = genVals(r, n, 0); }
        size_t got = count_if(ExecutionPolicy::Par, in.begin(), in.end(), [&](i64 x) { return predOf(p, x); });
        size_t ref = std::count_if(in.begin(), in.end(), [&](i64 x) { return predOf(p, x); });
        auto log = takeLog();
        emit(tag + " countif n=" + std::to_string(n), "par countif " + p + " ; " + join(in) + " ; " + firstTree(log), std::to_string(got), got == ref, "count_if != std::count_if");
      }
    } else if (which == 4) {  // copy_if
      std::string p = preds[r.below(5)];
      auto in = genVals(r, n, (int)r.below(5));
      std::vector<i64> out(n, 0), ref(n, 0);
      size_t got = copy_if(ExecutionPolicy::Par, in.begin(), in.end(), out.begin(), [&](i64 x) { return predOf(p, x); }) - out.begin();
      size_t rn = std::copy_if(in.begin(), in.end(), ref.begin(), [&](i64 x) { return predOf(p, x); }) - ref.begin();
      auto log = takeLog();
      emit(tag + " copyif n=" + std::to_string(n), "par copyif " + p + " ; " + join(in) + " ; " + firstTree(log), std::to_string(got) + " | " + join(out), got == rn && out == ref, "copy_if != std::copy_if");
    } else if (which == 5) {  // remove_if / remove
      std::string p = (c % 2) ? "eq3" : preds[r.below(4)];
      auto in = genVals(r, n, (int)r.below(5));
      if (c % 2) for (size_t i = 0; i < n; i += 1 + r.below(3)) in[i] = 3;
      auto a = in, b = in;
      size_t got, rn;
      if (c % 2) { got = remove(ExecutionPolicy::Par, a.begin(), a.end(), (i64)3) - a.begin(); rn = std::remove(b.begin(), b.end(), (i64)3) - b.begin(); }
      else { got = remove_if(ExecutionPolicy::Par, a.begin(), a.end(), [&](i64 x) { return predOf(p, x); }) - a.begin(); rn = std::remove_if(b.begin(), b.end(), [&](i64 x) { return predOf(p, x); }) - b.begin(); }
      a.resize(got); b.resize(rn);
      auto log = takeLog();
      emit(tag + " removeif n=" + std::to_string(n), "par removeif " + p + " ; " + join(in) + " ; " + firstTree(log), join(a), a == b, "remove_if != std::remove_if");
    } else if (which == 6) {  // unique
      if (big || (c / 14) % 2 == 0) { static const size_t L[] = {65535, 65536, 65537, 131071, 131072, 131073, 200000}; n = L[r.below(7)]; }
      std::vector<i64> in(n);
      size_t run = 1 + r.below(4);
      for (size_t i = 0; i < n; i++) in[i] = (i64)(i / run) - (r.below(50) == 0 ? 1 : 0);
      if (n > 65536 && r.below(2)) { in[65535] = in[65536]; }
      if (n > 131072 && r.below(2)) { in[131071] = in[131072]; }
      auto a = in, b = in;
      a.resize(manifold::unique(ExecutionPolicy::Par, a.begin(), a.end()) - a.begin());
      b.resize(std::unique(b.begin(), b.end()) - b.begin());
      auto log = takeLog();
      std::string t = trees(log);
      emit(tag + " unique n=" + std::to_string(n), "par unique 65536 ; " + join(in) + (t.empty() ? "" : " ; " + t), join(a), a == b, "unique != std::unique");
    } else if (which >= 7 && which <= 9) {  // parallel_for family
      const char* kinds[] = {"fill", "sequence", "transform", "copy", "gather", "scatter"};
      int k = (int)r.below(6);
      if (n == 0) n = 1 + r.below(30);
      if (n > 30000) n = 30000;
      if (k == 3 && r.below(2)) n = 10001 + r.below(15000);   // copy has grain kSeqThreshold
      std::vector<i64> aux(n), out(n, -7), ref(n, -7), input(n);
      for (size_t i = 0; i < n; i++) { aux[i] = (i64)r.below(100); input[i] = 1000 + (i64)i; }
      std::vector<size_t> perm(n); for (size_t i = 0; i < n; i++) perm[i] = i;
      for (size_t i = n; i > 1; --i) std::swap(perm[i - 1], perm[r.below(i)]);
      std::string auxs;
      switch (k) {
        case 0: fill(ExecutionPolicy::Par, out.begin(), out.end(), (i64)42); std::fill(ref.begin(), ref.end(), (i64)42); break;
        case 1: sequence(ExecutionPolicy::Par, out.begin(), out.end()); std::iota(ref.begin(), ref.end(), (i64)0); break;
        case 2: transform(ExecutionPolicy::Par, aux.begin(), aux.end(), out.begin(), [](i64 x) { return x * 3 + 1; }); std::transform(aux.begin(), aux.end(), ref.begin(), [](i64 x) { return x * 3 + 1; }); auxs = join(aux); break;
        case 3: copy(ExecutionPolicy::Par, aux.begin(), aux.end(), out.begin()); std::copy(aux.begin(), aux.end(), ref.begin()); auxs = join(aux); break;
        case 4: for (size_t i = 0; i < n; i++) aux[i] = (i64)r.below(n);
                gather(ExecutionPolicy::Par, aux.begin(), aux.end(), input.begin(), out.begin()); for (size_t i = 0; i < n; i++) ref[i] = input[aux[i]]; auxs = join(aux); break;
        case 5: for (size_t i = 0; i < n; i++) aux[i] = (i64)perm[i];
                scatter(ExecutionPolicy::Par, input.begin(), input.end(), aux.begin(), out.begin()); for (size_t i = 0; i < n; i++) ref[aux[i]] = input[i]; auxs = join(aux); break;
      }
      auto log = takeLog();
      emit(tag + " for " + kinds[k] + " n=" + std::to_string(n), std::string("par for ") + kinds[k] + " " + std::to_string(n) + (auxs.empty() ? "" : " ; " + auxs) + " ; " + firstChunks(log), join(out) + " | 1", out == ref, std::string(kinds[k]) + " != sequential");
    } else if (which == 10 || which == 11) {  // stable_sort with comparator (merge sort)
      if (which == 11) n = 10001 + r.below(big ? 60000 : 22000);
      std::vector<std::pair<int, int>> v(n); std::vector<i64> keys(n);
      int distinct = 1 + (int)r.below(r.below(2) ? 5 : 100000);
      for (size_t i = 0; i < n; i++) { keys[i] = (i64)r.below(distinct) - 2; v[i] = {(int)keys[i], (int)i}; }
      if (r.below(4) == 0) { std::sort(keys.begin(), keys.end()); for (size_t i = 0; i < n; i++) v[i].first = (int)keys[i]; }
      auto w = v; auto cmp = [](const std::pair<int, int>& a, const std::pair<int, int>& b) { return a.first < b.first; };
      stable_sort(ExecutionPolicy::Par, v.begin(), v.end(), cmp); std::stable_sort(w.begin(), w.end(), cmp);
      takeLog();
      std::vector<int> pay(n); for (size_t i = 0; i < n; i++) pay[i] = v[i].second;
      emit(tag + " msort n=" + std::to_string(n), "par msort 10000 ; " + join(keys), join(pay), v == w, "stable_sort(comp) != std::stable_sort");
    } else if (which == 12) {  // mergeRec directly
      size_t n1 = r.below(2) ? r.below(50) : 4000 + r.below(9000), n2 = r.below(2) ? r.below(50) : 4000 + r.below(9000);
      int distinct = 1 + (int)r.below(r.below(2) ? 4 : 50000);
      std::vector<std::pair<int, int>> src(n1 + n2), dst(n1 + n2), ref(n1 + n2);
      std::vector<i64> k1(n1), k2(n2);
      for (auto& k : k1) k = (i64)r.below(distinct); for (auto& k : k2) k = (i64)r.below(distinct);
      std::sort(k1.begin(), k1.end()); std::sort(k2.begin(), k2.end());
      for (size_t i = 0; i < n1; i++) src[i] = {(int)k1[i], (int)i};
      for (size_t i = 0; i < n2; i++) src[n1 + i] = {(int)k2[i], 1000000 + (int)i};
      auto cmp = [](const std::pair<int, int>& a, const std::pair<int, int>& b) { return a.first < b.first; };
      details::mergeRec(src.begin(), dst.begin(), 0, n1, n1, n1 + n2, 0, cmp);
      std::merge(src.begin(), src.begin() + n1, src.begin() + n1, src.end(), ref.begin(), cmp);
      takeLog();
      std::vector<int> pay(n1 + n2); for (size_t i = 0; i < n1 + n2; i++) pay[i] = dst[i].second;
      emit(tag + " merge n1=" + std::to_string(n1) + " n2=" + std::to_string(n2), "par merge 10000 ; " + join(k1) + " ; " + join(k2), join(pay), dst == ref, "mergeRec != std::merge");
    } else {  // radix path: stable_sort without comparator on unsigned integers
      if (n < 3) n = 3 + r.below(40);
      if (r.below(2)) n = 2500 + r.below(big ? 90000 : 30000);
      std::vector<uint32_t> v(n);
      int kind = (int)r.below(4);
      for (auto& x : v) x = kind == 0 ? (uint32_t)r.below(256) : kind == 1 ? (uint32_t)(r.below(256) << 16 | 0x5A000033u) : kind == 2 ? (uint32_t)r.next() : (uint32_t)r.below(5);
      auto in = v; auto w = v;
      stable_sort(ExecutionPolicy::Par, v.begin(), v.end()); std::stable_sort(w.begin(), w.end());
      auto log = takeLog();
      emit(tag + " radix n=" + std::to_string(n), "par radix 10000 4 ; " + join(in) + " ; " + firstTree(log), join(v), v == w, "stable_sort (radix) != std::stable_sort");
    }
  }
  // signed keys: must equal std::stable_sort as well (radix path must not be taken, or must handle the sign)
  {
    tbb::vt::seed(seed + 77);
    std::vector<int> v(30000); for (auto& x : v) x = (int)r.below(2001) - 1000;
    auto w = v; stable_sort(ExecutionPolicy::Par, v.begin(), v.end()); std::stable_sort(w.begin(), w.end());
    takeLog();
    emit("signed-sort n=30000", "", "", v == w, "stable_sort(Par) of negative ints != std::stable_sort");
  }
  fprintf(stderr, "vtbb calls=%zu leaves=%zu steals=%zu\n", tbb::vt::ctl().calls, tbb::vt::ctl().leaves, tbb::vt::ctl().steals);
  printf("STATS calls=%zu leaves=%zu steals=%zu\n", tbb::vt::ctl().calls, tbb::vt::ctl().leaves, tbb::vt::ctl().steals);
  return 0;
}
