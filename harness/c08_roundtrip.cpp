// C08 harness: MeshGL export and re-import is lossless.
// For every random API program (progs.h, with CalculateNormals / SmoothOut / SmoothByNormals
// enabled) and every user mesh the program imported:
//   CASE <n> export…   REQ `export all …` (the Impl's exporter inputs)  EXP the real GetMeshGL64
//                      PROP = the round-trip oracle below on the REAL code
//   CASE <n> input…    (no model request) a user MeshGL64 -> Manifold -> GetMeshGL64 keeps the
//                      user's triangles, per-corner values, face IDs and original IDs
// Round-trip oracle, m -> g = GetMeshGL64(m) -> m2 = Manifold(g) -> g2 = GetMeshGL64(m2):
//   status NoError; g2.tolerance >= g.tolerance; the canonical triangle multisets of g and g2 are
//   identical, where a triangle is (originalID, 12 transform bit patterns, runFlags, faceID, and
//   per corner: position bits, property bits, tangent bits), corners rotated to a canonical
//   start (a vertex is identified by its position bit pattern, never by its index).  Channels
//   0..2 of runs flagged hasNormals are compared within 4 ulp instead of bitwise.
//   32-bit: GetMeshGL has the same integer fields and positions within 1 ulp(float); its own
//   round trip is exact on the float bit patterns.
//   OBJ: WriteOBJ(g) -> ReadOBJ gives bit-identical positions (same order) and the same sorted
//   triangle list.
//   Merge: with mergeFrom/mergeTo stripped, Merge() restores a mesh the importer accepts
//   (NoError, same triangle count).
//   Refine: for meshes with tangents, Refine(2) of m and of m2 give the same set of vertex
//   positions and the same triangles over them (bitwise).
#include "progs.h"
using namespace pg;

typedef std::vector<uint64_t> Rec;

template <typename G> static uint64_t pbits(const G& g, size_t i);
template <> uint64_t pbits<MeshGL64>(const MeshGL64& g, size_t i) { return bits(g.vertProperties[i]); }
template <> uint64_t pbits<MeshGL>(const MeshGL& g, size_t i) { return bitsf(g.vertProperties[i]); }
template <typename T> static uint64_t tb(T x);
template <> uint64_t tb<double>(double x) { return bits(x); }
template <> uint64_t tb<float>(float x) { return bitsf(x); }

// canonical triangle records; `maskNormals`: zero channels 0..2 of hasNormals runs (compared
// separately with the rounding allowance)
template <typename G>
static std::vector<Rec> canon(const G& g, bool withRuns, bool withFace, bool maskNormals, bool withTangents = true) {
  const size_t np = g.numProp, nT = g.NumTri();
  std::vector<int> runOf(nT, -1);
  for (size_t r = 0; r + 1 < g.runIndex.size() && r < g.runOriginalID.size(); r++) for (size_t t = g.runIndex[r] / 3; t < g.runIndex[r + 1] / 3 && t < nT; t++) runOf[t] = (int)r;
  const bool tang = withTangents && g.halfedgeTangent.size() == 12 * nT;
  std::vector<Rec> out; out.reserve(nT);
  for (size_t t = 0; t < nT; t++) {
    Rec head; int run = runOf[t]; bool hasN = false;
    if (withRuns) {
      if (run >= 0) { head.push_back(g.runOriginalID[run]); uint64_t fl = (size_t)run < g.runFlags.size() ? g.runFlags[run] : 0; head.push_back(fl); hasN = fl & 2; for (int k = 0; k < 12; k++) head.push_back(g.runTransform.empty() ? tb((decltype(g.tolerance))(k % 4 == 0 && k < 9 ? 1 : 0)) : tb(g.runTransform[12 * run + k])); }
      else head.push_back(~0ull);
    }
    if (withFace) head.push_back(g.faceID.empty() ? ~0ull : g.faceID[t]);
    Rec c[3];
    for (int i = 0; i < 3; i++) {
      size_t v = g.triVerts[3 * t + i];
      for (size_t p = 0; p < np; p++) c[i].push_back((maskNormals && hasN && p >= 3 && p < 6) ? 0 : pbits(g, np * v + p));
      if (tang) for (int k = 0; k < 4; k++) c[i].push_back(tb(g.halfedgeTangent[4 * (3 * t + i) + k]));
    }
    int best = 0;
    for (int s = 1; s < 3; s++) { Rec a, b; for (int i = 0; i < 3; i++) { a.insert(a.end(), c[(s + i) % 3].begin(), c[(s + i) % 3].end()); b.insert(b.end(), c[(best + i) % 3].begin(), c[(best + i) % 3].end()); } if (a < b) best = s; }
    Rec rec = head; for (int i = 0; i < 3; i++) rec.insert(rec.end(), c[(best + i) % 3].begin(), c[(best + i) % 3].end());
    out.push_back(std::move(rec));
  }
  std::sort(out.begin(), out.end());
  return out;
}

static std::string firstDiff(const std::vector<Rec>& a, const std::vector<Rec>& b, size_t headLen, size_t cornerLen, size_t np) {
  if (a.size() != b.size()) return "triangle counts " + std::to_string(a.size()) + " vs " + std::to_string(b.size());
  for (size_t i = 0; i < a.size(); i++) if (a[i] != b[i]) {
    size_t k = 0; while (k < a[i].size() && k < b[i].size() && a[i][k] == b[i][k]) k++;
    std::string what;
    if (k < headLen) what = k == 0 ? "originalID" : k == 1 ? "runFlags" : k < 14 ? "runTransform" : "faceID";
    else { size_t o = (k - headLen) % cornerLen; what = o < 3 ? "position" : o < np ? "property channel " + std::to_string(o - 3) : "tangent"; }
    return "sorted triangle record " + std::to_string(i) + " differs first in " + what;
  }
  return "";
}

static bool ulpClose(double a, double b, int ulps) {
  if (a == b) return true;
  if (std::isnan(a) || std::isnan(b)) return false;
  double d = std::fabs(a - b), m = std::max(std::fabs(a), std::fabs(b));
  return d <= ulps * std::max(m, 1.0) * std::numeric_limits<double>::epsilon();
}

// the normals channels of hasNormals runs, in the order of the masked canonical sort
static std::string normalsClose(const MeshGL64& g, const MeshGL64& g2) {
  auto collect = [](const MeshGL64& x) {
    std::vector<std::pair<Rec, std::array<double, 9>>> v; const size_t np = x.numProp;
    if (np < 6) return v;
    for (size_t r = 0; r < x.runOriginalID.size(); r++) {
      if (!(x.runFlags[r] & 2)) continue;
      for (size_t t = x.runIndex[r] / 3; t < x.runIndex[r + 1] / 3; t++) {
        Rec c[3]; std::array<double, 3> n[3];
        for (int i = 0; i < 3; i++) { size_t vtx = x.triVerts[3 * t + i]; for (size_t p = 0; p < np; p++) c[i].push_back((p >= 3 && p < 6) ? 0 : bits(x.vertProperties[np * vtx + p])); for (int k = 0; k < 3; k++) n[i][k] = x.vertProperties[np * vtx + 3 + k]; }
        int best = 0; for (int s = 1; s < 3; s++) { Rec a, b; for (int i = 0; i < 3; i++) { a.insert(a.end(), c[(s + i) % 3].begin(), c[(s + i) % 3].end()); b.insert(b.end(), c[(best + i) % 3].begin(), c[(best + i) % 3].end()); } if (a < b) best = s; }
        Rec key = {x.runOriginalID[r]}; std::array<double, 9> nn;
        for (int i = 0; i < 3; i++) { key.insert(key.end(), c[(best + i) % 3].begin(), c[(best + i) % 3].end()); for (int k = 0; k < 3; k++) nn[3 * i + k] = n[(best + i) % 3][k]; }
        v.push_back({key, nn});
      }
    }
    std::stable_sort(v.begin(), v.end(), [](auto& a, auto& b) { return a.first < b.first; });
    return v;
  };
  auto a = collect(g), b = collect(g2);
  if (a.size() != b.size()) return "different number of triangles in hasNormals runs";
  for (size_t i = 0; i < a.size(); i++) {
    // triangles with identical keys (coincident corners) may be permuted: accept any partner in the group
    bool ok = false;
    for (size_t j = i; j < b.size() && b[j].first == a[i].first && !ok; j++) { ok = true; for (int k = 0; k < 9; k++) if (!ulpClose(a[i].second[k], b[j].second[k], 4)) ok = false; }
    for (size_t j = i; j-- > 0 && b[j].first == a[i].first && !ok;) { ok = true; for (int k = 0; k < 9; k++) if (!ulpClose(a[i].second[k], b[j].second[k], 4)) ok = false; }
    if (!ok) return "a normals channel changed by more than 4 ulp";
  }
  return "";
}

struct Stat { long rt = 0, rtTang = 0, rtNormals = 0, rtBack = 0, f32 = 0, obj = 0, merge = 0, refine = 0, inputs = 0, multiRun = 0; };

static std::string roundTrip(const Manifold& m, const MeshGL64& g, Stat& st) {
  const size_t np = g.numProp, nT = g.NumTri();
  const bool tang = g.halfedgeTangent.size() == 12 * nT && nT > 0;
  bool anyN = false, anyB = false; for (auto f : g.runFlags) { if (f & 2) anyN = true; if (f & 1) anyB = true; }
  // ---- 64-bit
  for (double x : g.halfedgeTangent) if (!std::isfinite(x)) return "nonfinite-tangents: the exported halfedgeTangent holds NaN/inf (re-import status " + std::to_string((int)Manifold(g).Status()) + ")";
  Manifold m2(g);
  if (m2.Status() != Manifold::Error::NoError) return "re-import status " + std::to_string((int)m2.Status());
  MeshGL64 g2 = m2.GetMeshGL64();
  if (!(g2.tolerance >= g.tolerance)) return "tolerance shrank on re-import";
  if (g2.numProp != g.numProp) return "numProp changed";
  { auto a = canon(g, true, true, anyN), b = canon(g2, true, true, anyN);
    std::string d = firstDiff(a, b, 15, np + (tang ? 4 : 0), np); if (!d.empty()) return "re-export: " + d;
    if (tang && g2.halfedgeTangent.size() != g.halfedgeTangent.size()) return "re-export: tangents lost";
    if (anyN) { std::string e = normalsClose(g, g2);
      // an ORIGINAL is exported without the re-normalisation a product gets (impl.h `updateNormals = !isOriginal && …`)
      if (!e.empty()) return (m.OriginalID() >= 0 ? "normals-renormalised-original: the export of an original keeps non-unit normals, its re-import re-normalises them; " : "re-export: ") + e; } }
  st.rt++; if (tang) st.rtTang++; if (anyN) st.rtNormals++; if (anyB) st.rtBack++; if (g.runOriginalID.size() > 1) st.multiRun++;
  // ---- 32-bit
  { MeshGL gf = m.GetMeshGL();
    if (gf.NumTri() != nT || gf.NumVert() != g.NumVert() || gf.numProp != g.numProp) return "MeshGL: sizes differ from MeshGL64";
    for (size_t i = 0; i < g.triVerts.size(); i++) if (gf.triVerts[i] != g.triVerts[i]) return "MeshGL: triVerts differ from MeshGL64";
    for (size_t i = 0; i < g.faceID.size(); i++) if (gf.faceID[i] != g.faceID[i]) return "MeshGL: faceID differs from MeshGL64";
    if (gf.runOriginalID != g.runOriginalID || gf.runFlags != g.runFlags || gf.runIndex.size() != g.runIndex.size() || gf.mergeFromVert.size() != g.mergeFromVert.size()) return "MeshGL: run/merge fields differ from MeshGL64";
    for (size_t i = 0; i < g.runIndex.size(); i++) if (gf.runIndex[i] != g.runIndex[i]) return "MeshGL: runIndex differs";
    for (size_t i = 0; i < g.mergeFromVert.size(); i++) if (gf.mergeFromVert[i] != g.mergeFromVert[i] || gf.mergeToVert[i] != g.mergeToVert[i]) return "MeshGL: merge vectors differ";
    for (size_t v = 0; v < g.NumVert(); v++) for (int k = 0; k < 3; k++) {
      double d = g.vertProperties[np * v + k]; float f = gf.vertProperties[np * v + k];
      float lo = std::nextafterf(f, -INFINITY), hi = std::nextafterf(f, INFINITY);
      if (!((double)lo <= d && d <= (double)hi)) return "MeshGL: a position is more than 1 ulp(float) from the double";
    }
    Manifold mf(gf);
    if (mf.Status() != Manifold::Error::NoError) return "MeshGL re-import status " + std::to_string((int)mf.Status());
    MeshGL gf2 = mf.GetMeshGL();
    if (!(gf2.tolerance >= gf.tolerance)) return "MeshGL: tolerance shrank on re-import";
    auto a = canon(gf, true, true, anyN), b = canon(gf2, true, true, anyN);
    std::string dd = firstDiff(a, b, 15, np + (tang ? 4 : 0), np); if (!dd.empty()) return "MeshGL re-export: " + dd;
    st.f32++; }
  // ---- OBJ
  { std::stringstream ss; if (!WriteOBJ(ss, g)) return "WriteOBJ failed"; MeshGL64 gr = ReadOBJ(ss);
    if (gr.NumVert() != g.NumVert() || gr.NumTri() != nT) return "OBJ: counts differ";
    for (size_t v = 0; v < g.NumVert(); v++) for (int k = 0; k < 3; k++) if (bits(gr.vertProperties[3 * v + k]) != bits(g.vertProperties[np * v + k])) { char b[200]; snprintf(b, sizeof b, "OBJ: position %.17g read back as %.17g", g.vertProperties[np * v + k], gr.vertProperties[3 * v + k]); return b; }
    std::vector<std::array<uint64_t, 3>> A, B; for (size_t t = 0; t < nT; t++) { A.push_back({g.triVerts[3 * t], g.triVerts[3 * t + 1], g.triVerts[3 * t + 2]}); B.push_back({gr.triVerts[3 * t], gr.triVerts[3 * t + 1], gr.triVerts[3 * t + 2]}); }
    std::sort(A.begin(), A.end()); std::sort(B.begin(), B.end()); if (A != B) return "OBJ: triangles differ";
    st.obj++; }
  // ---- Merge() after stripping the merge vectors
  if (!g.mergeFromVert.empty()) {
    MeshGL64 gs = g; gs.mergeFromVert.clear(); gs.mergeToVert.clear(); gs.Merge();
    Manifold ms(gs);
    if (ms.Status() != Manifold::Error::NoError) return "Merge() after stripping the merge vectors: import status " + std::to_string((int)ms.Status());
    // ... and it restores THE manifold, not some other one: same vertex and triangle counts, same volume - whenever the question is
    // well posed, i.e. no two DISTINCT vertices of the manifold lie within 1.05x the tolerance of each other in the max norm (Merge() welds by position, with
    // per-axis boxes of +-tolerance/2;
    // results of coincident-surface Booleans can hold distinct vertices at one position, which no position-based weld can keep apart)
    bool wellPosed = g.NumVert() <= 4000;
    if (wellPosed) { std::vector<uint64_t> rep(g.NumVert()); for (size_t v = 0; v < g.NumVert(); v++) rep[v] = v; for (size_t k = 0; k < g.mergeFromVert.size(); k++) rep[g.mergeFromVert[k]] = g.mergeToVert[k];
      const double lim = 1.05 * g.tolerance;
      for (size_t a = 0; a < g.NumVert() && wellPosed; a++) for (size_t b = a + 1; b < g.NumVert(); b++) { if (rep[a] == rep[b]) continue; double dm = 0; for (int k = 0; k < 3; k++) dm = std::max(dm, std::fabs(g.vertProperties[np * a + k] - g.vertProperties[np * b + k])); if (dm <= lim) { wellPosed = false; break; } } }
    if (!wellPosed) { st.merge++; }
    else
    if (ms.NumVert() != m.NumVert() || ms.NumTri() != m.NumTri()) { char b[240]; snprintf(b, sizeof b, "Merge() after stripping the merge vectors re-imports as %zu verts / %zu tris, the manifold has %zu / %zu (tolerance %.3g)", (size_t)ms.NumVert(), (size_t)ms.NumTri(), (size_t)m.NumVert(), (size_t)m.NumTri(), g.tolerance); return b; }
    else if (std::fabs(ms.Volume() - m.Volume()) > 1e-9 * (1 + std::fabs(m.Volume()))) return "Merge() after stripping the merge vectors changes the volume";
    else st.merge++;
  }
  // ---- Refine(2) before / after
  if (tang && nT <= 1500) {
    Manifold r1 = m.Refine(2), r2 = m2.Refine(2);
    if (r1.Status() != Manifold::Error::NoError) return "";  // not a round-trip matter
    if (r2.Status() != Manifold::Error::NoError) return "Refine(2) after the round trip: status " + std::to_string((int)r2.Status()) + " (NoError before)";
    MeshGL64 a = r1.GetMeshGL64(), b = r2.GetMeshGL64(); a.numProp = a.numProp;
    // positions only (first three channels), no runs: the surface
    auto strip = [](const MeshGL64& x) { MeshGL64 y; y.numProp = 3; for (size_t v = 0; v < x.NumVert(); v++) for (int k = 0; k < 3; k++) y.vertProperties.push_back(x.vertProperties[x.numProp * v + k]); y.triVerts = x.triVerts; return y; };
    auto A = canon(strip(a), false, false, false, false), B = canon(strip(b), false, false, false, false);
    if (A != B) return "Refine(2) gives a different surface after the round trip: " + firstDiff(A, B, 0, 3, 3);
    st.refine++;
  }
  return "";
}

// user mesh -> Manifold -> export keeps what the user supplied
static std::string inputKept(const UserMesh& um) {
  Manifold m(um.g);
  if (m.Status() != Manifold::Error::NoError) return "import status " + std::to_string((int)m.Status());
  MeshGL64 g = m.GetMeshGL64();
  MeshGL64 u = um.g;
  const bool face = !u.faceID.empty(), runs = !u.runOriginalID.empty();
  if (runs && u.runIndex.size() == u.runOriginalID.size()) u.runIndex.push_back(u.triVerts.size());
  if (g.numProp != u.numProp) return "numProp changed";
  auto A = canon(u, false, face, false, false), B = canon(g, false, face, false, false);
  std::string d = firstDiff(A, B, face ? 1 : 0, u.numProp, u.numProp);
  if (!d.empty()) return (face ? "user triangles/values/face IDs not kept: " : "user triangles/values not kept: ") + d;
  if (runs) {  // original IDs per triangle
    auto withId = [](const MeshGL64& x) { std::vector<Rec> v; auto c = canon(x, false, false, false, false); (void)c; const size_t np = x.numProp;
      for (size_t r = 0; r < x.runOriginalID.size(); r++) for (size_t t = x.runIndex[r] / 3; t < x.runIndex[r + 1] / 3; t++) { Rec c3[3]; for (int i = 0; i < 3; i++) for (size_t p = 0; p < np; p++) c3[i].push_back(bits(x.vertProperties[np * x.triVerts[3 * t + i] + p])); std::sort(c3, c3 + 3); Rec rec = {x.runOriginalID[r]}; for (auto& q : c3) rec.insert(rec.end(), q.begin(), q.end()); v.push_back(rec); }
      std::sort(v.begin(), v.end()); return v; };
    if (withId(u) != withId(g)) return "user original IDs not kept per triangle";
  }
  return "";
}

int main(int argc, char** argv) {
  Rng r(hz::envSeed());
  const int T = argc > 1 ? atoi(argv[1]) : 100;
  Registry reg; GenOpts o; o.smooth = true; o.normals = true; Stat st;
  for (int t = 0; t < T; t++) {
    Prog P = randomProgram(r, reg, o);
    const Manifold& m = P.result;
    auto impl = implOf(m);
    MeshGL64 g = m.GetMeshGL64();
    const bool ok = m.Status() == Manifold::Error::NoError && g.NumTri() > 0;
    const bool tang = !g.halfedgeTangent.empty();
    std::string kind = !ok ? "trivial" : std::string(g.runOriginalID.size() > 1 ? "multirun" : "onerun") + (tang ? "+tangents" : "") + (g.mergeFromVert.empty() ? "" : "+merge");
    std::string tag = std::to_string(t) + " " + kind + " tris=" + std::to_string((uint64_t)g.NumTri()) + " runs=" + std::to_string(g.runOriginalID.size()) + " numProp=" + std::to_string((uint64_t)g.numProp) + " :: " + P.desc;
    std::string msg = ok ? roundTrip(m, g, st) : "";
    hz::emit(tag, exportRequest(*impl), exportAnswer(g, normalsRewritten(*impl)), msg.empty(), msg);
    if (ok) hz::emit(std::to_string(t) + " checkmerge " + kind, checkMergeRequest(g), "ok genus " + std::to_string(m.Genus()) + " edges " + std::to_string(m.NumEdge()) + " verts " + std::to_string(m.NumVert()), true);
    int k = 0;
    for (const UserMesh& um : P.inputs) {
      std::string e = inputKept(um); st.inputs++;
      hz::emit(std::to_string(t) + " input" + std::to_string(k++) + " numProp=" + std::to_string((uint64_t)um.g.numProp) + " faceIDs=" + (um.g.faceID.empty() ? "0" : "1") + " runs=" + std::to_string(um.g.runOriginalID.size()) + " merges=" + std::to_string(um.g.mergeFromVert.size()), "", "", e.empty(), e);
    }
  }
  // thin features: solids with property seams (faceted normals) whose smallest feature lies between 1x and 2x the tolerance, and
  // controls at 4x: the merge vectors must be re-derivable by Merge() without welding distinct manifold vertices
  for (int k = 0; k < 8; k++) {
    const double tol = 0.01 * (1 + (int)r.below(3)), ratio = (k % 4 == 3) ? 4.0 : 1.15 + 0.25 * (k % 4) + 0.05 * unit(r), h = ratio * tol;
    Manifold base = k < 4 ? Manifold::Cube(vec3(1.0 + unit(r), 0.8 + unit(r), h)) : (Manifold::Cube(vec3(2.0, 2.0, h), true) - Manifold::Cylinder(1.0, 0.3 + 0.2 * unit(r), -1.0, 8 + (int)r.below(8), true));
    Manifold m = base.SetTolerance(tol).CalculateNormals(0, 30);
    MeshGL64 g = m.GetMeshGL64(); auto impl = implOf(m);
    const bool ok = m.Status() == Manifold::Error::NoError && g.NumTri() > 0;
    char d[200]; snprintf(d, sizeof d, "thin-feature k=%d h=%.4g tol=%.3g ratio=%.3g merges=%zu", k, h, tol, ratio, g.mergeFromVert.size());
    std::string msg = ok ? roundTrip(m, g, st) : "";
    hz::emit(std::to_string(T + k) + " thinfeature tris=" + std::to_string((uint64_t)g.NumTri()) + " :: " + d, exportRequest(*impl), exportAnswer(g, normalsRewritten(*impl)), msg.empty(), msg);
  }
  printf("STATS programs=%d roundTrips=%ld multiRun=%ld withTangents=%ld withNormalsRuns=%ld withBackSideRuns=%ld float32=%ld obj=%ld mergeStripped=%ld refineCompared=%ld userInputs=%ld\n",
         T, st.rt, st.multiRun, st.rtTang, st.rtNormals, st.rtBack, st.f32, st.obj, st.merge, st.refine, st.inputs);
  return 0;
}
