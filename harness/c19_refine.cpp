// C19 end-to-end harness (public API + the real Impl::Subdivide), linked with libmanifold.
//
//  kind subdiv     the REAL `Manifold::Impl::Subdivide` is called on a copy of the Impl with a recorded
//                  edgeDivisions function; the request carries what the code READS (numVert, edgeAdded per
//                  TmpEdge, per face the GetHalfedges entry resolved to start vertex / edge index /
//                  IsForward) and the model (MV.Partition.subdivideIdx) must reproduce the vertex count and
//                  the triangle list handed to CreateHalfedges exactly.  Oracle: first numVert positions
//                  unchanged bit for bit, every new vertex on the surface of the input.
//  kind refine     Refine(n) / RefineToLength / RefineToTolerance on meshes WITHOUT tangents: same volume,
//                  area (rounding only), same point classification (winding number in long double, points
//                  >= 10 tol away from both surfaces), every input vertex position present bit for bit,
//                  every output vertex on the input surface, n*n times the triangles for Refine(n), and Refine(n) is
//                  the uniform subdivision (vertices at multiples of 1/n, sub-triangle areas = 1/n^2);
//                  the export goes through the verified checker (`mesh checkmerge`: closed 2-manifold,
//                  every vertex referenced, the library's own Genus/NumEdge/NumVert).
//  kind smooth     SmoothOut / CalculateNormals+SmoothByNormals, then Refine*: NoError, every input vertex
//                  position present bit for bit (original vertices do not move), verified checker.
//  kind simplify   P polyhedral (boxes, L-shapes, Booleans of boxes, rotated), R = P.Refine(k) or
//                  RefineToLength, S = R.Simplify(t) / R.SetTolerance(t), t below the feature size:
//                  NumTri(S) <= NumTri(R), NumVert(S) <= NumVert(R), every corner of P (>= 3 distinct incident
//                  face normals) survives (within 1e-9), every vertex of S and sampled points of
//                  S's triangles within 1e-9 of P's surface and every vertex of P within 1e-9 of S's surface
//                  (hence <= t), volume unchanged, verified checker.
//  kind tol        SetTolerance reports max(t, epsilon) bit for bit (model: MV.Partition.setTolerance at Float),
//                  Simplify leaves the tolerance alone, GetTolerance >= GetEpsilon on every object produced.
// usage: c19_refine <programs>
#include <algorithm>
#include <array>
#include <cmath>
#include <cstring>
#include <functional>
#include <map>
#include <set>
#include <sstream>
#include <string>
#include <vector>
#define private public
#define protected public
#include "manifold/manifold.h"
#include "csg_tree.h"
#include "impl.h"
#undef private
#undef protected
#include "common.h"
using namespace manifold;
using hz::Rng;
typedef long double ld;

static std::map<std::string, long> gStats;
static long gCase = 0;
static uint64_t bits(double d) { uint64_t u; memcpy(&u, &d, 8); return u; }
typedef std::array<uint64_t, 3> P3;
static P3 key(vec3 p) { return {bits(p.x + 0.0), bits(p.y + 0.0), bits(p.z + 0.0)}; }   // +0.0: -0 == 0

struct Soup { std::vector<vec3> v; std::vector<ivec3> t; };
static Soup soupOf(const Manifold& m) {
  MeshGL64 g = m.GetMeshGL64(); Soup s;
  for (size_t i = 0; i < g.NumVert(); i++) s.v.push_back({g.vertProperties[i * g.numProp], g.vertProperties[i * g.numProp + 1], g.vertProperties[i * g.numProp + 2]});
  for (size_t i = 0; i < g.NumTri(); i++) s.t.push_back({(int)g.triVerts[3 * i], (int)g.triVerts[3 * i + 1], (int)g.triVerts[3 * i + 2]});
  return s;
}
// distance from p to triangle abc (Ericson), long double
static ld distTri(vec3 p_, vec3 a_, vec3 b_, vec3 c_) {
  auto L = [](vec3 v) { return std::array<ld, 3>{v.x, v.y, v.z}; };
  auto sub = [](std::array<ld, 3> a, std::array<ld, 3> b) { return std::array<ld, 3>{a[0] - b[0], a[1] - b[1], a[2] - b[2]}; };
  auto dot = [](std::array<ld, 3> a, std::array<ld, 3> b) { return a[0] * b[0] + a[1] * b[1] + a[2] * b[2]; };
  auto p = L(p_), a = L(a_), b = L(b_), c = L(c_);
  auto ab = sub(b, a), ac = sub(c, a), ap = sub(p, a);
  ld d1 = dot(ab, ap), d2 = dot(ac, ap);
  std::array<ld, 3> q;
  auto at = [&](std::array<ld, 3> o, std::array<ld, 3> d, ld t) { return std::array<ld, 3>{o[0] + d[0] * t, o[1] + d[1] * t, o[2] + d[2] * t}; };
  auto bp = sub(p, b); ld d3 = dot(ab, bp), d4 = dot(ac, bp);
  auto cp = sub(p, c); ld d5 = dot(ab, cp), d6 = dot(ac, cp);
  ld vc = d1 * d4 - d3 * d2, vb = d5 * d2 - d1 * d6, va = d3 * d6 - d5 * d4;
  if (d1 <= 0 && d2 <= 0) q = a;
  else if (d3 >= 0 && d4 <= d3) q = b;
  else if (vc <= 0 && d1 >= 0 && d3 <= 0) q = at(a, ab, d1 / (d1 - d3));
  else if (d6 >= 0 && d5 <= d6) q = c;
  else if (vb <= 0 && d2 >= 0 && d6 <= 0) q = at(a, ac, d2 / (d2 - d6));
  else if (va <= 0 && (d4 - d3) >= 0 && (d5 - d6) >= 0) q = at(b, sub(c, b), (d4 - d3) / ((d4 - d3) + (d5 - d6)));
  else { ld den = 1 / (va + vb + vc); q = at(at(a, ab, vb * den), ac, vc * den); }
  auto d = sub(p, q); return sqrtl(dot(d, d));
}
static ld distSurf(const Soup& s, vec3 p) { ld best = 1e300L; for (auto& t : s.t) best = std::min(best, distTri(p, s.v[t[0]], s.v[t[1]], s.v[t[2]])); return best; }
// winding number (solid angles, van Oosterom-Strackee)
static ld winding(const Soup& s, vec3 p) {
  ld w = 0;
  for (auto& t : s.t) {
    ld a[3] = {(ld)s.v[t[0]].x - p.x, (ld)s.v[t[0]].y - p.y, (ld)s.v[t[0]].z - p.z}, b[3] = {(ld)s.v[t[1]].x - p.x, (ld)s.v[t[1]].y - p.y, (ld)s.v[t[1]].z - p.z},
       c[3] = {(ld)s.v[t[2]].x - p.x, (ld)s.v[t[2]].y - p.y, (ld)s.v[t[2]].z - p.z};
    ld la = sqrtl(a[0] * a[0] + a[1] * a[1] + a[2] * a[2]), lb = sqrtl(b[0] * b[0] + b[1] * b[1] + b[2] * b[2]), lc = sqrtl(c[0] * c[0] + c[1] * c[1] + c[2] * c[2]);
    ld det = a[0] * (b[1] * c[2] - b[2] * c[1]) - a[1] * (b[0] * c[2] - b[2] * c[0]) + a[2] * (b[0] * c[1] - b[1] * c[0]);
    ld den = la * lb * lc + (a[0] * b[0] + a[1] * b[1] + a[2] * b[2]) * lc + (b[0] * c[0] + b[1] * c[1] + b[2] * c[2]) * la + (c[0] * a[0] + c[1] * a[1] + c[2] * a[2]) * lb;
    w += 2 * atan2l(det, den);
  }
  return w / (4 * 3.14159265358979323846264338327950288L);
}
static std::string checkmergeReq(const Manifold& m, std::string& exp) {
  MeshGL64 g = m.GetMeshGL64();
  std::ostringstream rq; rq << "mesh checkmerge " << g.NumVert() << " " << g.NumTri();
  for (auto v : g.triVerts) rq << " " << v;
  rq << " " << g.mergeFromVert.size(); for (auto v : g.mergeFromVert) rq << " " << v; for (auto v : g.mergeToVert) rq << " " << v;
  std::ostringstream ex; ex << "ok genus " << m.Genus() << " edges " << m.NumEdge() << " verts " << m.NumVert(); exp = ex.str();
  return rq.str();
}
static std::string tolInvariant(const Manifold& m) { return m.GetTolerance() >= m.GetEpsilon() ? "" : "tolerance below epsilon"; }
static bool subsetVerts(const Soup& a, const Soup& b, int* missing = nullptr) {   // positions of a all present in b
  std::set<P3> sb; for (auto& v : b.v) sb.insert(key(v));
  for (size_t i = 0; i < a.v.size(); i++) if (!sb.count(key(a.v[i]))) { if (missing) *missing = (int)i; return false; }
  return true;
}
static void emitCase(const std::string& kind, const std::string& desc, const std::string& req, const std::string& exp, const std::string& msg) {
  gStats[kind]++;
  hz::emit("e" + std::to_string(gCase++) + " " + kind + " :: " + desc, req, exp, msg.empty(), msg);
}

// ------------------------------------------------------------------ base shapes
struct Shape { Manifold m; std::string name; bool polyhedral; };
static Shape baseShape(Rng& r, bool polyOnly) {
  auto sz = [&]() { return 0.5 + 0.25 * r.below(7); };
  int k = r.below(polyOnly ? 7 : 11);
  Shape s; s.polyhedral = true;
  char buf[160];
  switch (k) {
    case 0: { double a = sz(), b = sz(), c = sz(); s.m = Manifold::Cube({a, b, c}, r.below(2)); snprintf(buf, sizeof buf, "cube(%g,%g,%g)", a, b, c); break; }
    case 1: s.m = Manifold::Tetrahedron(); snprintf(buf, sizeof buf, "tet"); break;
    case 2: { double a = 1 + sz(), b = sz(); s.m = Manifold::Cube({a, a, b}) - Manifold::Cube({a / 2, a / 2, 2 * b}).Translate({a / 2, a / 2, -b / 2}); snprintf(buf, sizeof buf, "Lshape(%g,%g)", a, b); break; }
    case 3: { double a = sz(), d = 0.25 * (1 + r.below(3)); s.m = Manifold::Cube({a, a, a}) + Manifold::Cube({a, a, a}).Translate({d, d, d}); snprintf(buf, sizeof buf, "cube+cube(%g,shift %g)", a, d); break; }
    case 4: { double a = sz(); s.m = Manifold::Cube({a, a, a}) + Manifold::Cube({a, a, a}).Translate({a + 1.5, 0.25, 0}); snprintf(buf, sizeof buf, "two-components(%g)", a); break; }
    case 5: { double a = 1 + sz(); s.m = (Manifold::Cube({a, a, a}, true) - Manifold::Cube({a / 2, a / 2, 3 * a}, true)).Rotate(10.0 * r.below(9), 5.0 * r.below(9), 0); snprintf(buf, sizeof buf, "rotated-frame(%g)", a); break; }
    case 6: { double a = sz(); s.m = Manifold::Cube({a, a, a}, true) ^ Manifold::Cube({a, a, a}, true).Rotate(0, 0, 45).Scale({1, 1, 2}); snprintf(buf, sizeof buf, "octagonal-prism(%g)", a); break; }
    case 7: { int n = 4 * (1 + r.below(3)); s.m = Manifold::Sphere(sz(), n); s.polyhedral = false; snprintf(buf, sizeof buf, "sphere(%d)", n); break; }
    case 8: { int n = 3 + r.below(9); s.m = Manifold::Cylinder(sz(), sz(), sz(), n); s.polyhedral = false; snprintf(buf, sizeof buf, "cyl(%d)", n); break; }
    case 9: { double a = sz(); s.m = Manifold::Cube({a, a, a}, true) - Manifold::Sphere(a * 0.6, 8); s.polyhedral = false; snprintf(buf, sizeof buf, "cube-sphere(%g)", a); break; }
    default: { double a = sz(); s.m = Manifold::Sphere(a, 8) + Manifold::Cube({a, a, a}); s.polyhedral = false; snprintf(buf, sizeof buf, "sphere+cube(%g)", a); break; }
  }
  s.name = buf;
  if (r.below(4) == 0) { int np = 1 + r.below(3); s.m = s.m.SetProperties(np, [np](double* o, vec3 p, const double*) { for (int i = 0; i < np; i++) o[i] = p.x * (i + 1) + p.y - 0.5 * p.z * i; }); s.name += "+props" + std::to_string(np); }
  if (r.below(5) == 0) { vec3 d = {0.5 * r.below(5), -0.25 * r.below(5), 1.0 * r.below(3)}; s.m = s.m.Translate(d); s.name += "+translate"; }
  return s;
}

// ------------------------------------------------------------------ Subdivide directly
static void caseSubdivide(Rng& r) {
  Shape sh = baseShape(r, false);
  const bool smooth = r.below(3) == 0;
  Manifold m = sh.m;
  if (smooth) m = m.SmoothOut(20.0 + 10 * r.below(6), 0);
  auto src = m.GetCsgLeafNode().GetImpl();
  if (src->IsEmpty() || src->NumTri() > 600) return;
  Manifold::Impl impl = *src;
  const int mode = r.below(4), nUni = 1 + r.below(5);
  const uint64_t salt = r.next();
  std::vector<int> recorded;
  auto fn = [&](vec3 e, vec4, vec4) {
    int v;
    if (mode == 0) v = nUni;
    else { uint64_t h = salt; for (double c : {e.x, e.y, e.z}) { h ^= bits(std::fabs(c) + 0.0); h *= 1099511628211ull; h ^= h >> 31; }
      v = mode == 1 ? (int)(h % 4) : mode == 2 ? (h % 3 == 0 ? (int)(h % 9) : 0) : (int)(h % 7) - 1; }   // mode 3 includes -1 (clamped by the code)
    recorded.push_back(v); return v;
  };
  // what Subdivide reads, BEFORE the call
  const int numVert = impl.NumVert(), numTri = impl.NumTri();
  Vec<TmpEdge> edges = CreateTmpEdges(impl.halfedge_);
  const int numEdge = edges.size();
  std::vector<int> half2Edge(2 * numEdge);
  for (int e = 0; e < numEdge; e++) { int idx = edges[e].halfedgeIdx; half2Edge[idx] = e; half2Edge[impl.halfedge_.Pair(idx)] = e; }
  std::vector<ivec4> fh(numTri); int quads = 0;
  for (int t = 0; t < numTri; t++) { fh[t] = impl.GetHalfedges(t); if (fh[t][3] >= 0) quads++; }
  std::vector<char> inQuad(numEdge); for (int e = 0; e < numEdge; e++) inQuad[e] = impl.IsMarkedInsideQuad(edges[e].halfedgeIdx);
  std::ostringstream faces;
  for (int t = 0; t < numTri; t++) {
    int v[4], ed[4], fw[4];
    for (int i = 0; i < 4; i++) { int h = fh[t][i]; if (h < 0) { v[i] = -1; ed[i] = 0; fw[i] = 0; } else { v[i] = impl.halfedge_.Start(h); ed[i] = half2Edge[h]; fw[i] = impl.halfedge_.IsForward(h); } }
    for (int i = 0; i < 4; i++) faces << " " << v[i]; for (int i = 0; i < 4; i++) faces << " " << ed[i]; for (int i = 0; i < 4; i++) faces << " " << fw[i];
  }
  std::vector<vec3> oldPos(impl.vertPos_.begin(), impl.vertPos_.end());
  Soup before = soupOf(m);   // (sorted export: same surface)
  Vec<Barycentric> vb = impl.Subdivide(fn, false);
  // edgeAdded as the code computed it: 0 inside quads (function not called), else max(0, recorded)
  std::vector<int> edgeAdded(numEdge); size_t ri = 0; bool aligned = true;
  for (int e = 0; e < numEdge; e++) { if (inQuad[e]) edgeAdded[e] = 0; else { if (ri >= recorded.size()) { aligned = false; break; } edgeAdded[e] = std::max(0, recorded[ri++]); } }
  if (ri != recorded.size()) aligned = false;
  std::ostringstream rq, ex;
  rq << "partition subdiv " << numVert << " ; " << numEdge; for (int a : edgeAdded) rq << " " << a; rq << " ; " << numTri << faces.str();
  bool removed = false; const int outTri = impl.halfedge_.size() / 3;
  ex << impl.vertPos_.size() << " ;";
  for (int t = 0; t < outTri; t++) for (int i = 0; i < 3; i++) { int s = impl.halfedge_.Start(3 * t + i); if (s < 0) removed = true; ex << " " << s; }
  std::string msg;
  if (!aligned) msg = "harness: edgeDivisions was not called once per non-quad edge in edge order";
  if (vb.size() != impl.vertPos_.size()) msg = "vertBary size != vertex count";
  for (int v = 0; v < numVert && msg.empty(); v++) if (key(impl.vertPos_[v]) != key(oldPos[v])) msg = "retained vertex " + std::to_string(v) + " moved in Subdivide";
  if (msg.empty() && !smooth) { ld worst = 0; for (size_t v = numVert; v < impl.vertPos_.size(); v++) worst = std::max(worst, distSurf(before, impl.vertPos_[v])); if (worst > 1e-12L) msg = "new vertex off the input surface"; }
  if (removed) gStats["subdivRemovedPairs"]++;
  if (quads) gStats["subdivWithQuads"]++;
  gStats["subdivMode" + std::to_string(mode)]++;
  char d[256]; snprintf(d, sizeof d, "%s%s mode=%d nUni=%d nT=%d quads=%d outT=%d", sh.name.c_str(), smooth ? "+smoothout" : "", mode, nUni, numTri, quads, outTri);
  emitCase("subdiv", d, removed ? "" : rq.str(), removed ? "" : ex.str(), msg);
}

// Refine(n) on a mesh without tangents is the UNIFORM subdivision: every output vertex sits at barycentric
// coordinates that are multiples of 1/n in some source triangle it lies on, and every output triangle has
// exactly 1/n^2 of the area of the source triangle that contains its centroid.
static std::string latticeOracle(const Soup& sa, const Soup& sb, int n) {
  auto V = [](vec3 a, vec3 b) { return std::array<ld, 3>{(ld)a.x - b.x, (ld)a.y - b.y, (ld)a.z - b.z}; };
  auto dot = [](std::array<ld, 3> a, std::array<ld, 3> b) { return a[0] * b[0] + a[1] * b[1] + a[2] * b[2]; };
  auto area2 = [&](vec3 a, vec3 b, vec3 c) { auto u = V(b, a), w = V(c, a); std::array<ld, 3> x = {u[1] * w[2] - u[2] * w[1], u[2] * w[0] - u[0] * w[2], u[0] * w[1] - u[1] * w[0]}; return sqrtl(dot(x, x)); };
  for (size_t i = 0; i < sb.v.size(); i++) {
    bool ok = false;
    for (auto& t : sa.t) {
      if (distTri(sb.v[i], sa.v[t[0]], sa.v[t[1]], sa.v[t[2]]) > 1e-10L) continue;
      auto e1 = V(sa.v[t[1]], sa.v[t[0]]), e2 = V(sa.v[t[2]], sa.v[t[0]]), d = V(sb.v[i], sa.v[t[0]]);
      ld d11 = dot(e1, e1), d12 = dot(e1, e2), d22 = dot(e2, e2), p1 = dot(d, e1), p2 = dot(d, e2), det = d11 * d22 - d12 * d12;
      ld u = (d22 * p1 - d12 * p2) / det * n, w = (d11 * p2 - d12 * p1) / det * n;
      if (fabsl(u - roundl(u)) < 1e-7L && fabsl(w - roundl(w)) < 1e-7L) { ok = true; break; }
    }
    if (!ok) { char b[160]; snprintf(b, sizeof b, "uniform-lattice: output vertex %zu (%.6g %.6g %.6g) is not at a multiple of 1/%d of a source triangle", i, sb.v[i].x, sb.v[i].y, sb.v[i].z, n); return b; }
  }
  for (size_t i = 0; i < sb.t.size(); i++) {
    vec3 a = sb.v[sb.t[i][0]], b = sb.v[sb.t[i][1]], c = sb.v[sb.t[i][2]], g = (a + b + c) / 3.0;
    for (auto& t : sa.t) {
      if (distTri(g, sa.v[t[0]], sa.v[t[1]], sa.v[t[2]]) > 1e-10L) continue;
      ld As = area2(sa.v[t[0]], sa.v[t[1]], sa.v[t[2]]), Ab = area2(a, b, c) * n * n;
      if (fabsl(As - Ab) > 1e-8L * As) { char bb[160]; snprintf(bb, sizeof bb, "uniform-lattice: output triangle %zu has %.6Lg of its source triangle's area instead of 1/%d", i, Ab / As / (n * n), n * n); return bb; }
      break;
    }
  }
  return "";
}

// ------------------------------------------------------------------ Refine* without tangents
static void caseRefine(Rng& r) {
  Shape sh = baseShape(r, false);
  const Manifold& a = sh.m;
  if (a.Status() != Manifold::Error::NoError || a.IsEmpty()) return;
  const int op = r.below(5);
  int n = 2 + r.below(op == 0 ? 5 : 3);
  if (a.NumTri() * n * n > 8000) n = 2;
  double len = 0.15 + 0.1 * r.below(6), tol = 0.01 * (1 + r.below(10));
  Manifold b; char d[256];
  if (op <= 1) { b = a.Refine(n); snprintf(d, sizeof d, "%s ; Refine(%d)", sh.name.c_str(), n); }
  else if (op == 2) { b = a.Refine(n).Refine(2); snprintf(d, sizeof d, "%s ; Refine(%d) ; Refine(2)", sh.name.c_str(), n); n *= 2; }
  else if (op == 3) { if (a.NumTri() > 300) len = std::max(len, 0.4); b = a.RefineToLength(len); snprintf(d, sizeof d, "%s ; RefineToLength(%g)", sh.name.c_str(), len); }
  else { b = a.RefineToTolerance(tol); snprintf(d, sizeof d, "%s ; RefineToTolerance(%g)", sh.name.c_str(), tol); }
  std::string msg;
  if (b.Status() != Manifold::Error::NoError) msg = "status " + std::to_string((int)b.Status());
  Soup sa = soupOf(a), sb = soupOf(b);
  const double scale = std::max({a.BoundingBox().Size().x, a.BoundingBox().Size().y, a.BoundingBox().Size().z});
  if (msg.empty() && op <= 2 && b.NumTri() != a.NumTri() * (size_t)n * n) msg = "Refine(n): " + std::to_string(b.NumTri()) + " triangles, expected n*n*" + std::to_string(a.NumTri());
  if (msg.empty() && op <= 2 && sb.v.size() * sa.t.size() < 3000000) { msg = latticeOracle(sa, sb, n); gStats["latticeChecked"]++; }
  if (msg.empty() && op == 4 && (b.NumTri() != a.NumTri() || b.NumVert() != a.NumVert())) msg = "RefineToTolerance without tangents changed the mesh";
  if (msg.empty() && std::fabs(a.Volume() - b.Volume()) > 1e-10 * std::max(1.0, std::fabs(a.Volume()))) msg = "volume changed";
  if (msg.empty() && std::fabs(a.SurfaceArea() - b.SurfaceArea()) > 1e-10 * std::max(1.0, a.SurfaceArea())) msg = "area changed";
  int miss = -1;
  if (msg.empty() && !subsetVerts(sa, sb, &miss)) msg = "original vertex " + std::to_string(miss) + " not retained bit for bit";
  if (msg.empty() && sb.v.size() * sa.t.size() < 4000000) { ld worst = 0; for (auto& v : sb.v) worst = std::max(worst, distSurf(sa, v)); if (worst > 1e-12L * std::max(1.0, scale)) msg = "output vertex off the input surface"; }
  if (msg.empty()) {
    Box bb = a.BoundingBox(); int used = 0;
    for (int i = 0; i < 40 && used < 12; i++) {
      vec3 p = {bb.min.x - 0.1 + (bb.Size().x + 0.2) * (r.below(10001) / 10000.0), bb.min.y - 0.1 + (bb.Size().y + 0.2) * (r.below(10001) / 10000.0), bb.min.z - 0.1 + (bb.Size().z + 0.2) * (r.below(10001) / 10000.0)};
      const ld safe = 10 * std::max({a.GetTolerance(), b.GetTolerance(), 1e-9});
      if (distSurf(sa, p) < safe + 1e-3L) continue;
      used++;
      long wa = lroundl(winding(sa, p)), wb = lroundl(winding(sb, p));
      if (wa != wb) { msg = "point classification differs"; break; }
    }
    gStats["classifiedPoints"] += used;
  }
  if (msg.empty()) msg = tolInvariant(b);
  std::string exp, req = checkmergeReq(b, exp);
  gStats[op <= 2 ? "refineN" : op == 3 ? "refineLen" : "refineTol"]++;
  emitCase("refine", d, req, exp, msg);
}

// ------------------------------------------------------------------ Refine* with tangents
static void caseSmooth(Rng& r) {
  Shape sh = baseShape(r, false);
  Manifold a = sh.m; char d[256]; std::string how;
  if (r.below(3) == 0) { a = a.CalculateNormals(0, 20.0 * (1 + r.below(5))).SmoothByNormals(0); how = "calcnormals;smoothbynormals"; }
  else { double ang = r.below(2) ? 52.5 : 10.0 * r.below(18), sm = r.below(2) ? 0.0 : 0.1 * r.below(10); a = a.SmoothOut(ang, sm); char b2[64]; snprintf(b2, sizeof b2, "smoothout(%g,%g)", ang, sm); how = b2; }
  if (a.Status() != Manifold::Error::NoError || a.IsEmpty() || a.NumTri() > 700) return;
  const int op = r.below(3); Manifold b;
  int n = 2 + r.below(3); double len = 0.2 + 0.1 * r.below(5), tol = 0.005 * (1 + r.below(20));
  if (op == 0) { b = a.Refine(n); snprintf(d, sizeof d, "%s ; %s ; Refine(%d)", sh.name.c_str(), how.c_str(), n); }
  else if (op == 1) { b = a.RefineToLength(len); snprintf(d, sizeof d, "%s ; %s ; RefineToLength(%g)", sh.name.c_str(), how.c_str(), len); }
  else { b = a.RefineToTolerance(tol); snprintf(d, sizeof d, "%s ; %s ; RefineToTolerance(%g)", sh.name.c_str(), how.c_str(), tol); }
  std::string msg;
  if (b.Status() != Manifold::Error::NoError) msg = "status " + std::to_string((int)b.Status());
  Soup sa = soupOf(a), sb = soupOf(b);
  int miss = -1;
  if (msg.empty() && !subsetVerts(sa, sb, &miss)) msg = "original vertex " + std::to_string(miss) + " moved or lost";
  for (auto& v : sb.v) if (msg.empty() && !(std::isfinite(v.x) && std::isfinite(v.y) && std::isfinite(v.z))) msg = "non-finite vertex";
  if (msg.empty()) msg = tolInvariant(b);
  std::string exp, req = b.IsEmpty() ? "" : checkmergeReq(b, exp);
  emitCase("smooth", d, req, exp, msg);
}

// ------------------------------------------------------------------ Simplify / SetTolerance
static std::vector<int> corners(const Soup& s) {
  std::vector<std::vector<std::array<ld, 3>>> nrm(s.v.size());
  for (auto& t : s.t) {
    vec3 a = s.v[t[0]], b = s.v[t[1]], c = s.v[t[2]];
    ld u[3] = {(ld)b.x - a.x, (ld)b.y - a.y, (ld)b.z - a.z}, w[3] = {(ld)c.x - a.x, (ld)c.y - a.y, (ld)c.z - a.z};
    std::array<ld, 3> n = {u[1] * w[2] - u[2] * w[1], u[2] * w[0] - u[0] * w[2], u[0] * w[1] - u[1] * w[0]};
    ld l = sqrtl(n[0] * n[0] + n[1] * n[1] + n[2] * n[2]); if (l < 1e-14L) continue; for (auto& x : n) x /= l;
    for (int j = 0; j < 3; j++) { auto& L = nrm[t[j]]; bool seen = false; for (auto& m : L) if (fabsl(m[0] - n[0]) + fabsl(m[1] - n[1]) + fabsl(m[2] - n[2]) < 1e-6L) seen = true; if (!seen) L.push_back(n); }
  }
  std::vector<int> out; for (size_t v = 0; v < s.v.size(); v++) if (nrm[v].size() >= 3) out.push_back((int)v); return out;
}
static void caseSimplify(Rng& r) {
  Shape sh = baseShape(r, true);
  const Manifold& P = sh.m;
  if (P.Status() != Manifold::Error::NoError || P.IsEmpty()) return;
  int k = 2 + r.below(4); if (P.NumTri() * k * k > 6000) k = 2;
  const bool byLen = r.below(4) == 0; const double len = 0.2 + 0.1 * r.below(4);
  Manifold R = byLen ? P.RefineToLength(len) : P.Refine(k);
  static const double ts[] = {1e-6, 1e-5, 1e-4, 1e-3, 0.005, 0.01, 0.02};
  const double t = ts[r.below(7)];
  const bool setTol = r.below(2);
  Manifold S = setTol ? R.SetTolerance(t) : R.Simplify(t);
  char d[256]; snprintf(d, sizeof d, "%s ; %s ; %s(%g)", sh.name.c_str(), byLen ? ("RefineToLength(" + std::to_string(len) + ")").c_str() : ("Refine(" + std::to_string(k) + ")").c_str(), setTol ? "SetTolerance" : "Simplify", t);
  std::string msg;
  if (S.Status() != Manifold::Error::NoError) msg = "status " + std::to_string((int)S.Status());
  Soup sp = soupOf(P), sr = soupOf(R), ss = soupOf(S);
  if (msg.empty() && S.NumTri() > R.NumTri()) msg = "triangle count grew";
  const ld band = 1e-9L;
  // (SimplifyTopology2 re-places surviving vertices by rounding-size amounts - a cube corner (0,0,0) comes back as
  // (9.6e-35, 0, 9.6e-35) - so vertices are compared within the rounding band, not bit for bit.)
  if (msg.empty()) { for (int v : corners(sp)) { ld best = 1e300L; for (auto& q : ss.v) { ld dx = (ld)q.x - sp.v[v].x, dy = (ld)q.y - sp.v[v].y, dz = (ld)q.z - sp.v[v].z; best = std::min(best, sqrtl(dx * dx + dy * dy + dz * dz)); }
      gStats["cornersChecked"]++; if (best > band) { msg = "a corner of the solid was removed"; break; } } }
  if (msg.empty() && ss.v.size() > sr.v.size()) msg = "vertex count grew";
  if (msg.empty()) { ld worst = 0; for (auto& v : ss.v) worst = std::max(worst, distSurf(sp, v));
    for (size_t i = 0; i < ss.t.size() && i < 400; i++) { auto& tr = ss.t[i]; double u = r.below(1001) / 1000.0, w = (1 - u) * (r.below(1001) / 1000.0); vec3 q = ss.v[tr[0]] * (1 - u - w) + ss.v[tr[1]] * u + ss.v[tr[2]] * w; worst = std::max(worst, distSurf(sp, q)); }
    if (worst > band) { char b2[96]; snprintf(b2, sizeof b2, "surface moved by %.3Lg (t=%g)", worst, t); msg = worst > t ? std::string(b2) + " more than t" : std::string(b2) + " more than rounding"; } }
  if (msg.empty()) { ld worst = 0; for (auto& v : sp.v) worst = std::max(worst, distSurf(ss, v)); if (worst > band) msg = "a vertex of the solid is off the simplified surface"; }
  if (msg.empty() && std::fabs(P.Volume() - S.Volume()) > 1e-9 * std::max(1.0, std::fabs(P.Volume()))) msg = "volume changed";
  if (msg.empty()) msg = tolInvariant(S);
  if (msg.empty() && !setTol && bits(S.GetTolerance()) != bits(R.GetTolerance())) msg = "Simplify changed the tolerance";
  if (msg.empty() && setTol && bits(S.GetTolerance()) != bits(std::max(t, R.GetEpsilon()))) msg = "SetTolerance does not report max(t, epsilon)";
  gStats["simplifyRemovedTris"] += (long)R.NumTri() - (long)S.NumTri();
  if (S.NumTri() == P.NumTri()) gStats["simplifyBackToOriginalCount"]++;
  std::string exp, req = checkmergeReq(S, exp);
  emitCase("simplify", d, req, exp, msg);
}

// ------------------------------------------------------------------ tolerance scalar logic
static void caseTol(Rng& r) {
  Shape sh = baseShape(r, false);
  Manifold a = sh.m;
  if (r.below(3) == 0) a = a.Scale({1e3, 1e3, 1e3});
  if (r.below(3) == 0) a = a.Refine(2);
  if (a.Status() != Manifold::Error::NoError || a.IsEmpty()) return;
  const double eps = a.GetEpsilon(), tol = a.GetTolerance();
  double t;
  switch (r.below(7)) { case 0: t = 0; break; case 1: t = eps; break; case 2: t = eps / 2; break; case 3: t = tol; break; case 4: t = tol * (1 + 1e-15); break; case 5: t = -1; break; default: t = 1e-6 * (1 + r.below(1000)); }
  Manifold s = a.SetTolerance(t);
  std::string msg = tolInvariant(s);
  if (msg.empty() && bits(s.GetTolerance()) != bits(std::max(t, eps))) msg = "SetTolerance does not report max(t, epsilon)";
  std::ostringstream rq, ex; rq << "partition settol " << bits(eps) << " " << bits(tol) << " " << bits(t); ex << bits(s.GetEpsilon()) << " " << bits(s.GetTolerance());
  char d[200]; snprintf(d, sizeof d, "%s ; SetTolerance(%.17g) eps=%.3g tol=%.3g", sh.name.c_str(), t, eps, tol);
  emitCase("tol", d, rq.str(), ex.str(), msg);
  // chain: lower again, then Simplify
  Manifold s2 = s.SetTolerance(eps / 4);
  std::string m2 = tolInvariant(s2);
  if (m2.empty() && bits(s2.GetTolerance()) != bits(std::max(eps / 4, s.GetEpsilon()))) m2 = "SetTolerance(eps/4) does not report max(t, epsilon)";
  Manifold s3 = s2.Simplify(t);
  if (m2.empty() && bits(s3.GetTolerance()) != bits(s2.GetTolerance())) m2 = "Simplify changed the tolerance";
  if (m2.empty()) m2 = tolInvariant(s3);
  std::ostringstream rq2, ex2; rq2 << "partition settol " << bits(s.GetEpsilon()) << " " << bits(s.GetTolerance()) << " " << bits(eps / 4); ex2 << bits(s2.GetEpsilon()) << " " << bits(s2.GetTolerance());
  emitCase("tol", std::string(d) + " ; SetTolerance(eps/4) ; Simplify(t)", rq2.str(), ex2.str(), m2);
}

// ------------------------------------------------------------------ Manifold::Smooth(mesh): quads on low-valence meshes
// Smooth() pairs nearly rectangular triangle pairs into quads (tangent w = -1 marks); on small solids a quad's interior
// diagonal ends at a vertex with only three neighbours.  A refinement that divides no edge must hand back the same solid
// (vertices, triangle count, volume, area); Refine(n) must give exactly n*n times the triangles of a positively oriented
// solid whose original vertices are retained.
static void caseSmoothQuads(Rng& r) {
  MeshGL m; m.numProp = 3; char d[256]; const int kind = (int)r.below(3);
  auto f = [](double x) { return (float)x; };
  if (kind == 0) { const double h = 0.03 + 0.05 * r.below(6), a = 0.8 + 0.1 * r.below(5), b = 0.8 + 0.1 * r.below(5);   // thin wedge = flattened tetrahedron
    m.vertProperties = {f(-a), 0, f(-h), f(a), 0, f(-h), 0, f(-b), f(h), 0, f(b), f(h)}; m.triVerts = {0, 1, 2, 1, 0, 3, 2, 3, 0, 3, 2, 1}; snprintf(d, sizeof d, "wedge(h=%g,a=%g,b=%g)", h, a, b); }
  else if (kind == 1) { const double h = 0.05 + 0.05 * r.below(5), k = 0.2 + 0.1 * r.below(5);   // folded square plate closed by a keel
    m.vertProperties = {0, 0, 0, 1, 0, 0, 0, 1, 0, 1, 1, f(h), f(1 / 3.0), f(1 / 3.0), f(-k)}; m.triVerts = {0, 1, 3, 0, 3, 2, 3, 1, 2, 4, 1, 0, 4, 2, 1, 4, 0, 2}; snprintf(d, sizeof d, "plate-keel(h=%g,d=%g)", h, k); }
  else { const double h = 0.1 + 0.1 * r.below(5), w = 0.6 + 0.1 * r.below(6);   // bipyramid over a rectangle-ish quad: apexes of valence 4, rim of valence 4
    m.vertProperties = {f(-1), f(-w), 0, 1, f(-w), 0, 1, f(w), 0, f(-1), f(w), 0, 0, 0, f(h), 0, 0, f(-h)}; m.triVerts = {0, 1, 4, 1, 2, 4, 2, 3, 4, 3, 0, 4, 1, 0, 5, 2, 1, 5, 3, 2, 5, 0, 3, 5}; snprintf(d, sizeof d, "bipyramid(h=%g,w=%g)", h, w); }
  Manifold flat(m); if (flat.Status() != Manifold::Error::NoError || !(flat.Volume() > 0)) { gStats["smoothquads_bad_input"]++; return; }
  Manifold a = Manifold::Smooth(m); if (a.Status() != Manifold::Error::NoError) { emitCase("smoothquads", std::string(d) + " ; Smooth", "", "", "Smooth(mesh) status " + std::to_string((int)a.Status())); return; }
  MeshGL ga = a.GetMeshGL(); int quadMarks = 0; for (size_t i = 3; i < ga.halfedgeTangent.size(); i += 4) quadMarks += ga.halfedgeTangent[i] == -1; gStats["smoothquads_quadmarks"] += quadMarks;
  Soup sa = soupOf(a);
  const int op = (int)r.below(4); Manifold b; std::string what; std::string msg;
  if (op == 0) { b = a.RefineToLength(100); what = "RefineToLength(100)"; } else if (op == 1) { b = a.RefineToTolerance(100); what = "RefineToTolerance(100)"; } else { b = a.Refine(op); what = "Refine(" + std::to_string(op) + ")"; }
  Soup sb = soupOf(b); int miss = -1;
  if (b.Status() != Manifold::Error::NoError) msg = "status " + std::to_string((int)b.Status());
  else if (!subsetVerts(sa, sb, &miss)) msg = "original vertex " + std::to_string(miss) + " moved or lost";
  else if (op <= 1 && (b.NumTri() != a.NumTri() || b.NumVert() != a.NumVert())) msg = "no edge was divided but the mesh changed: " + std::to_string(a.NumTri()) + " -> " + std::to_string(b.NumTri()) + " triangles, " + std::to_string(a.NumVert()) + " -> " + std::to_string(b.NumVert()) + " vertices";
  else if (op <= 1 && (std::fabs(b.Volume() - a.Volume()) > 1e-9 * std::fabs(a.Volume()) || std::fabs(b.SurfaceArea() - a.SurfaceArea()) > 1e-9 * a.SurfaceArea())) msg = "no edge was divided but volume/area changed: volume " + std::to_string(a.Volume()) + " -> " + std::to_string(b.Volume());
  else if (op >= 2 && b.NumTri() != (size_t)(op * op) * a.NumTri()) msg = "Refine(n) gave " + std::to_string(b.NumTri()) + " triangles, n*n times the input is " + std::to_string((size_t)(op * op) * a.NumTri());
  else if (!(b.Volume() > 0)) msg = "result is not a positively oriented solid (volume " + std::to_string(b.Volume()) + ")";
  if (msg.empty()) msg = tolInvariant(b);
  std::string exp, req = b.IsEmpty() ? "" : checkmergeReq(b, exp);
  emitCase("smoothquads", std::string(d) + " ; Smooth ; " + what, req, exp, msg);
}

int main(int argc, char** argv) {
  const int P = argc > 1 ? atoi(argv[1]) : 60;
  Rng r(hz::envSeed() * 7919 + 13);
  for (int i = 0; i < P; i++) {
    if (i % 4 == 1) caseSmoothQuads(r);
    switch (i % 6) { case 0: caseSubdivide(r); break; case 1: caseRefine(r); break; case 2: caseSmooth(r); break; case 3: caseSimplify(r); break; case 4: caseTol(r); break; default: r.below(2) ? caseRefine(r) : caseSubdivide(r); }
    fflush(stdout);
  }
  printf("STATS"); for (auto& kv : gStats) printf(" %s=%ld", kv.first.c_str(), kv.second); printf("\n");
  return 0;
}
