// C01b op-level replay: every call of a topological editing primitive of src/edge_op.cpp
// (PairUp, UpdateVert, CollapseTri, RemoveIfFolded, FormLoop, CollapseEdge, CollapseEdge2, SwapEdge,
// DedupeEdge, SplitPinchedVerts) made while small meshes (<= MAXH halfedges) run through
// CleanupTopology / SimplifyTopology / SimplifyTopology2 is recorded through the MANIFOLD_VERIF hook
// `onTopoOp` (entry state, arguments, geometric decisions taken, exit state) and replayed by the Lean
// model (`mvdriver edgeop …`): the three integer arrays must agree exactly, op by op.  The exit
// state of every top-level operation must pass CheckHalfedges (`inv 1`, decided by the verified
// `checkPairInv`), the exit state of SplitPinchedVerts must have one ForVert cycle per vertex (`orb 1`).
// usage: c01_topo <programs> [replay-file]
#include <algorithm>
#include <fstream>
#include <unistd.h>
#include <map>
#include <set>
#include <sstream>
#include "impl.h"
#include "verif_hooks.h"
#include "apiprog.h"
using namespace manifold;

static const size_t MAXH = 400;
static const char* kOpName[] = {"pairup", "updatevert", "collapsetri", "removeiffolded", "formloop",
                                "collapseedge", "collapseedge2", "swapedge", "dedupeedge", "splitpinched"};
struct Snap { size_t nVert, nProp; std::vector<int> st, pa, pr; };
static Snap snap(const Manifold::Impl* im) {
  Snap s; const size_t n = im->halfedge_.size();
  s.nVert = im->vertPos_.size(); s.nProp = im->NumProp() > 0 ? im->properties_.size() / im->NumProp() : 0;
  s.st.resize(n); s.pa.resize(n); s.pr.resize(n);
  for (size_t e = 0; e < n; e++) { s.st[e] = im->halfedge_.Start(e); s.pa[e] = im->halfedge_.Pair(e); s.pr[e] = im->halfedge_.Prop(e); }
  return s;
}
static std::string showState(const Snap& s) {
  std::ostringstream o; o << s.nVert << " " << s.nProp << " " << s.st.size();
  return o.str();
}
static int nextH(int e) { return e + (e % 3 == 2 ? -2 : 1); }
// CheckHalfedges (properties.cpp:72-92) with the pair index range made explicit
static bool pairInv(const Snap& s) {
  const int n = (int)s.st.size(); if (n % 3) return false;
  for (int e = 0; e < n; e++) {
    const int st = s.st[e], en = s.st[nextH(e)], pr = s.pa[e];
    if (st == -1 && en == -1 && pr == -1) continue;
    if (s.st[nextH(e)] == -1 || s.st[nextH(nextH(e))] == -1) return false;
    if (pr < 0 || pr >= n) return false;
    if (!(s.pa[pr] == e && st != en && st == s.st[nextH(pr)] && en == s.st[pr])) return false;
  }
  return true;
}
// one ForVert cycle per vertex (same total semantics as MV.EdgeOp.checkVertOrbit)
static bool vertOrbit(const Snap& s) {
  const size_t n = s.st.size();
  auto P = [&](size_t i) -> long { return i < n ? s.pa[i] : 0; };
  auto S = [&](size_t i) -> long { return i < n ? s.st[i] : 0; };
  auto rot = [&](size_t e) -> size_t { long p = P(e); if (p < 0) return e; size_t q = (size_t)p; return q % 3 == 2 ? q - 2 : q + 1; };
  std::vector<std::vector<size_t>> byVert;  // group live halfedges by start
  std::map<long, std::vector<size_t>> g;
  for (size_t e = 0; e < n; e++) if (P(e) >= 0) g[S(e)].push_back(e);
  for (auto& kv : g) for (size_t e : kv.second) for (size_t e2 : kv.second) {
    size_t c = e; bool hit = c == e2;
    for (size_t k = 0; k < n && !hit; k++) { c = rot(c); hit = c == e2; }
    if (!hit) return false;
  }
  return true;
}

// Is2Manifold's extra clause: no two live halfedges carry the same directed edge
static bool noDupEdge(const Snap& s) {
  std::vector<std::pair<int, int>> v; const int n = (int)s.st.size();
  for (int e = 0; e < n; e++) if (s.pa[e] >= 0) v.push_back({s.st[e], s.st[nextH(e)]});
  std::sort(v.begin(), v.end());
  for (size_t i = 1; i < v.size(); i++) if (v[i] == v[i - 1]) return false;
  return true;
}
struct Frame { int op; bool rec; Snap pre; bool preInv = false, preOrb = false, preNoDup = false; };
static std::vector<Frame> gStack;
static int gProg = 0, gSeq = 0, gCasesThisProg = 0;
static long gSkippedBig = 0, gEmitted = 0, gDup = 0, gTop = 0, gCapped = 0, gTopNoPre = 0, gDirectOps = 0, gDirectMeshes = 0;
static std::set<uint64_t> gSeen;
static size_t gCapPerProg = 1500;
static std::string gStep;

static void onTopo(int op, int phase, const void* p, const int* a, int na) {
  const Manifold::Impl* im = (const Manifold::Impl*)p;
  if (phase == 0) {
    Frame f; f.op = op; f.rec = im->halfedge_.size() <= MAXH && (gStack.empty() || gStack.back().rec);
    if (f.rec) { f.pre = snap(im); if (gStack.empty() && op >= verif::kTopoCollapseEdge) { f.preInv = pairInv(f.pre); f.preOrb = vertOrbit(f.pre); f.preNoDup = noDupEdge(f.pre); } } else gSkippedBig++;
    gStack.push_back(std::move(f)); return;
  }
  if (gStack.empty()) return;
  Frame f = std::move(gStack.back()); gStack.pop_back();
  if (!f.rec || f.op != op) return;
  const int depth = (int)gStack.size();
  if ((size_t)gCasesThisProg >= gCapPerProg && depth > 0) { gCapped++; return; }
  Snap post = snap(im);
  // arguments: entry args are a[0 .. na-2), notes a[na-2], a[na-1]
  const int note0 = a[na - 2], note1 = a[na - 1]; (void)note0;
  std::vector<long> args; bool ret = true;
  switch (op) {
    case verif::kTopoCollapseEdge: { const int m = a[2]; const bool allowed = note1 == 9; ret = allowed;
      args = {a[0], a[1], allowed ? 1 : 0, m}; for (int i = 0; i < m; i++) args.push_back(a[3 + i]); break; }
    case verif::kTopoCollapseEdge2: { const bool allowed = note1 == 9; ret = allowed; args = {a[0], a[1], allowed ? 1 : 0}; break; }
    case verif::kTopoSplitPinchedVerts: if (a[0] != 0) return; break;  // parallel branch: not modelled
    default: for (int i = 0; i < na - 2; i++) args.push_back(a[i]);
  }
  std::ostringstream rq, ex;
  rq << "edgeop " << kOpName[op] << " " << args.size(); for (long x : args) rq << " " << x;
  rq << " " << showState(f.pre); for (int x : f.pre.st) rq << " " << x; for (int x : f.pre.pa) rq << " " << x; for (int x : f.pre.pr) rq << " " << x;
  const bool inv = pairInv(post), orb = vertOrbit(post);
  ex << "ok " << (ret ? 1 : 0) << " " << showState(post) << " |"; for (int x : post.st) ex << " " << x;
  ex << " |"; for (int x : post.pa) ex << " " << x; ex << " |"; for (int x : post.pr) ex << " " << x;
  ex << " | inv " << (inv ? 1 : 0) << " orb " << (orb ? 1 : 0);
  const bool top = depth == 0 && op >= verif::kTopoCollapseEdge;
  bool ok = true; std::string msg;
  // the documented preconditions: CollapseEdge*/SwapEdge work on a 2-manifold without pinched vertices
  // (CleanupTopology ran before), DedupeEdge/SplitPinchedVerts on an even-manifold
  const bool needs2m = op == verif::kTopoCollapseEdge || op == verif::kTopoCollapseEdge2 || op == verif::kTopoSwapEdge;
  const bool preOk = f.preInv && (!needs2m || (f.preOrb && f.preNoDup));
  if (top && !preOk) gTopNoPre++;
  if (top && preOk) { gTop++;
    if (!inv) { ok = false; msg = std::string("halfedge structure is not paired (CheckHalfedges fails) after top-level ") + kOpName[op]; }
    else if (op == verif::kTopoSplitPinchedVerts && !orb) { ok = false; msg = "a vertex still has two ForVert cycles after SplitPinchedVerts"; } }
  ap::Hash h; std::string r = rq.str(); h.add(r.data(), r.size());
  if (ok && !gSeen.insert(h.h).second) { gDup++; return; }
  std::ostringstream tag; tag << "t" << gProg << "." << gSeq++ << " " << kOpName[op] << " d" << depth << " n=" << f.pre.st.size()
      << " notes=" << note0 << "," << note1 << " step=" << gStep;
  hz::emit(tag.str(), r, ex.str(), ok, msg); gEmitted++; gCasesThisProg++;
}

// ------------------------------------------------------------------------------ programs
static ap::Step mk(const char* op, std::vector<int> src, std::vector<double> arg) { ap::Step s; s.op = op; s.src = src; s.arg = arg; return s; }
static std::vector<ap::Step> genProgram(hz::Rng& r, int p) {
  std::vector<ap::Step> v; auto last = [&]() { return (int)v.size() - 1; };
  auto I = [&](int lo, int hi) { return (double)r.range(lo, hi); };
  switch (p % 8) {
    case 0: case 1: {  // Booleans of small lattice boxes (coincident faces/edges/verts)
      int nb = 2 + (int)r.below(2); std::vector<int> objs;
      for (int i = 0; i < nb; i++) { v.push_back(mk("cube", {}, {I(1, 3), I(1, 3), I(1, 2), 0})); int c = last();
        v.push_back(mk("translate", {c}, {I(-1, 2), I(-1, 2), I(-1, 1)})); objs.push_back(last()); }
      int acc = objs[0];
      for (int i = 1; i < nb; i++) { const char* ops[3] = {"add", "sub", "int"}; v.push_back(mk(ops[r.below(3)], {acc, objs[i]}, {})); acc = last(); }
      if (r.below(2)) v.push_back(mk("simplify", {acc}, {r.below(2) ? 0.0 : 0.01 * (1 + r.below(50))}));
      break; }
    case 2: {  // low-poly spheres / tets, nearly coincident: short edges after the Boolean
      v.push_back(mk("sphere", {}, {1.0, (double)(4 * (1 + r.below(2)))})); int a = last();
      if (r.below(2)) v.push_back(mk("sphere", {}, {1.0 + 1e-3 * r.below(3), (double)(4 * (1 + r.below(2)))})); else v.push_back(mk("tet", {}, {}));
      int b = last();
      v.push_back(mk("translate", {b}, {r.below(2) ? 0.0 : 1e-6 * r.below(1000), 0.001 * r.below(700), 0.0})); b = last();
      if (r.below(2)) { v.push_back(mk("rotate", {b}, {0, 0, 15.0 * r.below(6)})); b = last(); }
      const char* ops[3] = {"add", "sub", "int"}; v.push_back(mk(ops[r.below(3)], {a, b}, {}));
      v.push_back(mk("simplify", {last()}, {0.001 * (1 + r.below(300))}));
      break; }
    case 3: {  // non-2-manifold soups through the importer: DedupeEdge / SplitPinchedVerts
      if (r.below(2)) v.push_back(mk("importslices", {}, {(double)(2 + r.below(2)), (double)(2 + r.below(6)), (double)r.below(100000)}));
      else v.push_back(mk("importglued", {}, {(double)r.below(2), (double)r.below(3), (double)r.below(100000)}));
      if (r.below(2)) v.push_back(mk("simplify", {last()}, {0.05 * (1 + r.below(10))}));
      if (r.below(2)) { v.push_back(mk("cube", {}, {1, 1, 1, 1})); v.push_back(mk("sub", {0, last()}, {})); }
      break; }
    case 4: {  // Simplify / SetTolerance with a large tolerance on small curved meshes (CollapseEdge2, SwapEdge)
      switch (r.below(3)) { case 0: v.push_back(mk("sphere", {}, {1.0, (double)(4 * (1 + r.below(3)))})); break;
        case 1: v.push_back(mk("cyl", {}, {1.0, 1.0, r.below(2) ? -1.0 : 0.5, (double)(3 + r.below(9)), 0})); break;
        default: v.push_back(mk("revolve", {}, {(double)r.below(5), (double)(3 + r.below(4)), 360})); }
      if (r.below(2)) v.push_back(mk("setprops", {last()}, {(double)(1 + r.below(3))}));
      v.push_back(mk(r.below(2) ? "simplify" : "settol", {last()}, {0.02 * (1 + r.below(25))}));
      break; }
    case 5: {  // SmoothOut + Refine + Simplify
      v.push_back(r.below(2) ? mk("tet", {}, {}) : mk("cube", {}, {1, 1, 1, 0}));
      v.push_back(mk("smoothout", {last()}, {r.below(2) ? 52.5 : 10.0 * r.below(18), 0.1 * r.below(10)}));
      v.push_back(mk("refine", {last()}, {(double)(2 + r.below(2))}));
      v.push_back(mk("simplify", {last()}, {0.02 * (1 + r.below(20))}));
      break; }
    case 6: {  // extrusions with twist/scale-to-point, cut by planes, then Boolean with itself shifted
      v.push_back(mk("extrude", {}, {(double)r.below(5), 1.0, (double)r.below(3), r.below(2) ? 0.0 : 30.0 * r.below(4), r.below(3) ? 1.0 : 0.0, r.below(3) ? 1.0 : 0.0}));
      if (v.back().arg[4] == 0) v.back().arg[5] = 0;
      int a = last(); v.push_back(mk("translate", {a}, {I(0, 1), I(0, 1), r.below(2) ? 0.0 : 0.5}));
      const char* ops[3] = {"add", "sub", "int"}; v.push_back(mk(ops[r.below(3)], {a, last()}, {}));
      if (r.below(2)) v.push_back(mk("simplify", {last()}, {0.0}));
      break; }
    default: {  // properties on both operands: CollapseEdge / SwapEdge property re-indexing
      v.push_back(mk("cube", {}, {I(1, 2), I(1, 2), I(1, 2), 0})); v.push_back(mk("setprops", {last()}, {(double)(1 + r.below(3))})); int a = last();
      v.push_back(mk(r.below(2) ? "sphere" : "cube", {}, {1.0, 4.0 * (1 + r.below(2)), 1.0, 1.0})); if (v.back().op == "sphere") v.back().arg.resize(2);
      v.push_back(mk("setprops", {last()}, {(double)(1 + r.below(3))}));
      v.push_back(mk("translate", {last()}, {0.5 * r.below(3), 0.5 * r.below(3), r.below(2) ? 0.0 : 0.5})); int b = last();
      const char* ops[3] = {"add", "sub", "int"}; v.push_back(mk(ops[r.below(3)], {a, b}, {}));
      if (r.below(2)) v.push_back(mk("simplify", {last()}, {0.01 * (1 + r.below(30))}));
      break; }
  }
  return v;
}


// ------------------------------------------------------------------------------ direct mode
// The primitives are public members of Manifold::Impl: small halfedge structures are built with the
// real CreateHalfedges from seeded closed triangle soups (random spheres by face/edge splits, tori,
// tetrahedra glued by index at vertices/edges -> doubled edges, pinched vertices) and the primitives
// are called directly on them, CollapseEdge with every edge "short" (epsilon_ huge: no geometric guard,
// so edges violating the link condition are collapsed too and FormLoop / RemoveIfFolded run often).
static void soupSphere(hz::Rng& r, std::vector<ivec3>& t, int& nV) {
  if (r.below(2)) { t = {{0, 2, 1}, {0, 1, 3}, {1, 2, 3}, {2, 0, 3}}; nV = 4; }
  else { t = {{0, 1, 4}, {1, 2, 4}, {2, 3, 4}, {3, 0, 4}, {1, 0, 5}, {2, 1, 5}, {3, 2, 5}, {0, 3, 5}}; nV = 6; }
  int splits = (int)r.below(12);
  for (int k = 0; k < splits; k++) {
    size_t f = r.below(t.size()); ivec3 q = t[f]; int v = nV++;
    if (r.below(2)) { t[f] = {q[0], q[1], v}; t.push_back({q[1], q[2], v}); t.push_back({q[2], q[0], v}); }   // 1 -> 3
    else {  // split edge q0-q1: find the triangle with directed edge q1->q0
      int a = q[0], b = q[1];
      for (size_t g = 0; g < t.size(); g++) for (int i = 0; i < 3; i++) if (t[g][i] == b && t[g][(i + 1) % 3] == a && g != f) {
        int c = t[g][(i + 2) % 3]; t[f] = {a, v, q[2]}; t.push_back({v, b, q[2]}); t[g] = {b, v, c}; t.push_back({v, a, c}); g = t.size(); break; }
    }
  }
}
static void soupTorus(hz::Rng& r, std::vector<ivec3>& t, int& nV) {
  int A = 3 + (int)r.below(3), B = 3 + (int)r.below(2); nV = A * B; auto V = [&](int i, int j) { return (i % A) * B + (j % B); };
  for (int i = 0; i < A; i++) for (int j = 0; j < B; j++) { t.push_back({V(i, j), V(i + 1, j), V(i + 1, j + 1)}); t.push_back({V(i, j), V(i + 1, j + 1), V(i, j + 1)}); }
}
static void soupGlued(hz::Rng& r, std::vector<ivec3>& t, int& nV) {
  nV = 4 + (int)r.below(5); int pieces = 2 + (int)r.below(3);
  for (int p = 0; p < pieces; p++) { int v[4]; for (int& x : v) x = (int)r.below(nV);
    std::sort(v, v + 4); if (std::unique(v, v + 4) != v + 4) { p--; continue; }
    for (int i = 4; i > 1; --i) std::swap(v[i - 1], v[r.below(i)]);
    int f[4][3] = {{0, 2, 1}, {0, 1, 3}, {1, 2, 3}, {2, 0, 3}}; bool flip = r.below(2);
    for (auto& q : f) t.push_back(flip ? ivec3(v[q[0]], v[q[2]], v[q[1]]) : ivec3(v[q[0]], v[q[1]], v[q[2]])); }
}
// a closed mesh plus "fins": for a vertex w with neighbours u, v the opposed pair (u,v,w),(v,u,w) is added; with the
// random pairing below the fin's outer edges are often paired with the mesh (doubled edges u-w, v-w): the state in which
// RemoveIfFolded has to re-pair the four outer partners.  CreateHalfedges would delete such opposed pairs, so the
// halfedges are paired here (random perfect matching of the copies of each undirected edge) and loaded with FromData.
static bool loadRandomPairing(hz::Rng& r, const std::vector<ivec3>& tris, Manifold::Impl& impl) {
  const int n = 3 * (int)tris.size(); Vec<Halfedge> he(n);
  std::map<std::pair<int, int>, std::vector<int>> byEdge;
  for (int e = 0; e < n; e++) { const ivec3& q = tris[e / 3]; he[e] = {q[e % 3], q[(e + 1) % 3], -1, q[e % 3]}; byEdge[{he[e].startVert, he[e].endVert}].push_back(e); }
  for (auto& kv : byEdge) { if (kv.first.first > kv.first.second) continue;
    auto it = byEdge.find({kv.first.second, kv.first.first}); if (it == byEdge.end() || it->second.size() != kv.second.size()) return false;
    std::vector<int> b = it->second; for (size_t i = b.size(); i > 1; --i) std::swap(b[i - 1], b[r.below(i)]);
    for (size_t i = 0; i < b.size(); i++) { he[kv.second[i]].pairedHalfedge = b[i]; he[b[i]].pairedHalfedge = kv.second[i]; } }
  impl.halfedge_.FromData(VecView<const Halfedge>(he.data(), he.size())); return true;
}
static std::vector<int> addFins(hz::Rng& r, std::vector<ivec3>& t) {
  std::vector<int> finTris; int fins = 1 + (int)r.below(2);
  for (int k = 0; k < fins; k++) {
    const ivec3 q = t[r.below(t.size())]; int w = q[0], u = q[1], v = q[2];       // u, v neighbours of w
    if (r.below(2)) { for (auto& q2 : t) for (int i = 0; i < 3; i++) if (q2[i] == w && q2[(i + 1) % 3] != u && q2[(i + 1) % 3] != v && r.below(3) == 0) v = q2[(i + 1) % 3]; }
    if (u == v) continue;
    finTris.push_back((int)t.size()); t.push_back({u, v, w}); t.push_back({v, u, w});
  }
  return finTris;
}
static void runDirect(hz::Rng& r, int id) {
  std::vector<ivec3> tris; int nV = 0; const int kind = (int)r.below(5); std::vector<int> finTris;
  if (kind == 0) soupGlued(r, tris, nV); else if (kind == 1) soupTorus(r, tris, nV); else soupSphere(r, tris, nV);
  if (kind == 4) finTris = addFins(r, tris);
  else { for (size_t i = tris.size(); i > 1; --i) std::swap(tris[i - 1], tris[r.below(i)]);
    for (auto& q : tris) { int k = (int)r.below(3); ivec3 o = q; for (int i = 0; i < 3; i++) q[i] = o[(i + k) % 3]; } }
  Manifold::Impl impl; impl.vertPos_.resize(nV);
  for (int v = 0; v < nV; v++) impl.vertPos_[v] = vec3(r.below(1000) * 1e-3, r.below(1000) * 1e-3, r.below(1000) * 1e-3);
  impl.epsilon_ = 1e6; impl.tolerance_ = 1e6;
  if (kind == 4) { if (!loadRandomPairing(r, tris, impl)) return; }
  else { Vec<ivec3> tv(tris); impl.CreateHalfedges(tv); }
  const bool props = r.below(2);
  if (props) { impl.numProp_ = 1; impl.properties_.resize(nV); for (int v = 0; v < nV; v++) impl.properties_[v] = v;
    if (r.below(2)) for (size_t e = 0; e < impl.halfedge_.size(); e++) if (impl.halfedge_.Pair(e) >= 0 && r.below(4) == 0) {   // property seams: extra prop verts
      impl.halfedge_.SetProp(e, (int)impl.properties_.size()); impl.properties_.push_back(0.5); } }
  impl.faceNormal_.resize(impl.halfedge_.size() / 3, vec3(0, 0, 1)); impl.meshRelation_.triRef.resize(impl.halfedge_.size() / 3, TriRef{0, 0, 0, 0});
  gProg = 100000 + id; gSeq = 0; gCasesThisProg = 0; gStep = std::string("direct:") + (kind == 0 ? "glued" : kind == 1 ? "torus" : kind == 4 ? "fins" : "sphere"); gDirectMeshes++;
  if (kind == 4) {  // RemoveIfFolded / CollapseTri on the fins while the doubled edges are still there
    for (int ft : finTris) for (int i = 0; i < 3; i++) if (impl.halfedge_.Pair(3 * ft + i) >= 0 && r.below(2)) { gStack.clear(); gDirectOps++;
      if (r.below(4)) impl.RemoveIfFolded(r.below(2) ? 3 * ft + i : impl.halfedge_.Pair(3 * ft + i));
      else if (pairInv(snap(&impl))) impl.CollapseTri(ivec3(3 * ft + i, nextH(3 * ft + i), nextH(nextH(3 * ft + i)))); }
  }
  if (kind == 4) return;  // fins that are still there are outside the domain of the passes below (CreateHalfedges never leaves opposed pairs)
  if (kind != 0 || r.below(4)) { impl.SplitPinchedVerts(); impl.DedupeEdges(); }
  Vec<int> scratch;
  for (int step = 0; step < 14; step++) {
    Snap cur = snap(&impl); const int n = (int)cur.st.size(); if (n == 0 || n > (int)MAXH) break;
    const bool inv = pairInv(cur); if (!inv) break;
    const bool orb = vertOrbit(cur), nodup = noDupEdge(cur);
    std::vector<int> live; for (int e = 0; e < n; e++) if (cur.pa[e] >= 0) live.push_back(e);
    if (live.empty()) break;
    const int e = live[r.below(live.size())]; const int k = (int)r.below(100); gStack.clear(); gDirectOps++;
    if (getenv("TOPO_TRACE")) fprintf(stderr, "mesh %d kind %d step %d k %d e %d orb %d nodup %d n %d\n", id, kind, step, k, e, (int)orb, (int)nodup, n);
    if (k < 55) { if (orb && nodup) { scratch.resize(0); impl.CollapseEdge(e, scratch); } else { impl.SplitPinchedVerts(); impl.DedupeEdges(); } }
    else if (k < 72) { if (orb && nodup) { impl.SwapEdge(e, 0.5); impl.faceNormal_.resize(impl.halfedge_.size() / 3, vec3(0, 0, 1)); } else impl.SplitPinchedVerts(); }
    else if (k < 84) impl.RemoveIfFolded(e);
    else if (k < 90) { if (orb) impl.DedupeEdge(e); else impl.SplitPinchedVerts(); }
    else if (k < 94) impl.SplitPinchedVerts();
    else {  // FormLoop on two copies of one directed edge, if there is one and the vertices are not pinched
      int a = -1, b = -1;
      for (int x : live) { for (int y : live) if (x < y && cur.st[x] == cur.st[y] && cur.st[nextH(x)] == cur.st[nextH(y)]) { a = x; b = y; break; } if (a >= 0) break; }
      if (a >= 0 && orb) { if (r.below(2)) std::swap(a, b); impl.FormLoop(a, b); } else impl.RemoveIfFolded(e);
    }
    impl.faceNormal_.resize(impl.halfedge_.size() / 3, vec3(0, 0, 1)); impl.meshRelation_.triRef.resize(impl.halfedge_.size() / 3, TriRef{0, 0, 0, 0});
  }
}

static void runProgram(const std::vector<ap::Step>& steps) {
  std::vector<Manifold> pool; gCasesThisProg = 0; gSeq = 0;
  for (size_t i = 0; i < steps.size(); i++) {
    gStep = std::to_string(i) + ":" + steps[i].op; size_t before = pool.size();
    ap::exec(steps[i], pool);
    for (size_t k = before; k < pool.size(); k++) (void)pool[k].NumTri();   // force evaluation inside this step
    gStack.clear();
  }
}

#include <csignal>
static void onFatal(int sig) { fflush(stdout); _exit(128 + sig); }   // keep the cases emitted before a crash / hang of the real code
int main(int argc, char** argv) {
  for (int sg : {SIGALRM, SIGSEGV, SIGABRT, SIGFPE, SIGBUS}) signal(sg, onFatal);
  uint64_t seed = hz::envSeed(); int P = argc > 1 ? atoi(argv[1]) : 40;
  verif::hooks().onTopoOp = onTopo; alarm(hz::thorough() ? 1200 : 150);  // a loop around a vertex that never closes is a result, not a hang
  if (argc > 2) {
    std::ifstream f(argv[2]); std::string line; std::vector<ap::Step> steps;
    while (std::getline(f, line)) { ap::Step s; if (ap::parse(line, s)) steps.push_back(s); }
    gCapPerProg = 1000000; runProgram(steps);
  } else {
    for (gProg = 0; gProg < P; gProg++) {
      hz::Rng r(seed * 7919 + gProg);
      auto steps = genProgram(r, gProg);
      for (size_t i = 0; i < steps.size(); i++) printf("PROG %d.%zu %s\n", gProg, i, ap::show(steps[i]).c_str());
      runProgram(steps);
    }
    const int D = argc > 2 ? 0 : 6 * P;
    for (int d = 0; d < D; d++) { hz::Rng r(seed * 104729 + d); runDirect(r, d); }
  }
  printf("STATS programs=%d direct_meshes=%ld direct_ops=%ld toplevel_outside_precondition=%ld emitted=%ld toplevel=%ld duplicates_skipped=%ld too_big_skipped=%ld capped=%ld maxh=%zu\n", P, gDirectMeshes, gDirectOps, gTopNoPre, gEmitted, gTop, gDup, gSkippedBig, gCapped, MAXH);
  return 0;
}
