// C09 - malformed input gives an error Status, never undefined behaviour.
//
// Built against the `san` library variant (ASan + UBSan, no recovery): any out-of-bounds access,
// integer overflow, division by zero etc. inside the real code aborts this process.  Every case
// prints `CASE` and `REQ` (the complete input) and flushes BEFORE the real code runs, so the last
// CASE on stdout of a crashed run is the failing input.
//
//   c09_ingest <section> <budget>     sections: ingest | merge | prog | args | text | all
//
// Sections
//   ingest  structure-aware mutations of valid MeshGL / MeshGL64 (every field x boundary values, pairs,
//           both precisions) -> Manifold(mesh); REQ = `ingest ctor fixed <shape>`, EXP = `st <Status>`
//           (the model's `kept <n>` is stripped by the check).  PROP: an errored result is empty; a good
//           one survives export + measurement; an errored one keeps its code through consuming ops.
//   merge   the same stream through MeshGL::Merge(); REQ = `ingest merge fixed <shape>`.
//   prog    programs of deriving ops over errored and good leaves; REQ = `ingest prog <term>`, EXP = Status.
//   args    sweeps of every numeric parameter of the public API over NaN, +-inf, 0, negatives, huge,
//           INT_MIN / INT_MAX; channel arguments and LevelSet also against the model.
//   text    OBJ text, polygon sets and point sets (mutation streams).
#include <cmath>
#include <cstring>
#include <functional>
#include <limits>
#include <map>
#include <set>
#include <sstream>
#include <string>
#include <vector>

#include "common.h"
#include "manifold/cross_section.h"
#include "manifold/manifold.h"
#include "manifold/polygon.h"

using namespace manifold;
static const double NaN = std::numeric_limits<double>::quiet_NaN();
static const double Inf = std::numeric_limits<double>::infinity();
static std::map<std::string, long> stats;

// development aid: C09_SKIP=substr,substr skips the cases whose tag contains one of the substrings
static bool skipped(const std::string& tag) {
  const char* e = getenv("C09_SKIP");
  if (!e) return false;
  std::stringstream ss(e);
  std::string item;
  while (std::getline(ss, item, ',')) if (!item.empty() && tag.find(item) != std::string::npos) return true;
  return false;
}
static void begin(const std::string& tag, const std::string& req) {
  printf("CASE %s\nREQ %s\n", tag.c_str(), req.c_str());
  fflush(stdout);
}
static void finish(const std::string& exp, bool ok, const std::string& msg = "") {
  printf("EXP %s\nPROP %s%s%s\n", exp.c_str(), ok ? "ok" : "FAIL", msg.empty() ? "" : " ", msg.c_str());
  fflush(stdout);
}

// ------------------------------------------------------------------------------ shapes
template <typename V>
static bool allFinite(const V& v) {
  for (auto x : v)
    if (!std::isfinite(x)) return false;
  return true;
}
template <typename V>
static void putVec(std::ostringstream& o, const V& v) {
  o << " " << v.size();
  for (auto x : v) o << " " << (unsigned long long)x;
}
template <typename M>
static std::string shapeOf(const M& m) {
  std::ostringstream o;
  o << (unsigned long long)m.numProp << " " << m.vertProperties.size() << " " << (allFinite(m.vertProperties) ? 1 : 0);
  putVec(o, m.triVerts);
  putVec(o, m.mergeFromVert);
  putVec(o, m.mergeToVert);
  putVec(o, m.runIndex);
  o << " " << m.runOriginalID.size() << " " << m.runTransform.size() << " " << (allFinite(m.runTransform) ? 1 : 0) << " " << m.faceID.size()
    << " " << m.halfedgeTangent.size() << " " << (allFinite(m.halfedgeTangent) ? 1 : 0);
  return o.str();
}

template <typename M>
static M convert(const MeshGL64& g) {
  M m;
  m.numProp = g.numProp;
  m.vertProperties.assign(g.vertProperties.begin(), g.vertProperties.end());
  m.triVerts.assign(g.triVerts.begin(), g.triVerts.end());
  m.mergeFromVert.assign(g.mergeFromVert.begin(), g.mergeFromVert.end());
  m.mergeToVert.assign(g.mergeToVert.begin(), g.mergeToVert.end());
  m.runIndex.assign(g.runIndex.begin(), g.runIndex.end());
  m.runOriginalID = g.runOriginalID;
  m.runTransform.assign(g.runTransform.begin(), g.runTransform.end());
  m.runFlags = g.runFlags;
  m.faceID.assign(g.faceID.begin(), g.faceID.end());
  m.halfedgeTangent.assign(g.halfedgeTangent.begin(), g.halfedgeTangent.end());
  m.tolerance = g.tolerance;
  return m;
}

struct Base {
  std::string name;
  MeshGL64 g;
};
static std::vector<Base> bases() {
  std::vector<Base> b;
  {
    MeshGL64 m;
    m.numProp = 3;
    m.vertProperties = {-1, -1, 1, -1, 1, -1, 1, -1, -1, 1, 1, 1};
    m.triVerts = {2, 0, 1, 0, 3, 1, 2, 3, 0, 3, 2, 1};
    b.push_back({"tet", m});
  }
  b.push_back({"cubeN", Manifold::Cube(vec3(1.0), true).CalculateNormals(0, 50).GetMeshGL64()});  // props 6, merge vectors, hasNormals flag
  b.push_back({"bool2", (Manifold::Cube(vec3(1.0)) - Manifold::Cube(vec3(1.0)).Translate({0.5, 0.5, 0.5})).GetMeshGL64()});  // 2 runs, transforms, faceID
  b.push_back({"smooth", Manifold::Tetrahedron().SmoothOut(50, 0.2).GetMeshGL64()});                                        // tangents
  {
    Manifold a = Manifold::Cube(vec3(1.0)).SetProperties(2, [](double* o, vec3 p, const double*) { o[0] = p.x; o[1] = p.y + p.z; });
    Manifold c = Manifold::Compose({a, Manifold::Tetrahedron().Translate({3, 0, 0}), Manifold::Tetrahedron().Translate({0, 4, 0}).AsOriginal()});
    b.push_back({"comp3", c.GetMeshGL64()});  // 3 runs, numProp 5
  }
  b.push_back({"oct", Manifold::Sphere(1.0, 4).GetMeshGL64()});
  {
    MeshGL64 m = Manifold::Cube(vec3(2.0)).SmoothOut(60, 0).GetMeshGL64();
    b.push_back({"cubeT", m});
  }
  return b;
}

// ------------------------------------------------------------------------------ mutations
// boundary values for an index field whose valid range is [0, n)
template <typename I>
static I idxBoundary(hz::Rng& r, size_t n) {
  const unsigned long long top = std::numeric_limits<I>::max();
  switch (r.below(sizeof(I) == 8 ? 11 : 9)) {
    case 0: return (I)n;
    case 1: return (I)(n ? n - 1 : 0);
    case 2: return (I)(n + 1);
    case 3: return (I)top;
    case 4: return (I)(top - 1);
    case 5: return (I)0x7fffffffull;
    case 6: return (I)0x80000000ull;
    case 7: return (I)0;
    case 8: return (I)(2 * n + 7);
    case 9: return (I)(0x100000000ull + r.below(n ? n : 1));   // truncates to a valid 32-bit index
    default: return (I)(0x100000000ull + n);
  }
}
static double badFloat(hz::Rng& r) {
  switch (r.below(6)) {
    case 0: return NaN;
    case 1: return Inf;
    case 2: return -Inf;
    case 3: return 1e300;
    case 4: return -1e300;
    default: return 5e-324;
  }
}
template <typename V>
static void resizeSome(V& v, hz::Rng& r, std::string& d, const char* name, std::initializer_list<int> deltas) {
  std::vector<int> ds(deltas);
  int k = ds[r.below(ds.size())];
  long n = (long)v.size() + k;
  if (k == -1000000) n = 0;
  if (n < 0) n = 0;
  typename V::value_type fill = v.empty() ? typename V::value_type(0) : v[r.below(v.size())];
  v.resize((size_t)n, fill);
  d += std::string(name) + ".size" + (k == -1000000 ? "=0" : (k >= 0 ? "+" : "") + std::to_string(k));
}

static const int kNumMut = 42;
template <typename M>
static std::string mutate(M& m, int kind, hz::Rng& r) {
  using I = typename std::remove_reference<decltype(m.triVerts[0])>::type;
  using P = typename std::remove_reference<decltype(m.vertProperties[0])>::type;
  std::string d;
  const size_t nV = m.numProp ? m.vertProperties.size() / m.numProp : 0;
  const size_t nT = m.triVerts.size() / 3;
  auto any = [&](size_t n) { return n ? r.below(n) : 0; };
  switch (kind) {
    case 0: { static const long long v[] = {0, 1, 2, 3, 4, 7, 1000000, -1}; long long x = v[r.below(8)]; if (x < 0) x = (long long)m.numProp + (r.below(2) ? 1 : -1); if (x < 0) x = 0; m.numProp = (I)x; d = "numProp=" + std::to_string(x); break; }
    case 1: resizeSome(m.vertProperties, r, d, "vertProperties", {-1, -2, -3, 1, 3, -1000000, 4096}); break;
    case 2: if (!m.vertProperties.empty()) { m.vertProperties[any(m.vertProperties.size())] = (P)badFloat(r); } d = "vertProperties[?]=bad"; break;
    case 3: resizeSome(m.triVerts, r, d, "triVerts", {-1, -2, -3, 1, 2, 3, -1000000, -6}); break;
    case 4: if (!m.triVerts.empty()) m.triVerts[any(m.triVerts.size())] = idxBoundary<I>(r, nV); d = "triVerts[?]=boundary"; break;
    case 5: if (nT) { size_t t = any(nT); std::swap(m.triVerts[3 * t + 1], m.triVerts[3 * t + 2]); } d = "flip-tri"; break;
    case 6: if (nT) { size_t t = any(nT); m.triVerts[3 * t + 1] = m.triVerts[3 * t]; } d = "degenerate-tri"; break;
    case 7: if (nT) { size_t t = any(nT); for (int j = 0; j < 3; j++) m.triVerts.push_back(m.triVerts[3 * t + j]); } d = "dup-tri(lengths-not-followed)"; break;
    case 8: if (nT) { size_t t = any(nT); m.triVerts.erase(m.triVerts.begin() + 3 * t, m.triVerts.begin() + 3 * t + 3); } d = "drop-tri(lengths-not-followed)"; break;
    case 9: resizeSome(m.mergeFromVert, r, d, "mergeFromVert", {-1, 1, 2, -1000000}); break;
    case 10: resizeSome(m.mergeToVert, r, d, "mergeToVert", {-1, 1, 2, -1000000}); break;
    case 11: { I v = idxBoundary<I>(r, nV); if (m.mergeFromVert.empty()) { m.mergeFromVert.push_back(v); m.mergeToVert.push_back((I)any(nV)); } else m.mergeFromVert[any(m.mergeFromVert.size())] = v; d = "mergeFromVert[?]=boundary"; break; }
    case 12: { I v = idxBoundary<I>(r, nV); if (m.mergeToVert.empty()) { m.mergeToVert.push_back(v); m.mergeFromVert.push_back((I)any(nV)); } else m.mergeToVert[any(m.mergeToVert.size())] = v; d = "mergeToVert[?]=boundary"; break; }
    case 13: { size_t a = any(nV), b2 = any(nV); m.mergeFromVert.push_back((I)a); m.mergeToVert.push_back((I)b2); d = "merge+=" + std::to_string(a) + "->" + std::to_string(b2); break; }
    case 14: resizeSome(m.runIndex, r, d, "runIndex", {-1, -2, 1, 2, -1000000}); break;
    case 15: if (m.runIndex.empty()) m.runIndex.push_back(0); m.runIndex[any(m.runIndex.size())] = idxBoundary<I>(r, m.triVerts.size()); d = "runIndex[?]=boundary"; break;
    case 16: if (m.runIndex.size() >= 2) std::swap(m.runIndex[any(m.runIndex.size())], m.runIndex[any(m.runIndex.size())]); d = "runIndex-swap"; break;
    case 17: { size_t k = any(m.runIndex.size()); if (!m.runIndex.empty()) m.runIndex[k] = (I)(m.runIndex[k] + 1 + r.below(2)); d = "runIndex[?]+=1..2"; break; }
    case 18: if (!m.runIndex.empty()) m.runIndex[0] = (I)(3 * (1 + any(nT ? nT - 1 : 0))); d = "runIndex[0]>0"; break;
    case 19: if (!m.runIndex.empty()) m.runIndex.back() = (I)(3 * any(nT)); d = "runIndex.back<end"; break;
    case 20: resizeSome(m.runOriginalID, r, d, "runOriginalID", {-1, 1, 2, 5, -1000000}); break;
    case 21: { m.runIndex.clear(); size_t k = 1 + r.below(3); m.runOriginalID.assign(k, 7); d = "runIndex.clear+runOriginalID.size=" + std::to_string(k); break; }
    case 22: resizeSome(m.runTransform, r, d, "runTransform", {-1, -12, 1, 12, -1000000, 24}); break;
    case 23: if (m.runTransform.empty()) m.runTransform.assign(12 * m.runOriginalID.size(), (P)0.5); if (!m.runTransform.empty()) m.runTransform[any(m.runTransform.size())] = (P)badFloat(r); d = "runTransform[?]=bad"; break;
    case 24: resizeSome(m.runFlags, r, d, "runFlags", {-1, 1, 3, -1000000}); break;
    case 25: m.runFlags.assign(std::max<size_t>(1, m.runOriginalID.size()), (uint8_t)(r.below(256))); d = "runFlags=random"; break;
    case 26: resizeSome(m.faceID, r, d, "faceID", {-1, 1, 3, -1000000}); break;
    case 27: if (m.faceID.empty()) m.faceID.assign(nT, 0); if (!m.faceID.empty()) m.faceID[any(m.faceID.size())] = idxBoundary<I>(r, nT); d = "faceID[?]=boundary"; break;
    case 28: resizeSome(m.halfedgeTangent, r, d, "halfedgeTangent", {-1, -4, -12, 1, 4, 12, -1000000, 8}); break;
    case 29: if (m.halfedgeTangent.empty()) m.halfedgeTangent.assign(12 * nT, (P)0.25); if (!m.halfedgeTangent.empty()) m.halfedgeTangent[any(m.halfedgeTangent.size())] = (P)badFloat(r); d = "halfedgeTangent[?]=bad"; break;
    case 30: { size_t k = r.below(4) ? 4 * (1 + r.below(3 * nT + 3)) : r.below(12 * nT + 30); m.halfedgeTangent.assign(k, (P)0.25); d = "halfedgeTangent.size=" + std::to_string(k); break; }
    case 31: m.tolerance = (P)badFloat(r); d = "tolerance=bad"; break;
    case 32: m.tolerance = (P)(r.below(2) ? -1.0 : 1e6); d = "tolerance=neg/huge"; break;
    case 33: { size_t k = 1 + r.below(2); for (size_t i = 0; i < k * (size_t)m.numProp; i++) m.vertProperties.push_back((P)(0.1 * i)); d = "extra-unreferenced-verts"; break; }
    case 34: if (nT) { size_t t = any(nT); I v = m.triVerts[3 * t]; m.triVerts[3 * t] = m.triVerts[3 * t + 1]; m.triVerts[3 * t + 1] = m.triVerts[3 * t + 2]; m.triVerts[3 * t + 2] = v; } d = "rotate-tri(valid)"; break;
    case 35: { m.runIndex.clear(); m.runOriginalID.clear(); m.runTransform.clear(); m.runFlags.clear(); d = "strip-runs(valid)"; break; }
    case 36: { if (m.runIndex.size() >= 2 && m.runIndex.size() == m.runOriginalID.size() + 1) m.runIndex.pop_back(); d = "runIndex-implicit-end(valid)"; break; }
    case 37: { size_t n = m.runIndex.size(); if (n >= 3) { size_t k = 1 + any(n - 2); m.runIndex[k] = (I)(m.runIndex[k] + (r.below(2) ? 3 : -3)); } d = "runIndex-interior+-3"; break; }
    case 38: { m.faceID.clear(); m.halfedgeTangent.clear(); d = "strip-faceID-tangents(valid)"; break; }
    case 39: {  // free-form run table without run IDs: any length, boundary values, the LAST entry right or wrong
      m.runOriginalID.clear(); m.runTransform.clear(); m.runFlags.clear(); m.runIndex.clear(); const size_t n = 2 + r.below(4);
      m.runIndex.push_back(r.below(4) ? (I)0 : idxBoundary<I>(r, m.triVerts.size()));
      for (size_t i = 1; i + 1 < n; i++) m.runIndex.push_back(r.below(3) ? idxBoundary<I>(r, m.triVerts.size()) : (I)(3 * r.below(nT + 2)));
      m.runIndex.push_back(r.below(4) ? (I)m.triVerts.size() : idxBoundary<I>(r, m.triVerts.size()));
      d = "runIndex-freeform-noIDs(n=" + std::to_string(n) + ")"; break; }
    case 40: {  // the same with k run IDs and k+1 .. k+3 indices
      const size_t k = 1 + r.below(3), n = k + 1 + r.below(3); m.runOriginalID.assign(k, 7); for (size_t i = 0; i < k; i++) m.runOriginalID[i] = (uint32_t)(7 + i); m.runTransform.clear(); m.runFlags.clear(); m.runIndex.clear();
      m.runIndex.push_back((I)0); for (size_t i = 1; i + 1 < n; i++) m.runIndex.push_back(r.below(3) ? idxBoundary<I>(r, m.triVerts.size()) : (I)(3 * r.below(nT + 2)));
      m.runIndex.push_back(r.below(4) ? (I)m.triVerts.size() : idxBoundary<I>(r, m.triVerts.size()));
      d = "runIndex-freeform(k=" + std::to_string(k) + ",n=" + std::to_string(n) + ")"; break; }
    default: { // wholly random small soup
      size_t nv = 4 + r.below(4), nt = 4 + r.below(5);
      m = M(); m.numProp = 3;
      for (size_t i = 0; i < 3 * nv; i++) m.vertProperties.push_back((P)((double)r.below(7) - 3));
      for (size_t i = 0; i < 3 * nt; i++) m.triVerts.push_back((I)r.below(nv + (r.below(8) == 0)));
      d = "random-soup";
    }
  }
  return d;
}

// ------------------------------------------------------------------------------ oracles
static std::string meshLine(const char* kind, const Manifold& m) {
  MeshGL64 g = m.GetMeshGL64();
  std::ostringstream o;
  o << "MESH " << kind << " | " << (g.numProp ? g.vertProperties.size() / g.numProp : 0) << " " << g.triVerts.size() / 3;
  for (auto v : g.triVerts) o << " " << v;
  o << " " << g.mergeFromVert.size();
  for (auto v : g.mergeFromVert) o << " " << v;
  for (auto v : g.mergeToVert) o << " " << v;
  o << " | " << m.Genus();
  return o.str();
}

// consuming ops on an errored object: the code must survive, bit for bit
static bool stickyOps(const Manifold& e, Manifold::Error st, std::string& why, hz::Rng& r) {
  Manifold good = Manifold::Cube(vec3(1.0));
  std::vector<std::pair<const char*, Manifold>> out;
  switch (r.below(6)) {
    case 0: out.push_back({"Translate", e.Translate({1, 2, 3})}); out.push_back({"a+e", good + e}); out.push_back({"Refine", e.Refine(2)}); break;
    case 1: out.push_back({"e-a", e - good}); out.push_back({"Hull", e.Hull()}); out.push_back({"SmoothOut", e.SmoothOut()}); out.push_back({"AsOriginal", e.AsOriginal()}); break;
    case 2: out.push_back({"Batch", Manifold::BatchBoolean({good, e, good.Translate({0.5, 0, 0})}, OpType::Add)}); out.push_back({"Compose", Manifold::Compose({good, e})}); break;
    case 3: out.push_back({"Split.first", good.Split(e).first}); out.push_back({"Split.second", e.Split(good).second}); out.push_back({"TrimByPlane", e.TrimByPlane({0, 0, 1}, 0)}); out.push_back({"Simplify", e.Simplify(0.1)}); break;
    case 4: out.push_back({"Warp", e.Warp([](vec3& v) { v.x += 1; })}); out.push_back({"SetProperties", e.SetProperties(1, nullptr)}); out.push_back({"CalculateNormals", e.CalculateNormals(0)});
      out.push_back({"CalculateCurvature", e.CalculateCurvature(0, 1)}); out.push_back({"SmoothByNormals", e.SmoothByNormals(0)}); break;
    default: out.push_back({"Hull(v)", Manifold::Hull({good, e})}); out.push_back({"Scale", e.Scale({2, 2, 2})}); out.push_back({"Rotate", e.Rotate(10, 20, 30)}); out.push_back({"Mirror", e.Mirror({1, 0, 0})});
      out.push_back({"SetTolerance", e.SetTolerance(0.1)}); out.push_back({"RefineToLength", e.RefineToLength(0.1)}); out.push_back({"a^e", good ^ e}); break;
  }
  for (auto& p : out) {
    if (p.second.Status() != st) { why = std::string(p.first) + " turned status " + std::to_string((int)st) + " into " + std::to_string((int)p.second.Status()); return false; }
    if (!p.second.IsEmpty() || p.second.NumTri() != 0) { why = std::string(p.first) + " of an errored operand is not empty"; return false; }
  }
  return true;
}

static bool checkResult(const Manifold& x, std::string& why, hz::Rng& r, const char* kind, bool emitMesh) {
  Manifold::Error st = x.Status();
  if (st != Manifold::Error::NoError) {
    if (!x.IsEmpty() || x.NumTri() != 0 || x.NumVert() != 0) { why = "errored result is not empty"; return false; }
    MeshGL g = x.GetMeshGL();
    if (!g.triVerts.empty()) { why = "errored result exports triangles"; return false; }
    return stickyOps(x, st, why, r);
  }
  // a good result must survive being looked at
  double v = x.Volume(), a = x.SurfaceArea();
  (void)x.Genus(); (void)x.BoundingBox(); (void)x.NumDegenerateTris(); (void)x.MatchesTriNormals();
  (void)v; (void)a;  // finite but huge coordinates (1e300) overflow to inf - inf here: not part of the property
  MeshGL g32 = x.GetMeshGL();
  MeshGL64 g = x.GetMeshGL64();
  // positions only: property channels written by a user function (SetProperties) may legitimately hold anything
  for (size_t i = 0; i < g.vertProperties.size(); i++)
    if (i % g.numProp < 3 && !std::isfinite(g.vertProperties[i])) { why = "NoError result exports a non-finite vertex position"; return false; }
  for (auto t : g.triVerts) if (t >= g.vertProperties.size() / g.numProp) { why = "export index out of range"; return false; }
  if (emitMesh && !x.IsEmpty()) puts(meshLine(kind, x).c_str());
  return true;
}

// ------------------------------------------------------------------------------ sections
template <typename M>
static void ingestCase(const std::string& tag, const M& m, hz::Rng& r, bool doMerge) {
  const std::string shape = shapeOf(m);
  if (!doMerge) {
    begin(tag, "ingest ctor fixed " + shape);
    Manifold x(m);
    std::string why;
    bool ok = checkResult(x, why, r, "ingest", r.below(4) == 0);
    stats["ingest_st" + std::to_string((int)x.Status())]++;
    finish("st " + std::to_string((int)x.Status()), ok, why);
  } else {
    begin(tag, "ingest merge fixed " + shape);
    M c = m;
    bool ret = c.Merge();
    bool unchanged = c.mergeFromVert == m.mergeFromVert && c.mergeToVert == m.mergeToVert && c.triVerts == m.triVerts && c.numProp == m.numProp &&
                     c.vertProperties.size() == m.vertProperties.size();
    std::string why;
    bool ok = true;
    if (!ret && !unchanged) { ok = false; why = "Merge() returned false but changed the mesh"; }
    if (ret) {  // the merged mesh goes through the constructor
      Manifold x(c);
      ok = checkResult(x, why, r, "merged", false);
    }
    stats[ret ? "merge_true" : "merge_false"]++;
    finish(std::string("ret ") + (ret ? "1" : "0") + " unchanged " + (unchanged ? "1" : "0"), ok, why);
  }
}

static void sectionIngest(hz::Rng& r, long budget, bool doMerge) {
  auto bs = bases();
  long n = 0;
  hz::Rng ro(hz::envSeed() + 77);  // choices of the oracles (which consuming ops, which meshes are exported)
  // the same mutation choices for both precisions: each gets a copy of the generator state
  auto both = [&](const std::string& tag, const MeshGL64& g, auto mut) {
    MeshGL64 a = g;
    MeshGL b = convert<MeshGL>(g);
    hz::Rng ra = r, rb = r;
    std::string d = mut(a, ra);
    ingestCase("c09 " + std::string(doMerge ? "merge64 " : "ingest64 ") + tag + " " + d, a, ro, doMerge);
    d = mut(b, rb);
    ingestCase("c09 " + std::string(doMerge ? "merge32 " : "ingest32 ") + tag + " " + d, b, ro, doMerge);
    r = ra;
    r.next();
    n += 2;
  };
  // unmutated bases first
  for (auto& b : bs) both(b.name + " none", b.g, [](auto&, hz::Rng&) { return std::string("unchanged"); });
  // every single mutation class on every base, several draws
  const int draws = hz::thorough() ? 12 : 3;
  for (int k = 0; k < kNumMut; k++)
    for (auto& b : bs)
      for (int d = 0; d < draws; d++) {
        both(b.name + " m" + std::to_string(k), b.g, [&](auto& m, hz::Rng& rr) { return mutate(m, k, rr); });
        stats["mut" + std::to_string(k)] += 2;
      }
  // pairs (sometimes triples) of mutations
  while (n < budget) {
    auto& b = bs[r.below(bs.size())];
    int k1 = (int)r.below(kNumMut - 1), k2 = (int)r.below(kNumMut - 1);
    int k3 = r.below(4) == 0 ? (int)r.below(kNumMut - 1) : -1;
    both(b.name + " m" + std::to_string(k1) + "+m" + std::to_string(k2) + (k3 >= 0 ? "+m" + std::to_string(k3) : ""), b.g, [&](auto& m, hz::Rng& rr) {
      std::string d = mutate(m, k1, rr) + "; " + mutate(m, k2, rr);
      if (k3 >= 0) d += "; " + mutate(m, k3, rr);
      return d;
    });
    stats["pairs"] += 2;
  }
}

// ---- programs over errored leaves
struct Term { std::string text; Manifold val; bool hasErr; std::string human; };
static MeshGL64 tetGL() { return bases()[0].g; }
static Manifold erroredLeaf(int k) {
  MeshGL64 m = tetGL();
  switch (k % 9) {
    case 0: m.vertProperties[4] = NaN; break;                                   // 1 NonFiniteVertex
    case 1: std::swap(m.triVerts[4], m.triVerts[5]); break;                      // 2 NotManifold
    case 2: m.triVerts[7] = 9; break;                                            // 3 VertexOutOfBounds
    case 3: m.numProp = 2; m.vertProperties.resize(8); break;                    // 5 MissingPositionProperties
    case 4: m.mergeFromVert = {1}; break;                                        // 6 MergeVectorsDifferentLengths
    case 5: m.mergeFromVert = {7}; m.mergeToVert = {1}; break;                   // 7 MergeIndexOutOfBounds
    case 6: m.runOriginalID = {3}; m.runTransform.assign(5, 1.0); break;         // 8 TransformWrongLength
    case 7: m.runOriginalID = {3, 4}; m.runIndex = {0, 3, 6, 12}; break;         // 9 RunIndexWrongLength
    default: m.faceID = {1, 2}; break;                                           // 10 FaceIDWrongLength
  }
  return Manifold(m);
}
static Term genTerm(hz::Rng& r, int depth) {
  if (depth == 0 || r.below(4) == 0) {
    int k = (int)r.below(14);
    Manifold v;
    if (k < 9) v = erroredLeaf(k);
    else if (k == 9) v = Manifold::Cube(vec3(1.0)).SetProperties(-5, nullptr);
    else if (k == 10) v = Manifold::Cube(vec3(1.0)).Transform(mat3x4(vec3(NaN, 0, 0), vec3(0, 1, 0), vec3(0, 0, 1), vec3(0.0)));
    else if (k == 11) v = Manifold::Tetrahedron();
    else if (k == 12) v = Manifold::Cube(vec3(1.0), true);
    else v = Manifold();
    int st = (int)v.Status();
    return {"L " + std::to_string(st), v, st != 0, "leaf" + std::to_string(k) + ":" + std::to_string(st)};
  }
  int k = (int)r.below(30);
  if (k < 17) {
    Term p = genTerm(r, depth - 1);
    Manifold v; int own = 0;
    switch (k) {
      case 0: v = p.val.Translate({1, 0, 0}); break;
      case 1: v = p.val.Scale({1, 2, 1}); break;
      case 2: v = p.val.Rotate(15, 0, 0); break;
      case 3: v = p.val.Mirror({0, 1, 0}); break;
      case 4: v = p.val.Warp([](vec3& x) { x.z += 0.1 * x.x; }); break;
      case 5: v = p.val.SetProperties(2, nullptr); break;
      case 6: v = p.val.CalculateNormals(0); break;
      case 7: v = p.val.CalculateCurvature(0, 1); break;
      case 8: v = p.val.SmoothOut(50, 0); break;
      case 9: v = p.val.Refine(2); break;
      case 10: v = p.val.Simplify(0.01); break;
      case 11: v = p.val.SetTolerance(0.01); break;
      case 12: v = p.val.AsOriginal(); break;
      case 13: v = p.val.Hull(); break;
      case 14: v = p.val.TrimByPlane({0, 0, 1}, -10); break;
      case 15: v = p.val.SetProperties(-1, nullptr); own = 11; break;            // the op's own argument error on a good operand
      default: v = p.val.Transform(mat3x4(vec3(1, 0, 0), vec3(0, Inf, 0), vec3(0, 0, 1), vec3(0.0))); own = 1; break;   // Impl::Transform: NonFiniteVertex
    }
    return {"U " + std::to_string(own) + " " + p.text, v, p.hasErr, "u" + std::to_string(k) + "(" + p.human + ")"};
  }
  Term a = genTerm(r, depth - 1), b = genTerm(r, depth - 1);
  Manifold v; const char* tag = "B";
  switch (k) {
    case 17: case 18: v = a.val + b.val; tag = "P"; break;   // lazy CSG tree: flattened with its operands, evaluated in any order
    case 19: case 20: v = a.val - b.val; tag = "P"; break;
    case 21: case 22: v = a.val ^ b.val; tag = "P"; break;
    case 23: v = a.val.Split(b.val).first; break;
    case 24: v = a.val.Split(b.val).second; break;
    case 25: v = Manifold::BatchBoolean({a.val, b.val}, OpType::Add); tag = "P"; break;
    case 26: v = Manifold::Compose({a.val, b.val}); tag = "P"; break;
    case 27: v = Manifold::Hull({a.val, b.val}); tag = "P"; break;
    case 28: v = Manifold::BatchBoolean({a.val, b.val}, OpType::Intersect); tag = "P"; break;
    default: v = Manifold::BatchBoolean({a.val, b.val}, OpType::Subtract); tag = "P"; break;
  }
  return {std::string(tag) + " " + a.text + " " + b.text, v, a.hasErr || b.hasErr, "b" + std::to_string(k) + "(" + a.human + "," + b.human + ")"};
}
static void sectionProg(hz::Rng& r, long budget) {
  for (long i = 0; i < budget; i++) {
    hz::Rng save = r;
    // first pass only to learn the text (the values are lazily evaluated CSG trees; Status() below forces them)
    Term t = genTerm(r, 1 + (int)r.below(4));
    (void)save;
    begin("c09 prog " + std::string(t.hasErr ? "errored " : "clean ") + std::to_string(i) + " " + t.human, "ingest prog " + t.text);
    int st = (int)t.val.Status();
    bool ok = true; std::string why;
    if (t.hasErr && st == 0) { ok = false; why = "a program consuming an errored operand reports NoError"; }
    if (st != 0 && (!t.val.IsEmpty() || t.val.NumTri() != 0)) { ok = false; why = "errored result is not empty"; }
    if (ok && st == 0) ok = checkResult(t.val, why, r, "prog", false);  // a NoError result must export finite positions
    stats[t.hasErr ? "prog_errored" : "prog_clean"]++;
    finish(std::to_string(st), ok, why);
  }
}

// ---- numeric argument sweeps
static const double kD[] = {NaN, Inf, -Inf, 0.0, -0.0, -1.0, 1.0, 1e-300, -1e-300, 1e300, -1e300, 1e-9, 0.5, 360.0, 1e18, 2147483648.0};
static const int kI[] = {std::numeric_limits<int>::min(), std::numeric_limits<int>::min() + 1, -1000, -3, -1, 0, 1, 2, 3, 4, 7, 1000, std::numeric_limits<int>::max() - 2, std::numeric_limits<int>::max() - 1, std::numeric_limits<int>::max()};
static std::string dstr(double d) { char b[40]; snprintf(b, sizeof b, "%.17g", d); return b; }

static void argCase(const std::string& name, const std::string& req, std::function<Manifold()> f, hz::Rng& r, const std::string& expIfModel = "") {
  if (skipped(name)) return;
  begin("c09 args " + name, req);
  Manifold x = f();
  std::string why;
  bool ok = checkResult(x, why, r, "args", r.below(3) == 0);
  stats["args_st" + std::to_string((int)x.Status())]++;
  finish(req.empty() ? std::string("-") : (expIfModel.empty() ? std::to_string((int)x.Status()) : expIfModel == "chan" ? (x.Status() == Manifold::Error::NoError ? "ok" : "bad") : expIfModel), ok, why);
}
static void voidCase(const std::string& name, std::function<void()> f) {
  if (skipped(name)) return;
  begin("c09 args " + name, "");
  f();
  stats["args_void"]++;
  finish("-", true);
}
static char fcOf(double d) { return std::isnan(d) ? 'n' : d == -Inf ? 'a' : d == Inf ? 'b' : d < 0 ? 'm' : d == 0 ? 'z' : 'p'; }

static void sectionArgs(hz::Rng& r, long budget) {
  Manifold cube = Manifold::Cube(vec3(1.0), true), sph = Manifold::Sphere(1.0, 8), tet = Manifold::Tetrahedron();
  Manifold withN = sph.CalculateNormals(0);                       // NumProp 3
  Manifold with5 = cube.SetProperties(5, nullptr);
  Manifold smooth = tet.SmoothOut(50, 0.1);
  const size_t nPV = withN.NumPropVert();
  (void)nPV;
  // --- channel arguments against the model
  for (int k : kI) {
    auto big = [&](long long props) { return props > 4096; };   // allocation of props * NumPropVert doubles: absurd sizes are skipped
    for (const Manifold* m : {&sph, &withN, &with5}) {
      const long long np = (long long)m->NumProp();
      const std::string on = " on NumProp=" + std::to_string(np);
      argCase("SmoothByNormals(" + std::to_string(k) + ")" + on, "ingest chan " + std::to_string(k) + " 3 " + std::to_string(np), [&] { return m->SmoothByNormals(k); }, r, "chan");
      if (!big((long long)k + 3))
        argCase("CalculateNormals(" + std::to_string(k) + ")" + on, k < 0 ? "" : "ingest chan " + std::to_string(k) + " 3 2147483647", [&] { return m->CalculateNormals(k); }, r, "chan");
      if (!big(k)) argCase("SetProperties(" + std::to_string(k) + ")" + on, "ingest chan " + std::to_string(k) + " 0 2147483647", [&] { return m->SetProperties(k, nullptr); }, r, "chan");
      for (int k2 : {-1, 0, k}) if (!big((long long)std::max(k, k2) + 1))
        argCase("CalculateCurvature(" + std::to_string(k) + "," + std::to_string(k2) + ")" + on, std::max(k, k2) < 0 ? "" : "ingest chan " + std::to_string(std::max(k, k2)) + " 1 2147483647",
                [&] { return m->CalculateCurvature(k, k2); }, r, "chan");
      voidCase("GetMeshGL(" + std::to_string(k) + ")" + on, [&] { MeshGL g = m->GetMeshGL(k); MeshGL64 g2 = m->GetMeshGL64(k); (void)g; (void)g2; });
    }
    if (k < 6) { argCase("Refine(" + std::to_string(k) + ")", "", [&] { return tet.Refine(k); }, r); argCase("Refine(" + std::to_string(k) + ") smooth", "", [&] { return smooth.Refine(k); }, r); }
    if (k < 40) { argCase("Sphere(1," + std::to_string(k) + ")", "", [&] { return Manifold::Sphere(1.0, k); }, r);
      argCase("Cylinder(1,1,1," + std::to_string(k) + ")", "", [&] { return Manifold::Cylinder(1, 1, 1, k); }, r);
      argCase("Revolve(sq," + std::to_string(k) + ")", "", [&] { return Manifold::Revolve({{{1, 0}, {2, 0}, {2, 1}, {1, 1}}}, k); }, r);
      voidCase("Circle(1," + std::to_string(k) + ")", [&] { auto c = CrossSection::Circle(1.0, k); (void)c.Area(); (void)c.NumVert(); });
      voidCase("Offset(0.1,Round,2," + std::to_string(k) + ")", [&] { auto c = CrossSection::Square({1, 1}).Offset(0.1, JoinType::Round, 2.0, k); (void)c.Area(); }); }
    if (k < 8) argCase("Extrude(sq,1," + std::to_string(k) + ")", "", [&] { return Manifold::Extrude({{{0, 0}, {1, 0}, {1, 1}, {0, 1}}}, 1.0, k); }, r);
  }
  // --- double arguments
  for (double d : kD) {
    const std::string s = dstr(d);
    // LevelSet: edge length and bounds against the model of the guard
    if (std::isnan(d) || !(d > 0 && d < 0.02)) {
      auto sdf = [](vec3 p) { return 1.0 - la::length(p); };
      const bool bigGrid = d > 0 && std::isfinite(d) && 2.4 / d + 1.0 >= 1048576.0;
      std::string req = std::string("ingest levelset ") + fcOf(d) + " 1 p p p " + (bigGrid ? "1 1 1" : "0 0 0");
      if (!(d > 0 && d < 0.1 && !bigGrid)) argCase("LevelSet(edgeLength=" + s + ")", req, [&] { return Manifold::LevelSet(sdf, Box(vec3(-1.2), vec3(1.2)), d); }, r);
      Box bb(vec3(-1.2), vec3(1.2)); bb.max.z = d;
      const double dz = d - (-1.2);
      const bool bigZ = dz / 0.5 + 1.0 >= 1048576.0;
      if (!(std::isfinite(dz) && dz > 50 && !bigZ))
        argCase("LevelSet(bounds.max.z=" + s + ")", std::string("ingest levelset p ") + (std::isfinite(d) ? "1" : "0") + " p p " + fcOf(dz) + " 0 0 " + (bigZ ? "1" : "0"),
                [&] { return Manifold::LevelSet(sdf, bb, 0.5); }, r);
      argCase("LevelSet(level=" + s + ")", "", [&] { return Manifold::LevelSet(sdf, Box(vec3(-1.2), vec3(1.2)), 0.5, d); }, r);
      argCase("LevelSet(tolerance=" + s + ")", "", [&] { return Manifold::LevelSet(sdf, Box(vec3(-1.2), vec3(1.2)), 0.5, 0, d); }, r);
      argCase("LevelSet(sdf=const " + s + ")", "", [&] { return Manifold::LevelSet([d](vec3) { return d; }, Box(vec3(-1.2), vec3(1.2)), 0.5); }, r);
    }
    argCase("Cube(" + s + ",1,1)", "", [&] { return Manifold::Cube({d, 1, 1}); }, r);
    argCase("Sphere(" + s + ",8)", "", [&] { return Manifold::Sphere(d, 8); }, r);
    argCase("Cylinder(" + s + ",1,1,8)", "", [&] { return Manifold::Cylinder(d, 1, 1, 8); }, r);
    argCase("Cylinder(1," + s + ",1,8)", "", [&] { return Manifold::Cylinder(1, d, 1, 8); }, r);
    argCase("Cylinder(1,1," + s + ",8)", "", [&] { return Manifold::Cylinder(1, 1, d, 8); }, r);
    argCase("Extrude(h=" + s + ")", "", [&] { return Manifold::Extrude({{{0, 0}, {1, 0}, {1, 1}, {0, 1}}}, d); }, r);
    argCase("Extrude(twist=" + s + ")", "", [&] { return Manifold::Extrude({{{0, 0}, {1, 0}, {1, 1}, {0, 1}}}, 1, 2, d); }, r);
    argCase("Extrude(scaleTop.x=" + s + ")", "", [&] { return Manifold::Extrude({{{0, 0}, {1, 0}, {1, 1}, {0, 1}}}, 1, 0, 0, {d, 1}); }, r);
    argCase("Revolve(deg=" + s + ")", "", [&] { return Manifold::Revolve({{{1, 0}, {2, 0}, {2, 1}, {1, 1}}}, 8, d); }, r);
    argCase("Translate(" + s + ")", "", [&] { return cube.Translate({d, 0, 0}); }, r);
    argCase("Scale(" + s + ")", "", [&] { return cube.Scale({1, d, 1}); }, r);
    argCase("Rotate(" + s + ")", "", [&] { return cube.Rotate(d, 0, 0); }, r);
    argCase("Rotate(0,0," + s + ")", "", [&] { return cube.Rotate(0, 0, d); }, r);
    argCase("Mirror(" + s + ")", "", [&] { return cube.Mirror({d, 0, 0}); }, r);
    argCase("Mirror(1," + s + ",0)", "", [&] { return cube.Mirror({1, d, 0}); }, r);
    argCase("Transform(m[3][0]=" + s + ")", "", [&] { return cube.Transform(mat3x4(vec3(1, 0, 0), vec3(0, 1, 0), vec3(0, 0, 1), vec3(d, 0, 0))); }, r);
    argCase("Transform(m[1][1]=" + s + ")", "", [&] { return cube.Transform(mat3x4(vec3(1, 0, 0), vec3(0, d, 0), vec3(0, 0, 1), vec3(0.0))); }, r);
    argCase("Warp(x=" + s + ")", "", [&] { return cube.Warp([d](vec3& v) { if (v.x > 0 && v.y > 0 && v.z > 0) v.x = d; }); }, r);
    argCase("WarpBatch(all=" + s + ")", "", [&] { return cube.WarpBatch([d](VecView<vec3> vs) { for (auto& v : vs) v.y = d; }); }, r);
    argCase("SetTolerance(" + s + ")", "", [&] { return sph.SetTolerance(d); }, r);
    argCase("Simplify(" + s + ")", "", [&] { return sph.Simplify(d); }, r);
    argCase("SmoothOut(" + s + ",0)", "", [&] { return cube.SmoothOut(d, 0); }, r);
    argCase("SmoothOut(60," + s + ")", "", [&] { return cube.SmoothOut(60, d); }, r);
    argCase("SmoothOut(" + s + ",0.5).Refine(2)", "", [&] { return cube.SmoothOut(d, 0.5).Refine(2); }, r);
    argCase("CalculateNormals(0," + s + ")", "", [&] { return cube.CalculateNormals(0, d); }, r);
    if (!(std::fabs(d) > 0 && std::fabs(d) < 0.05)) {
      argCase("RefineToLength(" + s + ")", "", [&] { return cube.RefineToLength(d); }, r);
      argCase("RefineToTolerance(" + s + ")", "", [&] { return smooth.RefineToTolerance(d); }, r);
    }
    argCase("TrimByPlane(n.x=" + s + ")", "", [&] { return cube.TrimByPlane({d, 0, 1}, 0); }, r);
    argCase("TrimByPlane(offset=" + s + ")", "", [&] { return cube.TrimByPlane({0, 0, 1}, d); }, r);
    argCase("SplitByPlane(n.z=" + s + ").first", "", [&] { return cube.SplitByPlane({0, 0, d}, 0).first; }, r);
    argCase("SplitByPlane(offset=" + s + ").second", "", [&] { return cube.SplitByPlane({0, 1, 0}, d).second; }, r);
    argCase("SetProperties(f=" + s + ")", "", [&] { return cube.SetProperties(2, [d](double* o, vec3, const double*) { o[0] = d; o[1] = 1; }); }, r);
    argCase("SetProperties(f=" + s + ")+cube", "", [&] { return cube.SetProperties(1, [d](double* o, vec3, const double*) { o[0] = d; }) + sph.Translate({0.5, 0, 0}); }, r);
    voidCase("Slice(" + s + ")", [&] { auto p = cube.Slice(d); (void)p; });
    voidCase("MinGap(" + s + ")", [&] { double g = cube.MinGap(sph.Translate({3, 0, 0}), d); (void)g; });
    voidCase("RayCast(" + s + ")", [&] { auto h = cube.RayCast({d, 0, 0}, {0, 0, 5}); auto h2 = cube.RayCast({0, 0, -5}, {0, d, 5}); (void)h; (void)h2; });
    voidCase("WindingNumber(" + s + ")", [&] { auto w = cube.WindingNumber({{d, 0, 0}, {0, 0, 0}, {0, d, d}}); (void)w; });
    voidCase("Project/Hull pts " + s, [&] { Manifold h = Manifold::Hull({{0, 0, 0}, {1, 0, 0}, {0, 1, 0}, {0, 0, 1}, {d, d, d}, {d, 0, 1}}); (void)h.Status(); (void)h.NumTri(); (void)h.Volume(); });
    voidCase("Triangulate " + s, [&] { auto t = Triangulate({{{0, 0}, {1, 0}, {d, 1}, {0, 1}}}, -1); auto t2 = Triangulate({{{0, 0}, {1, 0}, {1, 1}, {0, 1}}}, d); (void)t; (void)t2; });
    voidCase("CrossSection " + s, [&] {
      CrossSection sq = CrossSection::Square({1, 1});
      (void)CrossSection::Square({d, 1}).Area(); (void)CrossSection::Circle(d, 8).Area(); (void)sq.Translate({d, 0}).Area(); (void)sq.Rotate(d).Area(); (void)sq.Scale({d, 1}).Area();
      (void)sq.Mirror({d, 1}).Area(); (void)sq.Transform(mat2x3(vec2(1, 0), vec2(0, d), vec2(0, 0))).Area(); (void)sq.Warp([d](vec2& v) { if (v.x > 0.5) v.y = d; }).Area();
      (void)sq.Simplify(d).Area(); (void)sq.SetTolerance(d).Area();
      if (!(std::fabs(d) > 1e6)) { (void)sq.Offset(d, JoinType::Round).Area(); (void)sq.Offset(d, JoinType::Miter, 2.0).Area(); (void)sq.Offset(d, JoinType::Square).Area(); }
      (void)sq.Offset(0.1, JoinType::Miter, d).Area();
      (void)CrossSection(SimplePolygon{{0, 0}, {1, 0}, {d, d}, {0, 1}}).Area(); (void)CrossSection::Hull(SimplePolygon{{0, 0}, {1, 0}, {d, 1}, {0, d}}).Area();
      Manifold e = Manifold::Extrude(CrossSection(SimplePolygon{{0, 0}, {1, 0}, {1, d}, {0, 1}}).ToPolygons(), 1.0); (void)e.Status(); (void)e.NumTri();
    });
    voidCase("Quality " + s, [&] { Quality::SetMinCircularAngle(d); Quality::SetMinCircularEdgeLength(d); (void)Quality::GetCircularSegments(1.0); (void)Quality::GetCircularSegments(d);
      if (Quality::GetCircularSegments(1.0) <= 4096) { Manifold c = Manifold::Cylinder(1, 1, 1); (void)c.NumTri(); }  // 1e-300 legitimately asks for 1e9 segments: absurd size, skipped
      Quality::ResetToDefaults(); });
  }
  voidCase("Quality ints", [&] { for (int k : kI) { Quality::SetCircularSegments(k); (void)Quality::GetCircularSegments(1.0); if (k < 64) { Manifold s2 = Manifold::Sphere(1.0); (void)s2.NumTri(); } } Quality::ResetToDefaults(); });
  // --- Smooth(mesh, sharpenedEdges): halfedge indices and smoothness values
  {
    MeshGL64 g = tetGL();
    static const size_t hs[] = {0, 11, 12, 13, 35, 36, 1000000, (size_t)-1, (size_t)1 << 40};
    for (size_t h : hs)
      for (double sm : {0.0, 0.5, 1.0, -1.0, 2.0, NaN, Inf})
        argCase("Smooth(tet,{" + std::to_string(h) + "," + dstr(sm) + "})", "", [&] { return Manifold::Smooth(g, {{h, sm}}).Refine(2); }, r);
    MeshGL g32 = convert<MeshGL>(g);
    for (size_t h : hs) argCase("Smooth32(tet,{" + std::to_string(h) + ",0.5})", "", [&] { return Manifold::Smooth(g32, {{h, 0.5}, {h, 0.1}}); }, r);
  }
  (void)budget;
}

// ---- OBJ text, polygon sets, point sets
static void sectionText(hz::Rng& r, long budget) {
  std::ostringstream os;
  Manifold::Cube(vec3(1.0)).WriteOBJ(os);
  const std::string good = os.str();
  static const char* frags[] = {"v", "f", "vn", "vt", " ", "\n", "-", "/", "//", "0", "1", "9", "99999999999999999999", "-1", "-9", "nan", "inf", "1e999", "#", "\r\n", "\t", "f 1 2", "f 1 2 3 4 5", "f 1/1/1 2/2/2 3/3/3",
                                "v 1 2", "v a b c", "f 0 0 0", "f -1 -2 -3", "f 4294967297 1 2", "o x", "g", "usemtl q", "\0x", "v 1 2 3 4 5 6 7"};
  long nObj = budget / 2;
  for (long i = 0; i < nObj; i++) {
    std::string t = good;
    int nm = 1 + (int)r.below(4);
    std::string what;
    for (int k = 0; k < nm; k++) {
      size_t pos = r.below(t.size() + 1);
      switch (r.below(6)) {
        case 0: t.insert(pos, frags[r.below(sizeof frags / sizeof *frags)]); what += "ins "; break;
        case 1: t.erase(pos, r.below(12)); what += "del "; break;
        case 2: if (pos < t.size()) t[pos] = (char)r.below(256); what += "byte "; break;
        case 3: t = t.substr(0, pos); what += "trunc "; break;
        case 4: { std::string line = std::string(frags[r.below(3)]) + " " + frags[9 + r.below(10)] + " " + frags[9 + r.below(10)] + " " + frags[9 + r.below(10)] + "\n"; t.insert(pos, "\n" + line); what += "line "; break; }
        default: { size_t a = r.below(t.size() + 1); t.insert(pos, t.substr(a, r.below(40))); what += "copy "; }
      }
    }
    std::string esc;
    for (unsigned char c : t) { char b[8]; if (c == '\\' || c < 32 || c > 126) { snprintf(b, sizeof b, "\\x%02x", c); esc += b; } else esc += (char)c; }
    begin("c09 obj " + std::to_string(i) + " " + what + "text=" + esc, "");
    std::istringstream in(t);
    MeshGL64 g = ReadOBJ(in);
    Manifold x(g);
    std::istringstream in2(t);
    Manifold y = Manifold::ReadOBJ(in2);
    std::string why;
    bool ok = checkResult(x, why, r, "obj", false);
    if (ok && x.Status() != y.Status()) { ok = false; why = "Manifold::ReadOBJ and Manifold(ReadOBJ()) disagree on the status"; }
    stats["obj_st" + std::to_string((int)x.Status())]++;
    finish("-", ok, why);
  }
  // polygon sets
  for (long i = 0; i < budget / 4; i++) {
    Polygons ps;
    int np = (int)r.below(4);
    std::ostringstream d;
    for (int p = 0; p < np; p++) {
      SimplePolygon sp;
      int n = (int)r.below(7);
      for (int k = 0; k < n; k++) {
        vec2 v((double)r.below(5), (double)r.below(5));
        if (r.below(9) == 0) v.x = badFloat(r);
        if (r.below(9) == 0) v.y = kD[r.below(sizeof kD / sizeof *kD)];
        sp.push_back(v);
        d << dstr(v.x) << "," << dstr(v.y) << " ";
      }
      d << "| ";
      ps.push_back(sp);
    }
    begin("c09 polys " + std::to_string(i) + " " + d.str(), "");
    { auto t = Triangulate(ps); (void)t; }
    { CrossSection c(ps); (void)c.Area(); (void)c.NumVert(); auto o = c.Offset(0.25); (void)o.Area(); auto h = CrossSection::Hull(ps); (void)h.Area(); auto eo = CrossSection::EvenOdd(ps); (void)eo.Area(); (void)(c - eo).Area(); }
    std::string why;
    Manifold e = Manifold::Extrude(ps, 1.0, (int)r.below(3), 10.0 * r.below(3));
    bool ok = checkResult(e, why, r, "extrude", false);
    Manifold v = Manifold::Revolve(ps, 3 + (int)r.below(6), r.below(2) ? 360.0 : 90.0);
    std::string why2;
    ok = checkResult(v, why2, r, "revolve", false) && ok;
    stats["polys"]++;
    finish("-", ok, why + why2);
  }
  // point sets
  for (long i = 0; i < budget / 4; i++) {
    std::vector<vec3> pts;
    int n = (int)r.below(12);
    std::ostringstream d;
    int mode = (int)r.below(5);
    for (int k = 0; k < n; k++) {
      vec3 v((double)r.below(4), mode == 1 ? 0.0 : (double)r.below(4), mode == 2 ? 1.0 : (double)r.below(4));
      if (mode == 3) v = vec3(1, 2, 3);
      if (r.below(8) == 0) v[r.below(3)] = kD[r.below(sizeof kD / sizeof *kD)];
      pts.push_back(v);
      d << dstr(v.x) << "," << dstr(v.y) << "," << dstr(v.z) << " ";
    }
    begin("c09 points " + std::to_string(i) + " " + d.str(), "");
    Manifold h = Manifold::Hull(pts);
    std::string why;
    bool ok = checkResult(h, why, r, "hullpts", false);
    SimplePolygon p2; for (auto& v : pts) p2.push_back({v.x, v.y});
    { auto c = CrossSection::Hull(p2); (void)c.Area(); }
    { auto w = Manifold::Cube(vec3(2.0)).WindingNumber(pts); (void)w; }
    stats["points"]++;
    finish("-", ok, why);
  }
}

int main(int argc, char** argv) {
  std::string section = argc > 1 ? argv[1] : "all";
  long budget = argc > 2 ? atol(argv[2]) : 2000;
  hz::Rng r(hz::envSeed());
  if (section == "ingest" || section == "all") sectionIngest(r, budget, false);
  if (section == "merge" || section == "all") sectionIngest(r, section == "all" ? budget / 3 : budget, true);
  if (section == "prog" || section == "all") sectionProg(r, section == "all" ? budget / 4 : budget);
  if (section == "args" || section == "all") sectionArgs(r, budget);
  if (section == "text" || section == "all") sectionText(r, section == "all" ? budget / 8 : budget);
  printf("STATS");
  for (auto& kv : stats) printf(" %s=%ld", kv.first.c_str(), kv.second);
  printf("\n");
  return 0;
}
