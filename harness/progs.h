// Shared by c07_export.cpp and c08_roundtrip.cpp:
//  * access to the `Impl` behind a Manifold (`GetCsgLeafNode().GetImpl()`),
//  * a generator of random API programs (originals with 0-4 property channels, explicit face
//    IDs, ReserveIDs/AsOriginal, property seams with merge vectors, instances under
//    translations/rotations/mirrors/scales, Booleans x3, Split, SplitByPlane, BatchBoolean,
//    Compose of disjoint copies, Refine; and for C08 also CalculateNormals/SmoothOut/
//    SmoothByNormals), with a registry of the SOURCE mesh of every original ID,
//  * the dump of the exporter's inputs (REQ for `mvdriver export all`) and of the real
//    GetMeshGL64 (EXP) in the canonical form of lean/Driver/Export.lean.
#pragma once
#include <algorithm>
#include <array>
#include <atomic>
#include <cassert>
#include <chrono>
#include <cmath>
#include <condition_variable>
#include <cstdint>
#include <cstring>
#include <deque>
#include <functional>
#include <iomanip>
#include <iostream>
#include <limits>
#include <map>
#include <memory>
#include <mutex>
#include <numeric>
#include <optional>
#include <regex>
#include <set>
#include <sstream>
#include <stdexcept>
#include <string>
#include <thread>
#include <tuple>
#include <type_traits>
#include <unordered_map>
#include <unordered_set>
#include <utility>
#include <variant>
#include <vector>
// the Impl is reached through the private `Manifold::GetCsgLeafNode()`
#define private public
#define protected public
#include "manifold/manifold.h"
#include "csg_tree.h"
#include "impl.h"
#undef private
#undef protected
#include "common.h"

namespace pg {
using namespace manifold;
using hz::Rng;
typedef long double ld;

inline uint64_t bits(double d) { uint64_t u; memcpy(&u, &d, 8); return u; }
inline uint32_t bitsf(float d) { uint32_t u; memcpy(&u, &d, 4); return u; }
struct Hash {
  uint64_t h = 1469598103934665603ull;
  void add(uint64_t w) { h ^= w; h *= 1099511628211ull; h ^= h >> 29; }
  uint64_t get() const { uint64_t x = h; x ^= x >> 33; x *= 0xff51afd7ed558ccdull; x ^= x >> 33; return x; }
};

inline std::shared_ptr<const Manifold::Impl> implOf(const Manifold& m) { return m.GetCsgLeafNode().GetImpl(); }

inline double unit(Rng& r) { return r.below(1000001) / 1000000.0; }
inline double sym(Rng& r, double a) { return (2 * unit(r) - 1) * a; }

// ---------------------------------------------------------------- source registry
struct Source {
  int numProp = 0;  // extra channels
  std::vector<std::array<double, 3>> pos;  // per source vertex row
  std::vector<double> props;               // numProp per row
  std::vector<std::array<uint64_t, 3>> tris;
  std::vector<uint64_t> faceID;
  std::map<uint64_t, std::vector<int>> byFace;
  bool ownFace = false;  // every source triangle carries its own face ID
  bool affine = false;   // every channel is an affine function of position, no seams
  bool userFace = false; // the face IDs were supplied by the user (stable names); otherwise the exported
                         // face ID is the library's coplanar-group label, which Refine may renumber
};
struct Registry {
  std::map<uint32_t, Source> src;
  std::map<uint32_t, bool> affineHint;  // set by the generator before registration
};

// Record the triangles of every not-yet-known original that appears with an identity transform
// in the export of `m` (called right after an original is created: primitive, mesh import,
// AsOriginal).
inline void registerSources(Registry& reg, const Manifold& m, bool affine, bool userFace = false) {
  MeshGL64 g = m.GetMeshGL64();
  const size_t np = g.numProp;
  for (size_t run = 0; run < g.runOriginalID.size(); run++) {
    const uint32_t id = g.runOriginalID[run];
    if (g.runIndex[run] == g.runIndex[run + 1] || reg.src.count(id)) continue;
    if (!g.runTransform.empty()) {
      static const double I[12] = {1, 0, 0, 0, 1, 0, 0, 0, 1, 0, 0, 0};
      bool idt = true; for (int k = 0; k < 12; k++) if (g.runTransform[12 * run + k] != I[k]) idt = false;
      if (!idt) continue;
    }
    Source s; s.numProp = (int)np - 3; s.affine = affine; s.userFace = userFace;
    std::map<uint64_t, int> remap;
    for (size_t t = g.runIndex[run] / 3; t < g.runIndex[run + 1] / 3; t++) {
      std::array<uint64_t, 3> tri;
      for (int i = 0; i < 3; i++) {
        uint64_t v = g.triVerts[3 * t + i];
        auto it = remap.find(v);
        if (it == remap.end()) {
          it = remap.emplace(v, (int)s.pos.size()).first;
          s.pos.push_back({g.vertProperties[np * v], g.vertProperties[np * v + 1], g.vertProperties[np * v + 2]});
          for (size_t p = 3; p < np; p++) s.props.push_back(g.vertProperties[np * v + p]);
        }
        tri[i] = it->second;
      }
      s.byFace[g.faceID[t]].push_back((int)s.tris.size());
      s.tris.push_back(tri); s.faceID.push_back(g.faceID[t]);
    }
    s.ownFace = s.byFace.size() == s.tris.size();
    reg.src[id] = std::move(s);
  }
}

// SplitByPlane cuts with a library-made original: `Halfspace` (src/manifold.cpp:30-39) is
// `Manifold::Cube(vec3(2.0), true)` under a similarity transform.  Its faces appear in the result
// under a fresh original ID; the source mesh of that ID is therefore the centred cube of side 2.
inline void registerCutter(Registry& reg, const Manifold& res) {
  MeshGL64 g = res.GetMeshGL64();
  for (size_t run = 0; run < g.runOriginalID.size(); run++) {
    const uint32_t id = g.runOriginalID[run];
    if (reg.src.count(id)) continue;
    Manifold cube = Manifold::Cube(vec3(2.0), true);
    Registry tmp; registerSources(tmp, cube, true);
    if (tmp.src.size() == 1) reg.src[id] = tmp.src.begin()->second;
  }
}

// ---------------------------------------------------------------- originals
struct GenOpts { bool smooth = false; bool normals = false; int maxTri = 1500;
  bool seamRefine = false;   // focus: originals are user meshes with >= 1 channel, own face IDs and PARTIAL seams; Refine(2) is frequent
};

inline Manifold primitive(Rng& r, std::string& d) {
  switch (r.below(5)) {
    case 0: { vec3 s(0.6 + unit(r), 0.6 + unit(r), 0.6 + unit(r)); d += "cube"; return Manifold::Cube(s, true); }
    case 1: { int seg = 4 * (1 + (int)r.below(3)); d += "sphere" + std::to_string(seg); return Manifold::Sphere(0.5 + 0.4 * unit(r), seg); }
    case 2: { int seg = 3 + (int)r.below(8); d += "cyl" + std::to_string(seg); return Manifold::Cylinder(0.8 + unit(r), 0.3 + 0.4 * unit(r), r.below(2) ? -1.0 : 0.2 + 0.4 * unit(r), seg, true); }
    case 3: { d += "tet"; return Manifold::Tetrahedron().Scale(vec3(0.7)).AsOriginal(); }
    default: { d += "lcube"; return (Manifold::Cube(vec3(1.0), true) - Manifold::Cube(vec3(1.0), true).Translate({0.5, 0.5, 0.25})).AsOriginal(); }
  }
}

struct UserMesh { MeshGL64 g; bool affine = false; bool valid = false; int runMode = 0; bool userFace = false; };

// Turn a shape into a user-supplied MeshGL64: k property channels, face-ID mode, optional
// per-triangle vertex duplication (property seam) with merge vectors, 1 or 2 runs with
// reserved original IDs.
inline UserMesh userMesh(Rng& r, const Manifold& shape, std::string& d, bool seamFocus = false) {
  UserMesh um; MeshGL64 g0 = shape.GetMeshGL64();
  if (g0.NumTri() < 4) return um;
  const int k = seamFocus ? 1 + (int)r.below(3) : (int)r.below(5);
  const int fmode = seamFocus ? 1 : (int)r.below(3);          // 0 none, 1 own face ID per triangle, 2 coplanar grouping made explicit
  const int seamMode = seamFocus ? 2 : k > 0 && r.below(5) < 2 ? 1 + (int)r.below(2) : 0;  // 1: duplicate the vertices per triangle; 2: PARTIAL seams (a corner gets its own property
                                                                          // vertex with probability 1/2: seams that end at a vertex, edges shared at one end and split at the other)
  const bool seam = seamMode != 0;
  const int runMode = (int)r.below(4);        // 0 no run info, 1 one reserved ID, 2 two reserved IDs, 3 one ID + AsOriginal later
  const bool nonlinear = k > 0 && r.below(3) == 0;
  double A[4][4]; for (auto& row : A) for (double& x : row) x = sym(r, 2.0);
  auto chan = [&](int j, vec3 p, size_t tri) -> double {
    if (seam && j == 0) return 0.25 * (double)(tri % 17) - 1.0;  // constant per triangle
    double v = A[j][0] * p.x + A[j][1] * p.y + A[j][2] * p.z + A[j][3];
    if (nonlinear && j == k - 1) v += std::sin(3 * p.x) * p.y + p.z * p.z;
    return v;
  };
  MeshGL64 g; g.numProp = 3 + k; g.tolerance = g0.tolerance;
  const size_t nT = g0.NumTri();
  if (!seam) {
    for (size_t v = 0; v < g0.NumVert(); v++) {
      vec3 p(g0.vertProperties[3 * v], g0.vertProperties[3 * v + 1], g0.vertProperties[3 * v + 2]);
      for (int i = 0; i < 3; i++) g.vertProperties.push_back(p[i]);
      for (int j = 0; j < k; j++) g.vertProperties.push_back(chan(j, p, 0));
    }
    g.triVerts = g0.triVerts;
  } else {
    std::vector<int64_t> first(g0.NumVert(), -1);
    for (size_t t = 0; t < nT; t++)
      for (int i = 0; i < 3; i++) {
        size_t v = g0.triVerts[3 * t + i];
        vec3 p(g0.vertProperties[3 * v], g0.vertProperties[3 * v + 1], g0.vertProperties[3 * v + 2]);
        if (seamMode == 2 && first[v] >= 0 && r.below(2)) { g.triVerts.push_back((uint64_t)first[v]); continue; }   // share the first property vertex of v
        uint64_t idx = g.vertProperties.size() / g.numProp;
        for (int c = 0; c < 3; c++) g.vertProperties.push_back(p[c]);
        for (int j = 0; j < k; j++) g.vertProperties.push_back(chan(j, p, t));
        g.triVerts.push_back(idx);
        if (first[v] < 0) first[v] = idx; else { g.mergeFromVert.push_back(idx); g.mergeToVert.push_back(first[v]); }
      }
  }
  if (fmode == 1) { for (size_t t = 0; t < nT; t++) g.faceID.push_back(1000 + 7 * t); }
  else if (fmode == 2) { for (size_t t = 0; t < nT; t++) g.faceID.push_back(5 + g0.faceID[t]); }
  if (runMode == 1 || runMode == 3) { g.runOriginalID = {Manifold::ReserveIDs(1)}; g.runIndex = {0, 3 * nT}; }
  else if (runMode == 2) {
    uint32_t id = Manifold::ReserveIDs(2); size_t cut = 1 + r.below(nT - 1);
    g.runOriginalID = {id, id + 1}; g.runIndex = {0, 3 * cut, 3 * nT};
    if (r.below(2)) g.runIndex.pop_back();  // the importer appends triVerts.size()
  }
  um.g = g; um.valid = true; um.runMode = runMode; um.userFace = fmode != 0; um.affine = !seam && !nonlinear;
  d += "/mesh(k=" + std::to_string(k) + ",f=" + std::to_string(fmode) + (seamMode == 1 ? ",seam" : seamMode == 2 ? ",pseam" : "") + (nonlinear ? ",nl" : "") + ",run=" + std::to_string(runMode) + ")";
  return um;
}

struct Prog {
  Manifold result;
  std::string desc;
  std::vector<UserMesh> inputs;  // the user meshes the program imported
  bool smoothed = false;
  std::vector<Manifold> trace;   // every pool entry in creation order (diagnosis only)
};

inline Manifold randomTransform(Rng& r, const Manifold& m, std::string& d) {
  Manifold x = m;
  if (r.below(3)) { x = x.Rotate(sym(r, 180), sym(r, 180), sym(r, 180)); d += "R"; }
  if (r.below(4) == 0) { x = x.Mirror(vec3(sym(r, 1), sym(r, 1), 0.3 + unit(r))); d += "M"; }
  if (r.below(4) == 0) { x = x.Scale(vec3(0.7 + 0.6 * unit(r), 0.7 + 0.6 * unit(r), 0.7 + 0.6 * unit(r))); d += "S"; }
  x = x.Translate(vec3(sym(r, 0.45), sym(r, 0.45), sym(r, 0.45))); d += "T";
  return x;
}

inline Prog randomProgram(Rng& r, Registry& reg, const GenOpts& o) {
  Prog P; std::string& d = P.desc;
  std::vector<Manifold> orig;
  const int nOrig = 1 + (int)r.below(3);
  for (int i = 0; i < nOrig; i++) {
    d += (i ? " " : "") + std::string("o") + std::to_string(i) + "=";
    Manifold shape = primitive(r, d);
    Manifold m = shape; bool affine = true, userFace = false;
    if (o.seamRefine || r.below(3)) {
      UserMesh um = userMesh(r, shape, d, o.seamRefine);
      if (um.valid) {
        m = Manifold(um.g); affine = um.affine; userFace = um.userFace; P.inputs.push_back(um);
        if (um.runMode == 3 && r.below(2)) { m = m.AsOriginal(); d += ".asOrig"; userFace = false; }
      }
    }
    if (o.normals && r.below(4) == 0) { m = m.CalculateNormals(0, 40 + 30 * unit(r)); d += ".normals"; affine = false; }
    registerSources(reg, m, affine, userFace);
    orig.push_back(m);
  }
  std::vector<Manifold> pool;
  // anc[i]: which placed instances (bit per instance) pool[i] was built from WITHOUT being moved since: two operands
  // sharing an instance have exactly coincident surface parts (e.g. r = a + b; r + a), the regime of "(coincident)"
  std::vector<uint64_t> anc; int nextBit = 0; auto freshBit = [&]() { return 1ull << (nextBit++ % 64); };
  auto inst = [&]() { d += " i" + std::to_string(pool.size()) + "="; size_t k = r.below(orig.size()); d += "o" + std::to_string(k); return randomTransform(r, orig[k], d); };
  pool.push_back(inst()); pool.push_back(inst());
  const int steps = 1 + (int)r.below(5);
  // "(coincident)": two operands of one Boolean have bit-identical bounding boxes (e.g. a mesh and a refined
  // or re-originalised copy of itself in the same place): their surfaces coincide exactly
  auto sameBox = [](const Manifold& x, const Manifold& y) { Box a = x.BoundingBox(), b = y.BoundingBox(); return !x.IsEmpty() && !y.IsEmpty() && a.min == b.min && a.max == b.max; };
  size_t lastPick = 0;
  auto pick = [&]() -> Manifold { if (r.below(3) == 0) { pool.push_back(inst()); lastPick = pool.size() - 1; return pool.back(); } lastPick = r.below(pool.size()); return pool[lastPick]; };
  auto A = [&](size_t i) { while (anc.size() < pool.size()) anc.push_back(freshBit()); return anc[i]; };   // instances get their bit lazily
  auto small = [&](const Manifold& m) { return (int)m.NumTri() <= o.maxTri; };
  for (int s = 0; s < steps; s++) {
    int op = (int)r.below(o.smooth ? 12 : 10);
    if (o.seamRefine && r.below(3) == 0) op = 7;
    Manifold a = pick(); const size_t ia = lastPick;
    d += " ;";
    A(pool.size() - 1); const size_t poolBefore = pool.size(); uint64_t resMask = A(ia); bool moved = false;
    switch (op) {
      // "(self)": both operands are the very same Manifold (exactly coincident surfaces)
      case 0: case 1: case 2: { Manifold b = pick(); OpType t = (OpType)op; d += t == OpType::Add ? "add" : t == OpType::Subtract ? "sub" : "int"; if (lastPick == ia) d += "(self)"; else if (sameBox(a, b) || (A(ia) & A(lastPick))) d += "(coincident)"; resMask |= A(lastPick); pool.push_back(a.Boolean(b, t)); break; }
      case 3: { Manifold b = pick(); auto pr = a.Split(b); d += "split"; if (lastPick == ia) d += "(self)"; else if (sameBox(a, b) || (A(ia) & A(lastPick))) d += "(coincident)"; resMask |= A(lastPick); pool.push_back(r.below(2) ? pr.first : pr.second); break; }
      case 4: { auto pr = a.SplitByPlane(vec3(sym(r, 1), sym(r, 1), 0.2 + unit(r)), sym(r, 0.2)); d += "plane"; pool.push_back(r.below(2) ? pr.first : pr.second); registerCutter(reg, pool.back()); break; }
      case 5: { Manifold b = pick(); size_t ib = lastPick; Manifold c = pick(); size_t ic = lastPick; std::vector<Manifold> v = {a, b, c}; OpType t = (OpType)r.below(3); d += "batch" + std::to_string((int)t); if (ia == ib || ia == ic || ib == ic) d += "(self)"; else if (sameBox(a, b) || sameBox(a, c) || sameBox(b, c) || (A(ia) & A(ib)) || (A(ia) & A(ic)) || (A(ib) & A(ic))) d += "(coincident)"; resMask |= A(ib) | A(ic); pool.push_back(Manifold::BatchBoolean(v, t)); break; }
      case 6: {  // Compose of pairwise disjoint copies
        Manifold b = pick(); d += "compose"; resMask |= freshBit();
        std::vector<Manifold> v = {a, a.Translate(vec3(10, 0, 0)), b.Translate(vec3(0, 12, 0))};
        if (r.below(2)) v.push_back(b.Rotate(0, 0, 90).Translate(vec3(0, 0, 15)));
        pool.push_back(Manifold::Compose(v)); break;
      }
      // "!n3": Refine(n) with n >= 3 somewhere in the history
      case 7: { if (small(a)) { int n = o.seamRefine || r.below(2) ? 2 : 3 + (int)r.below(2); d += "refine" + std::to_string(n); if (n >= 3) d += "!n3"; pool.push_back(a.Refine(n)); } else { d += "skip"; } break; }
      case 8: { d += "asOriginal"; Manifold b = a.AsOriginal(); if (!b.IsEmpty()) { registerSources(reg, b, false); orig.push_back(b); } pool.push_back(b); break; }
      case 9: { d += "xform"; pool.push_back(randomTransform(r, a, d)); moved = true; break; }
      case 10: { d += "smoothOut"; pool.push_back(a.SmoothOut(30 + 40 * unit(r), 0.3 * unit(r))); P.smoothed = true; break; }
      default: {
        if (o.normals && a.NumProp() == 0) { d += "normals+smoothByNormals"; pool.push_back(a.CalculateNormals(0, 50).SmoothByNormals(0)); P.smoothed = true; }
        else { d += "smoothOut2"; pool.push_back(a.SmoothOut()); P.smoothed = true; }
        break;
      }
    }
    A(pool.size() - 1); if (pool.size() > poolBefore && !moved) anc[pool.size() - 1] = resMask;   // instances picked on the way keep their own bit
  }
  P.result = pool.back(); P.trace = pool;
  if (P.result.IsEmpty() && pool.size() > 2) for (size_t i = pool.size(); i-- > 0;) if (!pool[i].IsEmpty()) { P.result = pool[i]; d += " (result=v" + std::to_string(i) + ")"; break; }
  return P;
}

// ---------------------------------------------------------------- dumps
template <typename V> inline std::string joinU(const V& v) {
  std::string s; s.reserve(v.size() * 8); bool first = true;
  for (auto x : v) { if (!first) s += ' '; first = false; s += std::to_string((uint64_t)x); }
  return s;
}
inline std::string sections(const std::vector<std::string>& v) {
  std::string s; for (size_t i = 0; i < v.size(); i++) { if (i) s += " | "; s += v[i]; } return s;
}

// `Manifold::GetMeshGL64()` passes normalIdx = 0 when every relation hasNormals
// (src/manifold.cpp:292-296); the exporter then re-normalises channels 0..2 of every output vertex
// of a non-original (impl.h `updateNormals`).  Those three channels are floating-point results,
// not copies, so they are left out of the property-row payload on both sides.
inline bool normalsRewritten(const Manifold::Impl& impl) {
  return impl.meshRelation_.originalID < 0 && impl.NumProp() >= 3 && impl.AllHaveNormals();
}

// REQ: the exporter's inputs read from the Impl
inline std::string exportRequest(const Manifold::Impl& impl, const char* op = "all") {
  const size_t nT = impl.NumTri(); const int np = impl.NumProp();
  std::string refs; refs.reserve(nT * 16);
  for (size_t t = 0; t < nT; t++) {
    const TriRef& x = impl.meshRelation_.triRef[t];
    if (t) refs += ' ';
    refs += std::to_string(x.meshID) + ' ' + std::to_string(x.originalID) + ' ' + std::to_string(x.faceID) + ' ' + std::to_string(x.coplanarID);
  }
  std::string rel; bool f = true;
  for (const auto& kv : impl.meshRelation_.meshIDtransform) {
    if (!f) rel += ' '; f = false;
    rel += std::to_string(kv.first) + ' ' + std::to_string(kv.second.originalID) + ' ' + std::to_string((kv.second.backSide ? 1 : 0) | (kv.second.hasNormals ? 2 : 0));
    for (int col = 0; col < 4; col++) for (int row = 0; row < 3; row++) rel += ' ' + std::to_string(bits(kv.second.transform[col][row]));
  }
  std::vector<uint64_t> he, hv, hp, tg;
  for (size_t h = 0; h < 3 * nT; h++) { he.push_back(impl.halfedge_.Start(h)); he.push_back(np > 0 ? impl.halfedge_.Prop(h) : 0); }
  for (size_t v = 0; v < impl.NumVert(); v++) { Hash x; for (int i = 0; i < 3; i++) x.add(bits(impl.vertPos_[v][i])); hv.push_back(x.get()); }
  const int skip = normalsRewritten(impl) ? 3 : 0;
  if (np > 0) for (size_t p = 0; p < impl.properties_.size() / np; p++) { Hash x; for (int i = skip; i < np; i++) x.add(bits(impl.properties_[p * np + i])); hp.push_back(x.get()); }
  for (size_t h = 0; h < impl.halfedgeTangent_.size(); h++) { Hash x; for (int i = 0; i < 4; i++) x.add(bits(impl.halfedgeTangent_[h][i])); tg.push_back(x.get()); }
  return std::string("export ") + op + " " + (impl.meshRelation_.originalID >= 0 ? "1" : "0") + " " + (np > 0 ? "1" : "0") + " | " +
         sections({refs, rel, joinU(he), joinU(hv), joinU(hp), joinU(tg)});
}

// EXP: the real GetMeshGL64 in the form `mvdriver export all` prints
inline std::string exportAnswer(const MeshGL64& g, bool normalsRewritten = false) {
  const size_t np = g.numProp; const size_t p0 = normalsRewritten ? 6 : 3;
  std::vector<uint64_t> tr, vp, pp, tg;
  for (double x : g.runTransform) tr.push_back(bits(x));
  for (size_t v = 0; v < g.NumVert(); v++) {
    Hash x; for (int i = 0; i < 3; i++) x.add(bits(g.vertProperties[np * v + i])); vp.push_back(x.get());
    if (np > 3) { Hash y; for (size_t i = p0; i < np; i++) y.add(bits(g.vertProperties[np * v + i])); pp.push_back(y.get()); } else pp.push_back(0);
  }
  for (size_t h = 0; h < g.halfedgeTangent.size() / 4; h++) { Hash x; for (int i = 0; i < 4; i++) x.add(bits(g.halfedgeTangent[4 * h + i])); tg.push_back(x.get()); }
  return sections({joinU(g.runIndex), joinU(g.runOriginalID), joinU(g.runFlags), joinU(tr), joinU(g.faceID), joinU(g.triVerts), joinU(vp), joinU(pp),
                   joinU(g.mergeFromVert), joinU(g.mergeToVert), joinU(tg)});
}

// `mesh checkmerge` request on an exported mesh
inline std::string checkMergeRequest(const MeshGL64& g) {
  return "mesh checkmerge " + std::to_string((uint64_t)g.NumVert()) + " " + std::to_string((uint64_t)g.NumTri()) + " " + joinU(g.triVerts) +
         (g.triVerts.empty() ? "" : " ") + std::to_string(g.mergeFromVert.size()) + (g.mergeFromVert.empty() ? "" : " ") + joinU(g.mergeFromVert) +
         (g.mergeToVert.empty() ? "" : " ") + joinU(g.mergeToVert);
}

}  // namespace pg
