// C01 end-to-end harness: seeded programs over the public API (biased to coincident,
// touching and duplicate operands on an integer lattice); every object any step returns is
// exported and sent through the VERIFIED mesh checker (`mesh checkmerge`, theorem
// checkMesh_iff); the answer must be `ok` with the library's own Genus/NumEdge/NumVert.
// usage: c01_api <programs> <steps> [replay-file]
#include <fstream>
#include <sys/wait.h>
#include <unistd.h>
#include "apiprog.h"
using namespace manifold;

static int gCase = 0;
static void checkObject(const Manifold& m, const std::string& tag) {
  MeshGL64 g = m.GetMeshGL64();
  bool ok = true; std::string msg;
  const size_t nV = g.NumVert(), nT = g.NumTri();
  auto st = m.Status();
  if (st != Manifold::Error::NoError) {
    if (!m.IsEmpty() || nT != 0 || nV != 0 || m.NumVert() != 0 || m.NumTri() != 0) { ok = false; msg = "non-NoError Status but not empty"; }
    hz::emit(tag + " status=" + std::to_string((int)st), "", "", ok, msg); return;
  }
  for (double v : g.vertProperties) if (!std::isfinite(v)) { ok = false; msg = "non-finite vertex property"; break; }
  if (m.NumTri() != nT) { ok = false; msg = "NumTri != exported triangle count"; }
  if (m.IsEmpty() != (nT == 0)) { ok = false; msg = "IsEmpty inconsistent with export"; }
  if (nT == 0) { if (m.NumVert() != 0 || nV != 0) { ok = false; msg = "empty mesh with vertices"; } hz::emit(tag + " empty", "", "", ok, msg); return; }
  std::ostringstream rq; rq << "mesh checkmerge " << nV << " " << nT;
  for (auto v : g.triVerts) rq << " " << v;
  rq << " " << g.mergeFromVert.size(); for (auto v : g.mergeFromVert) rq << " " << v; for (auto v : g.mergeToVert) rq << " " << v;
  std::ostringstream ex; ex << "ok genus " << m.Genus() << " edges " << m.NumEdge() << " verts " << m.NumVert();
  hz::emit(tag + " nT=" + std::to_string(nT), rq.str(), ex.str(), ok, msg);
}

int main(int argc, char** argv) {
  uint64_t seed = hz::envSeed();
  int P = argc > 1 ? atoi(argv[1]) : 40, L = argc > 2 ? atoi(argv[2]) : 25;
  if (argc > 3) {  // replay: one step per line
    std::ifstream f(argv[3]); std::string line; std::vector<Manifold> pool; int i = 0;
    while (std::getline(f, line)) { ap::Step s; if (!ap::parse(line, s)) continue; size_t before = pool.size(); ap::exec(s, pool);
      printf("STEP %d made %zu\n", i, pool.size() - before);
      for (size_t k = before; k < pool.size(); k++) checkObject(pool[k], "r" + std::to_string(i) + "." + std::to_string(k) + " " + s.op); i++; }
    return 0;
  }
  for (int p = 0; p < P; p++) {
    // one child process per program: a crash of the real library loses only that program
    fflush(stdout);
    pid_t pid = fork();
    if (pid != 0) { int st = 0; waitpid(pid, &st, 0); if (!(WIFEXITED(st) && WEXITSTATUS(st) == 0)) printf("CRASH %d %d\n", p, WIFSIGNALED(st) ? WTERMSIG(st) : -WEXITSTATUS(st)); continue; }
    alarm(300);   // a program normally takes well under a second: a loop that never terminates is reported as a crash (signal 14) with its program
    hz::Rng r(seed * 1000 + p);
    ap::Gen gen(r, p % 3 != 2);   // two thirds of the programs live on the integer lattice
    std::vector<Manifold> pool; std::vector<std::string> text;
    for (int i = 0; i < L; i++) {
      gen.nobj = (int)pool.size();
      ap::Step s = gen.next(); text.push_back(ap::show(s));
      size_t before = pool.size();
      printf("PROG %d.%d %s\n", p, i, text.back().c_str()); fflush(stdout);
      ap::exec(s, pool);
      for (size_t k = before; k < pool.size(); k++) {
        checkObject(pool[k], "p" + std::to_string(p) + "." + std::to_string(i) + " " + s.op);
        gCase++;
      }
    }
    fflush(stdout); _exit(0);
  }
  return 0;
}
