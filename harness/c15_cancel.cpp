// C15 fault enumeration: cancel injected at the k-th IsCancelled check, for every k.
//
// usage: c15_cancel [--list] [--program NAME] [--k K] [--maxk M]
//   default: every program; per program one uncancelled run (N = number of checks on the tracked
//   context, export hash of every step result, progress stream), then for every selected k in 1..N a
//   rebuild of the same expression from the same (already evaluated) operands with a fresh context and
//   Cancel() issued from the onCancelCheck hook at the k-th check (the hook runs BEFORE the flag is read,
//   so the k-th check itself observes the cancel).
//
// A program is a sequence of steps; a step is ONE eager, context-observed API call
// (Status of a deferred tree, Refine*, Hull, Minkowski*, ctx.FromMeshGL, ctx.Smooth, ctx.LevelSet).
// Oracle per run (PROP line):
//   * every step result is bit-identical (status + every MeshGL64 field, original IDs renamed by first
//     occurrence) to the uncancelled run's, or IsEmpty && Status()==Cancelled ; cancelled results form a
//     suffix of the step list (a cancelled context short-circuits every later evaluation through it);
//   * a cancelled result stays Cancelled: Status() again, Status() through the same ctx again, and the
//     deferred expression object it was evaluated from (it shares the poisoned cache_; test
//     Context.ExecutionContextCancelPermanent);
//   * a new expression evaluated through the cancelled ctx is Cancelled, ctx.FromMeshGL too;
//   * exposed sub-expression handles are Cancelled+empty or a complete solid (status NoError, volume,
//     area, genus of the reference) - no partially built mesh behind any handle;
//   * operands re-hashed: unchanged;
//   * the expression rebuilt from the same operands with a FRESH context gives the uncancelled hashes;
//   * Progress() returned exactly done/total (or 1.0 when total==0) at every check.
// REQ line: the raw counter stream (donePhases totalPhases doneBooleans totalBooleans at every check,
// consecutive duplicates dropped) per step, for the Lean monitor (MV.Progress.progressMonitor); EXP ok.
#include <chrono>
#include <cmath>
#include <cstring>
#include <functional>
#include <map>
#include <memory>
#include <sstream>

#include "common.h"
#include "execution_impl.h"
#include "manifold/manifold.h"
#if defined(MANIFOLD_VTBB)
#include "tbb/vtbb_core.h"
#endif

using namespace manifold;

// ------------------------------------------------------------------ hashing
struct Fnv {
  uint64_t h = 1469598103934665603ull;
  void bytes(const void* p, size_t n) {
    const unsigned char* c = (const unsigned char*)p;
    for (size_t i = 0; i < n; i++) { h ^= c[i]; h *= 1099511628211ull; }
  }
  template <typename T> void val(T v) { bytes(&v, sizeof(T)); }
  template <typename T> void vec(const std::vector<T>& v) { val<uint64_t>(v.size()); if (!v.empty()) bytes(v.data(), v.size() * sizeof(T)); }
};
static uint64_t hashMesh(const MeshGL64& m, int status) {
  Fnv f;
  f.val<int>(status);
  f.val<uint64_t>(m.numProp);
  f.vec(m.vertProperties); f.vec(m.triVerts); f.vec(m.mergeFromVert); f.vec(m.mergeToVert); f.vec(m.runIndex);
  // original IDs come from a process-global counter: rename by first occurrence
  std::map<uint32_t, uint32_t> ren; std::vector<uint32_t> ids;
  for (uint32_t id : m.runOriginalID) { auto it = ren.find(id); if (it == ren.end()) it = ren.emplace(id, (uint32_t)ren.size()).first; ids.push_back(it->second); }
  f.vec(ids);
  f.vec(m.runTransform); f.vec(m.runFlags); f.vec(m.faceID); f.vec(m.halfedgeTangent);
  f.val<double>(m.tolerance);
  return f.h;
}
static uint64_t hashManifold(const Manifold& m) { return hashMesh(m.GetMeshGL64(), (int)m.Status()); }

// ------------------------------------------------------------------ injection + recording
struct Obs { long dP, tP, dB, tB; bool operator==(const Obs& o) const { return dP == o.dP && tP == o.tP && dB == o.dB && tB == o.tB; } };
struct Segment { std::string mode; std::vector<Obs> obs; bool cancelled = false; Obs end{0, 0, 0, 0}; };
struct Recorder {
  ExecutionContext* ctx = nullptr;
  long count = 0, target = -1;
  bool recording = false, progressApiOk = true;
  std::vector<Segment> segs;
  static Obs read(ExecutionContext& c) {
    auto* i = c.impl_.get();
    return Obs{i->donePhases.load(), i->totalPhases.load(), i->doneBooleans.load(), i->totalBooleans.load()};
  }
  void check(void* impl) {
    if (!ctx || impl != (void*)ctx->impl_.get()) return;
    if (!recording) return;
    ++count;
    Obs o = read(*ctx);
    const double p = ctx->Progress();
    const double want = o.tP == 0 ? 1.0 : double(o.dP) / double(o.tP);
    if (std::memcmp(&p, &want, sizeof p) != 0) progressApiOk = false;
    if (!segs.empty()) { auto& v = segs.back().obs; if (v.empty() || !(v.back() == o)) v.push_back(o); }
    if (count == target) ctx->Cancel();
  }
  void begin(const std::string& mode) { segs.push_back(Segment{mode, {}, false, {0, 0, 0, 0}}); }
  // counters are read BEFORE the result is inspected: Status() on a result that still carries the ctx
  // is itself an evaluation through it (it resets the counters to 0/0)
  void end(const Manifold& r) {
    segs.back().end = read(*ctx);
    const bool was = recording; recording = false;
    segs.back().cancelled = r.Status() == Manifold::Error::Cancelled;
    recording = was;
  }
  std::string req() const {
    std::ostringstream o; o << "progress";
    bool first = true;
    for (auto& s : segs) {
      if (!first) o << " ;"; first = false;
      o << " seg " << s.mode;
      for (auto& b : s.obs) o << " o " << b.dP << " " << b.tP << " " << b.dB << " " << b.tB;
      o << " end " << (s.cancelled ? "c" : "u") << " " << s.end.dP << " " << s.end.tP << " " << s.end.dB << " " << s.end.tB;
    }
    return o.str();
  }
};
static Recorder* gRec = nullptr;

// ------------------------------------------------------------------ programs
struct Shape { double vol, area; int genus; };
struct RunOut { std::vector<Manifold> results; std::vector<Manifold> exprs; std::vector<char> pureStatus; std::vector<Manifold> inter;
  std::vector<Manifold> pre;  // handles whose expression was COMPLETELY evaluated (without ctx) before the observed step: their value is fixed
};
struct Program {
  std::string name, kind;
  std::vector<Manifold> ops;  // evaluated operands
  std::vector<std::shared_ptr<MeshGL64>> meshes;
  std::vector<std::shared_ptr<MeshGL>> meshes32;
  std::string shape;    // the expression of step 0 as a term of the Lean model (MV.Progress.Csg); empty = no model run
  double budget = 1.0;  // fraction of the per-program k budget (expensive programs)
  std::function<RunOut(const Program&, ExecutionContext&, Recorder&)> run;
  uint64_t operandHash() const {
    Fnv f;
    for (auto& m : ops) f.val(hashManifold(m));
    for (auto& m : meshes) f.val(hashMesh(*m, 0));
    for (auto& m : meshes32) { f.vec(m->vertProperties); f.vec(m->triVerts); f.vec(m->mergeFromVert); f.vec(m->mergeToVert); f.vec(m->runIndex); f.vec(m->runOriginalID); f.vec(m->faceID); f.vec(m->halfedgeTangent); }
    return f.h;
  }
};

// one step: Status() of a deferred expression observed through ctx
static void stepStatus(RunOut& o, ExecutionContext& ctx, Recorder& rec, const Manifold& expr) {
  rec.begin("tree");
  Manifold r = expr.WithContext(ctx);
  r.Status();
  rec.end(r);
  o.results.push_back(r); o.exprs.push_back(expr); o.pureStatus.push_back(1);
}
template <typename F> static void stepEager(RunOut& o, Recorder& rec, const std::string& mode, const Manifold& expr, F f) {
  rec.begin(mode);
  Manifold r = f();
  rec.end(r);
  o.results.push_back(r); o.exprs.push_back(expr); o.pureStatus.push_back(0);
}

static std::vector<Program> makePrograms(uint64_t seed) {
  hz::Rng R(seed);
  auto jit = [&R]() { return (double)R.range(-200, 200) / 1000.0; };  // +-0.2
  auto sph = [&](double r, int seg, vec3 at) { Manifold m = Manifold::Sphere(r, seg).Translate(at); m.Status(); return m; };
  auto cube = [&](vec3 sz, vec3 at) { Manifold m = Manifold::Cube(sz, true).Translate(at); m.Status(); return m; };
  auto tet = [&](double s, vec3 at) { Manifold m = Manifold::Tetrahedron().Scale(vec3(s)).Rotate(10, 20, 30).Translate(at); m.Status(); return m; };
  std::vector<Program> P;
  auto add = [&P](Program p) { P.push_back(std::move(p)); };
  const int seg = 8 + 4 * R.range(0, 2);

  {  // (a + b) + c, overlapping
    Program p; p.name = "tree_add3"; p.shape = "N add 1 - 2 N add 1 - 2 L L L"; p.kind = "tree";
    p.ops = {cube(vec3(1.0), vec3(0.0)), sph(0.7, seg, vec3(0.5 + jit(), 0.1, 0)), cube(vec3(0.8), vec3(-0.4, 0.3 + jit(), 0.2))};
    p.run = [](const Program& q, ExecutionContext& c, Recorder& r) { RunOut o; stepStatus(o, c, r, (q.ops[0] + q.ops[1]) + q.ops[2]); return o; };
    add(p);
  }
  {  // (a + b) - c with the intermediate handle kept alive (prevents collapsing)
    Program p; p.name = "tree_sub"; p.shape = "N sub 1 - 2 N add 0 - 2 L L L"; p.kind = "tree";
    p.ops = {cube(vec3(1.0), vec3(0.0)), cube(vec3(1.0), vec3(0.5 + jit(), 0.5, 0.25)), sph(0.6, seg, vec3(0.2, 0.2 + jit(), 0.4))};
    p.run = [](const Program& q, ExecutionContext& c, Recorder& r) {
      RunOut o; Manifold ab = q.ops[0] + q.ops[1]; o.inter.push_back(ab); stepStatus(o, c, r, ab - q.ops[2]); return o; };
    add(p);
  }
  {  // (a ^ b) ^ c
    Program p; p.name = "tree_int3"; p.shape = "N int 1 - 2 N int 1 - 2 L L L"; p.kind = "tree";
    p.ops = {sph(1.0, seg, vec3(0.0)), cube(vec3(1.2), vec3(0.3 + jit(), 0, 0)), sph(0.9, seg, vec3(0.1, 0.3 + jit(), 0.1))};
    p.run = [](const Program& q, ExecutionContext& c, Recorder& r) { RunOut o; stepStatus(o, c, r, (q.ops[0] ^ q.ops[1]) ^ q.ops[2]); return o; };
    add(p);
  }
  {  // a - (b + (c + d)) - e : negative collapsing
    Program p; p.name = "tree_subchain"; p.shape = "N sub 1 - 2 N sub 1 - 2 L N add 1 - 2 L N add 1 - 2 L L L"; p.kind = "tree";
    p.ops = {cube(vec3(2.0), vec3(0.0)), sph(0.5, seg, vec3(0.9, 0.0, 0.0)), sph(0.5, seg, vec3(-0.9, 0.1 + jit(), 0)), cube(vec3(0.6), vec3(0.0, 0.9, 0.0)), tet(0.8, vec3(0.0, 0.0, 0.7))};
    p.run = [](const Program& q, ExecutionContext& c, Recorder& r) {
      RunOut o; stepStatus(o, c, r, (q.ops[0] - (q.ops[1] + (q.ops[2] + q.ops[3]))) - q.ops[4]); return o; };
    add(p);
  }
  {  // BatchBoolean Add, 6 overlapping spheres
    Program p; p.name = "batch_add6"; p.shape = "N add 1 - 6 L L L L L L"; p.kind = "batch";
    for (int i = 0; i < 6; i++) p.ops.push_back(sph(0.6 + 0.05 * i, seg, vec3(0.45 * i + jit() * 0.3, 0.1 * (i % 2), 0)));
    p.run = [](const Program& q, ExecutionContext& c, Recorder& r) { RunOut o; stepStatus(o, c, r, Manifold::BatchBoolean(q.ops, OpType::Add)); return o; };
    add(p);
  }
  {  // BatchBoolean Add with disjoint operands (Compose credit path) plus overlapping ones
    Program p; p.name = "batch_compose"; p.shape = "N add 1 - 7 L L L L L L L"; p.kind = "batch";
    for (int i = 0; i < 5; i++) p.ops.push_back(cube(vec3(0.8), vec3(2.0 * i, 0.0, 0.0)));
    p.ops.push_back(sph(0.7, seg, vec3(1.0 + jit(), 0, 0)));
    p.ops.push_back(cube(vec3(0.5), vec3(5.0, 0.3, 0.1)));
    p.run = [](const Program& q, ExecutionContext& c, Recorder& r) { RunOut o; stepStatus(o, c, r, Manifold::BatchBoolean(q.ops, OpType::Add)); return o; };
    add(p);
  }
  {  // BatchBoolean Intersect of 4
    Program p; p.name = "batch_int4"; p.shape = "N int 1 - 4 L L L L"; p.kind = "batch";
    p.ops = {sph(1.0, seg, vec3(0.0)), cube(vec3(1.5), vec3(0.2, 0.0, 0.0)), sph(1.1, seg, vec3(0, 0.3 + jit(), 0)), cube(vec3(1.4), vec3(0.0, 0.0, 0.25))};
    p.run = [](const Program& q, ExecutionContext& c, Recorder& r) { RunOut o; stepStatus(o, c, r, Manifold::BatchBoolean(q.ops, OpType::Intersect)); return o; };
    add(p);
  }
  {  // BatchBoolean Subtract: head minus 3
    Program p; p.name = "batch_sub4"; p.shape = "N sub 1 - 4 L L L L"; p.kind = "batch";
    p.ops = {cube(vec3(2.0), vec3(0.0)), sph(0.6, seg, vec3(1.0, 0.0, 0.0)), sph(0.6, seg, vec3(-1, jit(), 0)), cube(vec3(0.7), vec3(0.0, 1.0, 0.2))};
    p.run = [](const Program& q, ExecutionContext& c, Recorder& r) { RunOut o; stepStatus(o, c, r, Manifold::BatchBoolean(q.ops, OpType::Subtract)); return o; };
    add(p);
  }
  {  // DAG: s = (a+b)-c ; root = s + s.Translate().Rotate()   (DESIGN.md section 7, defect 2)
    Program p; p.name = "dag_shared_xf"; p.shape = "N add 1 - 2 N sub 0 0 2 N add 1 - 2 L L L N sub 0 0 2 N add 1 - 2 L L L"; p.kind = "dag";
    p.ops = {cube(vec3(1.0), vec3(0.0)), cube(vec3(1.0), vec3(0.5, 0.5, 0.25)), sph(0.5, seg, vec3(0.2 + jit(), 0.2, 0.5))};
    p.run = [](const Program& q, ExecutionContext& c, Recorder& r) {
      RunOut o; Manifold s = (q.ops[0] + q.ops[1]) - q.ops[2]; o.inter.push_back(s);
      stepStatus(o, c, r, s + s.Translate(vec3(0.7, 0.1, 0.2)).Rotate(0, 0, 30)); return o; };
    add(p);
  }
  {  // DAG: the same op node in two parents: x = s + d ; y = s ^ e ; root = x - y
    Program p; p.name = "dag_two_parents"; p.shape = "N sub 1 - 2 N add 0 - 2 N add 0 0 2 L L L N int 0 - 2 N add 0 0 2 L L L"; p.kind = "dag";
    p.ops = {cube(vec3(1.0), vec3(0.0)), sph(0.6, seg, vec3(0.5, 0.0, 0.0)), cube(vec3(0.8), vec3(-0.6, 0.2 + jit(), 0)), sph(0.7, seg, vec3(0.2, 0.2, 0.1))};
    p.run = [](const Program& q, ExecutionContext& c, Recorder& r) {
      RunOut o; Manifold s = q.ops[0] + q.ops[1]; Manifold x = s + q.ops[2]; Manifold y = s ^ q.ops[3];
      o.inter = {s, x, y}; stepStatus(o, c, r, x - y); return o; };
    add(p);
  }
  {  // DAG: a sub-expression used three times under different transforms inside a BatchBoolean
    Program p; p.name = "dag_batch3"; p.shape = "N add 1 - 3 N add 0 0 2 N sub 1 - 2 L L L N add 0 0 2 N sub 1 - 2 L L L N add 0 0 2 N sub 1 - 2 L L L"; p.kind = "dag";
    p.ops = {cube(vec3(1.0), vec3(0.0)), sph(0.55, seg, vec3(0.5, 0.5 + jit(), 0.5)), tet(0.7, vec3(0.1, -0.2, 0.2))};
    p.run = [](const Program& q, ExecutionContext& c, Recorder& r) {
      RunOut o; Manifold s = (q.ops[0] - q.ops[1]) + q.ops[2]; o.inter.push_back(s);
      stepStatus(o, c, r, Manifold::BatchBoolean({s, s.Translate(vec3(0.8, 0.0, 0.0)), s.Rotate(0, 90, 0).Translate(vec3(0.0, 0.9, 0.0))}, OpType::Add)); return o; };
    add(p);
  }
  {  // a shared sub-expression ALREADY EVALUATED through another expression (its op node carries a valid cache_ and is still
     // referenced by the lazy handle s) is an operand of the observed evaluation: a cancel must not touch its value
    Program p; p.name = "dag_preeval_shared"; p.kind = "dag";
    p.ops = {cube(vec3(1.0), vec3(0.0)), sph(0.6, seg, vec3(0.5, 0.1 + jit(), 0.0)), cube(vec3(0.8), vec3(-0.5, 0.2, 0.1)), sph(0.7, seg, vec3(0.1, 0.3 + jit(), 0.2))};
    p.run = [](const Program& q, ExecutionContext& c, Recorder& r) {
      RunOut o; Manifold s = q.ops[0] + q.ops[1]; Manifold r1 = s - q.ops[2]; r1.Status();
      o.pre = {s, r1}; stepStatus(o, c, r, s + q.ops[3]); return o; };
    add(p);
  }
  {  // the same through a copy: t = s shares the op node, s is forced (its handle now holds the leaf, t still the cached op node)
    Program p; p.name = "dag_preeval_copy"; p.kind = "dag";
    p.ops = {cube(vec3(1.0), vec3(0.0)), cube(vec3(1.0), vec3(0.4 + jit(), 0.5, 0.25)), sph(0.6, seg, vec3(0.2, 0.2 + jit(), 0.4)), tet(0.9, vec3(0.1, 0.0, 0.3))};
    p.run = [](const Program& q, ExecutionContext& c, Recorder& r) {
      RunOut o; Manifold s = (q.ops[0] - q.ops[1]) + q.ops[2]; Manifold t = s; s.Status();
      o.pre = {t, s}; stepStatus(o, c, r, (t ^ q.ops[3]) + t.Translate(vec3(0.9, 0.1, 0.0))); return o; };
    add(p);
  }
  {  // pre-evaluated shared node below a batch and below a kept-alive intermediate
    Program p; p.name = "dag_preeval_batch"; p.kind = "dag";
    p.ops = {sph(0.8, seg, vec3(0.0)), cube(vec3(1.0), vec3(0.5 + jit(), 0.0, 0.0)), cube(vec3(0.7), vec3(0.0, 0.6, 0.1)), sph(0.5, seg, vec3(-0.5, 0.1, 0.2 + jit()))};
    p.run = [](const Program& q, ExecutionContext& c, Recorder& r) {
      RunOut o; Manifold s = q.ops[0] ^ q.ops[1]; Manifold u = s + q.ops[2]; u.Status(); Manifold w = s - q.ops[3];
      o.pre = {s, u}; o.inter = {w}; stepStatus(o, c, r, Manifold::BatchBoolean({w, s, q.ops[2]}, OpType::Add)); return o; };
    add(p);
  }
  {  // nested mixed ops, some handles alive
    Program p; p.name = "tree_mixed7"; p.shape = "N sub 1 - 2 N add 1 - 2 N add 1 - 2 L L N add 1 - 2 L L N add 0 - 2 N int 1 - 2 L L L"; p.kind = "tree";
    p.ops = {cube(vec3(1.0), vec3(0.0)), sph(0.6, seg, vec3(0.6, 0.0, 0.0)), cube(vec3(0.9), vec3(0.0, 0.6, 0.0)), sph(0.5, seg, vec3(0, 0, 0.6 + jit())),
             cube(vec3(1.2), vec3(0.3, 0.3, 0.3)), sph(0.9, seg, vec3(0.3, 0.2, 0.4)), tet(0.9, vec3(0.2 + jit(), 0, 0))};
    p.run = [](const Program& q, ExecutionContext& c, Recorder& r) {
      RunOut o; Manifold l = (q.ops[0] + q.ops[1]) + (q.ops[2] + q.ops[3]); Manifold rr = (q.ops[4] ^ q.ops[5]) + q.ops[6];
      o.inter = {rr}; stepStatus(o, c, r, l - rr); return o; };
    add(p);
  }
  {  // Refine(n) of a deferred tree: tree evaluation then the refine pass, one reset
    Program p; p.name = "refine_n"; p.shape = "N add 1 - 2 L L"; p.kind = "refine";
    p.ops = {cube(vec3(1.0), vec3(0.0)), cube(vec3(1.0), vec3(0.4 + jit(), 0.3, 0.2))};
    p.run = [](const Program& q, ExecutionContext& c, Recorder& r) {
      RunOut o; Manifold e = q.ops[0] + q.ops[1]; stepEager(o, r, "tree", e, [&] { return e.WithContext(c).Refine(3); }); return o; };
    add(p);
  }
  {  // RefineToLength on a leaf (enough vertices to pass the 1024-element sequential chunk check)
    Program p; p.name = "refine_len"; p.kind = "refine";
    p.ops = {sph(1.0, 24, vec3(jit(), 0, 0))};
    p.run = [](const Program& q, ExecutionContext& c, Recorder& r) {
      RunOut o; stepEager(o, r, "tree", q.ops[0], [&] { return q.ops[0].WithContext(c).RefineToLength(0.09); }); return o; };
    add(p);
  }
  {  // RefineToTolerance on a smoothed solid (tangents present)
    Program p; p.name = "refine_tol"; p.kind = "refine";
    Manifold sm = Manifold::Smooth(Manifold::Cube(vec3(1 + 0.1 * R.range(0, 3)), true).GetMeshGL64()); sm.Status();
    p.ops = {sm};
    p.run = [](const Program& q, ExecutionContext& c, Recorder& r) {
      RunOut o; stepEager(o, r, "tree", q.ops[0], [&] { return q.ops[0].WithContext(c).RefineToTolerance(0.01); }); return o; };
    add(p);
  }
  {  // Hull of a deferred union
    Program p; p.name = "hull"; p.shape = "N add 1 - 2 L L"; p.kind = "hull";
    p.ops = {sph(0.8, 16, vec3(0.0)), cube(vec3(1.0), vec3(1.0 + jit(), 0.4, 0))};
    p.run = [](const Program& q, ExecutionContext& c, Recorder& r) {
      RunOut o; Manifold e = q.ops[0] + q.ops[1]; stepEager(o, r, "tree", e, [&] { return e.WithContext(c).Hull(); }); return o; };
    add(p);
  }
  {  // Minkowski: convex + convex
    Program p; p.name = "mink_cc"; p.kind = "mink";
    p.ops = {cube(vec3(1.0), vec3(0.0)), sph(0.3, 8, vec3(jit(), 0, 0))};
    p.run = [](const Program& q, ExecutionContext& c, Recorder& r) {
      RunOut o; stepEager(o, r, "multi", q.ops[0], [&] { return q.ops[0].WithContext(c).MinkowskiSum(q.ops[1]); }); return o; };
    add(p);
  }
  {  // Minkowski: non-convex (deferred difference) + convex
    Program p; p.name = "mink_nc"; p.budget = 0.5; p.kind = "mink";
    p.ops = {cube(vec3(1.0), vec3(0.0)), cube(vec3(1.0), vec3(0.5, 0.5, 0.5 + jit() * 0.5)), tet(0.2, vec3(0.0))};
    p.run = [](const Program& q, ExecutionContext& c, Recorder& r) {
      RunOut o; Manifold l = q.ops[0] - q.ops[1]; stepEager(o, r, "multi", l, [&] { return l.WithContext(c).MinkowskiSum(q.ops[2]); }); return o; };
    add(p);
  }
  {  // Minkowski difference: non-convex - convex
    Program p; p.name = "mink_diff"; p.budget = 0.5; p.kind = "mink";
    p.ops = {cube(vec3(2.0), vec3(0.0)), cube(vec3(1.2), vec3(0.6, 0.6, 0.6 + jit() * 0.3)), cube(vec3(0.2), vec3(0.0))};
    p.run = [](const Program& q, ExecutionContext& c, Recorder& r) {
      RunOut o; Manifold l = q.ops[0] - q.ops[1]; stepEager(o, r, "multi", l, [&] { return l.WithContext(c).MinkowskiDifference(q.ops[2]); }); return o; };
    add(p);
  }
  {  // Minkowski: non-convex + non-convex (both tiny)
    Program p; p.name = "mink_nn"; p.budget = 0.1; p.kind = "mink";
    // two small non-convex solids (unions of two tetrahedra): |faces(a)| x |faces(b)| hulls
    Manifold a = tet(1.0, vec3(0.0)) + tet(1.0, vec3(0.6, 0.1, 0.0)); a.Status();
    Manifold b = tet(0.3, vec3(0.0)) + tet(0.3, vec3(0.0, 0.2 + 0.01 * R.range(0, 3), 0.05)); b.Status();
    p.ops = {a, b};
    p.run = [](const Program& q, ExecutionContext& c, Recorder& r) {
      RunOut o; stepEager(o, r, "multi", q.ops[0], [&] { return q.ops[0].WithContext(c).MinkowskiSum(q.ops[1]); }); return o; };
    add(p);
  }
  {  // ExecutionContext::FromMeshGL (64-bit) of a Boolean result with extra properties
    Program p; p.name = "from_mesh64"; p.kind = "fromMesh";
    Manifold src = (Manifold::Sphere(1.0, 20 + 4 * R.range(0, 2)) - Manifold::Cube(vec3(1.0), true).Translate(vec3(0.6, 0.2, 0.0))).CalculateNormals(0);
    src.Status(); p.ops = {src};
    p.meshes = {std::make_shared<MeshGL64>(src.GetMeshGL64())};
    p.run = [](const Program& q, ExecutionContext& c, Recorder& r) {
      RunOut o; stepEager(o, r, "fromMesh", Manifold(), [&] { return c.FromMeshGL(*q.meshes[0]); }); return o; };
    add(p);
  }
  {  // ExecutionContext::FromMeshGL (32-bit)
    Program p; p.name = "from_mesh32"; p.kind = "fromMesh";
    Manifold src = Manifold::Sphere(1.0, 16) + Manifold::Cube(vec3(1.5), true).Translate(vec3(0.3 + jit(), 0, 0)); src.Status();
    p.ops = {src};
    p.meshes32 = {std::make_shared<MeshGL>(src.GetMeshGL())};
    p.run = [](const Program& q, ExecutionContext& c, Recorder& r) {
      RunOut o; stepEager(o, r, "fromMesh", Manifold(), [&] { return c.FromMeshGL(*q.meshes32[0]); }); return o; };
    add(p);
  }
  {  // ExecutionContext::Smooth with sharpened edges
    Program p; p.name = "smooth"; p.kind = "smooth";
    Manifold src = Manifold::Sphere(1.0, 12 + 4 * R.range(0, 2)).Scale(vec3(1.0, 0.8, 1.2)); src.Status();
    p.ops = {src};
    p.meshes = {std::make_shared<MeshGL64>(src.GetMeshGL64())};
    const size_t he = R.below(p.meshes[0]->NumTri() * 3);
    p.run = [he](const Program& q, ExecutionContext& c, Recorder& r) {
      RunOut o; stepEager(o, r, "smooth", Manifold(), [&] { return c.Smooth(*q.meshes[0], {{he, 0.0}, {(he + 7) % (q.meshes[0]->NumTri() * 3), 0.5}}); }); return o; };
    add(p);
  }
  {  // ExecutionContext::LevelSet
    Program p; p.name = "levelset"; p.kind = "levelSet";
    const double rad = 0.9 + 0.02 * R.range(0, 5);
    p.run = [rad](const Program&, ExecutionContext& c, Recorder& r) {
      RunOut o;
      stepEager(o, r, "levelSet", Manifold(), [&] {
        return c.LevelSet([rad](vec3 q) { return rad - la::length(q) + 0.15 * std::sin(4 * q.x) * std::sin(4 * q.y); }, Box(vec3(-1.3), vec3(1.3)), 0.16); });
      return o; };
    add(p);
  }
  {  // one context reused for several evaluations: Status, FromMeshGL, Status of a DAG, Hull
    Program p; p.name = "ctx_reuse"; p.kind = "reuse";
    p.ops = {cube(vec3(1.0), vec3(0.0)), sph(0.6, seg, vec3(0.5 + jit(), 0, 0)), cube(vec3(0.7), vec3(0.0, 0.5, 0.1))};
    Manifold src = Manifold::Cube(vec3(1.0), true) - Manifold::Sphere(0.6, 12); src.Status();
    p.meshes = {std::make_shared<MeshGL64>(src.GetMeshGL64())};
    p.run = [](const Program& q, ExecutionContext& c, Recorder& r) {
      RunOut o;
      stepStatus(o, c, r, q.ops[0] - q.ops[1]);
      stepEager(o, r, "fromMesh", Manifold(), [&] { return c.FromMeshGL(*q.meshes[0]); });
      Manifold s = q.ops[0] + q.ops[2];
      stepStatus(o, c, r, s ^ s.Translate(vec3(0.2, 0.0, 0.0)));
      Manifold e = q.ops[1] + q.ops[2];
      stepEager(o, r, "tree", e, [&] { return e.WithContext(c).Hull(); });
      return o; };
    add(p);
  }
  if (hz::thorough()) {
    // operands above the 1e4 element thresholds of autoPolicy: under virtual TBB the ctx-aware for_each runs its
    // parallel branch (one IsCancelled per chunk, chunks in a seeded legal order)
    {
      Program p; p.name = "big_add"; p.kind = "tree"; p.budget = 0.1; p.shape = "N add 1 - 2 L L";
      p.ops = {sph(1.0, 160, vec3(0.0)), sph(1.0, 160, vec3(0.7 + jit(), 0.1, 0.0))};
      p.run = [](const Program& q, ExecutionContext& c, Recorder& r) { RunOut o; stepStatus(o, c, r, q.ops[0] + q.ops[1]); return o; };
      add(p);
    }
    {
      Program p; p.name = "big_refine"; p.kind = "refine"; p.budget = 0.1;
      p.ops = {sph(1.0, 64, vec3(jit(), 0.0, 0.0))};
      p.run = [](const Program& q, ExecutionContext& c, Recorder& r) {
        RunOut o; stepEager(o, r, "tree", q.ops[0], [&] { return q.ops[0].WithContext(c).Refine(4); }); return o; };
      add(p);
    }
    {
      Program p; p.name = "big_from_mesh"; p.kind = "fromMesh"; p.budget = 0.1;
      Manifold src = Manifold::Sphere(1.0, 160).Scale(vec3(1.0, 0.9, 1.1)); src.Status();
      p.ops = {src};
      p.meshes = {std::make_shared<MeshGL64>(src.GetMeshGL64())};
      p.run = [](const Program& q, ExecutionContext& c, Recorder& r) {
        RunOut o; stepEager(o, r, "fromMesh", Manifold(), [&] { return c.FromMeshGL(*q.meshes[0]); }); return o; };
      add(p);
    }
    {
      Program p; p.name = "big_levelset"; p.kind = "levelSet"; p.budget = 0.1;
      p.run = [](const Program&, ExecutionContext& c, Recorder& r) {
        RunOut o;
        stepEager(o, r, "levelSet", Manifold(), [&] {
          return c.LevelSet([](vec3 q) { return 1.0 - la::length(q) + 0.1 * std::sin(5 * q.z); }, Box(vec3(-1.3), vec3(1.3)), 0.06); });
        return o; };
      add(p);
    }
    {
      Program p; p.name = "big_hull"; p.kind = "hull"; p.budget = 0.1;
      p.ops = {sph(1.0, 160, vec3(0.0))};
      p.run = [](const Program& q, ExecutionContext& c, Recorder& r) {
        RunOut o; stepEager(o, r, "tree", q.ops[0], [&] { return q.ops[0].WithContext(c).Hull(); }); return o; };
      add(p);
    }
  }
  return P;
}

// ------------------------------------------------------------------ driver
struct Ref { std::vector<uint64_t> hashes; std::vector<Shape> inter, pre; std::vector<size_t> preTri; long N = 0; };

static RunOut runOnce(const Program& p, ExecutionContext& ctx, Recorder& rec, long target) {
#if defined(MANIFOLD_VTBB)
  tbb::vt::seed(hz::envSeed() * 7919 + 13);  // the same virtual schedule for every run of a program
#endif
  rec = Recorder(); rec.ctx = &ctx; rec.target = target; rec.recording = true;
  gRec = &rec;
  RunOut o = p.run(p, ctx, rec);
  rec.recording = false;
  gRec = nullptr;
  return o;
}

static bool near(double a, double b) { return std::fabs(a - b) <= 1e-9 * (1 + std::fabs(a) + std::fabs(b)); }

int main(int argc, char** argv) {
  std::string only; long onlyK = -1, maxK = hz::thorough() ? 1500 : 400; bool list = false;
  for (int i = 1; i < argc; i++) {
    std::string a = argv[i];
    if (a == "--list") list = true;
    else if (a == "--program" && i + 1 < argc) only = argv[++i];
    else if (a == "--k" && i + 1 < argc) onlyK = atol(argv[++i]);
    else if (a == "--maxk" && i + 1 < argc) maxK = atol(argv[++i]);
  }
  manifold::verif::hooks().onCancelCheck = [](void* impl) { if (gRec) gRec->check(impl); };
  auto progs = makePrograms(hz::envSeed());
  if (list) { for (auto& p : progs) printf("%s %s\n", p.name.c_str(), p.kind.c_str()); return 0; }
  long totalRuns = 0, totalCancelled = 0, totalComplete = 0;
  for (auto& p : progs) {
    if (!only.empty() && p.name != only) continue;
    const uint64_t opHash0 = p.operandHash();
    const auto t0 = std::chrono::steady_clock::now();
    // ---- reference: uncancelled run
    Ref ref; Recorder rec;
    {
      ExecutionContext ctx;
      RunOut o = runOnce(p, ctx, rec, -1);
      ref.N = rec.count;
      for (auto& m : o.results) ref.hashes.push_back(hashManifold(m));
      bool anyCancelled = false; for (auto& s : rec.segs) anyCancelled |= s.cancelled;
      // intermediates of the reference, evaluated after the root (no ctx)
      for (auto& m : o.inter) { ref.inter.push_back(Shape{m.Volume(), m.SurfaceArea(), m.Genus()}); }
      for (auto& m : o.pre) { ref.pre.push_back(Shape{m.Volume(), m.SurfaceArea(), m.Genus()}); ref.preTri.push_back(m.NumTri()); }
      bool ok = !anyCancelled && rec.progressApiOk && p.operandHash() == opHash0;
      bool nonEmpty = false; for (auto& m : o.results) nonEmpty |= !m.IsEmpty() && m.Status() == Manifold::Error::NoError;
      std::string msg = anyCancelled ? "uncancelled-run-reported-Cancelled" : !rec.progressApiOk ? "Progress()-differs-from-done/total" : "operands-changed";
      // determinism of the reference itself: a second uncancelled run must give the same hashes and N
      ExecutionContext ctx2; Recorder rec2; RunOut o2 = runOnce(p, ctx2, rec2, -1);
      bool same = rec2.count == ref.N && o2.results.size() == o.results.size();
      for (size_t i = 0; same && i < o2.results.size(); i++) same = hashManifold(o2.results[i]) == ref.hashes[i];
      if (ok && !same) { ok = false; msg = "uncancelled-run-not-reproducible"; }
      hz::emit(p.name + ".ref " + p.kind + " N=" + std::to_string(ref.N) + " steps=" + std::to_string(o.results.size()) + (nonEmpty ? " nontrivial" : " trivial"),
               rec.req(), "ok", ok, ok ? "" : msg);
    }
    if (!p.shape.empty() && onlyK < 0) {
      // the reduction-count model on the same expression: predicted final counters vs the real ones
      const Obs& e = rec.segs[0].end;
      hz::emit(p.name + ".csg " + p.kind + "-model", "progress csg " + p.shape,
               std::to_string(e.dP) + " " + std::to_string(e.tP) + " " + std::to_string(e.dB) + " " + std::to_string(e.tB), true);
    }
    // ---- choose k
    const long progMaxK = std::max<long>(40, (long)(maxK * p.budget));
    std::vector<long> ks;
    if (onlyK > 0) ks.push_back(onlyK);
    else if (ref.N <= progMaxK) for (long k = 1; k <= ref.N; k++) ks.push_back(k);
    else {
      const long edge = std::min<long>(50, progMaxK / 4);
      for (long k = 1; k <= edge; k++) ks.push_back(k);
      const long mid = progMaxK - 2 * edge, lo = edge + 1, hi = ref.N - edge;
      hz::Rng R(hz::envSeed() * 1315423911ull + p.name.size());
      for (long j = 0; j < mid; j++) {  // stratified: one k per stratum
        const long a = lo + (hi - lo + 1) * j / mid, b = lo + (hi - lo + 1) * (j + 1) / mid - 1;
        ks.push_back(b > a ? a + (long)R.below((size_t)(b - a + 1)) : a);
      }
      for (long k = ref.N - edge + 1; k <= ref.N; k++) ks.push_back(k);
    }
    // ---- fault enumeration
    for (long k : ks) {
      ExecutionContext ctx; Recorder rk;
      RunOut o = runOnce(p, ctx, rk, k);
      std::string fail; int nCancelled = 0;
      auto bad = [&fail](const std::string& s) { if (fail.empty()) fail = s; };
      if (o.results.size() != ref.hashes.size()) bad("step-count-differs");
      bool seenCancelled = false;
      for (size_t i = 0; i < o.results.size() && i < ref.hashes.size(); i++) {
        const Manifold& m = o.results[i];
        const bool canc = m.Status() == Manifold::Error::Cancelled;
        if (canc) {
          nCancelled++; seenCancelled = true;
          if (!m.IsEmpty() || m.NumTri() != 0 || m.NumVert() != 0) bad("cancelled-result-not-empty");
          if (m.Status() != Manifold::Error::Cancelled) bad("cancelled-result-did-not-stay-cancelled");
          if (m.WithContext(ctx).Status() != Manifold::Error::Cancelled) bad("cancelled-result-not-cancelled-through-same-ctx");
        } else {
          if (seenCancelled) bad("later-evaluation-through-cancelled-ctx-not-short-circuited");
          if (hashManifold(m) != ref.hashes[i]) bad(m.Status() == Manifold::Error::NoError ? "partial-or-different-mesh-escaped" : "unexpected-status");
        }
      }
      if (!ctx.Cancelled()) bad("countdown-did-not-fire");
      // expression objects behind cancelled Status() steps stay Cancelled (poisoned cache_)
      for (size_t i = 0; i < o.results.size() && i < rk.segs.size(); i++) {
        if (rk.segs[i].mode != "tree" || !rk.segs[i].cancelled) continue;
        auto st = o.exprs[i].Status();
        if (st == Manifold::Error::Cancelled) { if (!o.exprs[i].IsEmpty()) bad("cancelled-expression-not-empty"); }
        // "Cancellation is permanent for a Manifold": the deferred expression shares the poisoned cache_
        else if (o.pureStatus[i]) bad("cancelled-expression-not-permanently-cancelled");
        // otherwise the cancel landed after the tree evaluation (Refine/Hull pass on the evaluated leaf)
        else if (st != Manifold::Error::NoError) bad("expression-unexpected-status");
      }
      // sub-expression handles: Cancelled+empty, or a complete solid
      for (size_t i = 0; i < o.inter.size() && i < ref.inter.size(); i++) {
        const Manifold& m = o.inter[i];
        auto st = m.Status();
        if (st == Manifold::Error::Cancelled) { if (!m.IsEmpty()) bad("cancelled-subexpression-not-empty"); }
        else if (st != Manifold::Error::NoError) bad("subexpression-unexpected-status");
        else if (!near(m.Volume(), ref.inter[i].vol) || !near(m.SurfaceArea(), ref.inter[i].area) || m.Genus() != ref.inter[i].genus) bad("partial-subexpression-escaped");
      }
      // handles evaluated BEFORE the observed step keep their value whatever happens to the step (operands untouched)
      for (size_t i = 0; i < o.pre.size() && i < ref.pre.size(); i++) {
        const Manifold& m = o.pre[i];
        if (m.Status() != Manifold::Error::NoError) bad("previously-evaluated-operand-lost-its-value");
        else if (m.NumTri() != ref.preTri[i] || !near(m.Volume(), ref.pre[i].vol) || !near(m.SurfaceArea(), ref.pre[i].area) || m.Genus() != ref.pre[i].genus) bad("previously-evaluated-operand-changed");
      }
      // a cancelled context short-circuits every later evaluation through it
      if (ctx.Cancelled()) {
        Manifold t = Manifold::Cube(vec3(1.0), true) + Manifold::Sphere(0.7, 8);
        if (t.WithContext(ctx).Status() != Manifold::Error::Cancelled) bad("new-expression-through-cancelled-ctx-evaluated");
        MeshGL64 cm = Manifold::Cube().GetMeshGL64();
        if (ctx.FromMeshGL(cm).Status() != Manifold::Error::Cancelled) bad("FromMeshGL-through-cancelled-ctx-evaluated");
      }
      if (!rk.progressApiOk) bad("Progress()-differs-from-done/total");
      if (p.operandHash() != opHash0) bad("operands-changed");
      // rebuild from the same operands with a fresh context
      {
        ExecutionContext fresh; Recorder rf; RunOut of = runOnce(p, fresh, rf, -1);
        if (rf.count != ref.N) bad("fresh-rebuild-check-count-differs");
        for (size_t i = 0; i < of.results.size() && i < ref.hashes.size(); i++)
          if (hashManifold(of.results[i]) != ref.hashes[i]) bad("fresh-rebuild-differs");
      }
      gRec = nullptr;
      totalRuns++; if (nCancelled) totalCancelled++; else totalComplete++;
      hz::emit(p.name + ".k" + std::to_string(k) + " " + p.kind + " N=" + std::to_string(ref.N) + (nCancelled ? " cancelled=" + std::to_string(nCancelled) : " complete"),
               rk.req(), "ok", fail.empty(), fail);
    }
    printf("STATS prog_%s_N=%ld prog_%s_k=%zu prog_%s_ms=%ld\n", p.name.c_str(), ref.N, p.name.c_str(), ks.size(), p.name.c_str(),
           (long)std::chrono::duration_cast<std::chrono::milliseconds>(std::chrono::steady_clock::now() - t0).count());
    fflush(stdout);
  }
  printf("STATS runs=%ld cancelled=%ld complete=%ld\n", totalRuns, totalCancelled, totalComplete);
  return 0;
}
